#!/bin/bash
# tools/seed3.sh <Cxx> <slot> "<checks>" : take a round-3 agent's OUT directory, confirm it, log to /tmp/seed3_<Cxx>.log
P=$1; SLOT=$2; CHECKS=$3
D=/verif/seeded/$P-3
mkdir -p $D
cp /tmp/mut3_$P/OUT/patch.diff $D/ || exit 2
cp /tmp/mut3_$P/OUT/meta.agent.json $D/
[ -f /tmp/mut3_$P/OUT/seeded_demo.rs ] && cp /tmp/mut3_$P/OUT/seeded_demo.rs $D/
[ -f /tmp/mut3_$P/OUT/demo.diff ] && cp /tmp/mut3_$P/OUT/demo.diff $D/
cp $D/meta.agent.json $D/meta.json
# warm the slot's target dir from the agent's worktree (same dependency set)
if [ ! -d /tmp/seed_target_$SLOT ]; then mkdir -p /tmp/seed_target_$SLOT; cp -a /tmp/mut3_$P/target/debug /tmp/seed_target_$SLOT/ 2>/dev/null; fi
git -C /repo worktree remove --force /tmp/mut3_$P
SEED_SLOT=$SLOT /verif/tools/seed_confirm.sh $D $P-3 "$CHECKS" > /tmp/seed3_$P.log 2>&1
echo "done $P" >> /tmp/seed3_$P.log
