#!/usr/bin/env python3
"""tools/seed_record.py <seed-name> <property> <log file> <detected-by: text>  — writes seeded/<name>/meta.json"""
import json, os, sys
name, prop, log, detected = sys.argv[1:5]
d = os.path.join(os.path.dirname(os.path.dirname(os.path.abspath(__file__))), "seeded", name)
agent = json.load(open(os.path.join(d, "meta.agent.json")))
logtxt = open(log).read()
meta = {
    "property": prop,
    "summary": agent.get("summary"),
    "needs": agent.get("needs"),
    "files": agent.get("files"),
    "origin": "independent sub-agent given only the property text and a scratch worktree of /repo",
    "confirmed_by_me": {
        "how": "tools/seed_confirm.sh in a scratch worktree at /repo HEAD: patch applied, `cargo test --offline --lib` (31 tests), "
               "demonstration with the patch (must fail) and without it (must pass); then the checks named below run against "
               "the patched tree (scratch copy of the harness pointing at the patched worktree)",
        "log": logtxt[-3000:],
    },
    "detected": detected,
}
json.dump(meta, open(os.path.join(d, "meta.json"), "w"), indent=1)
print("wrote", d)
