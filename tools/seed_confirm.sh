#!/bin/bash
# tools/seed_confirm.sh <seed-dir> <name>
# Confirms a seeded change in a scratch worktree of /repo (HEAD): the patch applies, compiles, the
# existing suite passes with it, the demonstration fails with it and passes without it.
# Then runs the given checks against the patched scratch worktree through a scratch copy of the harness
# (so that /repo itself and builds running against it are not disturbed).
# usage: tools/seed_confirm.sh /tmp/mut_C17/OUT C17-notify-flap "C17 C13"
set -u
SRC=$1; NAME=$2; CHECKS=${3:-}
WT=/tmp/seedwt_$NAME
SLOT=${SEED_SLOT:-0}
export CARGO_TARGET_DIR=/tmp/seed_target_$SLOT
export CARGO_NET_OFFLINE=true
git -C /repo worktree remove --force $WT 2>/dev/null
git -C /repo worktree add -q --detach $WT HEAD || exit 2
cd $WT
git apply $SRC/patch.diff || git apply -3 $SRC/patch.diff || { echo "PATCH-DOES-NOT-APPLY"; exit 3; }
if [ -f $SRC/seeded_demo.rs ]; then mkdir -p tests; cp $SRC/seeded_demo* tests/; fi
DEMOKIND="--test seeded_demo"
if [ -f $SRC/demo.diff ] && [ ! -f $SRC/seeded_demo.rs ]; then git apply $SRC/demo.diff || echo "DEMO-DIFF-DOES-NOT-APPLY"; DEMOKIND="--lib seeded_demo"; fi
echo "== existing suite with patch"
cargo test --offline --lib 2>&1 | grep "test result" | head -3
DEMO_CMD=$(python3 -c "import json;print(json.load(open('$SRC/meta.json')).get('demo_cmd',''))")
echo "demo_cmd: $DEMO_CMD"
FLAGS=""
case "$DEMO_CMD" in *routinator_verif*) FLAGS="--cfg routinator_verif";; esac
echo "== demo with patch (expect failure)"
RUSTFLAGS="$FLAGS" CARGO_TARGET_DIR=/tmp/seed_target_$SLOT${FLAGS:+_verif} timeout 1800 cargo test --offline $DEMOKIND 2>&1 | grep -E "test result|panicked|FAILED|error(\[|:)" | head -8
echo "== demo without patch (expect pass)"
git apply -R $SRC/patch.diff || echo "REVERSE-FAILED"
RUSTFLAGS="$FLAGS" CARGO_TARGET_DIR=/tmp/seed_target_$SLOT${FLAGS:+_verif} timeout 1800 cargo test --offline $DEMOKIND 2>&1 | grep -E "test result|panicked|FAILED|error(\[|:)" | head -8
git apply $SRC/patch.diff
rm -f tests/seeded_demo*
if [ -f $SRC/demo.diff ] && [ ! -f $SRC/seeded_demo.rs ]; then git apply -R $SRC/demo.diff 2>/dev/null; fi
if [ -n "$CHECKS" ]; then
  # bring the scratch tree up to /repo's working tree (uncommitted hook blocks of checks being built), then the seed on top
  git apply -R $SRC/patch.diff
  git -C /repo diff > /tmp/seed_wip_$NAME.patch
  [ -s /tmp/seed_wip_$NAME.patch ] && (git apply /tmp/seed_wip_$NAME.patch || echo "WIP-OVERLAY-FAILED")
  git apply $SRC/patch.diff || echo "PATCH-DOES-NOT-APPLY-ON-WORKING-TREE"
  HX=/tmp/seedhx_$SLOT
  mkdir -p $HX
  rsync -a --delete --exclude target /verif/harness/ $HX/
  sed -i "s|routinator = { path = \"/repo\" }|routinator = { path = \"$WT\" }|" $HX/Cargo.toml
  for c in $CHECKS; do
    echo "== ./check $c against patched tree"
    (cd /verif && RV_RUNID=seed$SLOT RV_HARNESS=$HX CARGO_TARGET_DIR=/tmp/seedhx_target_$SLOT RV_NO_EVIDENCE=1 ./check $c 2>&1 | tail -12)
  done
fi
cd /; git -C /repo worktree remove --force $WT
