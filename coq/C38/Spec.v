(* C38: the property as executable oracles and the case checkers of the three correspondence streams
   (reader: LimitedDataRead over an in-memory reader; ta: Run::load_ta end to end against a local HTTPS
   server; config: max-object-size from file / command line).  No proofs here. *)
From Coq Require Import List NArith Bool.
From RV Require Export C38.Model.
Import ListNotations.
Local Open Scope N_scope.

(* "with a size limit L ... larger than L refused, up to L accepted; with the limit disabled any size" *)
Definition withinb (limit : option N) (n : N) : bool :=
  match limit with None => true | Some l => n <=? l end.

(* what the wrapped reader delivers before EOF (an explicit Ok(0) ends the body) or before it fails *)
Fixpoint delivered (rs : list rd) : N :=
  match rs with
  | Data n :: rs' => if n =? 0 then 0 else n + delivered rs'
  | _ => 0
  end.
(* does the wrapped reader fail before the end of the body? *)
Fixpoint faulty (rs : list rd) : bool :=
  match rs with
  | Data n :: rs' => if n =? 0 then false else faulty rs'
  | Fail :: _ => true
  | [] => false
  end.

Definition kind_eqb (a b : kind) : bool :=
  match a, b with KOk, KOk | KLarge, KLarge | KRead, KRead => true | _, _ => false end.
Definition optN_eqb (a b : option N) : bool :=
  match a, b with Some x, Some y => x =? y | None, None => true | _, _ => false end.

(* ---- stream "reader" ---- *)
(* [ro_len]: bytes handed out; [ro_intact]: they are exactly the first [ro_len] bytes of the body *)
Record robs := { ro_kind : kind; ro_len : N; ro_intact : bool }.
Record rcase := { rc_limit : option N; rc_reads : list rd; rc_all : bool; rc_impl : robs }.

Definition model_robs (limit : option N) (rs : list rd) (all : bool) : robs :=
  if all then let '(k, n) := read_all limit rs in {| ro_kind := k; ro_len := n; ro_intact := true |}
  else let '(n, k) := read_to_end limit rs 0 in {| ro_kind := k; ro_len := n; ro_intact := true |}.

(* the object is accepted (whole body handed out, no error) iff the reader did not fail and the body is
   within the limit; a refusal of a complete body names the size limit *)
Definition rspec_okb (limit : option N) (rs : list rd) (o : robs) : bool :=
  let n := delivered rs in
  let accepted := kind_eqb (ro_kind o) KOk in
  ro_intact o &&
  if faulty rs then negb accepted
  else if withinb limit n then accepted && (ro_len o =? n)
  else kind_eqb (ro_kind o) KLarge.

Definition robs_eqb (a b : robs) : bool :=
  kind_eqb (ro_kind a) (ro_kind b) && (ro_len a =? ro_len b) && Bool.eqb (ro_intact a) (ro_intact b).

Definition check_rcase (c : rcase) : N :=
  if negb (rspec_okb (rc_limit c) (rc_reads c) (rc_impl c)) then 2
  else if robs_eqb (model_robs (rc_limit c) (rc_reads c) (rc_all c)) (rc_impl c) then 0 else 1.

(* ---- stream "ta" ---- *)
(* [tc_fault]: 0 the server answers 200 with a body of [tc_size] bytes, declaring [tc_cl] (None: no
   Content-Length header); 1 it answers with an error status; 2 it declares [tc_cl] > [tc_size] bytes,
   sends [tc_size] and closes.  [tc_impl]: None refused, Some (n, intact) n bytes handed to the caller *)
Record tcase := { tc_limit : option N; tc_cl : option N; tc_size : N; tc_fault : N; tc_impl : option (N * bool) }.

Definition ta_response (cl : option N) (size fault : N) : option response :=
  if fault =? 1 then None
  else if fault =? 2 then Some {| r_cl := cl; r_body := [Data size; Fail] |}
  else Some {| r_cl := cl; r_body := [Data size] |}.

Definition model_tobs (limit cl : option N) (size fault : N) : option (N * bool) :=
  match load_ta limit (ta_response cl size fault) with Some n => Some (n, true) | None => None end.

(* the trust anchor certificate is used iff it arrived completely and is within the limit *)
Definition tspec_okb (limit : option N) (size fault : N) (o : option (N * bool)) : bool :=
  if negb (fault =? 0) then match o with None => true | Some _ => false end
  else if withinb limit size then match o with Some (n, intact) => (n =? size) && intact | None => false end
  else match o with None => true | Some _ => false end.

Definition tobs_eqb (a b : option (N * bool)) : bool :=
  match a, b with
  | Some (n, i), Some (m, j) => (n =? m) && Bool.eqb i j
  | None, None => true
  | _, _ => false
  end.

Definition twf (c : tcase) : bool :=
  if tc_fault c =? 0 then match tc_cl c with None => true | Some h => h =? tc_size c end
  else if tc_fault c =? 2 then (0 <? tc_size c) && match tc_cl c with None => false | Some h => tc_size c <? h end
  else tc_fault c =? 1.

Definition check_tcase (c : tcase) : N :=
  if negb (twf c) then 9
  else if negb (tspec_okb (tc_limit c) (tc_size c) (tc_fault c) (tc_impl c)) then 2
  else if tobs_eqb (model_tobs (tc_limit c) (tc_cl c) (tc_size c) (tc_fault c)) (tc_impl c) then 0 else 1.

(* ---- stream "config" ---- *)
Record cobs := { co_limit : option N; co_rsync : option N; co_printed : N }.
Record ccase := { cc_file : option N; cc_arg : option N; cc_impl : cobs }.

Definition model_cobs (file arg : option N) : cobs :=
  let l := effective_limit file arg in
  {| co_limit := l; co_rsync := rsync_max_size l; co_printed := limit_printed l |}.

(* the setting in force: command line over file over default; 0 means unlimited; rsync gets the same limit *)
Definition cspec_okb (file arg : option N) (o : cobs) : bool :=
  let s := match arg with Some v => v | None => match file with Some v => v | None => 20000000 end end in
  optN_eqb (co_limit o) (if s =? 0 then None else Some s)
  && optN_eqb (co_rsync o) (co_limit o) && (co_printed o =? s).

Definition cobs_eqb (a b : cobs) : bool :=
  optN_eqb (co_limit a) (co_limit b) && optN_eqb (co_rsync a) (co_rsync b) && (co_printed a =? co_printed b).

Definition check_ccase (c : ccase) : N :=
  if negb (cspec_okb (cc_file c) (cc_arg c) (cc_impl c)) then 2
  else if cobs_eqb (model_cobs (cc_file c) (cc_arg c)) (cc_impl c) then 0 else 1.

(* the framework's default names refer to the reader stream *)
Definition case := rcase.
Definition check_case := check_rcase.
Definition spec_okb := rspec_okb.
Definition model_obs := model_robs.
