(* C38 -- The object size limit is applied exactly as configured.
   Only statements, [exact], [Check] pins. *)
From Coq Require Import List NArith Bool.
From RV Require Import C38.Model C38.Spec C38.Proofs.
Import ListNotations.
Local Open Scope N_scope.

(* RRDP objects (LimitedDataRead::read_all): for EVERY way the wrapped reader cuts the body into reads
   (any number of reads of any sizes, an explicit Ok(0) ends the body), a body of size n is accepted iff the
   limit is disabled or n <= L ... *)
Theorem C38_stream_accept_iff : forall limit rs, faulty rs = false ->
  (read_all limit rs = (KOk, delivered rs) <-> within limit (delivered rs)).
Proof. exact read_all_accept_iff. Qed.

(* ... and otherwise refused with the size-limit error, nothing handed out *)
Theorem C38_stream_refuse : forall limit rs, faulty rs = false -> ~ within limit (delivered rs) ->
  read_all limit rs = (KLarge, 0).
Proof. exact read_all_refuse. Qed.

Theorem C38_every_chunking : forall limit cs, Forall (fun c => 0 < c) cs ->
  read_all limit (map Data cs) = if withinb limit (total cs) then (KOk, total cs) else (KLarge, 0).
Proof. exact every_chunking. Qed.

Theorem C38_chunking_irrelevant : forall limit rs1 rs2,
  faulty rs1 = false -> faulty rs2 = false -> delivered rs1 = delivered rs2 ->
  read_all limit rs1 = read_all limit rs2.
Proof. exact chunking_irrelevant. Qed.

(* HTTPS trust anchor certificates (Run::load_ta, fixed): with or without a Content-Length header, for every
   chunking, the certificate is handed to the caller completely iff the limit is disabled or n <= L, and
   refused otherwise *)
Theorem C38_ta_result : forall limit cl rs, faulty rs = false ->
  (cl = None \/ cl = Some (delivered rs)) ->
  load_ta limit (Some {| r_cl := cl; r_body := rs |}) =
    if withinb limit (delivered rs) then Some (delivered rs) else None.
Proof. exact load_ta_result. Qed.

Theorem C38_ta_accept_iff : forall limit cl rs, faulty rs = false ->
  (cl = None \/ cl = Some (delivered rs)) ->
  (load_ta limit (Some {| r_cl := cl; r_body := rs |}) = Some (delivered rs) <-> within limit (delivered rs)).
Proof. exact load_ta_accept_iff. Qed.

(* whatever the header says and however the transfer ends: what load_ta returns is a complete body within
   the limit, never a truncated one *)
Theorem C38_ta_never_partial : forall limit resp n,
  load_ta limit resp = Some n ->
  exists r, resp = Some r /\ faulty (r_body r) = false /\ n = delivered (r_body r) /\ within limit n.
Proof. exact load_ta_never_partial. Qed.

(* the code as found violates the property in both directions (fixed: notes/C38-fix.patch) *)
Theorem C38_unfixed_refuted :
  (exists limit cl rs, faulty rs = false /\ cl = Some (delivered rs) /\ within limit (delivered rs) /\
     load_ta_unfixed limit (Some {| r_cl := cl; r_body := rs |}) = None) /\
  (exists limit rs m, faulty rs = false /\ ~ within limit (delivered rs) /\ m < delivered rs /\
     load_ta_unfixed limit (Some {| r_cl := None; r_body := rs |}) = Some m).
Proof. exact (conj unfixed_refuted_header unfixed_refuted_truncation). Qed.

Theorem C38_unfixed_refuses_every_size_when_unlimited : forall n rs, delivered rs = n ->
  load_ta_unfixed None (Some {| r_cl := Some n; r_body := rs |}) = None.
Proof. exact unfixed_refuses_unlimited. Qed.

(* max-object-size = 0 (file or command line) is the only way to disable the limit, any other value is the limit *)
Theorem C38_zero_means_unlimited : forall file arg,
  effective_limit file arg = None <-> (arg = Some 0 \/ (arg = None /\ file = Some 0)).
Proof. exact zero_means_unlimited. Qed.

Theorem C38_limit_is_setting : forall file arg l,
  effective_limit file arg = Some l ->
  l <> 0 /\ l = match arg with Some v => v | None => match file with Some v => v | None => default_max_object_size end end.
Proof. exact limit_is_setting. Qed.

(* the executable oracles evaluated on the implementation's observations hold of the model on every input *)
Theorem C38_model_satisfies_spec : forall limit rs all, spec_okb limit rs (model_obs limit rs all) = true.
Proof. exact rmodel_satisfies_spec. Qed.

Theorem C38_model_satisfies_tspec : forall limit cl size fault impl,
  twf {| tc_limit := limit; tc_cl := cl; tc_size := size; tc_fault := fault; tc_impl := impl |} = true ->
  tspec_okb limit size fault (model_tobs limit cl size fault) = true.
Proof. exact tmodel_satisfies_spec. Qed.

Theorem C38_model_satisfies_cspec : forall file arg, cspec_okb file arg (model_cobs file arg) = true.
Proof. exact cmodel_satisfies_spec. Qed.

(* non-vacuity *)
Example C38_nonvacuous :
  read_all (Some 100) [Data 32; Data 60; Data 8] = (KOk, 100) /\
  read_all (Some 100) [Data 32; Data 60; Data 9] = (KLarge, 0) /\
  read_all None [Data 4000000000; Data 4000000000] = (KOk, 8000000000) /\
  load_ta None (Some {| r_cl := Some 1200; r_body := [Data 700; Data 500] |}) = Some 1200 /\
  load_ta (Some 100) (Some {| r_cl := None; r_body := [Data 60; Data 60] |}) = None /\
  load_ta (Some 100) (Some {| r_cl := Some 100; r_body := [Data 100] |}) = Some 100 /\
  load_ta (Some 100) (Some {| r_cl := Some 101; r_body := [Data 101] |}) = None /\
  effective_limit (Some 0) None = None /\ effective_limit None None = Some 20000000 /\
  check_tcase {| tc_limit := None; tc_cl := Some 5; tc_size := 5; tc_fault := 0; tc_impl := None |} = 2.
Proof. repeat split. Qed.

Check C38_stream_accept_iff : forall limit rs, faulty rs = false ->
  (read_all limit rs = (KOk, delivered rs) <-> within limit (delivered rs)).
Check C38_ta_accept_iff : forall limit cl rs, faulty rs = false ->
  (cl = None \/ cl = Some (delivered rs)) ->
  (load_ta limit (Some {| r_cl := cl; r_body := rs |}) = Some (delivered rs) <-> within limit (delivered rs)).
Check C38_model_satisfies_spec : forall limit rs all, spec_okb limit rs (model_obs limit rs all) = true.
Check C38_model_satisfies_tspec : forall limit cl size fault impl,
  twf {| tc_limit := limit; tc_cl := cl; tc_size := size; tc_fault := fault; tc_impl := impl |} = true ->
  tspec_okb limit size fault (model_tobs limit cl size fault) = true.
