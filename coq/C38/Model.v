(* C38 model: where the configured object size limit is applied.
   Executable definitions only (no proofs), transcribed from
     src/collector/rrdp/http.rs  LimitedDataRead::{new, read (io::Read), read_all}   -> [lread], [read_all]
     std::io::Read::read_to_end (default_read_to_end) as used on a LimitedDataRead      -> [read_to_end]
     src/collector/rrdp/base.rs  Run::load_ta (FIXED version, see notes/C38-fix.patch)  -> [load_ta]
                                 Run::load_ta as found (pinned commit)                  -> [load_ta_unfixed]
     src/config.rs               max-object-size: from_config_file / apply_arg_matches / to_toml
                                                                                         -> [limit_from_file] ...
     src/collector/rsync.rs      RsyncCommand::new ("--max-size={max_size}")             -> [rsync_max_size]
   Sizes are N (u64 in the code; usize -> u64 conversion cannot fail on the 64-bit targets, the branch of
   LimitedDataRead::read for that failure is not modelled). *)
From Coq Require Import List NArith Bool.
Import ListNotations.
Local Open Scope N_scope.

(* the result of one read() call on the wrapped reader: Ok(n) or Err(_) *)
Inductive rd := Data (n : N) | Fail.

(* LimitedDataReadError, plus KOk for "no error" *)
Inductive kind := KOk | KLarge | KRead.

Inductive rres := ROk (n : N) | RErr (k : kind).

(* <LimitedDataRead as io::Read>::read; the state is [left : Option<u64>] (the stored error is the [kind]) *)
Definition lread (left : option N) (r : rd) : option N * rres :=
  match r with
  | Fail => (left, RErr KRead)                                  (* self.err = Some(Read(err)); Err(other) *)
  | Data res =>
      match left with
      | Some l =>
          if l <? res then (Some 0, RErr KLarge)                (* res64 > left: left = Some(0); LargeObject *)
          else (Some (l - res), ROk res)                        (* left = Some(left - res64) *)
      | None => (None, ROk res)
      end
  end.

(* io::Read::read_to_end over the LimitedDataRead: read until Ok(0) or an error (io::Error::other is never
   ErrorKind::Interrupted, so no retry); [acc] = bytes appended so far.  [rs] are the results of the successive
   read() calls of the wrapped reader; after the list the wrapped reader is at EOF (returns Ok(0)). *)
Fixpoint read_to_end (left : option N) (rs : list rd) (acc : N) : N * kind :=
  match rs with
  | [] => (acc, KOk)                                            (* Ok(0): 0 > left is false *)
  | r :: rs' =>
      match lread left r with
      | (_, RErr k) => (acc, k)
      | (left', ROk n) => if n =? 0 then (acc, KOk) else read_to_end left' rs' (acc + n)
      end
  end.

(* LimitedDataRead::read_all: Ok(content) or the stored error (nothing of the content is handed out) *)
Definition read_all (limit : option N) (rs : list rd) : kind * N :=
  match read_to_end limit rs 0 with
  | (n, KOk) => (KOk, n)
  | (_, k) => (k, 0)
  end.

(* Rust's derived PartialOrd on Option<u64>: None < Some(_) *)
Definition opt_gt (a b : option N) : bool :=
  match a, b with
  | Some x, Some y => y <? x
  | Some _, None => true
  | None, _ => false
  end.

(* a response as load_ta sees it: the Content-Length header and the body as the reads deliver it *)
Record response := { r_cl : option N; r_body : list rd }.

(* the pre-check of the FIXED load_ta: compare only when both values are present *)
Definition precheck (cl limit : option N) : bool :=
  match cl, limit with
  | Some len, Some l => l <? len
  | _, _ => false
  end.

(* Run::load_ta after the fix: None = the certificate is refused; Some n = n bytes are handed to the caller.
   [resp = None]: http.response(uri) failed (connection error or error status). *)
Definition load_ta (limit : option N) (resp : option response) : option N :=
  match resp with
  | None => None
  | Some r =>
      if precheck (r_cl r) limit then None
      else match read_to_end limit (r_body r) 0 with
           | (n, KOk) => Some n
           | (_, _) => None                                     (* fixed: a failed read refuses the object *)
           end
  end.

(* Run::load_ta as found: `response.content_length() > config.max_object_size` on two Option<u64>, and a
   failed read only logs a warning and still returns what has been read *)
Definition load_ta_unfixed (limit : option N) (resp : option response) : option N :=
  match resp with
  | None => None
  | Some r =>
      if opt_gt (r_cl r) limit then None
      else Some (fst (read_to_end limit (r_body r) 0))
  end.

(* ---- configuration ---- *)
Definition default_max_object_size : N := 20000000.

(* Config::from_config_file: Some(0) => None, Some(value) => Some(value), None => Some(DEFAULT) *)
Definition limit_from_file (v : option N) : option N :=
  match v with
  | Some 0 => None
  | Some value => Some value
  | None => Some default_max_object_size
  end.

(* Config::apply_arg_matches: if let Some(value) = args.max_object_size { if value == 0 {None} else {Some(value)} } *)
Definition limit_from_arg (cur : option N) (arg : option N) : option N :=
  match arg with
  | Some 0 => None
  | Some value => Some value
  | None => cur
  end.

Definition effective_limit (file arg : option N) : option N := limit_from_arg (limit_from_file file) arg.

(* Config::to_toml: self.max_object_size.unwrap_or(0) *)
Definition limit_printed (l : option N) : N := match l with Some v => v | None => 0 end.

(* RsyncCommand::new: if let Some(max_size) = config.max_object_size { args.push("--max-size={max_size}") } *)
Definition rsync_max_size (l : option N) : option N := l.
