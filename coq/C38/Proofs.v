(* C38 proofs: induction over the list of reads (arbitrary chunking, arbitrary length). *)
From Coq Require Import List NArith Bool Lia.
From RV Require Import C38.Model C38.Spec.
Import ListNotations.
Local Open Scope N_scope.

Definition within (limit : option N) (n : N) : Prop :=
  match limit with None => True | Some l => n <= l end.

Lemma withinb_spec : forall limit n, withinb limit n = true <-> within limit n.
Proof. intros [l|] n; cbn; [apply N.leb_le | tauto]. Qed.

Lemma withinb_false : forall limit n, withinb limit n = false <-> ~ within limit n.
Proof.
  intros limit n. rewrite <- withinb_spec. destruct (withinb limit n); split; intro H; congruence.
Qed.

(* ---- read_to_end over a reader that does not fail ---- *)

Lemma rte_within : forall rs left acc, faulty rs = false -> withinb left (delivered rs) = true ->
  read_to_end left rs acc = (acc + delivered rs, KOk).
Proof.
  induction rs as [| r rs IH]; intros left acc Hf Hw; cbn [read_to_end delivered].
  - rewrite N.add_0_r. reflexivity.
  - destruct r as [n|]; [| discriminate Hf].
    cbn [faulty delivered] in Hf, Hw. cbn [lread].
    destruct (N.eqb_spec n 0) as [-> | Hn].
    + destruct left as [l|].
      * replace (l <? 0) with false by (symmetry; apply N.ltb_ge; lia). cbn. rewrite N.add_0_r. reflexivity.
      * cbn. rewrite N.add_0_r. reflexivity.
    + destruct left as [l|]; cbn [withinb] in Hw.
      * apply N.leb_le in Hw.
        replace (l <? n) with false by (symmetry; apply N.ltb_ge; lia).
        destruct (N.eqb_spec n 0); [contradiction|].
        rewrite IH; [f_equal; lia | exact Hf | cbn; apply N.leb_le; lia].
      * destruct (N.eqb_spec n 0); [contradiction|].
        rewrite IH; [f_equal; lia | exact Hf | reflexivity].
Qed.

(* beyond the limit: the error is the size limit and what has been read so far is within the limit *)
Lemma rte_beyond : forall rs left acc, faulty rs = false -> withinb left (delivered rs) = false ->
  exists m, read_to_end left rs acc = (acc + m, KLarge) /\ withinb left m = true /\ m < delivered rs.
Proof.
  induction rs as [| r rs IH]; intros left acc Hf Hw; cbn [read_to_end delivered] in *.
  - destruct left; cbn in Hw; [apply N.leb_gt in Hw; lia | discriminate].
  - destruct r as [n|]; [| discriminate Hf].
    cbn [faulty] in Hf. cbn [lread].
    destruct (N.eqb_spec n 0) as [-> | Hn].
    + destruct left; cbn in Hw; [apply N.leb_gt in Hw; lia | discriminate].
    + destruct left as [l|]; cbn [withinb] in Hw; [| discriminate].
      apply N.leb_gt in Hw.
      destruct (N.ltb_spec l n) as [Hlt | Hge].
      * exists 0. rewrite N.add_0_r. repeat split; [cbn; apply N.leb_le; lia | lia].
      * destruct (N.eqb_spec n 0); [contradiction|].
        destruct (IH (Some (l - n)) (acc + n) Hf) as (m & Hr & Hm & Hlt).
        { cbn. apply N.leb_gt. lia. }
        exists (n + m). rewrite Hr. cbn in Hm. apply N.leb_le in Hm.
        repeat split; [f_equal; lia | cbn; apply N.leb_le; lia | lia].
Qed.

Lemma rte_faulty : forall rs left acc, faulty rs = true -> snd (read_to_end left rs acc) <> KOk.
Proof.
  induction rs as [| r rs IH]; intros left acc Hf; cbn [read_to_end faulty] in *; [discriminate|].
  destruct r as [n|]; cbn [lread].
  - destruct (N.eqb_spec n 0) as [-> | Hn]; [discriminate|].
    destruct left as [l|].
    + destruct (l <? n); [cbn; discriminate|].
      destruct (N.eqb_spec n 0); [contradiction|]. apply IH; exact Hf.
    + destruct (N.eqb_spec n 0); [contradiction|]. apply IH; exact Hf.
  - cbn. discriminate.
Qed.

(* ---- LimitedDataRead::read_all ---- *)

Lemma read_all_result : forall limit rs, faulty rs = false ->
  read_all limit rs = if withinb limit (delivered rs) then (KOk, delivered rs) else (KLarge, 0).
Proof.
  intros limit rs Hf. unfold read_all.
  destruct (withinb limit (delivered rs)) eqn:Hw.
  - rewrite rte_within by assumption. reflexivity.
  - destruct (rte_beyond rs limit 0 Hf Hw) as (m & -> & _). reflexivity.
Qed.

Lemma read_all_accept_iff : forall limit rs, faulty rs = false ->
  (read_all limit rs = (KOk, delivered rs) <-> within limit (delivered rs)).
Proof.
  intros limit rs Hf. rewrite read_all_result by assumption. rewrite <- withinb_spec.
  destruct (withinb limit (delivered rs)); split; intro H; try reflexivity; discriminate.
Qed.

Lemma read_all_refuse : forall limit rs, faulty rs = false -> ~ within limit (delivered rs) ->
  read_all limit rs = (KLarge, 0).
Proof.
  intros limit rs Hf H. rewrite read_all_result by assumption.
  apply withinb_false in H. rewrite H. reflexivity.
Qed.

Lemma chunking_irrelevant : forall limit rs1 rs2,
  faulty rs1 = false -> faulty rs2 = false -> delivered rs1 = delivered rs2 ->
  read_all limit rs1 = read_all limit rs2.
Proof. intros limit rs1 rs2 H1 H2 E. rewrite !read_all_result by assumption. rewrite E. reflexivity. Qed.

Lemma read_all_faulty : forall limit rs, faulty rs = true -> fst (read_all limit rs) <> KOk.
Proof.
  intros limit rs Hf. unfold read_all. pose proof (rte_faulty rs limit 0 Hf) as H.
  destruct (read_to_end limit rs 0) as [n k]. cbn in H. destruct k; cbn; congruence.
Qed.

(* plain chunk lists: a body of size n cut into positive pieces in any way *)
Definition total (cs : list N) : N := fold_right N.add 0 cs.

Lemma delivered_chunks : forall cs, Forall (fun c => 0 < c) cs ->
  delivered (map Data cs) = total cs /\ faulty (map Data cs) = false.
Proof.
  induction 1 as [| c cs Hc _ [IH1 IH2]]; cbn; [split; reflexivity|].
  destruct (N.eqb_spec c 0); [lia|]. rewrite IH1. split; [reflexivity | exact IH2].
Qed.

Lemma every_chunking : forall limit cs, Forall (fun c => 0 < c) cs ->
  read_all limit (map Data cs) = if withinb limit (total cs) then (KOk, total cs) else (KLarge, 0).
Proof.
  intros limit cs H. destruct (delivered_chunks cs H) as [E F].
  rewrite read_all_result by assumption. rewrite E. reflexivity.
Qed.

(* ---- load_ta (fixed) ---- *)

Lemma load_ta_result : forall limit cl rs, faulty rs = false ->
  (cl = None \/ cl = Some (delivered rs)) ->
  load_ta limit (Some {| r_cl := cl; r_body := rs |}) =
    if withinb limit (delivered rs) then Some (delivered rs) else None.
Proof.
  intros limit cl rs Hf Hcl. unfold load_ta. cbn [r_cl r_body].
  destruct (withinb limit (delivered rs)) eqn:Hw.
  - assert (precheck cl limit = false) as ->.
    { destruct Hcl as [-> | ->]; [reflexivity|]. destruct limit as [l|]; [| reflexivity].
      cbn in *. apply N.leb_le in Hw. apply N.ltb_ge. exact Hw. }
    rewrite rte_within by assumption. reflexivity.
  - destruct (precheck cl limit); [reflexivity|].
    destruct (rte_beyond rs limit 0 Hf Hw) as (m & -> & _). reflexivity.
Qed.

Lemma load_ta_accept_iff : forall limit cl rs, faulty rs = false ->
  (cl = None \/ cl = Some (delivered rs)) ->
  (load_ta limit (Some {| r_cl := cl; r_body := rs |}) = Some (delivered rs) <-> within limit (delivered rs)).
Proof.
  intros limit cl rs Hf Hcl. rewrite load_ta_result by assumption. rewrite <- withinb_spec.
  destruct (withinb limit (delivered rs)); split; intro H; try reflexivity; discriminate.
Qed.

Lemma load_ta_never_partial : forall limit resp n,
  load_ta limit resp = Some n ->
  exists r, resp = Some r /\ faulty (r_body r) = false /\ n = delivered (r_body r) /\ within limit n.
Proof.
  intros limit [r|] n H; [| discriminate]. exists r. split; [reflexivity|].
  unfold load_ta in H. destruct (precheck (r_cl r) limit); [discriminate|].
  destruct (faulty (r_body r)) eqn:Hf.
  - pose proof (rte_faulty (r_body r) limit 0 Hf) as Hk.
    destruct (read_to_end limit (r_body r) 0) as [m k]. cbn in Hk. destruct k; congruence.
  - destruct (withinb limit (delivered (r_body r))) eqn:Hw.
    + rewrite rte_within in H by assumption. injection H as <-.
      repeat split. apply withinb_spec. exact Hw.
    + destruct (rte_beyond (r_body r) limit 0 Hf Hw) as (m & E & _). rewrite E in H. discriminate.
Qed.

Lemma load_ta_fault : forall limit cl rs, faulty rs = true ->
  load_ta limit (Some {| r_cl := cl; r_body := rs |}) = None.
Proof.
  intros limit cl rs Hf. unfold load_ta. cbn [r_cl r_body]. destruct (precheck cl limit); [reflexivity|].
  pose proof (rte_faulty rs limit 0 Hf) as Hk.
  destruct (read_to_end limit rs 0) as [m k]. cbn in Hk. destruct k; congruence.
Qed.

(* ---- the code as found ---- *)

Lemma unfixed_refuses_unlimited : forall n rs, delivered rs = n ->
  load_ta_unfixed None (Some {| r_cl := Some n; r_body := rs |}) = None.
Proof. reflexivity. Qed.

Lemma unfixed_refuted_header :
  exists limit cl rs, faulty rs = false /\ cl = Some (delivered rs) /\ within limit (delivered rs) /\
    load_ta_unfixed limit (Some {| r_cl := cl; r_body := rs |}) = None.
Proof. exists None, (Some 1200), [Data 700; Data 500]. vm_compute. auto. Qed.

Lemma unfixed_refuted_truncation :
  exists limit rs m, faulty rs = false /\ ~ within limit (delivered rs) /\ m < delivered rs /\
    load_ta_unfixed limit (Some {| r_cl := None; r_body := rs |}) = Some m.
Proof.
  exists (Some 100), [Data 60; Data 60], 60. repeat split; try reflexivity.
  cbn. lia.
Qed.

(* ---- configuration ---- *)

Lemma zero_means_unlimited : forall file arg,
  effective_limit file arg = None <-> (arg = Some 0 \/ (arg = None /\ file = Some 0)).
Proof.
  intros file arg. unfold effective_limit, limit_from_arg, limit_from_file.
  destruct arg as [[|a]|]; [tauto | |].
  - split; [discriminate | intros [H | [H _]]; discriminate].
  - destruct file as [[|f]|]; split; intro H; try discriminate; try tauto;
      destruct H as [H | [_ H]]; discriminate.
Qed.

Lemma limit_is_setting : forall file arg l,
  effective_limit file arg = Some l ->
  l <> 0 /\ l = match arg with Some v => v | None => match file with Some v => v | None => default_max_object_size end end.
Proof.
  intros file arg l. unfold effective_limit, limit_from_arg, limit_from_file.
  destruct arg as [[|a]|]; [discriminate | intro H; injection H as <-; split; [discriminate | reflexivity] |].
  destruct file as [[|f]|]; [discriminate | |]; intro H; injection H as <-; split; try discriminate; reflexivity.
Qed.

(* ---- oracles hold of the model ---- *)

Lemma kind_eqb_refl : forall k, kind_eqb k k = true. Proof. destruct k; reflexivity. Qed.

Lemma rmodel_satisfies_spec : forall limit rs all, rspec_okb limit rs (model_robs limit rs all) = true.
Proof.
  intros limit rs all. unfold rspec_okb, model_robs.
  destruct (faulty rs) eqn:Hf.
  - destruct all.
    + pose proof (read_all_faulty limit rs Hf) as H. destruct (read_all limit rs) as [k n]. cbn in *.
      destruct k; try reflexivity. congruence.
    + pose proof (rte_faulty rs limit 0 Hf) as H. destruct (read_to_end limit rs 0) as [n k]. cbn in *.
      destruct k; try reflexivity. congruence.
  - destruct (withinb limit (delivered rs)) eqn:Hw.
    + destruct all.
      * rewrite read_all_result, Hw by assumption. cbn. rewrite N.eqb_refl. reflexivity.
      * rewrite rte_within by assumption. cbn. rewrite N.eqb_refl. reflexivity.
    + destruct all.
      * rewrite read_all_result, Hw by assumption. reflexivity.
      * destruct (rte_beyond rs limit 0 Hf Hw) as (m & -> & _). reflexivity.
Qed.

Lemma tmodel_satisfies_spec : forall limit cl size fault impl,
  twf {| tc_limit := limit; tc_cl := cl; tc_size := size; tc_fault := fault; tc_impl := impl |} = true ->
  tspec_okb limit size fault (model_tobs limit cl size fault) = true.
Proof.
  intros limit cl size fault impl Hwf. unfold twf in Hwf. cbn [tc_size tc_fault tc_cl] in Hwf.
  unfold tspec_okb, model_tobs, ta_response.
  assert (Hd : delivered [Data size] = size /\ faulty [Data size] = false).
  { cbn. destruct (N.eqb_spec size 0); [split; [congruence | reflexivity]|]. split; [lia | reflexivity]. }
  destruct Hd as [Hd Hnf].
  destruct (N.eqb_spec fault 0) as [-> | Hf0].
  - cbn [N.eqb negb].
    assert (Hcl : cl = None \/ cl = Some (delivered [Data size])).
    { destruct cl as [h|]; [| left; reflexivity]. right. apply N.eqb_eq in Hwf. rewrite Hd. congruence. }
    rewrite (load_ta_result limit cl [Data size] Hnf Hcl). rewrite Hd.
    destruct (withinb limit size); [rewrite N.eqb_refl; reflexivity | reflexivity].
  - cbn [negb]. destruct (N.eqb_spec fault 1) as [-> | Hf1]; [reflexivity|].
    destruct (N.eqb_spec fault 2) as [-> | Hf2].
    + apply andb_true_iff in Hwf. destruct Hwf as [Hpos _]. apply N.ltb_lt in Hpos.
      rewrite load_ta_fault; [reflexivity|]. cbn. destruct (N.eqb_spec size 0); [lia | reflexivity].
    + discriminate Hwf.
Qed.

Lemma optN_eqb_refl : forall a, optN_eqb a a = true.
Proof. destruct a; cbn; [apply N.eqb_refl | reflexivity]. Qed.

Lemma cmodel_satisfies_spec : forall file arg, cspec_okb file arg (model_cobs file arg) = true.
Proof.
  intros file arg. unfold cspec_okb, model_cobs, effective_limit, limit_from_arg, limit_from_file,
    rsync_max_size, limit_printed, default_max_object_size.
  cbn [co_limit co_rsync co_printed].
  destruct arg as [[|a]|]; [reflexivity | cbn; rewrite !Pos.eqb_refl; reflexivity |].
  destruct file as [[|f]|]; [reflexivity | cbn; rewrite !Pos.eqb_refl; reflexivity | reflexivity].
Qed.
