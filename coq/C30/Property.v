(* C30 — Remote URIs map to confined, distinct local paths.
   Only statements, [exact], [Check] pins.
   [hd] stands for the lower-case hex SHA-256 digest that appears in some paths; the theorems hold
   for every function [hd] of that shape that does not collide on the digest inputs of interest [D]
   (hypotheses in the statements).  The checker instantiates hd with Base/Sha256.sha256_hex, whose
   shape is proved (C30_sha256_hex_shape); freedom from collisions on the inputs of a case is the
   premise [no_collision] of C30_model_satisfies_spec.
   A path "stays below" a directory when its lexical resolution has the directory's as a prefix
   ([under]); "the same file" is the same resolution and the same trailing-separator flag ([fid]). *)
From Coq Require Import List NArith Bool String.
From RV Require Import Base.PathModel Base.Sha256 C30.Model C30.Spec C30.Proofs C30.SpecProofs C30.DumpProofs.
Import ListNotations.
Local Open Scope N_scope.

(* what the rpki parsers guarantee of an accepted URI *)
Theorem C30_rsync_parse_wf : forall s u, rsync_parse s = Some u -> rsync_wf u.
Proof. exact rsync_parse_wf. Qed.
Theorem C30_https_parse_wf : forall s n, https_parse s = Some n -> https_wf n.
Proof. exact https_parse_wf. Qed.

Section Digest.
Variable hd : bstr -> bstr.
Variable D : bstr -> Prop.
Hypothesis hd_injective : forall x y, D x -> D y -> hd x = hd y -> x = y.
Hypothesis hd_shape : forall x, hexlike (hd x) = true.

(* trust anchor certificates: stored/ta/{rsync,https}/<authority>/<digest>.cer *)
Theorem C30_ta_confined : forall cache t, tal_wf t -> root_ok cache -> under cache (ta_path hd cache t).
Proof. exact (ta_path_confined hd hd_shape). Qed.
Theorem C30_ta_distinct : forall cache s t, tal_wf s -> tal_wf t -> root_ok cache ->
  D (tal_input s) -> D (tal_input t) ->
  norm (ta_path hd cache s) = norm (ta_path hd cache t) -> tal_eqv s t.
Proof. exact (ta_path_distinct hd D hd_injective hd_shape). Qed.

(* stored RRDP repositories: stored/rrdp/<authority>/<digest> *)
Theorem C30_repo_confined : forall cache n, https_wf n -> root_ok cache -> under cache (rrdp_repository_path hd cache n).
Proof. exact (repo_path_confined hd hd_shape). Qed.
Theorem C30_repo_distinct : forall cache n m, https_wf n -> https_wf m -> root_ok cache ->
  D (https_digest_input n) -> D (https_digest_input m) ->
  norm (rrdp_repository_path hd cache n) = norm (rrdp_repository_path hd cache m) -> https_eqv n m.
Proof. exact (repo_path_distinct hd D hd_injective hd_shape). Qed.

(* stored publication points, across all repositories: <repository>/rsync/<authority>/<module>/<path> *)
Theorem C30_point_confined : forall cache r m, repo_wf D r -> rsync_wf m -> root_ok cache ->
  under cache (point_path hd cache r m).
Proof. exact (point_path_confined hd D hd_shape). Qed.
Theorem C30_point_distinct : forall cache r1 m1 r2 m2,
  repo_wf D r1 -> repo_wf D r2 -> rsync_wf m1 -> rsync_wf m2 -> root_ok cache ->
  fid (point_path hd cache r1 m1) = fid (point_path hd cache r2 m2) ->
  repo_eqv r1 r2 /\ rsync_eqv m1 m2.
Proof. exact (point_path_distinct hd D hd_injective hd_shape). Qed.

(* RRDP collector archives: rrdp/<authority>/<digest of the URI as written>.bin *)
Theorem C30_archive_confined : forall cache n, https_wf n -> root_ok cache -> under cache (archive_path hd cache n).
Proof. exact (archive_path_confined hd hd_shape). Qed.
Theorem C30_archive_distinct : forall cache n m, https_wf n -> https_wf m -> root_ok cache ->
  D (https_raw n) -> D (https_raw m) ->
  norm (archive_path hd cache n) = norm (archive_path hd cache m) -> https_eqv n m.
Proof. exact (archive_path_distinct hd D hd_injective hd_shape). Qed.

End Digest.

(* rsync collector: rsync/<authority>/<module>/ and rsync/<authority>/<module>/<path> (no digest) *)
Theorem C30_module_confined : forall cache u, rsync_wf u -> root_ok cache -> under cache (module_path cache u).
Proof. exact module_path_confined. Qed.
Theorem C30_module_distinct : forall cache u v, rsync_wf u -> rsync_wf v -> root_ok cache ->
  norm (module_path cache u) = norm (module_path cache v) ->
  lower (r_auth u) = lower (r_auth v) /\ r_mod u = r_mod v.
Proof. exact module_path_distinct. Qed.
Theorem C30_file_confined : forall cache u, rsync_wf u -> root_ok cache -> under cache (uri_path cache u).
Proof. exact uri_path_confined. Qed.
Theorem C30_file_distinct : forall cache u v, rsync_wf u -> rsync_wf v -> root_ok cache ->
  fid (uri_path cache u) = fid (uri_path cache v) -> rsync_eqv u v.
Proof. exact uri_path_distinct. Qed.

(* dumps: objects below a repository directory; repository directories from DumpRegistry *)
Theorem C30_dump_object_confined : forall dir u, rsync_wf u -> root_ok dir -> under dir (dump_object_path dir u).
Proof. exact dump_object_confined. Qed.
Theorem C30_dump_registry_distinct : forall calls i j ni nj d,
  nth_error calls i = Some (Some ni) -> nth_error calls j = Some (Some nj) ->
  nth_error (name_run reg_init calls) i = Some (Some d) ->
  nth_error (name_run reg_init calls) j = Some (Some d) ->
  hkey ni = hkey nj.
Proof. exact registry_distinct. Qed.
(* every repository directory handed out is a plain new name: a normal path component other than
   "rsync" (the rsync repository's directory), without a separator *)
Theorem C30_dump_registry_names_plain : forall calls i n d,
  nth_error calls i = Some (Some n) -> nth_error (name_run reg_init calls) i = Some (Some d) ->
  normalb d = true /\ d <> bytes_of "rsync".
Proof. exact registry_names_plain. Qed.
Theorem C30_dump_registry_names_no_slash : forall calls r i d, uris_no_slash r ->
  Forall (fun c => match c with Some n => memb SLASH (h_auth n) = false | None => True end) calls ->
  nth_error (name_run r calls) i = Some (Some d) -> memb SLASH d = false.
Proof. exact registry_names_no_slash. Qed.
(* for repository directories that are plain names no two dump files coincide *)
Theorem C30_dump_file_distinct : forall base d1 d2 u v,
  root_ok base -> normalb d1 = true -> memb SLASH d1 = false -> normalb d2 = true -> memb SLASH d2 = false ->
  rsync_wf u -> rsync_wf v ->
  fid (dump_object_path (push base d1) u) = fid (dump_object_path (push base d2) v) ->
  d1 = d2 /\ rsync_eqv u v.
Proof. exact dump_file_distinct. Qed.
(* what happened before DumpRegistry::new reserved these names (reg_unreserved; finding F19, repaired by
   "fix: reserve dump directory names ..."), and what happens now: witnesses by computation *)
Theorem C30_dump_refuted_before_fix :
  let base := bytes_of "/dump/store" in
  let calls := [Some (Hn "https://../n.xml"); Some (Hn "https://m/n.xml")] in
  name_run reg_unreserved calls = [Some (bytes_of ".."); Some (bytes_of "m")] /\
  name_run reg_init calls = [Some (bytes_of "..-1"); Some (bytes_of "m")] /\
  fid (dump_object_path (push base (bytes_of "..")) (U "rsync://store/m/a/b/c"))
    = fid (dump_object_path (push base (bytes_of "m")) (U "rsync://a/b/c")) /\
  rsync_eqvb (U "rsync://store/m/a/b/c") (U "rsync://a/b/c") = false.
Proof. exact dump_refuted_dotdot. Qed.
Theorem C30_dump_refuted_rsync_before_fix :
  name_run reg_unreserved [None; Some (Hn "https://rsync/n.xml")] = [Some (bytes_of "rsync"); Some (bytes_of "rsync")] /\
  name_run reg_init [None; Some (Hn "https://rsync/n.xml")] = [Some (bytes_of "rsync"); Some (bytes_of "rsync-1")].
Proof. exact dump_refuted_rsync. Qed.

(* the digest rendering used by the checker has the assumed shape *)
Theorem C30_sha256_hex_shape : forall x, hexlike (sha256_hex x) = true.
Proof. exact sha256_hex_shape. Qed.

(* the oracle evaluated on the implementation's paths holds of the model's paths on every input
   whose digest inputs do not collide under SHA-256 *)
Theorem C30_model_satisfies_spec : forall cache rs hs tf dn df dt,
  cache_okb cache = true -> no_collision rs hs ->
  spec_okb {| c_cache := cache; c_rs := rs; c_hs := hs; c_paths := paths_model cache rs hs;
              c_tafiles := tf; c_dumpnames := dn; c_dumpfiles := df; c_dumptree := dt |} = true.
Proof. exact model_satisfies_spec. Qed.

(* premises are satisfiable on non-trivial values (an authority "..", mixed case, a trailing
   separator): the archive of https://../n.xml resolves to a file directly in the cache directory;
   the two rsync URIs differ only in the trailing separator and are told apart by the flag of [fid] *)
Example C30_nonvacuous :
  let rs := [bytes_of "rsync://RPKI.example.net/repo/a/b.mft"; bytes_of "rsync://rpki.example.net/repo/a/b.mft/"] in
  let hs := [bytes_of "https://../n.xml"; bytes_of "HTTPS://Rrdp.Example.net/n.xml"] in
  cache_okb (bytes_of "/c") = true /\ no_collision rs hs /\
  option_map (@List.length bstr) (norm (archive_path sha256_hex (bytes_of "/c") (Hn "https://../n.xml"))) = Some 2%nat /\
  norm (uri_path (bytes_of "/c") (U "rsync://RPKI.example.net/repo/a/b.mft"))
    = norm (uri_path (bytes_of "/c") (U "rsync://rpki.example.net/repo/a/b.mft/")) /\
  fid_eqb (fid (uri_path (bytes_of "/c") (U "rsync://RPKI.example.net/repo/a/b.mft")))
          (fid (uri_path (bytes_of "/c") (U "rsync://rpki.example.net/repo/a/b.mft/"))) = false.
Proof.
  cbv zeta. split; [reflexivity|]. split; [|split; [vm_compute; reflexivity | split; vm_compute; reflexivity]].
  unfold no_collision. intros x y Hx Hy H.
  vm_compute in Hx. vm_compute in Hy.
  repeat (destruct Hx as [Hx|Hx]; [subst x|]); try contradiction;
    repeat (destruct Hy as [Hy|Hy]; [subst y|]); try contradiction;
    first [reflexivity | (vm_compute in H; discriminate)].
Qed.

Check C30_point_distinct : forall hd (D : bstr -> Prop), (forall x y, D x -> D y -> hd x = hd y -> x = y) ->
  (forall x, hexlike (hd x) = true) ->
  forall cache r1 m1 r2 m2,
  repo_wf D r1 -> repo_wf D r2 -> rsync_wf m1 -> rsync_wf m2 -> root_ok cache ->
  fid (point_path hd cache r1 m1) = fid (point_path hd cache r2 m2) ->
  repo_eqv r1 r2 /\ rsync_eqv m1 m2.
Check C30_archive_confined : forall hd, (forall x, hexlike (hd x) = true) ->
  forall cache n, https_wf n -> root_ok cache -> under cache (archive_path hd cache n).
Check C30_model_satisfies_spec : forall cache rs hs tf dn df dt,
  cache_okb cache = true -> no_collision rs hs ->
  spec_okb {| c_cache := cache; c_rs := rs; c_hs := hs; c_paths := paths_model cache rs hs;
              c_tafiles := tf; c_dumpnames := dn; c_dumpfiles := df; c_dumptree := dt |} = true.
