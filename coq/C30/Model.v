(* C30 model: the local paths Routinator builds from URIs.  Executable definitions
   only.  Transcribed from
     src/utils/uri.rs            UriExt::unique_components / unique_path
     src/store.rs                Store::{create_base_dir, ta_path, rrdp_repository_path,
                                 rsync_repository_path}, Repository::{new, point_path}, Store::dump_object
     src/collector/rsync.rs      Collector::create_working_dir, WorkingDir::{module_path, uri_path}
     src/collector/rrdp/base.rs  Collector::{create_working_dir, repository_path}
     src/utils/dump.rs           DumpRegistry::{get_repo_path, make_path}
   Paths are byte strings built with PathBuf::push/join (Base/PathModel.push); URIs are the
   parsed forms of Base/PathModel (rpki::uri).  The digest function is a parameter:
   [hd x] stands for the lower-case hex rendering of SHA-256(x) (utils::str::append_hex);
   the checker instantiates it with Base/Sha256.sha256_hex. *)
From Coq Require Import List NArith Bool String.
From RV Require Import Base.PathModel.
Import ListNotations.
Local Open Scope N_scope.

Section Paths.
Variable hd : bstr -> bstr.

(* UriExt::unique_components: what is hashed *)
Definition rsync_digest_input (u : rsync_uri) : bstr :=
  bytes_of "rsync://" ++ lower (r_auth u) ++ SLASH :: r_mod u ++ SLASH :: r_path u.
Definition https_digest_input (u : https_uri) : bstr :=
  bytes_of "https://" ++ lower (h_auth u) ++ SLASH :: h_path u.

(* UriExt::unique_path(prefix, extension): prefix '/' authority '/' hexdigest extension *)
Definition unique_path (prefix auth x ext : bstr) : bstr :=
  (match prefix with [] => [] | _ => prefix ++ [SLASH] end) ++ auth ++ SLASH :: hd x ++ ext.

Definition rsync_unique_path (prefix ext : bstr) (u : rsync_uri) : bstr :=
  unique_path prefix (lower (r_auth u)) (rsync_digest_input u) ext.
Definition https_unique_path (prefix ext : bstr) (u : https_uri) : bstr :=
  unique_path prefix (lower (h_auth u)) (https_digest_input u) ext.

Inductive tal_uri := TalRsync (u : rsync_uri) | TalHttps (u : https_uri).

(* ---- src/store.rs; [cache] = config.cache_dir ---- *)
Definition store_base (cache : bstr) : bstr := push cache (bytes_of "stored").

Definition ta_path (cache : bstr) (t : tal_uri) : bstr :=
  push (store_base cache)
       match t with
       | TalRsync u => rsync_unique_path (bytes_of "ta/rsync") (bytes_of ".cer") u
       | TalHttps u => https_unique_path (bytes_of "ta/https") (bytes_of ".cer") u
       end.

Definition rrdp_repository_path (cache : bstr) (n : https_uri) : bstr :=
  push (store_base cache) (https_unique_path (bytes_of "rrdp") [] n).

Definition rsync_repository_path (cache : bstr) : bstr := push (store_base cache) (bytes_of "rsync").

(* format!("rsync/{}/{}/{}", canonical_authority, module_name, path); also dump_object without "rsync/" *)
Definition rsync_rel (u : rsync_uri) : bstr := lower (r_auth u) ++ SLASH :: r_mod u ++ SLASH :: r_path u.

(* Repository::point_path(manifest_uri) for a repository living at [repo_dir] *)
Definition point_path_in (repo_dir : bstr) (m : rsync_uri) : bstr :=
  push repo_dir (bytes_of "rsync/" ++ rsync_rel m).

(* Repository::new(store, rpki_notify).point_path(manifest_uri) *)
Definition point_path (cache : bstr) (repo : option https_uri) (m : rsync_uri) : bstr :=
  point_path_in (match repo with
                 | Some n => rrdp_repository_path cache n
                 | None => rsync_repository_path cache
                 end) m.

(* Store::dump_object(dir, uri, _) *)
Definition dump_object_path (dir : bstr) (u : rsync_uri) : bstr := push dir (rsync_rel u).

(* ---- src/collector/rsync.rs ---- *)
Definition rsync_wd (cache : bstr) : bstr := push cache (bytes_of "rsync").

(* WorkingDir::module_path(Module::from_uri(uri)): base.push(&module.0[8..]) *)
Definition module_path (cache : bstr) (u : rsync_uri) : bstr :=
  push (rsync_wd cache) (skipn 8 (canonical_module u)).

(* WorkingDir::uri_path: three pushes *)
Definition uri_path (cache : bstr) (u : rsync_uri) : bstr :=
  pushes (rsync_wd cache) [lower (r_auth u); r_mod u; r_path u].

(* ---- src/collector/rrdp/base.rs ---- *)
Definition rrdp_wd (cache : bstr) : bstr := push cache (bytes_of "rrdp").

(* Collector::repository_path: working_dir / canonical authority / hex(sha256(uri as written)) ".bin" *)
Definition archive_path (cache : bstr) (n : https_uri) : bstr :=
  pushes (rrdp_wd cache) [lower (h_auth n); hd (https_raw n) ++ bytes_of ".bin"].

End Paths.

(* ---- src/utils/dump.rs: DumpRegistry ---- *)

(* decimal rendering of i (format!("{authority}-{i}")) *)
Fixpoint dec_digits (fuel : nat) (i : N) (acc : bstr) : bstr :=
  match fuel with
  | O => acc
  | S f => let acc' := (48 + i mod 10) :: acc in
           if i <? 10 then acc' else dec_digits f (i / 10) acc'
  end.
Definition dec (i : N) : bstr := dec_digits 40 i [].

(* keys of rrdp_uris are uri::Https values: equal when authority (ignoring case) and path agree *)
Definition hkey (n : https_uri) : bstr * bstr := (lower (h_auth n), h_path n).
Definition hkey_eqb (a b : bstr * bstr) : bool := beqb (fst a) (fst b) && beqb (snd a) (snd b).

Record registry := { rrdp_uris : list ((bstr * bstr) * bstr);   (* uri -> directory name *)
                     rrdp_dirs : list bstr }.

(* DumpRegistry::new (after "fix: reserve the dump directory names that are not a plain new name"):
   the directory of the rsync repository and the names that are not a normal path component are
   marked as used from the start *)
Definition reserved : list bstr := [bytes_of "rsync"; []; [DOT]; [DOT; DOT]].
Definition reg_init : registry := {| rrdp_uris := []; rrdp_dirs := reserved |}.

Fixpoint reg_lookup (k : bstr * bstr) (l : list ((bstr * bstr) * bstr)) : option bstr :=
  match l with
  | [] => None
  | (k', v) :: r => if hkey_eqb k k' then Some v else reg_lookup k r
  end.

Definition dir_mem (d : bstr) (l : list bstr) : bool := existsb (beqb d) l.

(* the loop of make_path: first i >= 1 with "{authority}-{i}" unused ([fuel] candidates are tried) *)
Fixpoint first_free (fuel : nat) (auth : bstr) (i : N) (dirs : list bstr) : option bstr :=
  match fuel with
  | O => None
  | S f => let name := auth ++ 45 :: dec i in
           if dir_mem name dirs then first_free f auth (i + 1) dirs else Some name
  end.

(* DumpRegistry::make_path: returns the directory name and the new registry *)
Definition make_path (r : registry) (n : https_uri) : option (bstr * registry) :=
  let auth := lower (h_auth n) in
  let name := if dir_mem auth (rrdp_dirs r) then first_free (S (List.length (rrdp_dirs r))) auth 1 (rrdp_dirs r)
              else Some auth in
  match name with
  | Some d => Some (d, {| rrdp_uris := (hkey n, d) :: rrdp_uris r; rrdp_dirs := d :: rrdp_dirs r |})
  | None => None
  end.

(* DumpRegistry::get_repo_path(Some(uri)) / (None): path = base_dir.join(name) *)
Definition get_repo_name (r : registry) (n : option https_uri) : option (bstr * registry) :=
  match n with
  | None => Some (bytes_of "rsync", r)
  | Some n => match reg_lookup (hkey n) (rrdp_uris r) with
              | Some d => Some (d, r)
              | None => make_path r n
              end
  end.
