(* C30, dump part: DumpRegistry gives different repositories different directory names;
   files of a dump do not collide when the repository directories are plain names;
   witnesses for the collisions when they are not (authority "..", "rsync"). *)
From Coq Require Import List NArith Bool Lia String Arith PeanoNat.
From RV Require Import Base.PathModel Base.Sha256 C30.Model C30.Spec C30.Proofs.
Import ListNotations.
Local Open Scope N_scope.

Lemma hkey_eqb_eq : forall a b, hkey_eqb a b = true <-> a = b.
Proof.
  intros [a1 a2] [b1 b2]. unfold hkey_eqb. cbn [fst snd]. rewrite andb_true_iff, !beqb_eq.
  split; [intros [-> ->]; reflexivity | intros H; inversion H; auto].
Qed.

Lemma dir_mem_In : forall d l, dir_mem d l = true <-> In d l.
Proof.
  intros d l. unfold dir_mem. rewrite existsb_exists. split.
  - intros [x [Hx E]]. apply beqb_eq in E. subst. exact Hx.
  - intros H. exists d. split; [exact H | apply beqb_refl].
Qed.

Lemma first_free_fresh : forall fuel a i dirs d, first_free fuel a i dirs = Some d -> dir_mem d dirs = false.
Proof.
  induction fuel as [|f IH]; intros a i dirs d H; [discriminate|]. cbn [first_free] in H.
  destruct (dir_mem (a ++ 45 :: dec i) dirs) eqn:E; [eapply IH; exact H|]. inversion H; subst. exact E.
Qed.

(* every registered name is in the set of used names; a name belongs to one repository *)
Definition reg_ok (r : registry) : Prop :=
  (forall k d, In (k, d) (rrdp_uris r) -> In d (rrdp_dirs r)) /\
  (forall k1 k2 d, In (k1, d) (rrdp_uris r) -> In (k2, d) (rrdp_uris r) -> k1 = k2).

Lemma reg_empty_ok : reg_ok reg_empty.
Proof. split; intros; contradiction. Qed.

Lemma reg_lookup_in : forall k l d, reg_lookup k l = Some d -> In (k, d) l.
Proof.
  induction l as [|[k' v] l IH]; intros d H; [discriminate|]. cbn [reg_lookup] in H.
  destruct (hkey_eqb k k') eqn:E.
  - apply hkey_eqb_eq in E. inversion H; subst. left; reflexivity.
  - right. apply IH; exact H.
Qed.

Lemma make_path_ok : forall r n d r', reg_ok r -> make_path r n = Some (d, r') ->
  reg_ok r' /\ In (hkey n, d) (rrdp_uris r') /\ incl (rrdp_uris r) (rrdp_uris r').
Proof.
  intros r n d r' [O1 O2] H. unfold make_path in H.
  assert (Hfresh : forall x, (if dir_mem (lower (h_auth n)) (rrdp_dirs r)
                              then first_free (S (List.length (rrdp_dirs r))) (lower (h_auth n)) 1 (rrdp_dirs r)
                              else Some (lower (h_auth n))) = Some x -> ~ In x (rrdp_dirs r)).
  { intros x Hx Hin. apply dir_mem_In in Hin.
    destruct (dir_mem (lower (h_auth n)) (rrdp_dirs r)) eqn:E.
    - apply first_free_fresh in Hx. congruence.
    - inversion Hx; subst. congruence. }
  destruct (if dir_mem (lower (h_auth n)) (rrdp_dirs r) then _ else _) as [x|] eqn:Ex; [|discriminate].
  inversion H; subst. specialize (Hfresh d eq_refl). cbn [rrdp_uris rrdp_dirs]. repeat split.
  - intros k d' [E|Hin]; [inversion E; left; reflexivity | right; eapply O1; exact Hin].
  - intros k1 k2 d' [E1|H1] [E2|H2].
    + congruence.
    + inversion E1; subst. exfalso. apply Hfresh. eapply O1; exact H2.
    + inversion E2; subst. exfalso. apply Hfresh. eapply O1; exact H1.
    + eapply O2; eassumption.
  - left; reflexivity.
  - intros x Hx. right; exact Hx.
Qed.

Lemma get_repo_name_ok : forall r c d r', reg_ok r -> get_repo_name r c = Some (d, r') ->
  reg_ok r' /\ incl (rrdp_uris r) (rrdp_uris r') /\
  match c with Some n => In (hkey n, d) (rrdp_uris r') | None => d = bytes_of "rsync" end.
Proof.
  intros r c d r' Hok H. destruct c as [n|]; cbn [get_repo_name] in H.
  - destruct (reg_lookup (hkey n) (rrdp_uris r)) as [d0|] eqn:E.
    + inversion H; subst. split; [exact Hok|]. split; [intros x Hx; exact Hx|]. apply reg_lookup_in; exact E.
    + destruct (make_path_ok r n d r' Hok H) as [A [B C]]. auto.
  - inversion H; subst. split; [exact Hok|]. split; [intros x Hx; exact Hx | reflexivity].
Qed.

(* the names returned by a sequence of get_repo_path calls *)
Fixpoint name_run (r : registry) (calls : list (option https_uri)) : list (option bstr) :=
  match calls with
  | [] => []
  | c :: rest => match get_repo_name r c with
                 | Some (d, r') => Some d :: name_run r' rest
                 | None => None :: name_run r rest
                 end
  end.

Lemma dump_run_names : forall base calls r, dump_run base r calls = map (option_map (push base)) (name_run r calls).
Proof.
  induction calls as [|c calls IH]; intros r; [reflexivity|]. cbn [dump_run name_run].
  destruct (get_repo_name r c) as [[d r']|]; cbn [map option_map]; rewrite IH; reflexivity.
Qed.

Lemma reg_after_ok : forall calls r, reg_ok r ->
  reg_ok (reg_after r calls) /\ incl (rrdp_uris r) (rrdp_uris (reg_after r calls)).
Proof.
  induction calls as [|c calls IH]; intros r Hok; [split; [exact Hok | intros x Hx; exact Hx]|].
  cbn [reg_after]. destruct (get_repo_name r c) as [[d r']|] eqn:E.
  - destruct (get_repo_name_ok r c d r' Hok E) as [Hok' [Hincl _]].
    destruct (IH r' Hok') as [A B]. split; [exact A|]. intros x Hx. apply B, Hincl, Hx.
  - apply IH; exact Hok.
Qed.

Lemma name_run_in : forall calls r i n d, reg_ok r ->
  nth_error calls i = Some (Some n) -> nth_error (name_run r calls) i = Some (Some d) ->
  In (hkey n, d) (rrdp_uris (reg_after r calls)).
Proof.
  induction calls as [|c calls IH]; intros r i n d Hok Hc Hn; [destruct i; discriminate|].
  cbn [name_run reg_after] in *. destruct (get_repo_name r c) as [[d0 r']|] eqn:E.
  - destruct (get_repo_name_ok r c d0 r' Hok E) as [Hok' [Hincl Hin]].
    destruct i as [|i]; cbn [nth_error] in Hc, Hn.
    + inversion Hc; subst c. inversion Hn; subst d0. apply (reg_after_ok calls r' Hok'). exact Hin.
    + apply (IH r' i n d Hok' Hc Hn).
  - destruct i as [|i]; cbn [nth_error] in Hc, Hn; [discriminate|]. apply (IH r i n d Hok Hc Hn).
Qed.

(* different RRDP repositories never get the same directory name *)
Theorem registry_distinct : forall calls i j ni nj d,
  nth_error calls i = Some (Some ni) -> nth_error calls j = Some (Some nj) ->
  nth_error (name_run reg_empty calls) i = Some (Some d) ->
  nth_error (name_run reg_empty calls) j = Some (Some d) ->
  hkey ni = hkey nj.
Proof.
  intros calls i j ni nj d Hi Hj Ni Nj.
  pose proof (name_run_in calls reg_empty i ni d reg_empty_ok Hi Ni) as A.
  pose proof (name_run_in calls reg_empty j nj d reg_empty_ok Hj Nj) as B.
  destruct (reg_after_ok calls reg_empty reg_empty_ok) as [[_ O2] _]. eapply O2; eassumption.
Qed.

(* ---- files of a dump: <base>/<name>/authority/module/path ---- *)

Lemma tail_inj3 : forall (x y : list bstr) a b c a' b' c' B,
  x ++ a :: b :: c :: B = y ++ a' :: b' :: c' :: B -> x = y /\ a = a' /\ b = b' /\ c = c'.
Proof.
  intros x y a b c a' b' c' B H.
  change (x ++ a :: b :: c :: B) with (x ++ [a] ++ b :: c :: B) in H.
  change (y ++ a' :: b' :: c' :: B) with (y ++ [a'] ++ b' :: c' :: B) in H.
  rewrite !app_assoc in H. apply tail_inj in H. destruct H as [H [-> ->]].
  apply app_inj_tail in H. destruct H as [-> ->]. auto.
Qed.

Theorem dump_file_distinct : forall base d1 d2 u v,
  root_ok base -> normalb d1 = true -> memb SLASH d1 = false -> normalb d2 = true -> memb SLASH d2 = false ->
  rsync_wf u -> rsync_wf v ->
  fid (dump_object_path (push base d1) u) = fid (dump_object_path (push base d2) v) ->
  d1 = d2 /\ rsync_eqv u v.
Proof.
  intros base d1 d2 u v [sr Hr] N1 S1 N2 S2 Hu Hv H. unfold fid in H. inversion H as [[Hn Hd]].
  assert (Hdir : forall d, normalb d = true -> memb SLASH d = false ->
                 nstack [] (comps (push base d)) = Some (d :: sr)).
  { intros d Nd Sd. rewrite (comps_push_rel _ _ _ (no_slash_not_absolute _ Sd)), nstack_app, Hr, (comps_single _ Sd).
    apply (nstack_normal [d] sr). cbn [forallb]. rewrite Nd. reflexivity. }
  destruct (dump_object_nstack (push base d1) u (d1 :: sr) Hu (Hdir d1 N1 S1)) as [nsu [_ [Su Cu]]].
  destruct (dump_object_nstack (push base d2) v (d2 :: sr) Hv (Hdir d2 N2 S2)) as [nsv [_ [Sv Cv]]].
  pose proof (norm_eq_stack _ _ _ _ Su Sv Hn) as E.
  apply tail_inj3 in E. destruct E as [En [Em [Ea Ed]]]. apply rev_inj in En. subst nsv.
  split; [exact Ed|].
  unfold dump_object_path in Hd.
  rewrite !dirflag_push, !rsync_rel_dirflag in Hd by (try apply rsync_rel_not_absolute; assumption).
  unfold rsync_eqv. repeat split; try assumption. apply (path_from_shape _ _ nsu); assumption.
Qed.

(* ---- witnesses: what happens when a repository directory is not a plain name ---- *)

Definition U (s : string) : rsync_uri :=
  match rsync_parse (bytes_of s) with Some u => u | None => {| r_scheme := []; r_auth := []; r_mod := []; r_path := [] |} end.
Definition Hn (s : string) : https_uri :=
  match https_parse (bytes_of s) with Some n => n | None => {| h_scheme := []; h_auth := []; h_path := [] |} end.

(* authority "..": the directory of the repository is the parent of the dump's base, and the
   object rsync://store/m/a/b/c of that repository and the object rsync://a/b/c of the repository
   with authority "m" are written to the same file although the URIs are not equivalent *)
Theorem dump_refuted_dotdot :
  let base := bytes_of "/dump/store" in
  let calls := [Some (Hn "https://../n.xml"); Some (Hn "https://m/n.xml")] in
  name_run reg_empty calls = [Some (bytes_of ".."); Some (bytes_of "m")] /\
  fid (dump_object_path (push base (bytes_of "..")) (U "rsync://store/m/a/b/c"))
    = fid (dump_object_path (push base (bytes_of "m")) (U "rsync://a/b/c")) /\
  rsync_eqvb (U "rsync://store/m/a/b/c") (U "rsync://a/b/c") = false.
Proof. vm_compute. repeat split; reflexivity. Qed.

(* authority "rsync": the RRDP repository gets the directory of the rsync repository *)
Theorem dump_refuted_rsync :
  name_run reg_empty [None; Some (Hn "https://rsync/n.xml")] = [Some (bytes_of "rsync"); Some (bytes_of "rsync")].
Proof. vm_compute. reflexivity. Qed.
