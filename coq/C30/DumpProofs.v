(* C30, dump part: DumpRegistry gives different repositories different directory names, all of them
   plain names other than "rsync"; files of a dump do not collide when the repository directories are
   plain names; what happened before the names "rsync", "", "." and ".." were reserved. *)
From Coq Require Import List NArith Bool Lia String Arith PeanoNat.
From RV Require Import Base.PathModel Base.Sha256 C30.Model C30.Spec C30.Proofs.
Import ListNotations.
Local Open Scope N_scope.

Lemma hkey_eqb_eq : forall a b, hkey_eqb a b = true <-> a = b.
Proof.
  intros [a1 a2] [b1 b2]. unfold hkey_eqb. cbn [fst snd]. rewrite andb_true_iff, !beqb_eq.
  split; [intros [-> ->]; reflexivity | intros H; inversion H; auto].
Qed.

Lemma dir_mem_In : forall d l, dir_mem d l = true <-> In d l.
Proof.
  intros d l. unfold dir_mem. rewrite existsb_exists. split.
  - intros [x [Hx E]]. apply beqb_eq in E. subst. exact Hx.
  - intros H. exists d. split; [exact H | apply beqb_refl].
Qed.

Lemma first_free_fresh : forall fuel a i dirs d, first_free fuel a i dirs = Some d -> dir_mem d dirs = false.
Proof.
  induction fuel as [|f IH]; intros a i dirs d H; [discriminate|]. cbn [first_free] in H.
  destruct (dir_mem (a ++ 45 :: dec i) dirs) eqn:E; [eapply IH; exact H|]. inversion H; subst. exact E.
Qed.

(* every registered name is in the set of used names; a name belongs to one repository *)
Definition reg_ok (r : registry) : Prop :=
  (forall k d, In (k, d) (rrdp_uris r) -> In d (rrdp_dirs r)) /\
  (forall k1 k2 d, In (k1, d) (rrdp_uris r) -> In (k2, d) (rrdp_uris r) -> k1 = k2) /\
  (forall x, In x reserved -> In x (rrdp_dirs r)) /\
  (forall k d, In (k, d) (rrdp_uris r) -> ~ In d reserved).

Lemma reg_init_ok : reg_ok reg_init.
Proof. repeat split; cbn [reg_init rrdp_uris rrdp_dirs]; intros; try contradiction; assumption. Qed.

Lemma reg_lookup_in : forall k l d, reg_lookup k l = Some d -> In (k, d) l.
Proof.
  induction l as [|[k' v] l IH]; intros d H; [discriminate|]. cbn [reg_lookup] in H.
  destruct (hkey_eqb k k') eqn:E.
  - apply hkey_eqb_eq in E. inversion H; subst. left; reflexivity.
  - right. apply IH; exact H.
Qed.

Lemma make_path_ok : forall r n d r', reg_ok r -> make_path r n = Some (d, r') ->
  reg_ok r' /\ In (hkey n, d) (rrdp_uris r') /\ incl (rrdp_uris r) (rrdp_uris r').
Proof.
  intros r n d r' [O1 [O2 [O3 O4]]] H. unfold make_path in H.
  assert (Hfresh : forall x, (if dir_mem (lower (h_auth n)) (rrdp_dirs r)
                              then first_free (S (List.length (rrdp_dirs r))) (lower (h_auth n)) 1 (rrdp_dirs r)
                              else Some (lower (h_auth n))) = Some x -> ~ In x (rrdp_dirs r)).
  { intros x Hx Hin. apply dir_mem_In in Hin.
    destruct (dir_mem (lower (h_auth n)) (rrdp_dirs r)) eqn:E.
    - apply first_free_fresh in Hx. congruence.
    - inversion Hx; subst. congruence. }
  destruct (if dir_mem (lower (h_auth n)) (rrdp_dirs r) then _ else _) as [x|] eqn:Ex; [|discriminate].
  inversion H; subst. specialize (Hfresh d eq_refl). cbn [rrdp_uris rrdp_dirs]. repeat split.
  - intros k d' [E|Hin]; [inversion E; left; reflexivity | right; eapply O1; exact Hin].
  - intros k1 k2 d' [E1|H1] [E2|H2].
    + congruence.
    + inversion E1; subst. exfalso. apply Hfresh. eapply O1; exact H2.
    + inversion E2; subst. exfalso. apply Hfresh. eapply O1; exact H1.
    + eapply O2; eassumption.
  - intros x Hx. right. apply O3; exact Hx.
  - intros k d' [E|Hin] Hr; [inversion E; subst; apply Hfresh, O3, Hr | exact (O4 k d' Hin Hr)].
  - left; reflexivity.
  - intros x Hx. right; exact Hx.
Qed.

Lemma get_repo_name_ok : forall r c d r', reg_ok r -> get_repo_name r c = Some (d, r') ->
  reg_ok r' /\ incl (rrdp_uris r) (rrdp_uris r') /\
  match c with Some n => In (hkey n, d) (rrdp_uris r') | None => d = bytes_of "rsync" end.
Proof.
  intros r c d r' Hok H. destruct c as [n|]; cbn [get_repo_name] in H.
  - destruct (reg_lookup (hkey n) (rrdp_uris r)) as [d0|] eqn:E.
    + inversion H; subst. split; [exact Hok|]. split; [intros x Hx; exact Hx|]. apply reg_lookup_in; exact E.
    + destruct (make_path_ok r n d r' Hok H) as [A [B C]]. auto.
  - inversion H; subst. split; [exact Hok|]. split; [intros x Hx; exact Hx | reflexivity].
Qed.

(* the names returned by a sequence of get_repo_path calls *)
Fixpoint name_run (r : registry) (calls : list (option https_uri)) : list (option bstr) :=
  match calls with
  | [] => []
  | c :: rest => match get_repo_name r c with
                 | Some (d, r') => Some d :: name_run r' rest
                 | None => None :: name_run r rest
                 end
  end.

Lemma dump_run_names : forall base calls r, dump_run base r calls = map (option_map (push base)) (name_run r calls).
Proof.
  induction calls as [|c calls IH]; intros r; [reflexivity|]. cbn [dump_run name_run].
  destruct (get_repo_name r c) as [[d r']|]; cbn [map option_map]; rewrite IH; reflexivity.
Qed.

Lemma reg_after_ok : forall calls r, reg_ok r ->
  reg_ok (reg_after r calls) /\ incl (rrdp_uris r) (rrdp_uris (reg_after r calls)).
Proof.
  induction calls as [|c calls IH]; intros r Hok; [split; [exact Hok | intros x Hx; exact Hx]|].
  cbn [reg_after]. destruct (get_repo_name r c) as [[d r']|] eqn:E.
  - destruct (get_repo_name_ok r c d r' Hok E) as [Hok' [Hincl _]].
    destruct (IH r' Hok') as [A B]. split; [exact A|]. intros x Hx. apply B, Hincl, Hx.
  - apply IH; exact Hok.
Qed.

Lemma name_run_in : forall calls r i n d, reg_ok r ->
  nth_error calls i = Some (Some n) -> nth_error (name_run r calls) i = Some (Some d) ->
  In (hkey n, d) (rrdp_uris (reg_after r calls)).
Proof.
  induction calls as [|c calls IH]; intros r i n d Hok Hc Hn; [destruct i; discriminate|].
  cbn [name_run reg_after] in *. destruct (get_repo_name r c) as [[d0 r']|] eqn:E.
  - destruct (get_repo_name_ok r c d0 r' Hok E) as [Hok' [Hincl Hin]].
    destruct i as [|i]; cbn [nth_error] in Hc, Hn.
    + inversion Hc; subst c. inversion Hn; subst d0. apply (reg_after_ok calls r' Hok'). exact Hin.
    + apply (IH r' i n d Hok' Hc Hn).
  - destruct i as [|i]; cbn [nth_error] in Hc, Hn; [discriminate|]. apply (IH r i n d Hok Hc Hn).
Qed.

(* different RRDP repositories never get the same directory name *)
Theorem registry_distinct : forall calls i j ni nj d,
  nth_error calls i = Some (Some ni) -> nth_error calls j = Some (Some nj) ->
  nth_error (name_run reg_init calls) i = Some (Some d) ->
  nth_error (name_run reg_init calls) j = Some (Some d) ->
  hkey ni = hkey nj.
Proof.
  intros calls i j ni nj d Hi Hj Ni Nj.
  pose proof (name_run_in calls reg_init i ni d reg_init_ok Hi Ni) as A.
  pose proof (name_run_in calls reg_init j nj d reg_init_ok Hj Nj) as B.
  destruct (reg_after_ok calls reg_init reg_init_ok) as [[_ [O2 _]] _]. eapply O2; eassumption.
Qed.

(* every directory name handed out for an RRDP repository is a plain new name: a normal path component
   (not "", "." or "..") other than "rsync", the directory of the rsync repository *)
Theorem registry_names_plain : forall calls i n d,
  nth_error calls i = Some (Some n) -> nth_error (name_run reg_init calls) i = Some (Some d) ->
  normalb d = true /\ d <> bytes_of "rsync".
Proof.
  intros calls i n d Hi Ni.
  pose proof (name_run_in calls reg_init i n d reg_init_ok Hi Ni) as A.
  destruct (reg_after_ok calls reg_init reg_init_ok) as [[_ [_ [_ O4]]] _].
  pose proof (O4 _ _ A) as NR. unfold reserved in NR. cbn [In] in NR. split.
  - destruct d as [|c t]; [exfalso; apply NR; right; left; reflexivity|]. cbn [normalb].
    destruct (beqb (c :: t) [DOT]) eqn:E1; [apply beqb_eq in E1; exfalso; apply NR; right; right; left; symmetry; exact E1|].
    destruct (beqb (c :: t) [DOT; DOT]) eqn:E2; [apply beqb_eq in E2; exfalso; apply NR; right; right; right; left; symmetry; exact E2|].
    reflexivity.
  - intros E. apply NR. left. symmetry. exact E.
Qed.

(* ... and contains no separator when the authority contains none (what the URI parser guarantees) *)
Lemma dec_digits_no_slash : forall fuel i acc, memb SLASH acc = false -> memb SLASH (dec_digits fuel i acc) = false.
Proof.
  induction fuel as [|f IH]; intros i acc Ha; [exact Ha|]. cbn [dec_digits].
  assert (memb SLASH ((48 + i mod 10) :: acc) = false) as H1.
  { unfold memb in *. cbn [existsb]. rewrite Ha, orb_false_r. apply N.eqb_neq. unfold SLASH.
    generalize (i mod 10). intros m. lia. }
  destruct (i <? 10); [exact H1|apply IH; exact H1].
Qed.

Lemma first_free_no_slash : forall fuel a i dirs d, memb SLASH a = false ->
  first_free fuel a i dirs = Some d -> memb SLASH d = false.
Proof.
  induction fuel as [|f IH]; intros a i dirs d Ha H; [discriminate|]. cbn [first_free] in H.
  destruct (dir_mem (a ++ 45 :: dec i) dirs); [eapply IH; eassumption|]. inversion H; subst.
  rewrite memb_app, Ha. cbn [orb]. change (45 :: dec i) with ([45] ++ dec i). rewrite memb_app.
  unfold dec. rewrite dec_digits_no_slash by reflexivity. reflexivity.
Qed.

Definition uris_no_slash (r : registry) : Prop := forall k d, In (k, d) (rrdp_uris r) -> memb SLASH d = false.

Lemma get_repo_name_no_slash : forall r c d r', uris_no_slash r ->
  match c with Some n => memb SLASH (h_auth n) = false | None => True end ->
  get_repo_name r c = Some (d, r') -> uris_no_slash r' /\ memb SLASH d = false.
Proof.
  intros r c d r' U Hc H. destruct c as [n|]; cbn [get_repo_name] in H.
  - destruct (reg_lookup (hkey n) (rrdp_uris r)) as [d0|] eqn:E.
    + inversion H; subst. split; [exact U|]. apply reg_lookup_in in E. exact (U _ _ E).
    + unfold make_path in H.
      assert (memb SLASH (lower (h_auth n)) = false) as Ha by (rewrite memb_slash_lower; exact Hc).
      destruct (if dir_mem (lower (h_auth n)) (rrdp_dirs r) then _ else _) as [x|] eqn:Ex; [|discriminate].
      inversion H; subst. assert (memb SLASH d = false) as Hd.
      { destruct (dir_mem (lower (h_auth n)) (rrdp_dirs r)).
        - eapply first_free_no_slash; eassumption.
        - inversion Ex; subst. exact Ha. }
      split; [|exact Hd]. intros k d' [E1|Hin]; [inversion E1; subst; exact Hd | exact (U _ _ Hin)].
  - inversion H; subst. split; [exact U|reflexivity].
Qed.

Theorem registry_names_no_slash : forall calls r i d, uris_no_slash r ->
  Forall (fun c => match c with Some n => memb SLASH (h_auth n) = false | None => True end) calls ->
  nth_error (name_run r calls) i = Some (Some d) -> memb SLASH d = false.
Proof.
  induction calls as [|c calls IH]; intros r i d U F Hn; [destruct i; discriminate|].
  inversion F as [|? ? Hc F']; subst. cbn [name_run] in Hn.
  destruct (get_repo_name r c) as [[d0 r']|] eqn:E.
  - destruct (get_repo_name_no_slash r c d0 r' U Hc E) as [U' Hd].
    destruct i as [|i]; cbn [nth_error] in Hn; [inversion Hn; subst; exact Hd | exact (IH r' i d U' F' Hn)].
  - destruct i as [|i]; cbn [nth_error] in Hn; [discriminate | exact (IH r i d U F' Hn)].
Qed.

(* ---- files of a dump: <base>/<name>/authority/module/path ---- *)

Lemma tail_inj3 : forall (x y : list bstr) a b c a' b' c' B,
  x ++ a :: b :: c :: B = y ++ a' :: b' :: c' :: B -> x = y /\ a = a' /\ b = b' /\ c = c'.
Proof.
  intros x y a b c a' b' c' B H.
  change (x ++ a :: b :: c :: B) with (x ++ [a] ++ b :: c :: B) in H.
  change (y ++ a' :: b' :: c' :: B) with (y ++ [a'] ++ b' :: c' :: B) in H.
  rewrite !app_assoc in H. apply tail_inj in H. destruct H as [H [-> ->]].
  apply app_inj_tail in H. destruct H as [-> ->]. auto.
Qed.

Theorem dump_file_distinct : forall base d1 d2 u v,
  root_ok base -> normalb d1 = true -> memb SLASH d1 = false -> normalb d2 = true -> memb SLASH d2 = false ->
  rsync_wf u -> rsync_wf v ->
  fid (dump_object_path (push base d1) u) = fid (dump_object_path (push base d2) v) ->
  d1 = d2 /\ rsync_eqv u v.
Proof.
  intros base d1 d2 u v [sr Hr] N1 S1 N2 S2 Hu Hv H. unfold fid in H. inversion H as [[Hn Hd]].
  assert (Hdir : forall d, normalb d = true -> memb SLASH d = false ->
                 nstack [] (comps (push base d)) = Some (d :: sr)).
  { intros d Nd Sd. rewrite (comps_push_rel _ _ _ (no_slash_not_absolute _ Sd)), nstack_app, Hr, (comps_single _ Sd).
    apply (nstack_normal [d] sr). cbn [forallb]. rewrite Nd. reflexivity. }
  destruct (dump_object_nstack (push base d1) u (d1 :: sr) Hu (Hdir d1 N1 S1)) as [nsu [_ [Su Cu]]].
  destruct (dump_object_nstack (push base d2) v (d2 :: sr) Hv (Hdir d2 N2 S2)) as [nsv [_ [Sv Cv]]].
  pose proof (norm_eq_stack _ _ _ _ Su Sv Hn) as E.
  apply tail_inj3 in E. destruct E as [En [Em [Ea Ed]]]. apply rev_inj in En. subst nsv.
  split; [exact Ed|].
  unfold dump_object_path in Hd.
  rewrite !dirflag_push, !rsync_rel_dirflag in Hd by (try apply rsync_rel_not_absolute; assumption).
  unfold rsync_eqv. repeat split; try assumption. apply (path_from_shape _ _ nsu); assumption.
Qed.

(* ---- witnesses: what happens when a repository directory is not a plain name ---- *)

Definition U (s : string) : rsync_uri :=
  match rsync_parse (bytes_of s) with Some u => u | None => {| r_scheme := []; r_auth := []; r_mod := []; r_path := [] |} end.
Definition Hn (s : string) : https_uri :=
  match https_parse (bytes_of s) with Some n => n | None => {| h_scheme := []; h_auth := []; h_path := [] |} end.

(* authority "..": the directory of the repository is the parent of the dump's base, and the
   object rsync://store/m/a/b/c of that repository and the object rsync://a/b/c of the repository
   with authority "m" are written to the same file although the URIs are not equivalent *)
Definition reg_unreserved : registry := {| rrdp_uris := []; rrdp_dirs := [] |}.   (* DumpRegistry::new before the fix *)

Theorem dump_refuted_dotdot :
  let base := bytes_of "/dump/store" in
  let calls := [Some (Hn "https://../n.xml"); Some (Hn "https://m/n.xml")] in
  name_run reg_unreserved calls = [Some (bytes_of ".."); Some (bytes_of "m")] /\
  name_run reg_init calls = [Some (bytes_of "..-1"); Some (bytes_of "m")] /\
  fid (dump_object_path (push base (bytes_of "..")) (U "rsync://store/m/a/b/c"))
    = fid (dump_object_path (push base (bytes_of "m")) (U "rsync://a/b/c")) /\
  rsync_eqvb (U "rsync://store/m/a/b/c") (U "rsync://a/b/c") = false.
Proof. vm_compute. repeat split; reflexivity. Qed.

(* authority "rsync": the RRDP repository gets the directory of the rsync repository *)
Theorem dump_refuted_rsync :
  name_run reg_unreserved [None; Some (Hn "https://rsync/n.xml")] = [Some (bytes_of "rsync"); Some (bytes_of "rsync")] /\
  name_run reg_init [None; Some (Hn "https://rsync/n.xml")] = [Some (bytes_of "rsync"); Some (bytes_of "rsync-1")].
Proof. vm_compute. split; reflexivity. Qed.
