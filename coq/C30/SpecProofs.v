(* C30: the executable oracle (Spec.spec_okb) holds of the model's paths on every input,
   provided the SHA-256 digests of the inputs that occur do not collide. *)
From Coq Require Import List NArith Bool Lia String Arith PeanoNat.
From RV Require Import Base.PathModel Base.Sha256 C30.Model C30.Spec C30.Proofs.
Import ListNotations.
Local Open Scope N_scope.

(* everything that gets hashed for the URIs of a case *)
Definition digest_inputs (rs hs : list bstr) : list bstr :=
  flat_map (fun r => match rsync_parse r with Some u => [rsync_digest_input u] | None => [] end) rs
  ++ flat_map (fun h => match https_parse h with Some n => [https_digest_input n; https_raw n] | None => [] end) hs.

Definition no_collision (rs hs : list bstr) : Prop :=
  forall x y, In x (digest_inputs rs hs) -> In y (digest_inputs rs hs) -> sha256_hex x = sha256_hex y -> x = y.

Lemma combine_map_same : forall (A B C : Type) (f : A -> B) (g : A -> C) l,
  combine (map f l) (map g l) = map (fun x => (f x, g x)) l.
Proof. induction l as [|x l IH]; [reflexivity|]. cbn [map combine]. rewrite IH. reflexivity. Qed.

Section Case.
Variables (cache : bstr) (rs hs : list bstr).
Let hd := sha256_hex.

Definition from_rs (u : rsync_uri) : Prop := exists r, In r rs /\ rsync_parse r = Some u.
Definition from_hs (n : https_uri) : Prop := exists h, In h hs /\ https_parse h = Some n.
Definition from_repo (ro : option https_uri) : Prop := match ro with Some n => from_hs n | None => True end.

(* the forms an entry of the model's list can have *)
Inductive eform : label -> bstr -> Prop :=
| EF_tar u : from_rs u -> eform (LTaRsync (rkey u)) (ta_path hd cache (TalRsync u))
| EF_mod u : from_rs u -> eform (LModule [lower (r_auth u); r_mod u]) (module_path cache u)
| EF_file u : from_rs u -> eform (LFile (rkey u)) (uri_path cache u)
| EF_point ro u : from_rs u -> from_repo ro ->
    eform (LPoint (option_map hkeyl ro) (rkey u)) (point_path hd cache ro u)
| EF_tah n : from_hs n -> eform (LTaHttps (hkeyl n)) (ta_path hd cache (TalHttps n))
| EF_repo n : from_hs n -> eform (LRepo (hkeyl n)) (rrdp_repository_path hd cache n)
| EF_arch n : from_hs n -> eform (LArchive (hkeyl n)) (archive_path hd cache n).

Lemma entries_form : forall l p, In (Some (l, p)) (entries cache rs hs) -> eform l p.
Proof.
  intros l p H. unfold entries, model_all in H. cbn [fst] in H.
  apply in_app_or in H. destruct H as [H|H].
  - apply in_flat_map in H. destruct H as [x [Hx H]].
    apply in_map_iff in Hx. destruct Hx as [r [Hr Hin]].
    destruct (rsync_parse r) as [u|] eqn:Ep.
    2:{ subst x. apply repeat_spec in H. discriminate. }
    subst x. assert (Fu : from_rs u) by (exists r; auto).
    apply in_app_or in H. destruct H as [H|H].
    + cbn [In] in H. destruct H as [H|[H|[H|[H|[]]]]]; inversion H; subst.
      * apply EF_tar; exact Fu.
      * apply EF_mod; exact Fu.
      * apply EF_file; exact Fu.
      * apply (EF_point None u Fu I).
    + apply in_map_iff in H. destruct H as [y [Hy Hyin]].
      apply in_map_iff in Hyin. destruct Hyin as [h [Hh Hhin]].
      destruct (https_parse h) as [n|] eqn:Eh; subst y; [|discriminate].
      inversion Hy; subst. apply (EF_point (Some n) u Fu). exists h; auto.
  - apply in_flat_map in H. destruct H as [y [Hyin H]].
    apply in_map_iff in Hyin. destruct Hyin as [h [Hh Hhin]].
    destruct (https_parse h) as [n|] eqn:Eh; subst y.
    + assert (Fn : from_hs n) by (exists h; auto).
      cbn [In] in H. destruct H as [H|[H|[H|[]]]]; inversion H; subst.
      * apply EF_tah; exact Fn.
      * apply EF_repo; exact Fn.
      * apply EF_arch; exact Fn.
    + cbn [In] in H. destruct H as [H|[H|[H|[]]]]; discriminate.
Qed.

Definition Dom (x : bstr) : Prop := In x (digest_inputs rs hs).

Lemma from_rs_wf : forall u, from_rs u -> rsync_wf u /\ Dom (rsync_digest_input u).
Proof.
  intros u [r [Hin Hp]]. split; [eapply rsync_parse_wf; exact Hp|].
  unfold Dom, digest_inputs. apply in_or_app. left. apply in_flat_map. exists r. split; [exact Hin|].
  rewrite Hp. left; reflexivity.
Qed.

Lemma from_hs_wf : forall n, from_hs n -> https_wf n /\ Dom (https_digest_input n) /\ Dom (https_raw n).
Proof.
  intros n [h [Hin Hp]]. split; [eapply https_parse_wf; exact Hp|].
  unfold Dom, digest_inputs. split; apply in_or_app; right; apply in_flat_map; exists h; (split; [exact Hin|]);
    rewrite Hp; [left | right; left]; reflexivity.
Qed.

Lemma from_repo_wf : forall ro, from_repo ro -> repo_wf Dom ro.
Proof. intros [n|] H; cbn [repo_wf from_repo] in *; [|exact I]. destruct (from_hs_wf n H) as [? [? ?]]. auto. Qed.

Hypothesis Hroot : root_ok cache.
Hypothesis Hnc : no_collision rs hs.

Lemma Hinj : forall x y, Dom x -> Dom y -> hd x = hd y -> x = y.
Proof. exact Hnc. Qed.

Lemma eform_under : forall l p, eform l p -> under cache p.
Proof.
  intros l p H. destruct H as [u F|u F|u F|ro u F Fr|n F|n F|n F].
  - apply ta_path_confined; [apply sha256_hex_shape | apply (from_rs_wf u F) | exact Hroot].
  - apply module_path_confined; [apply (from_rs_wf u F) | exact Hroot].
  - apply uri_path_confined; [apply (from_rs_wf u F) | exact Hroot].
  - apply (point_path_confined hd Dom sha256_hex_shape); [apply from_repo_wf; exact Fr | apply (from_rs_wf u F) | exact Hroot].
  - apply ta_path_confined; [apply sha256_hex_shape | apply (from_hs_wf n F) | exact Hroot].
  - apply repo_path_confined; [apply sha256_hex_shape | apply (from_hs_wf n F) | exact Hroot].
  - apply archive_path_confined; [apply sha256_hex_shape | apply (from_hs_wf n F) | exact Hroot].
Qed.

Lemma rkey_eqv : forall u v, rsync_eqv u v -> lbeqb (rkey u) (rkey v) = true.
Proof. intros u v (H1 & H2 & H3). apply lbeqb_eq. unfold rkey. congruence. Qed.

Lemma hkeyl_eqv : forall n m, https_eqv n m -> lbeqb (hkeyl n) (hkeyl m) = true.
Proof. intros n m (H1 & H2). apply lbeqb_eq. unfold hkeyl. congruence. Qed.

Lemma eform_distinct : forall l1 p1 l2 p2, eform l1 p1 -> eform l2 p2 -> fid p1 = fid p2 ->
  same_family l1 l2 = true -> share_ok l1 l2 = true.
Proof.
  intros l1 p1 l2 p2 H1 H2 Hf Hs.
  assert (Hn : norm p1 = norm p2) by (unfold fid in Hf; congruence).
  destruct H1 as [u F|u F|u F|ro u F Fr|n F|n F|n F];
    destruct H2 as [v G|v G|v G|so v G Gr|m G|m G|m G]; cbn [same_family] in Hs; try discriminate; cbn [share_ok].
  - destruct (from_rs_wf u F) as [Wu Du], (from_rs_wf v G) as [Wv Dv].
    apply rkey_eqv.
    apply (ta_path_distinct hd Dom Hinj sha256_hex_shape cache (TalRsync u) (TalRsync v)); assumption.
  - destruct (from_rs_wf u F) as [Wu Du], (from_rs_wf v G) as [Wv Dv].
    destruct (module_path_distinct cache u v Wu Wv Hroot Hn) as [E1 E2]. apply lbeqb_eq. congruence.
  - destruct (from_rs_wf u F) as [Wu Du], (from_rs_wf v G) as [Wv Dv].
    apply rkey_eqv. apply (uri_path_distinct cache u v Wu Wv Hroot Hf).
  - destruct (from_rs_wf u F) as [Wu Du], (from_rs_wf v G) as [Wv Dv].
    destruct (point_path_distinct hd Dom Hinj sha256_hex_shape cache ro u so v
                (from_repo_wf ro Fr) (from_repo_wf so Gr) Wu Wv Hroot Hf) as [Er Em].
    rewrite (rkey_eqv u v Em), andb_true_r.
    destruct ro as [n|], so as [m|]; cbn [repo_eqv option_map olbeqb] in *; try contradiction; [|reflexivity].
    apply hkeyl_eqv; exact Er.
  - destruct (from_hs_wf n F) as [Wn [Dn _]], (from_hs_wf m G) as [Wm [Dm _]].
    apply hkeyl_eqv.
    apply (ta_path_distinct hd Dom Hinj sha256_hex_shape cache (TalHttps n) (TalHttps m)); assumption.
  - destruct (from_hs_wf n F) as [Wn [Dn _]], (from_hs_wf m G) as [Wm [Dm _]].
    apply hkeyl_eqv. apply (repo_path_distinct hd Dom Hinj sha256_hex_shape cache n m); assumption.
  - destruct (from_hs_wf n F) as [Wn [_ Dn]], (from_hs_wf m G) as [Wm [_ Dm]].
    apply hkeyl_eqv. apply (archive_path_distinct hd Dom Hinj sha256_hex_shape cache n m); assumption.
Qed.

Lemma fid_eqb_eq : forall p q, fid_eqb (fid p) (fid q) = true -> fid p = fid q.
Proof.
  intros p q H. unfold fid_eqb, fid in *. cbn [fst snd] in H.
  destruct (norm p) as [x|], (norm q) as [y|]; try discriminate.
  apply andb_true_iff in H. destruct H as [H1 H2]. apply lbeqb_eq in H1. apply Bool.eqb_prop in H2. congruence.
Qed.

Lemma entries_fid_model :
  entries_fid (labels_model cache rs hs) (paths_model cache rs hs)
  = flat_map (fun e => match e with Some (l, p) => [(l, fid p)] | None => [] end) (entries cache rs hs).
Proof.
  unfold entries_fid, labels_model, labels_of, paths_model. rewrite combine_map_same.
  induction (entries cache rs hs) as [|e es IH]; [reflexivity|].
  cbn [map flat_map]. rewrite IH. destruct e as [[l p]|]; reflexivity.
Qed.

Lemma in_entries_fid : forall l f,
  In (l, f) (entries_fid (labels_model cache rs hs) (paths_model cache rs hs)) ->
  exists p, f = fid p /\ eform l p.
Proof.
  intros l f H. rewrite entries_fid_model in H. apply in_flat_map in H. destruct H as [e [He H]].
  destruct e as [[l' p]|]; [|contradiction]. cbn [In] in H. destruct H as [H|[]]. inversion H; subst.
  exists p. split; [reflexivity | apply entries_form; exact He].
Qed.

Theorem model_paths_satisfy_spec :
  confined_okb cache (paths_model cache rs hs) = true /\
  distinct_okb (labels_model cache rs hs) (paths_model cache rs hs) = true /\
  List.length (paths_model cache rs hs) = List.length (labels_model cache rs hs).
Proof.
  split; [|split].
  - unfold confined_okb. apply forallb_forall. intros x Hx. destruct x as [p|]; [|reflexivity].
    unfold paths_model in Hx. apply in_map_iff in Hx. destruct Hx as [e [He Hin]].
    destruct e as [[l q]|]; [|discriminate]. cbn [option_map snd] in He. inversion He; subst q.
    apply under_underb. apply (eform_under l p). apply entries_form; exact Hin.
  - unfold distinct_okb. apply forallb_forall. intros [l1 f1] H1. apply forallb_forall. intros [l2 f2] H2.
    cbn [fst snd].
    destruct (fid_eqb f1 f2 && same_family l1 l2) eqn:E; [|reflexivity].
    apply andb_true_iff in E. destruct E as [E1 E2].
    destruct (in_entries_fid l1 f1 H1) as [p1 [-> F1]]. destruct (in_entries_fid l2 f2 H2) as [p2 [-> F2]].
    apply (eform_distinct l1 p1 l2 p2 F1 F2 (fid_eqb_eq _ _ E1) E2).
  - unfold paths_model, labels_model, labels_of. rewrite !map_length. reflexivity.
Qed.

End Case.

Lemma cache_okb_root : forall cache, cache_okb cache = true -> root_ok cache.
Proof.
  intros cache H. unfold cache_okb in H. apply andb_true_iff in H. destruct H as [H _].
  apply andb_true_iff in H. destruct H as [_ H]. unfold norm in H.
  destruct (nstack [] (comps cache)) as [sr|] eqn:E; [exists sr; exact E | discriminate].
Qed.

(* the oracle evaluated on the implementation's paths holds of the model's paths for every input *)
Theorem model_satisfies_spec : forall cache rs hs tf dn df dt,
  cache_okb cache = true -> no_collision rs hs ->
  spec_okb {| c_cache := cache; c_rs := rs; c_hs := hs; c_paths := paths_model cache rs hs;
              c_tafiles := tf; c_dumpnames := dn; c_dumpfiles := df; c_dumptree := dt |} = true.
Proof.
  intros cache rs hs tf dn df dt Hc Hn. unfold spec_okb, spec_with.
  cbn [c_cache c_rs c_hs c_paths].
  destruct (model_paths_satisfy_spec cache rs hs (cache_okb_root cache Hc) Hn) as [H1 [H2 H3]].
  rewrite H1, H2, H3, Nat.eqb_refl. reflexivity.
Qed.
