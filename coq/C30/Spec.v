(* C30: the property as an executable oracle over the paths produced for a set of URIs,
   and the case checker of the correspondence run.  No proofs. *)
From Coq Require Import List NArith Bool String.
From RV Require Export Base.PathModel Base.Sha256 C30.Model.
Import ListNotations.
Local Open Scope N_scope.

(* what a path names: its lexical resolution plus whether it ends in a separator.  A path with a
   trailing separator can only resolve to a directory (POSIX pathname resolution), so it never
   names the regular file that the same path without the separator names. *)
Definition dirflag (p : bstr) : bool := match last (comps p) [DOT] with [] => true | _ => false end.
Definition fid (p : bstr) : option (list bstr) * bool := (norm p, dirflag p).

Fixpoint lbeqb (a b : list bstr) : bool :=
  match a, b with
  | [], [] => true
  | x :: a', y :: b' => beqb x y && lbeqb a' b'
  | _, _ => false
  end.

Definition fid_eqb (a b : option (list bstr) * bool) : bool :=
  match fst a, fst b with
  | Some x, Some y => lbeqb x y && Bool.eqb (snd a) (snd b)
  | _, _ => false
  end.

(* on whose behalf a path is used; URIs up to equivalence (scheme and authority case-insensitive) *)
Inductive label :=
| LTaRsync (k : list bstr) | LTaHttps (k : list bstr)
| LModule (k : list bstr)                      (* rsync module directory: authority, module *)
| LFile (k : list bstr)                        (* rsync collector copy of an object *)
| LPoint (repo : option (list bstr)) (k : list bstr)   (* stored publication point *)
| LRepo (k : list bstr)                        (* directory of a stored RRDP repository *)
| LArchive (k : list bstr).                    (* RRDP collector archive *)

Definition rkey (u : rsync_uri) : list bstr := [lower (r_auth u); r_mod u; r_path u].
Definition hkeyl (n : https_uri) : list bstr := [lower (h_auth n); h_path n].

Definition olbeqb (a b : option (list bstr)) : bool :=
  match a, b with
  | Some x, Some y => lbeqb x y
  | None, None => true
  | _, _ => false
  end.

Definition same_family (a b : label) : bool :=
  match a, b with
  | LTaRsync _, LTaRsync _ | LTaHttps _, LTaHttps _ | LModule _, LModule _ | LFile _, LFile _
  | LRepo _, LRepo _ | LArchive _, LArchive _ | LPoint _ _, LPoint _ _ => true
  | _, _ => false
  end.

(* two uses of the same kind may name the same file only for equivalent URIs
   (module directories: URIs of the same module) *)
Definition share_ok (a b : label) : bool :=
  match a, b with
  | LTaRsync x, LTaRsync y | LTaHttps x, LTaHttps y | LModule x, LModule y | LFile x, LFile y
  | LRepo x, LRepo y | LArchive x, LArchive y => lbeqb x y
  | LPoint r x, LPoint s y => olbeqb r s && lbeqb x y
  | _, _ => false
  end.

(* uses of different kinds never name the same file, except, by construction, the rsync module
   directory and the collector copy of the module URI itself (empty path) *)
Definition cross_ok (a b : label) : bool :=
  match a, b with
  | LModule x, LFile y | LFile y, LModule x => lbeqb (x ++ [[]]) y
  | _, _ => false
  end.

Section Instance.
Let hd := sha256_hex.

(* where update_ta puts the file, relative to the cache directory *)
Definition rel_of (cache p : bstr) : option bstr :=
  match norm cache, norm p with
  | Some r, Some q => if underb cache p then Some (join_with SLASH (skipn (List.length r) q)) else None
  | _, _ => None
  end.

(* all paths for the rsync URIs [rs] and HTTPS URIs [hs] (raw bytes), in a fixed order, with labels;
   second component: where the trust anchor files of the URIs end up (rsync URIs first).
   (The stored RRDP repository directory of each HTTPS URI is computed once and shared.) *)
Definition model_all (cache : bstr) (rs hs : list bstr)
  : list (option (label * bstr)) * list (option bstr) :=
  let hrecs := map (fun h => match https_parse h with
                             | Some n => Some (n, ta_path hd cache (TalHttps n), rrdp_repository_path hd cache n)
                             | None => None end) hs in
  let rrecs := map (fun r => match rsync_parse r with
                             | Some u => Some (u, ta_path hd cache (TalRsync u))
                             | None => None end) rs in
  (flat_map (fun r =>
     match r with
     | None => repeat None (4 + List.length hs)
     | Some (u, ta) =>
         [Some (LTaRsync (rkey u), ta);
          Some (LModule [lower (r_auth u); r_mod u], module_path cache u);
          Some (LFile (rkey u), uri_path cache u);
          Some (LPoint None (rkey u), point_path hd cache None u)]
         ++ map (fun h => match h with
                          | Some (n, _, repo) => Some (LPoint (Some (hkeyl n)) (rkey u), point_path_in repo u)
                          | None => None
                          end) hrecs
     end) rrecs
   ++ flat_map (fun h =>
     match h with
     | None => [None; None; None]
     | Some (n, ta, repo) => [Some (LTaHttps (hkeyl n), ta); Some (LRepo (hkeyl n), repo);
                              Some (LArchive (hkeyl n), archive_path hd cache n)]
     end) hrecs,
   map (fun r => match r with Some (_, ta) => rel_of cache ta | None => None end) rrecs
   ++ map (fun h => match h with Some (_, ta, _) => rel_of cache ta | None => None end) hrecs).

Definition entries (cache : bstr) (rs hs : list bstr) : list (option (label * bstr)) :=
  fst (model_all cache rs hs).
Definition paths_model (cache : bstr) (rs hs : list bstr) : list (option bstr) :=
  map (option_map snd) (entries cache rs hs).
Definition tafiles_model (cache : bstr) (rs hs : list bstr) : list (option bstr) :=
  snd (model_all cache rs hs).

(* where dump_object puts the file, relative to the dump directory; File::create fails for a
   path with a trailing separator *)
Definition dumpfiles_model (dir : bstr) (rs : list bstr) : list (option bstr) :=
  map (fun r => match rsync_parse r with
                | Some u => let p := dump_object_path dir u in if dirflag p then None else rel_of dir p
                | None => None end) rs.

End Instance.

(* a sequence of DumpRegistry::get_repo_path calls: every valid HTTPS URI, then None, then the
   URIs again in reverse order; the returned paths *)
Definition dump_calls (hs : list bstr) : list (option https_uri) :=
  let v := flat_map (fun h => match https_parse h with Some n => [Some n] | None => [] end) hs in
  v ++ [None] ++ rev v.

Fixpoint dump_run (base : bstr) (r : registry) (calls : list (option https_uri)) : list (option bstr) :=
  match calls with
  | [] => []
  | c :: rest => match get_repo_name r c with
                 | Some (d, r') => Some (push base d) :: dump_run base r' rest
                 | None => None :: dump_run base r rest
                 end
  end.

Definition dumpnames_model (base : bstr) (hs : list bstr) : list (option bstr) :=
  dump_run base reg_init (dump_calls hs).

(* ---- the oracle ---- *)

(* every path stays below the cache directory *)
Definition confined_okb (cache : bstr) (ps : list (option bstr)) : bool :=
  forallb (fun p => match p with Some p => underb cache p | None => true end) ps.

(* two uses of the same kind name the same file only if share_ok *)
Definition entries_fid (ls : list (option label)) (ps : list (option bstr)) :=
  flat_map (fun x => match x with (Some l, Some p) => [(l, fid p)] | _ => [] end) (combine ls ps).

Definition distinct_okb (ls : list (option label)) (ps : list (option bstr)) : bool :=
  let es := entries_fid ls ps in
  forallb (fun a => forallb (fun b =>
    if fid_eqb (snd a) (snd b) && same_family (fst a) (fst b) then share_ok (fst a) (fst b) else true) es) es.

(* uses of different kinds: checked on the implementation's paths, not covered by a theorem *)
Definition cross_okb (ls : list (option label)) (ps : list (option bstr)) : bool :=
  let es := entries_fid ls ps in
  forallb (fun a => forallb (fun b =>
    if fid_eqb (snd a) (snd b) && negb (same_family (fst a) (fst b)) then cross_ok (fst a) (fst b) else true) es) es.

(* registry names: different repositories (the rsync repository included) get different
   directories, all below the dump directory *)
Definition call_eqb (a b : option https_uri) : bool :=
  match a, b with
  | Some x, Some y => hkey_eqb (hkey x) (hkey y)
  | None, None => true
  | _, _ => false
  end.

Definition dump_okb (dumpdir : bstr) (hs : list bstr) (names : list (option bstr)) : bool :=
  let calls := dump_calls hs in
  let es := flat_map (fun x => match x with (c, Some p) => [(c, fid p)] | _ => [] end) (combine calls names) in
  forallb (fun a => forallb (fun b => if fid_eqb (snd a) (snd b) then call_eqb (fst a) (fst b) else true) es) es
  && forallb (fun p => match p with Some p => underb dumpdir p | None => true end) names.

(* ---- a dump tree: the rsync repository and the first two RRDP repositories of the case, every
   rsync URI written into each of them (Store::dump_point: get_repo_path, then dump_object) ---- *)

Definition dump_repos (hs : list bstr) : list (option https_uri) :=
  None :: map Some (firstn 2 (flat_map (fun h => match https_parse h with Some n => [n] | None => [] end) hs)).

(* directory of each repository after the registry calls of [dump_calls] *)
Fixpoint reg_after (r : registry) (calls : list (option https_uri)) : registry :=
  match calls with
  | [] => r
  | c :: rest => match get_repo_name r c with
                 | Some (_, r') => reg_after r' rest
                 | None => reg_after r rest
                 end
  end.

Definition dump_dirs (base : bstr) (hs : list bstr) : list (option https_uri * option bstr) :=
  let r := reg_after reg_init (dump_calls hs) in
  map (fun c => (c, match get_repo_name r c with Some (d, _) => Some (push base d) | None => None end)) (dump_repos hs).

(* every write: (repository, rsync URI, path), in the order the harness performs them *)
Definition dump_writes (base : bstr) (rs hs : list bstr) : list (option https_uri * rsync_uri * bstr) :=
  flat_map (fun cd => match snd cd with
                      | Some dir => flat_map (fun r => match rsync_parse r with
                                                       | Some u => [(fst cd, u, dump_object_path dir u)]
                                                       | None => [] end) rs
                      | None => [] end) (dump_dirs base hs).

(* a small file system for the writes: a write fails if the path has a trailing separator
   (File::create), if a parent is an existing file (create_dir_all) or if the target is an existing
   directory; otherwise it replaces what was at the same resolved path.  Files are kept as
   (index of the write, resolved components). *)
Fixpoint strict_prefixb (a b : list bstr) : bool :=
  match a, b with
  | [], _ :: _ => true
  | x :: a', y :: b' => beqb x y && strict_prefixb a' b'
  | _, _ => false
  end.

Fixpoint dump_fs (files : list (nat * list bstr)) (idx : nat)
                 (ws : list (option https_uri * rsync_uri * bstr)) : list (nat * list bstr) :=
  match ws with
  | [] => files
  | (_, _, p) :: rest =>
      let files' :=
        match norm p with
        | None => files
        | Some c =>
            if dirflag p then files
            else if existsb (fun f => strict_prefixb (snd f) c || strict_prefixb c (snd f)) files then files
            else (idx, c) :: filter (fun f => negb (lbeqb (snd f) c)) files
        end in
      dump_fs files' (S idx) rest
  end.

(* where the content of each write is found afterwards, relative to the dump directory *)
Definition dump_tree (dumpdir : bstr) (ws : list (option https_uri * rsync_uri * bstr)) : list (option bstr) :=
  let files := dump_fs [] 0 ws in
  let depth := match norm dumpdir with Some r => List.length r | None => O end in
  map (fun i => match find (fun f => Nat.eqb (fst f) i) files with
                | Some (_, c) => Some (join_with SLASH (skipn depth c))
                | None => None
                end) (seq 0 (List.length ws)).

Definition rsync_eqvb (u v : rsync_uri) : bool := lbeqb (rkey u) (rkey v).

(* two writes go to the same file only for the same repository and equivalent URIs *)
Definition dump_tree_okb (ws : list (option https_uri * rsync_uri * bstr)) : bool :=
  forallb (fun a => forallb (fun b =>
    if fid_eqb (fid (snd a)) (fid (snd b))
    then call_eqb (fst (fst a)) (fst (fst b)) && rsync_eqvb (snd (fst a)) (snd (fst b)) else true) ws) ws.

Record case := { c_cache : bstr; c_rs : list bstr; c_hs : list bstr;
                 c_paths : list (option bstr);       (* hooks: the path builders, order of [entries] *)
                 c_tafiles : list (option bstr);     (* public Store Run::update_ta, file found on disk *)
                 c_dumpnames : list (option bstr);   (* public DumpRegistry::get_repo_path *)
                 c_dumpfiles : list (option bstr);   (* hook Store::dump_object, file found on disk *)
                 c_dumptree : list (option bstr) }.  (* registry + dump_object into one tree, files found *)

Definition labels_of (es : list (option (label * bstr))) : list (option label) := map (option_map fst) es.
Definition labels_model (cache : bstr) (rs hs : list bstr) : list (option label) :=
  labels_of (entries cache rs hs).

Definition dump_base (cache : bstr) : bstr := push (push cache (bytes_of "dump")) (bytes_of "store").

(* the property on the implementation's paths; [ls] = what each path is used for *)
Definition spec_with (ls : list (option label)) (c : case) : bool :=
  confined_okb (c_cache c) (c_paths c)
  && distinct_okb ls (c_paths c)
  && Nat.eqb (List.length (c_paths c)) (List.length ls).

Definition spec_okb (c : case) : bool :=
  spec_with (labels_model (c_cache c) (c_rs c) (c_hs c)) c.

Fixpoint olist_eqb (a b : list (option bstr)) : bool :=
  match a, b with
  | [], [] => true
  | x :: a', y :: b' => match x, y with
                        | Some p, Some q => beqb p q
                        | None, None => true
                        | _, _ => false
                        end && olist_eqb a' b'
  | _, _ => false
  end.

Definition bytes_okb (s : bstr) : bool := forallb (fun c => c <? 256) s.

(* the cache directory of a case: absolute, resolvable *)
Definition cache_okb (cache : bstr) : bool :=
  is_absolute cache && match norm cache with Some _ => true | None => false end
  && negb (ends_with_slash cache).

(* 0 agree + property; 1 property holds on the implementation's paths but the model differs;
   2 property fails on the implementation's paths (spec_okb, or two uses of different kinds share a
   file: cross_okb; or a dump directory is shared between repositories or lies outside the dump
   directory - judged on the names the implementation returned -; or two dump writes share a file);
   9 precondition *)
Definition check_case (c : case) : N :=
  if negb (cache_okb (c_cache c) && forallb bytes_okb (c_rs c) && forallb bytes_okb (c_hs c)) then 9
  else
    let m := model_all (c_cache c) (c_rs c) (c_hs c) in
    if negb (spec_with (labels_of (fst m)) c) then 2
    else if negb (cross_okb (labels_of (fst m)) (c_paths c)) then 2
    else
      let ws := dump_writes (dump_base (c_cache c)) (c_rs c) (c_hs c) in
      let agree :=
        olist_eqb (map (option_map snd) (fst m)) (c_paths c)
        && olist_eqb (snd m) (c_tafiles c)
        && olist_eqb (dumpnames_model (dump_base (c_cache c)) (c_hs c)) (c_dumpnames c)
        && olist_eqb (dumpfiles_model (push (c_cache c) (bytes_of "dumpobj")) (c_rs c)) (c_dumpfiles c)
        && olist_eqb (dump_tree (push (c_cache c) (bytes_of "dump")) ws) (c_dumptree c) in
      (* the registry oracle judges the names the implementation returned; the dump tree oracle is
         evaluated on paths the model computes and counts only if the implementation produced
         exactly these paths *)
      if negb (dump_okb (push (c_cache c) (bytes_of "dump")) (c_hs c) (c_dumpnames c)) then 2
      else if negb agree then 1
      else if dump_tree_okb ws then 0 else 2.
