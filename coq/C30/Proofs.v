(* C30: lemmas about the path builders: shape of parsed URIs, components of the built
   paths, confinement below the cache directory, distinctness. *)
From Coq Require Import List NArith Bool Lia String Arith PeanoNat.
From RV Require Import Base.PathModel Base.Sha256 C30.Model C30.Spec.
Import ListNotations.
Local Open Scope N_scope.

(* ------------------------------------------------------------------ *)
(* what the rpki parsers guarantee *)

Definition rsync_wf (u : rsync_uri) : Prop :=
  List.length (r_scheme u) = 8%nat /\
  memb SLASH (r_auth u) = false /\ normalb (r_auth u) = true /\
  memb SLASH (r_mod u) = false /\ normalb (r_mod u) = true /\
  check_path_items (comps (r_path u)) = true.

Definition https_wf (n : https_uri) : Prop :=
  List.length (h_scheme n) = 8%nat /\ memb SLASH (h_auth n) = false /\
  (h_path n = [] \/ exists p, h_path n = SLASH :: p).

Lemma comps_single : forall a, memb SLASH a = false -> comps a = [a].
Proof. intros; apply split_on_single; assumption. Qed.

Lemma comps_app_sep : forall a b, comps (a ++ SLASH :: b) = comps a ++ comps b.
Proof. intros; apply split_on_app_sep. Qed.

Lemma check_path_items_cons : forall c cs, c <> [] -> check_path_items (c :: cs) = true ->
  normalb c = true /\ check_path_items cs = true.
Proof.
  intros c cs Hc H. destruct c as [|c0 c']; [congruence|]. cbn [check_path_items] in H.
  destruct (beqb (c0 :: c') [DOT; DOT]) eqn:E1; [discriminate|].
  destruct (beqb (c0 :: c') [DOT]) eqn:E2; [discriminate|]. cbn [orb] in H.
  split; [|exact H]. cbn [normalb]. rewrite E1, E2. reflexivity.
Qed.

Lemma starts_with_length : forall s e, starts_with_ignore_case s e = true -> (List.length e <= List.length s)%nat.
Proof.
  intros s e H. unfold starts_with_ignore_case in H. apply andb_true_iff in H. destruct H as [H _].
  apply Nat.leb_le in H. exact H.
Qed.

Lemma rsync_parse_wf : forall s u, rsync_parse s = Some u -> rsync_wf u.
Proof.
  intros s u H. unfold rsync_parse in H.
  destruct (check_uri_ascii s); cbn [negb] in H; [|discriminate].
  destruct (starts_with_ignore_case s (bytes_of "rsync://")) eqn:Es; cbn [negb] in H; [|discriminate].
  destruct (check_path (skipn 8 s)) eqn:Ec; cbn [negb] in H; [|discriminate].
  destruct (cut_at SLASH (skipn 8 s)) as [a [t1|]] eqn:E1; [|discriminate].
  destruct a as [|a0 a']; [discriminate|].
  destruct (cut_at SLASH t1) as [m [p|]] eqn:E2; [|discriminate].
  destruct m as [|m0 m']; [discriminate|].
  inversion H; subst u; clear H. unfold rsync_wf; cbn [r_scheme r_auth r_mod r_path].
  destruct (cut_at_some _ _ _ _ E1) as [Ht Ha]. destruct (cut_at_some _ _ _ _ E2) as [Ht1 Hm].
  unfold check_path in Ec. fold (comps (skipn 8 s)) in Ec.
  rewrite Ht, comps_app_sep, (comps_single _ Ha), Ht1, comps_app_sep, (comps_single _ Hm) in Ec.
  cbn [app] in Ec.
  assert (Hna : a0 :: a' <> []) by discriminate. assert (Hnm : m0 :: m' <> []) by discriminate.
  destruct (check_path_items_cons _ _ Hna Ec) as [Na Ec'].
  destruct (check_path_items_cons _ _ Hnm Ec') as [Nm Ep].
  repeat split; try assumption.
  apply starts_with_length in Es. rewrite firstn_length. cbn [List.length bytes_of] in *.
  change (List.length (bytes_of "rsync://")) with 8%nat in Es. lia.
Qed.

Lemma https_parse_wf : forall s n, https_parse s = Some n -> https_wf n.
Proof.
  intros s n H. unfold https_parse in H.
  destruct (check_uri_ascii s); cbn [negb] in H; [|discriminate].
  destruct (starts_with_ignore_case s (bytes_of "https://")) eqn:Es; cbn [negb] in H; [|discriminate].
  assert (Hl : List.length (firstn 8 s) = 8%nat).
  { apply starts_with_length in Es. rewrite firstn_length.
    change (List.length (bytes_of "https://")) with 8%nat in Es. lia. }
  destruct (cut_at SLASH (skipn 8 s)) as [a [p|]] eqn:E1; inversion H; subst n; clear H;
    unfold https_wf; cbn [h_scheme h_auth h_path].
  - destruct (cut_at_some _ _ _ _ E1) as [_ Ha]. repeat split; try assumption. right; eexists; reflexivity.
  - destruct (cut_at_none _ _ _ E1) as [Hs Ha]. subst a. repeat split; try assumption. left; reflexivity.
Qed.

(* ------------------------------------------------------------------ *)
(* lower-casing keeps what matters for paths *)

Lemma memb_slash_lower : forall a, memb SLASH (lower a) = memb SLASH a.
Proof. intros; apply memb_lower_nonletter; reflexivity. Qed.

Lemma normalb_lower : forall a, normalb a = true -> normalb (lower a) = true.
Proof.
  intros a H. destruct a as [|c a']; [discriminate|]. cbn [lower map normalb].
  fold (lower a'). change (lower_c c :: lower a') with (lower (c :: a')).
  cbn [normalb] in H. apply andb_true_iff in H. destruct H as [H1 H2].
  apply negb_true_iff in H1, H2. apply andb_true_iff; split; apply negb_true_iff.
  - destruct (beqb_spec (lower (c :: a')) [DOT]) as [E|]; [|reflexivity].
    apply lower_nonletters in E; [|reflexivity]. rewrite E in H1. discriminate.
  - destruct (beqb_spec (lower (c :: a')) [DOT; DOT]) as [E|]; [|reflexivity].
    apply lower_nonletters in E; [|reflexivity]. rewrite E in H2. discriminate.
Qed.

Lemma lower_no_upper : forall a, has_upper a = false -> lower a = a.
Proof.
  induction a as [|c a IH]; intros H; [reflexivity|].
  unfold has_upper in H; cbn [existsb] in H. apply orb_false_iff in H. destruct H as [H1 H2].
  cbn [lower map]. unfold lower_c. rewrite H1. f_equal. apply IH; exact H2.
Qed.

Lemma skipn_app_exact : forall (a b : bstr) n, List.length a = n -> skipn n (a ++ b) = b.
Proof. intros a b n H. subst n. induction a; [reflexivity|]. cbn [List.length skipn app]. exact IHa. Qed.

Lemma canonical_module_tail : forall u, rsync_wf u ->
  skipn 8 (canonical_module u) = lower (r_auth u) ++ SLASH :: r_mod u ++ [SLASH].
Proof.
  intros u [Hl _]. unfold canonical_module. destruct (has_upper (r_auth u)) eqn:E.
  - apply skipn_app_exact. reflexivity.
  - rewrite (lower_no_upper _ E). apply skipn_app_exact. exact Hl.
Qed.

(* ------------------------------------------------------------------ *)
(* rsync paths: components *)

(* the components of a checked path: normal ones, possibly followed by one empty *)
Lemma cpi_shape : forall cs, check_path_items cs = true -> cs <> [] ->
  exists ns, forallb normalb ns = true /\
    ((cs = ns /\ last cs [DOT] <> []) \/ cs = ns ++ [[]]).
Proof.
  induction cs as [|c cs IH]; intros H Hne; [congruence|].
  destruct c as [|c0 c'].
  - cbn [check_path_items] in H. destruct cs; [|discriminate].
    exists []. split; [reflexivity|]. right; reflexivity.
  - assert (Hnc : c0 :: c' <> []) by discriminate.
    destruct (check_path_items_cons _ _ Hnc H) as [Nc Hcs].
    destruct cs as [|d cs'].
    + exists [c0 :: c']. split; [cbn [forallb]; rewrite Nc; reflexivity|].
      left. split; [reflexivity | cbn [last]; discriminate].
    + assert (Hnd : d :: cs' <> []) by discriminate.
      destruct (IH Hcs Hnd) as [ns [Hns [[E Hl]|E]]].
      * exists ((c0 :: c') :: ns). split; [cbn [forallb]; rewrite Nc, Hns; reflexivity|].
        left. split; [rewrite E; reflexivity|]. rewrite <- E in *. exact Hl.
      * exists ((c0 :: c') :: ns). split; [cbn [forallb]; rewrite Nc, Hns; reflexivity|].
        right. rewrite E. reflexivity.
Qed.

Lemma cpi_nstack : forall cs st, check_path_items cs = true -> cs <> [] ->
  exists ns, forallb normalb ns = true /\ nstack st cs = Some (rev ns ++ st) /\
    ((cs = ns /\ last cs [DOT] <> []) \/ cs = ns ++ [[]]).
Proof.
  intros cs st H Hne. destruct (cpi_shape cs H Hne) as [ns [Hns Hc]].
  exists ns. split; [exact Hns|]. split; [|exact Hc].
  destruct Hc as [[E _]|E]; rewrite E.
  - apply nstack_normal; exact Hns.
  - rewrite nstack_app, (nstack_normal _ _ Hns). reflexivity.
Qed.

Lemma comps_nonempty : forall s, comps s <> [].
Proof. intros; apply split_on_nonempty. Qed.

Lemma cpi_not_absolute : forall p, check_path_items (comps p) = true -> is_absolute p = false.
Proof.
  intros [|c t] H; [reflexivity|]. cbn [is_absolute]. destruct (N.eqb_spec c SLASH) as [->|]; [|reflexivity].
  exfalso. change (SLASH :: t) with ([] ++ SLASH :: t) in H. rewrite comps_app_sep in H.
  cbn [comps split_on app check_path_items] in H. fold (comps t) in H.
  pose proof (comps_nonempty t). destruct (comps t); [congruence | discriminate].
Qed.

Lemma no_slash_not_absolute : forall a, memb SLASH a = false -> is_absolute a = false.
Proof.
  intros [|c t] H; [reflexivity|]. cbn [is_absolute]. unfold memb in H; cbn [existsb] in H.
  apply orb_false_iff in H. destruct H as [H _]. rewrite N.eqb_sym. exact H.
Qed.

(* the fixed directory names *)
Definition C_stored := bytes_of "stored".
Definition C_rsync := bytes_of "rsync".
Definition C_rrdp := bytes_of "rrdp".
Definition C_ta := bytes_of "ta".
Definition C_https := bytes_of "https".

(* components of  lower(authority) / module / path  *)
Lemma rsync_rel_comps : forall u, rsync_wf u ->
  comps (rsync_rel u) = [lower (r_auth u); r_mod u] ++ comps (r_path u).
Proof.
  intros u (_ & Ha & _ & Hm & _ & _). unfold rsync_rel.
  rewrite comps_app_sep, comps_app_sep, (comps_single (lower (r_auth u))), (comps_single _ Hm); [reflexivity|].
  rewrite memb_slash_lower; exact Ha.
Qed.

Lemma rsync_rel_not_absolute : forall u, rsync_wf u -> is_absolute (rsync_rel u) = false.
Proof.
  intros u (_ & Ha & Na & _). unfold rsync_rel.
  destruct (lower (r_auth u)) as [|c t] eqn:E.
  - apply normalb_lower in Na. rewrite E in Na. discriminate.
  - cbn [app is_absolute]. assert (H : memb SLASH (c :: t) = false) by (rewrite <- E, memb_slash_lower; exact Ha).
    unfold memb in H; cbn [existsb] in H. apply orb_false_iff in H. destruct H as [H _].
    rewrite N.eqb_sym. exact H.
Qed.

(* resolution of  fixed... / authority / module / path...  on any stack *)
Lemma rsync_tail_nstack : forall u st, rsync_wf u ->
  exists ns, forallb normalb ns = true /\
    nstack st ([lower (r_auth u); r_mod u] ++ comps (r_path u)) = Some (rev ns ++ r_mod u :: lower (r_auth u) :: st) /\
    ((comps (r_path u) = ns /\ last (comps (r_path u)) [DOT] <> []) \/ comps (r_path u) = ns ++ [[]]).
Proof.
  intros u st (Hl & Ha & Na & Hm & Nm & Hp).
  destruct (cpi_nstack (comps (r_path u)) (r_mod u :: lower (r_auth u) :: st) Hp (comps_nonempty _))
    as [ns [Hns [Hst Hc]]].
  exists ns. split; [exact Hns|]. split; [|exact Hc].
  rewrite nstack_app. rewrite (nstack_normal [lower (r_auth u); r_mod u] st).
  - cbn [rev app]. exact Hst.
  - cbn [forallb]. rewrite (normalb_lower _ Na), Nm. reflexivity.
Qed.
