(* C30: lemmas about the path builders: shape of parsed URIs, components of the built
   paths, confinement below the cache directory, distinctness. *)
From Coq Require Import List NArith Bool Lia String Arith PeanoNat.
From RV Require Import Base.PathModel Base.Sha256 C30.Model C30.Spec.
Import ListNotations.
Local Open Scope N_scope.

(* ------------------------------------------------------------------ *)
(* what the rpki parsers guarantee *)

Definition rsync_wf (u : rsync_uri) : Prop :=
  List.length (r_scheme u) = 8%nat /\
  memb SLASH (r_auth u) = false /\ normalb (r_auth u) = true /\
  memb SLASH (r_mod u) = false /\ normalb (r_mod u) = true /\
  check_path_items (comps (r_path u)) = true.

Definition https_wf (n : https_uri) : Prop :=
  List.length (h_scheme n) = 8%nat /\ memb SLASH (h_auth n) = false /\
  (h_path n = [] \/ exists p, h_path n = SLASH :: p).

Lemma comps_single : forall a, memb SLASH a = false -> comps a = [a].
Proof. intros; apply split_on_single; assumption. Qed.

Lemma comps_app_sep : forall a b, comps (a ++ SLASH :: b) = comps a ++ comps b.
Proof. intros; apply split_on_app_sep. Qed.

Lemma check_path_items_cons : forall c cs, c <> [] -> check_path_items (c :: cs) = true ->
  normalb c = true /\ check_path_items cs = true.
Proof.
  intros c cs Hc H. destruct c as [|c0 c']; [congruence|]. cbn [check_path_items] in H.
  destruct (beqb (c0 :: c') [DOT; DOT]) eqn:E1; [discriminate|].
  destruct (beqb (c0 :: c') [DOT]) eqn:E2; [discriminate|]. cbn [orb] in H.
  split; [|exact H]. cbn [normalb]. rewrite E1, E2. reflexivity.
Qed.

Lemma starts_with_length : forall s e, starts_with_ignore_case s e = true -> (List.length e <= List.length s)%nat.
Proof.
  intros s e H. unfold starts_with_ignore_case in H. apply andb_true_iff in H. destruct H as [H _].
  apply Nat.leb_le in H. exact H.
Qed.

Lemma rsync_parse_wf : forall s u, rsync_parse s = Some u -> rsync_wf u.
Proof.
  intros s u H. unfold rsync_parse in H.
  destruct (check_uri_ascii s); cbn [negb] in H; [|discriminate].
  destruct (starts_with_ignore_case s (bytes_of "rsync://")) eqn:Es; cbn [negb] in H; [|discriminate].
  destruct (check_path (skipn 8 s)) eqn:Ec; cbn [negb] in H; [|discriminate].
  assert (Hl : List.length (firstn 8 s) = 8%nat).
  { apply starts_with_length in Es. rewrite firstn_length.
    change (List.length (bytes_of "rsync://")) with 8%nat in Es. lia. }
  destruct (cut_at SLASH (skipn 8 s)) as [a [t1|]] eqn:E1; [|discriminate].
  destruct a as [|a0 a']; [discriminate|].
  destruct (cut_at SLASH t1) as [m [p|]] eqn:E2; [|discriminate].
  destruct m as [|m0 m']; [discriminate|].
  inversion H; subst u; clear H. unfold rsync_wf; cbn [r_scheme r_auth r_mod r_path].
  destruct (cut_at_some _ _ _ _ E1) as [Ht Ha]. destruct (cut_at_some _ _ _ _ E2) as [Ht1 Hm].
  unfold check_path in Ec. fold (comps (skipn 8 s)) in Ec.
  rewrite Ht, comps_app_sep, (comps_single _ Ha), Ht1, comps_app_sep, (comps_single _ Hm) in Ec.
  cbn [app] in Ec.
  assert (Hna : a0 :: a' <> []) by discriminate. assert (Hnm : m0 :: m' <> []) by discriminate.
  destruct (check_path_items_cons _ _ Hna Ec) as [Na Ec'].
  destruct (check_path_items_cons _ _ Hnm Ec') as [Nm Ep].
  repeat split; assumption.
Qed.

Lemma https_parse_wf : forall s n, https_parse s = Some n -> https_wf n.
Proof.
  intros s n H. unfold https_parse in H.
  destruct (check_uri_ascii s); cbn [negb] in H; [|discriminate].
  destruct (starts_with_ignore_case s (bytes_of "https://")) eqn:Es; cbn [negb] in H; [|discriminate].
  assert (Hl : List.length (firstn 8 s) = 8%nat).
  { apply starts_with_length in Es. rewrite firstn_length.
    change (List.length (bytes_of "https://")) with 8%nat in Es. lia. }
  destruct (cut_at SLASH (skipn 8 s)) as [a [p|]] eqn:E1; inversion H; subst n; clear H;
    unfold https_wf; cbn [h_scheme h_auth h_path].
  - destruct (cut_at_some _ _ _ _ E1) as [_ Ha]. repeat split; try assumption. right; eexists; reflexivity.
  - destruct (cut_at_none _ _ _ E1) as [Hs Ha]. subst a. repeat split; try assumption. left; reflexivity.
Qed.

(* ------------------------------------------------------------------ *)
(* lower-casing keeps what matters for paths *)

Lemma memb_slash_lower : forall a, memb SLASH (lower a) = memb SLASH a.
Proof. intros; apply memb_lower_nonletter; reflexivity. Qed.

Lemma normalb_lower : forall a, normalb a = true -> normalb (lower a) = true.
Proof.
  intros a H. destruct a as [|c a']; [discriminate|]. cbn [lower map normalb].
  fold (lower a'). change (lower_c c :: lower a') with (lower (c :: a')).
  cbn [normalb] in H. apply andb_true_iff in H. destruct H as [H1 H2].
  apply negb_true_iff in H1, H2. apply andb_true_iff; split; apply negb_true_iff.
  - destruct (beqb_spec (lower (c :: a')) [DOT]) as [E|]; [|reflexivity].
    apply lower_nonletters in E; [|reflexivity]. rewrite E in H1. discriminate.
  - destruct (beqb_spec (lower (c :: a')) [DOT; DOT]) as [E|]; [|reflexivity].
    apply lower_nonletters in E; [|reflexivity]. rewrite E in H2. discriminate.
Qed.

Lemma lower_no_upper : forall a, has_upper a = false -> lower a = a.
Proof.
  induction a as [|c a IH]; intros H; [reflexivity|].
  unfold has_upper in H; cbn [existsb] in H. apply orb_false_iff in H. destruct H as [H1 H2].
  cbn [lower map]. unfold lower_c. rewrite H1. f_equal. apply IH; exact H2.
Qed.

Lemma skipn_app_exact : forall (a b : bstr) n, List.length a = n -> skipn n (a ++ b) = b.
Proof. intros a b n H. subst n. induction a; [reflexivity|]. cbn [List.length skipn app]. exact IHa. Qed.

Lemma canonical_module_tail : forall u, rsync_wf u ->
  skipn 8 (canonical_module u) = lower (r_auth u) ++ SLASH :: r_mod u ++ [SLASH].
Proof.
  intros u [Hl _]. unfold canonical_module. destruct (has_upper (r_auth u)) eqn:E.
  - apply skipn_app_exact. reflexivity.
  - rewrite (lower_no_upper _ E). apply skipn_app_exact. exact Hl.
Qed.

(* ------------------------------------------------------------------ *)
(* rsync paths: components *)

(* the components of a checked path: normal ones, possibly followed by one empty *)
Lemma cpi_shape : forall cs, check_path_items cs = true -> cs <> [] ->
  exists ns, forallb normalb ns = true /\
    ((cs = ns /\ last cs [DOT] <> []) \/ cs = ns ++ [[]]).
Proof.
  induction cs as [|c cs IH]; intros H Hne; [congruence|].
  destruct c as [|c0 c'].
  - cbn [check_path_items] in H. destruct cs; [|discriminate].
    exists []. split; [reflexivity|]. right; reflexivity.
  - assert (Hnc : c0 :: c' <> []) by discriminate.
    destruct (check_path_items_cons _ _ Hnc H) as [Nc Hcs].
    destruct cs as [|d cs'].
    + exists [c0 :: c']. split; [cbn [forallb]; rewrite Nc; reflexivity|].
      left. split; [reflexivity | cbn [last]; discriminate].
    + assert (Hnd : d :: cs' <> []) by discriminate.
      destruct (IH Hcs Hnd) as [ns [Hns [[E Hl]|E]]].
      * exists ((c0 :: c') :: ns). split; [cbn [forallb]; rewrite Nc, Hns; reflexivity|].
        left. split; [rewrite E; reflexivity|]. rewrite <- E in *. exact Hl.
      * exists ((c0 :: c') :: ns). split; [cbn [forallb]; rewrite Nc, Hns; reflexivity|].
        right. rewrite E. reflexivity.
Qed.

Lemma cpi_nstack : forall cs st, check_path_items cs = true -> cs <> [] ->
  exists ns, forallb normalb ns = true /\ nstack st cs = Some (rev ns ++ st) /\
    ((cs = ns /\ last cs [DOT] <> []) \/ cs = ns ++ [[]]).
Proof.
  intros cs st H Hne. destruct (cpi_shape cs H Hne) as [ns [Hns Hc]].
  exists ns. split; [exact Hns|]. split; [|exact Hc].
  destruct Hc as [[E _]|E]; rewrite E.
  - apply nstack_normal; exact Hns.
  - rewrite nstack_app, (nstack_normal _ _ Hns). reflexivity.
Qed.

Lemma comps_nonempty : forall s, comps s <> [].
Proof. intros; apply split_on_nonempty. Qed.

Lemma cpi_not_absolute : forall p, check_path_items (comps p) = true -> is_absolute p = false.
Proof.
  intros [|c t] H; [reflexivity|]. cbn [is_absolute]. destruct (N.eqb_spec c SLASH) as [->|]; [|reflexivity].
  exfalso. change (SLASH :: t) with ([] ++ SLASH :: t) in H. rewrite comps_app_sep in H.
  cbn [comps split_on app check_path_items] in H. fold (comps t) in H.
  pose proof (comps_nonempty t). destruct (comps t); [congruence | discriminate].
Qed.

Lemma no_slash_not_absolute : forall a, memb SLASH a = false -> is_absolute a = false.
Proof.
  intros [|c t] H; [reflexivity|]. cbn [is_absolute]. unfold memb in H; cbn [existsb] in H.
  apply orb_false_iff in H. destruct H as [H _]. rewrite N.eqb_sym. exact H.
Qed.

(* the fixed directory names *)
Definition C_stored := bytes_of "stored".
Definition C_rsync := bytes_of "rsync".
Definition C_rrdp := bytes_of "rrdp".
Definition C_ta := bytes_of "ta".
Definition C_https := bytes_of "https".

(* components of  lower(authority) / module / path  *)
Lemma rsync_rel_comps : forall u, rsync_wf u ->
  comps (rsync_rel u) = [lower (r_auth u); r_mod u] ++ comps (r_path u).
Proof.
  intros u (_ & Ha & _ & Hm & _ & _). unfold rsync_rel.
  rewrite comps_app_sep, comps_app_sep, (comps_single (lower (r_auth u))), (comps_single _ Hm); [reflexivity|].
  rewrite memb_slash_lower; exact Ha.
Qed.

Lemma rsync_rel_not_absolute : forall u, rsync_wf u -> is_absolute (rsync_rel u) = false.
Proof.
  intros u (_ & Ha & Na & _). unfold rsync_rel.
  destruct (lower (r_auth u)) as [|c t] eqn:E.
  - apply normalb_lower in Na. rewrite E in Na. discriminate.
  - cbn [app is_absolute]. assert (H : memb SLASH (c :: t) = false) by (rewrite <- E, memb_slash_lower; exact Ha).
    unfold memb in H; cbn [existsb] in H. apply orb_false_iff in H. destruct H as [H _].
    rewrite N.eqb_sym. exact H.
Qed.

(* resolution of  fixed... / authority / module / path...  on any stack *)
Lemma rsync_tail_nstack : forall u st, rsync_wf u ->
  exists ns, forallb normalb ns = true /\
    nstack st ([lower (r_auth u); r_mod u] ++ comps (r_path u)) = Some (rev ns ++ r_mod u :: lower (r_auth u) :: st) /\
    ((comps (r_path u) = ns /\ last (comps (r_path u)) [DOT] <> []) \/ comps (r_path u) = ns ++ [[]]).
Proof.
  intros u st (Hl & Ha & Na & Hm & Nm & Hp).
  destruct (cpi_nstack (comps (r_path u)) (r_mod u :: lower (r_auth u) :: st) Hp (comps_nonempty _))
    as [ns [Hns [Hst Hc]]].
  exists ns. split; [exact Hns|]. split; [|exact Hc].
  rewrite nstack_app. rewrite (nstack_normal [lower (r_auth u); r_mod u] st).
  - cbn [rev app]. exact Hst.
  - cbn [forallb]. rewrite (normalb_lower _ Na), Nm. reflexivity.
Qed.

(* ------------------------------------------------------------------ *)
(* digest-named components *)

Definition is_hexlow (c : N) : bool := is_digit c || ((97 <=? c) && (c <=? 102)).
(* non-empty, lower-case hex digits only *)
Definition hexlike (s : bstr) : bool := match s with [] => false | _ => forallb is_hexlow s end.

Lemma hexlow_not : forall c x, is_hexlow c = true -> is_hexlow x = false -> c <> x.
Proof. intros c x H1 H2 E; subst; congruence. Qed.

Lemma forall_hexlow_no : forall s x, forallb is_hexlow s = true -> is_hexlow x = false -> memb x s = false.
Proof.
  induction s as [|c s IH]; intros x H Hx; [reflexivity|].
  cbn [forallb] in H. apply andb_true_iff in H. destruct H as [H1 H2].
  unfold memb; cbn [existsb]. fold (memb x s). rewrite (IH x H2 Hx).
  destruct (N.eqb_spec x c) as [->|]; [congruence | reflexivity].
Qed.

Lemma hexlike_no : forall s x, hexlike s = true -> is_hexlow x = false -> memb x s = false.
Proof. intros [|c s] x H Hx; [discriminate|]. apply forall_hexlow_no; assumption. Qed.

Lemma hexlike_ext_no_slash : forall h ext, hexlike h = true -> memb SLASH ext = false -> memb SLASH (h ++ ext) = false.
Proof. intros h ext H He. rewrite memb_app, He, (hexlike_no h SLASH H); reflexivity. Qed.

Lemma hexlike_ext_normal : forall h ext, hexlike h = true -> normalb (h ++ ext) = true.
Proof.
  intros [|c h] ext H; [discriminate|]. cbn [hexlike forallb] in H. apply andb_true_iff in H. destruct H as [Hc _].
  cbn [app normalb beqb]. destruct (N.eqb_spec c DOT) as [->|]; [discriminate|]. reflexivity.
Qed.

(* a digest-named component differs from every name that contains a non-hex character *)
Lemma hexlike_neq : forall h s x, hexlike h = true -> is_hexlow x = false -> memb x s = true -> h <> s.
Proof. intros h s x H Hx Hs E; subst. rewrite (hexlike_no s x H Hx) in Hs. discriminate. Qed.

(* fixed... / A / Hc : whatever the single component A is, Hc ends up on top *)
Lemma hashed_tail : forall fixed A Hc,
  forallb normalb fixed = true -> fixed <> [] -> normalb Hc = true ->
  exists st', nstack [] (fixed ++ [A; Hc]) = Some (Hc :: st').
Proof.
  intros fixed A Hc Hf Hne Hn.
  assert (Hc1 : forall st, nstack st [Hc] = Some (Hc :: st)).
  { intros st. apply (nstack_normal [Hc] st). cbn [forallb]. rewrite Hn. reflexivity. }
  rewrite nstack_app, (nstack_normal _ _ Hf), app_nil_r.
  change [A; Hc] with ([A] ++ [Hc]). rewrite nstack_app. cbn [nstack].
  destruct A as [|a0 a']; [eexists; apply Hc1|].
  destruct (beqb (a0 :: a') [DOT]); [eexists; apply Hc1|].
  destruct (beqb (a0 :: a') [DOT; DOT]); [|eexists; apply Hc1].
  destruct (rev fixed) as [|t st] eqn:E.
  - exfalso. apply Hne. rewrite <- (rev_involutive fixed), E. reflexivity.
  - eexists; apply Hc1.
Qed.

Definition root_ok (cache : bstr) : Prop := exists sr, nstack [] (comps cache) = Some sr.

Lemma hashed_path : forall cache ps fixed A Hc sr,
  forallb (fun p => negb (is_absolute p)) ps = true ->
  flat_map comps ps = fixed ++ [A; Hc] ->
  forallb normalb fixed = true -> fixed <> [] -> normalb Hc = true ->
  nstack [] (comps cache) = Some sr ->
  exists st', nstack [] (comps (pushes cache ps)) = Some ((Hc :: st') ++ sr).
Proof.
  intros cache ps fixed A Hc sr Hrel Hps Hf Hne Hn Hr.
  destruct (hashed_tail fixed A Hc Hf Hne Hn) as [st' Hst].
  exists st'. apply under_pushes; [exact Hrel | exact Hr | rewrite Hps; exact Hst].
Qed.

Lemma rev_inj : forall (a b : list bstr), rev a = rev b -> a = b.
Proof. intros a b H. rewrite <- (rev_involutive a), H, rev_involutive. reflexivity. Qed.

Lemma head_of_norm : forall p q c d st st2 sr,
  nstack [] (comps p) = Some ((c :: st) ++ sr) -> nstack [] (comps q) = Some ((d :: st2) ++ sr) ->
  norm p = norm q -> c = d.
Proof.
  intros p q c d st st2 sr Hp Hq H. unfold norm in H. rewrite Hp, Hq in H.
  assert (E : (c :: st) ++ sr = (d :: st2) ++ sr).
  { apply rev_inj. unfold option_map in H. congruence. }
  cbn [app] in E. congruence.
Qed.

Lemma app_inv_len : forall (a a' b b' : bstr), List.length a = List.length a' -> a ++ b = a' ++ b' -> a = a' /\ b = b'.
Proof.
  induction a as [|x a IH]; intros [|y a'] b b' Hl H; cbn [List.length] in Hl; try discriminate.
  - auto.
  - cbn [app] in H. inversion H; subst. destruct (IH a' b b' ltac:(lia) H2) as [-> ->]. auto.
Qed.

Lemma rsync_digest_input_inj : forall u v, rsync_wf u -> rsync_wf v ->
  rsync_digest_input u = rsync_digest_input v -> rsync_eqv u v.
Proof.
  intros u v (_ & Hau & _ & Hmu & _) (_ & Hav & _ & Hmv & _) H. unfold rsync_digest_input in H.
  apply app_inv_head in H.
  apply app_sep_inj in H; [|rewrite memb_slash_lower; assumption..]. destruct H as [H1 H2].
  apply app_sep_inj in H2; [|assumption..]. destruct H2 as [H2 H3].
  unfold rsync_eqv. auto.
Qed.

Lemma https_digest_input_inj : forall n m, https_wf n -> https_wf m ->
  https_digest_input n = https_digest_input m -> https_eqv n m.
Proof.
  intros n m (_ & Han & _) (_ & Ham & _) H. unfold https_digest_input in H.
  apply app_inv_head in H.
  apply app_sep_inj in H; [|rewrite memb_slash_lower; assumption..]. destruct H as [H1 H2].
  unfold https_eqv. auto.
Qed.

Lemma https_raw_inj : forall n m, https_wf n -> https_wf m -> https_raw n = https_raw m -> https_eqv n m.
Proof.
  intros [sn an pn] [sm am pm] (Hln & Han & Hpn) (Hlm & Ham & Hpm) H. unfold https_raw in H.
  cbn [h_scheme h_auth h_path] in *.
  apply app_inv_len in H; [|congruence]. destruct H as [_ H]. unfold https_eqv. cbn [h_auth h_path].
  destruct Hpn as [->|[p ->]], Hpm as [->|[q ->]].
  - rewrite !app_nil_r in H. subst. auto.
  - rewrite app_nil_r in H. rewrite H, memb_app in Han. unfold memb at 2 in Han. cbn [existsb] in Han.
    rewrite N.eqb_refl in Han. rewrite orb_true_r in Han. discriminate.
  - rewrite app_nil_r in H. rewrite <- H, memb_app in Ham. unfold memb at 2 in Ham. cbn [existsb] in Ham.
    rewrite N.eqb_refl in Ham. rewrite orb_true_r in Ham. discriminate.
  - apply app_sep_inj in H; [|assumption..]. destruct H as [-> ->]. auto.
Qed.

Section Hashed.
Variable hd : bstr -> bstr.
(* no two digest inputs of interest (those satisfying D) collide; hex rendering of a digest *)
Variable D : bstr -> Prop.
Hypothesis hd_injective : forall x y, D x -> D y -> hd x = hd y -> x = y.
Hypothesis hd_shape : forall x, hexlike (hd x) = true.

Lemma unique_path_comps : forall prefix auth x ext,
  prefix <> [] -> memb SLASH auth = false -> memb SLASH ext = false ->
  comps (unique_path hd prefix auth x ext) = comps prefix ++ [auth; hd x ++ ext].
Proof.
  intros prefix auth x ext Hp Ha He. unfold unique_path. destruct prefix as [|c pr]; [congruence|].
  rewrite <- app_assoc. cbn [app]. change (c :: pr ++ SLASH :: auth ++ SLASH :: hd x ++ ext)
    with ((c :: pr) ++ SLASH :: auth ++ SLASH :: hd x ++ ext).
  rewrite comps_app_sep, comps_app_sep, (comps_single _ Ha), (comps_single (hd x ++ ext)); [reflexivity|].
  apply hexlike_ext_no_slash; [apply hd_shape | exact He].
Qed.

Lemma unique_path_not_absolute : forall prefix auth x ext,
  prefix <> [] -> is_absolute prefix = false -> is_absolute (unique_path hd prefix auth x ext) = false.
Proof.
  intros prefix auth x ext Hp Ha. unfold unique_path. destruct prefix as [|c pr]; [congruence|]. exact Ha.
Qed.

(* ---- the store's unique paths: TA certificates and RRDP repository directories ---- *)

Definition store_unique (cache prefix auth x ext : bstr) : bstr :=
  push (store_base cache) (unique_path hd prefix auth x ext).

Lemma store_unique_nstack : forall cache prefix auth x ext sr,
  prefix <> [] -> is_absolute prefix = false -> forallb normalb (comps prefix) = true ->
  memb SLASH auth = false -> memb SLASH ext = false ->
  nstack [] (comps cache) = Some sr ->
  exists st', nstack [] (comps (store_unique cache prefix auth x ext)) = Some (((hd x ++ ext) :: st') ++ sr).
Proof.
  intros cache prefix auth x ext sr Hp Habs Hn Ha He Hr.
  change (store_unique cache prefix auth x ext)
    with (pushes cache [bytes_of "stored"; unique_path hd prefix auth x ext]).
  apply (hashed_path cache _ (C_stored :: comps prefix) auth (hd x ++ ext) sr).
  - cbn [forallb]. rewrite (unique_path_not_absolute _ _ _ _ Hp Habs). reflexivity.
  - cbn [flat_map]. rewrite (unique_path_comps _ _ _ _ Hp Ha He), app_nil_r. reflexivity.
  - cbn [forallb]. rewrite Hn. reflexivity.
  - discriminate.
  - apply hexlike_ext_normal, hd_shape.
  - exact Hr.
Qed.

Definition tal_wf (t : tal_uri) : Prop := match t with TalRsync u => rsync_wf u | TalHttps n => https_wf n end.
Definition tal_eqv (s t : tal_uri) : Prop :=
  match s, t with
  | TalRsync u, TalRsync v => rsync_eqv u v
  | TalHttps n, TalHttps m => https_eqv n m
  | _, _ => False
  end.

Definition tal_input (t : tal_uri) : bstr :=
  match t with TalRsync u => rsync_digest_input u | TalHttps n => https_digest_input n end.

Lemma ta_path_nstack : forall cache t sr, tal_wf t -> nstack [] (comps cache) = Some sr ->
  exists st', nstack [] (comps (ta_path hd cache t)) = Some (((hd (tal_input t) ++ bytes_of ".cer") :: st') ++ sr).
Proof.
  intros cache t sr Hw Hr. destruct t as [u|n]; cbn [tal_wf tal_input] in *.
  - destruct Hw as (_ & Ha & _).
    apply (store_unique_nstack cache (bytes_of "ta/rsync") (lower (r_auth u)) (rsync_digest_input u) (bytes_of ".cer") sr);
      try reflexivity; try discriminate; [rewrite memb_slash_lower; exact Ha | exact Hr].
  - destruct Hw as (_ & Ha & _).
    apply (store_unique_nstack cache (bytes_of "ta/https") (lower (h_auth n)) (https_digest_input n) (bytes_of ".cer") sr);
      try reflexivity; try discriminate; [rewrite memb_slash_lower; exact Ha | exact Hr].
Qed.

Theorem ta_path_confined : forall cache t, tal_wf t -> root_ok cache -> under cache (ta_path hd cache t).
Proof.
  intros cache t Hw [sr Hr]. destruct (ta_path_nstack cache t sr Hw Hr) as [st' H].
  exists sr, ((hd (tal_input t) ++ bytes_of ".cer") :: st'). auto.
Qed.

Theorem ta_path_distinct : forall cache s t, tal_wf s -> tal_wf t -> root_ok cache ->
  D (tal_input s) -> D (tal_input t) ->
  norm (ta_path hd cache s) = norm (ta_path hd cache t) -> tal_eqv s t.
Proof.
  intros cache s t Hs Ht [sr Hr] Ds Dt H.
  destruct (ta_path_nstack cache s sr Hs Hr) as [st1 H1]. destruct (ta_path_nstack cache t sr Ht Hr) as [st2 H2].
  pose proof (head_of_norm _ _ _ _ _ _ _ H1 H2 H) as E.
  apply app_inv_tail, hd_injective in E; [|assumption..].
  destruct s as [u|n], t as [v|m]; cbn [tal_input tal_eqv tal_wf] in *.
  - apply rsync_digest_input_inj; assumption.
  - unfold rsync_digest_input, https_digest_input in E. discriminate.
  - unfold rsync_digest_input, https_digest_input in E. discriminate.
  - apply https_digest_input_inj; assumption.
Qed.

Lemma repo_path_nstack : forall cache n sr, https_wf n -> nstack [] (comps cache) = Some sr ->
  exists st', nstack [] (comps (rrdp_repository_path hd cache n)) = Some ((hd (https_digest_input n) :: st') ++ sr).
Proof.
  intros cache n sr (_ & Ha & _) Hr.
  destruct (store_unique_nstack cache (bytes_of "rrdp") (lower (h_auth n)) (https_digest_input n) [] sr)
    as [st' H]; try reflexivity; try discriminate; [rewrite memb_slash_lower; exact Ha | exact Hr |].
  rewrite app_nil_r in H. exists st'. exact H.
Qed.

Theorem repo_path_confined : forall cache n, https_wf n -> root_ok cache -> under cache (rrdp_repository_path hd cache n).
Proof.
  intros cache n Hw [sr Hr]. destruct (repo_path_nstack cache n sr Hw Hr) as [st' H].
  exists sr, (hd (https_digest_input n) :: st'). auto.
Qed.

Theorem repo_path_distinct : forall cache n m, https_wf n -> https_wf m -> root_ok cache ->
  D (https_digest_input n) -> D (https_digest_input m) ->
  norm (rrdp_repository_path hd cache n) = norm (rrdp_repository_path hd cache m) -> https_eqv n m.
Proof.
  intros cache n m Hn Hm [sr Hr] Dn Dm H.
  destruct (repo_path_nstack cache n sr Hn Hr) as [st1 H1]. destruct (repo_path_nstack cache m sr Hm Hr) as [st2 H2].
  pose proof (head_of_norm _ _ _ _ _ _ _ H1 H2 H) as E. apply hd_injective in E; [|assumption..].
  apply https_digest_input_inj; assumption.
Qed.

(* ---- the RRDP collector's archive files ---- *)

Lemma archive_path_nstack : forall cache n sr, https_wf n -> nstack [] (comps cache) = Some sr ->
  exists st', nstack [] (comps (archive_path hd cache n)) = Some (((hd (https_raw n) ++ bytes_of ".bin") :: st') ++ sr).
Proof.
  intros cache n sr (_ & Ha & _) Hr.
  assert (Ha' : memb SLASH (lower (h_auth n)) = false) by (rewrite memb_slash_lower; exact Ha).
  assert (Hb : memb SLASH (hd (https_raw n) ++ bytes_of ".bin") = false)
    by (apply hexlike_ext_no_slash; [apply hd_shape | reflexivity]).
  change (archive_path hd cache n)
    with (pushes cache [bytes_of "rrdp"; lower (h_auth n); hd (https_raw n) ++ bytes_of ".bin"]).
  apply (hashed_path cache _ [C_rrdp] (lower (h_auth n)) (hd (https_raw n) ++ bytes_of ".bin") sr).
  - cbn [forallb]. rewrite (no_slash_not_absolute _ Ha'), (no_slash_not_absolute _ Hb). reflexivity.
  - cbn [flat_map]. rewrite (comps_single _ Ha'), (comps_single _ Hb). reflexivity.
  - reflexivity.
  - discriminate.
  - apply hexlike_ext_normal, hd_shape.
  - exact Hr.
Qed.

Theorem archive_path_confined : forall cache n, https_wf n -> root_ok cache -> under cache (archive_path hd cache n).
Proof.
  intros cache n Hw [sr Hr]. destruct (archive_path_nstack cache n sr Hw Hr) as [st' H].
  exists sr, ((hd (https_raw n) ++ bytes_of ".bin") :: st'). auto.
Qed.

Theorem archive_path_distinct : forall cache n m, https_wf n -> https_wf m -> root_ok cache ->
  D (https_raw n) -> D (https_raw m) ->
  norm (archive_path hd cache n) = norm (archive_path hd cache m) -> https_eqv n m.
Proof.
  intros cache n m Hn Hm [sr Hr] Dn Dm H.
  destruct (archive_path_nstack cache n sr Hn Hr) as [st1 H1]. destruct (archive_path_nstack cache m sr Hm Hr) as [st2 H2].
  pose proof (head_of_norm _ _ _ _ _ _ _ H1 H2 H) as E. apply app_inv_tail, hd_injective in E; [|assumption..].
  apply https_raw_inj; assumption.
Qed.

End Hashed.

(* ------------------------------------------------------------------ *)
(* paths that spell out authority / module / path *)

Lemma last_app_ne : forall (a b : list bstr) d, b <> [] -> last (a ++ b) d = last b d.
Proof.
  induction a as [|x a IH]; intros b d Hb; [reflexivity|].
  cbn [app]. destruct (a ++ b) eqn:E.
  - destruct a; [cbn [app] in E; congruence | discriminate].
  - rewrite <- E. cbn [last]. rewrite E. rewrite <- E. apply IH; exact Hb.
Qed.

Lemma dirflag_push : forall b p, is_absolute p = false -> dirflag (push b p) = dirflag p.
Proof.
  intros b p Hp. unfold dirflag, push. rewrite Hp. destruct b as [|x b'] eqn:Eb; [reflexivity|].
  rewrite <- Eb. assert (Hne : b <> []) by (subst; discriminate).
  destruct (ends_with_slash b) eqn:E.
  - unfold ends_with_slash in E. rewrite Eb in E. rewrite <- Eb in E. apply N.eqb_eq in E.
    destruct (exists_last Hne) as [b0 [y Hb]]. rewrite Hb in E. rewrite last_snoc in E. subst y.
    rewrite Hb, <- app_assoc. cbn [app]. rewrite comps_app_sep, last_app_ne; [reflexivity | apply comps_nonempty].
  - rewrite comps_app_sep, last_app_ne; [reflexivity | apply comps_nonempty].
Qed.

Definition pflag (p : bstr) : bool := match last (comps p) [DOT] with [] => true | _ => false end.

(* a checked path is determined by its normal components and whether it ends in '/' *)
Lemma path_from_shape : forall p q ns,
  ((comps p = ns /\ last (comps p) [DOT] <> []) \/ comps p = ns ++ [[]]) ->
  ((comps q = ns /\ last (comps q) [DOT] <> []) \/ comps q = ns ++ [[]]) ->
  pflag p = pflag q -> p = q.
Proof.
  intros p q ns Hp Hq Hf.
  assert (E : comps p = comps q).
  { unfold pflag in Hf. destruct Hp as [[Ep Lp]|Ep], Hq as [[Eq Lq]|Eq].
    - congruence.
    - exfalso. rewrite Eq, last_last in Hf. destruct (last (comps p) [DOT]); [congruence | discriminate].
    - exfalso. rewrite Ep, last_last in Hf. destruct (last (comps q) [DOT]); [congruence | discriminate].
    - congruence. }
  rewrite <- (join_split SLASH p), <- (join_split SLASH q). unfold comps in E. rewrite E. reflexivity.
Qed.

Lemma tail_inj : forall (x y : list bstr) a b c d B,
  x ++ a :: b :: B = y ++ c :: d :: B -> x = y /\ a = c /\ b = d.
Proof.
  intros x y a b c d B H.
  change (x ++ a :: b :: B) with (x ++ [a; b] ++ B) in H. change (y ++ c :: d :: B) with (y ++ [c; d] ++ B) in H.
  rewrite !app_assoc in H. apply app_inv_tail in H.
  change [a; b] with ([a] ++ [b]) in H. change [c; d] with ([c] ++ [d]) in H. rewrite !app_assoc in H.
  apply app_inj_tail in H. destruct H as [H ->]. apply app_inj_tail in H. destruct H as [-> ->]. auto.
Qed.

(* two rsync URIs whose  authority/module/path  tails resolve to the same stack over the same base *)
Lemma rsync_tail_distinct : forall u v nsu nsv B,
  rev nsu ++ r_mod u :: lower (r_auth u) :: B = rev nsv ++ r_mod v :: lower (r_auth v) :: B ->
  ((comps (r_path u) = nsu /\ last (comps (r_path u)) [DOT] <> []) \/ comps (r_path u) = nsu ++ [[]]) ->
  ((comps (r_path v) = nsv /\ last (comps (r_path v)) [DOT] <> []) \/ comps (r_path v) = nsv ++ [[]]) ->
  pflag (r_path u) = pflag (r_path v) -> rsync_eqv u v.
Proof.
  intros u v nsu nsv B H Su Sv Hf. apply tail_inj in H. destruct H as [Hn [Hm Ha]].
  apply rev_inj in Hn. subst nsv. unfold rsync_eqv. repeat split; try assumption.
  apply (path_from_shape _ _ nsu); assumption.
Qed.

Lemma C_consts_relative : is_absolute (bytes_of "rsync") = false /\ is_absolute (bytes_of "stored") = false.
Proof. split; reflexivity. Qed.

(* ---- rsync collector: cache/rsync/authority/module/path ---- *)

Lemma uri_path_nstack : forall cache u sr, rsync_wf u -> nstack [] (comps cache) = Some sr ->
  exists ns, forallb normalb ns = true /\
    nstack [] (comps (uri_path cache u)) = Some (rev ns ++ r_mod u :: lower (r_auth u) :: C_rsync :: sr) /\
    ((comps (r_path u) = ns /\ last (comps (r_path u)) [DOT] <> []) \/ comps (r_path u) = ns ++ [[]]).
Proof.
  intros cache u sr Hw Hr. pose proof Hw as (Hl & Ha & Na & Hm & Nm & Hp).
  assert (Ha' : memb SLASH (lower (r_auth u)) = false) by (rewrite memb_slash_lower; exact Ha).
  destruct (rsync_tail_nstack u (C_rsync :: sr) Hw) as [ns [Hns [Hst Hc]]].
  exists ns. split; [exact Hns|]. split; [|exact Hc].
  change (uri_path cache u) with (pushes cache [bytes_of "rsync"; lower (r_auth u); r_mod u; r_path u]).
  rewrite comps_pushes_rel.
  - cbn [flat_map]. rewrite (comps_single _ Ha'), (comps_single _ Hm), app_nil_r.
    rewrite nstack_app, Hr. change (comps (bytes_of "rsync")) with [C_rsync]. cbn [app].
    change (nstack sr (C_rsync :: lower (r_auth u) :: r_mod u :: comps (r_path u)))
      with (nstack (C_rsync :: sr) ([lower (r_auth u); r_mod u] ++ comps (r_path u))).
    exact Hst.
  - cbn [forallb]. rewrite (no_slash_not_absolute _ Ha'), (no_slash_not_absolute _ Hm), (cpi_not_absolute _ Hp). reflexivity.
Qed.

Theorem uri_path_confined : forall cache u, rsync_wf u -> root_ok cache -> under cache (uri_path cache u).
Proof.
  intros cache u Hw [sr Hr]. destruct (uri_path_nstack cache u sr Hw Hr) as [ns [_ [H _]]].
  exists sr, (rev ns ++ [r_mod u; lower (r_auth u); C_rsync]). split; [exact Hr|].
  rewrite H, <- app_assoc. reflexivity.
Qed.

Lemma uri_path_dirflag : forall cache u, rsync_wf u -> dirflag (uri_path cache u) = pflag (r_path u).
Proof.
  intros cache u (_ & _ & _ & _ & _ & Hp).
  change (uri_path cache u) with (push (pushes cache [bytes_of "rsync"; lower (r_auth u); r_mod u]) (r_path u)).
  rewrite dirflag_push; [reflexivity | apply cpi_not_absolute; exact Hp].
Qed.

Lemma norm_eq_stack : forall p q a b, nstack [] (comps p) = Some a -> nstack [] (comps q) = Some b ->
  norm p = norm q -> a = b.
Proof.
  intros p q a b Hp Hq H. unfold norm in H. rewrite Hp, Hq in H. apply rev_inj. unfold option_map in H. congruence.
Qed.

Theorem uri_path_distinct : forall cache u v, rsync_wf u -> rsync_wf v -> root_ok cache ->
  fid (uri_path cache u) = fid (uri_path cache v) -> rsync_eqv u v.
Proof.
  intros cache u v Hu Hv [sr Hr] H. unfold fid in H. inversion H as [[Hn Hd]].
  destruct (uri_path_nstack cache u sr Hu Hr) as [nsu [_ [Su Cu]]].
  destruct (uri_path_nstack cache v sr Hv Hr) as [nsv [_ [Sv Cv]]].
  pose proof (norm_eq_stack _ _ _ _ Su Sv Hn) as E.
  rewrite !uri_path_dirflag in Hd by assumption.
  apply (rsync_tail_distinct u v nsu nsv (C_rsync :: sr)); assumption.
Qed.

(* the module directory: cache/rsync/authority/module/ *)
Lemma module_path_nstack : forall cache u sr, rsync_wf u -> nstack [] (comps cache) = Some sr ->
  nstack [] (comps (module_path cache u)) = Some (r_mod u :: lower (r_auth u) :: C_rsync :: sr).
Proof.
  intros cache u sr Hw Hr. pose proof Hw as (Hl & Ha & Na & Hm & Nm & Hp).
  assert (Ha' : memb SLASH (lower (r_auth u)) = false) by (rewrite memb_slash_lower; exact Ha).
  unfold module_path. rewrite (canonical_module_tail u Hw).
  change (push (rsync_wd cache) (lower (r_auth u) ++ SLASH :: r_mod u ++ [SLASH]))
    with (pushes cache [bytes_of "rsync"; lower (r_auth u) ++ SLASH :: r_mod u ++ [SLASH]]).
  rewrite comps_pushes_rel.
  - cbn [flat_map]. rewrite comps_app_sep, comps_app_sep, (comps_single _ Ha'), (comps_single _ Hm), app_nil_r.
    rewrite nstack_app, Hr. change (comps (bytes_of "rsync")) with [C_rsync]. change (comps []) with [@nil N].
    cbn [app].
    change (nstack sr [C_rsync; lower (r_auth u); r_mod u; []])
      with (nstack sr ([C_rsync; lower (r_auth u); r_mod u] ++ [[]])).
    rewrite nstack_app, (nstack_normal [C_rsync; lower (r_auth u); r_mod u] sr).
    + reflexivity.
    + cbn [forallb]. rewrite (normalb_lower _ Na), Nm. reflexivity.
  - cbn [forallb]. replace (is_absolute (lower (r_auth u) ++ SLASH :: r_mod u ++ [SLASH])) with false; [reflexivity|].
    symmetry. destruct (lower (r_auth u)) as [|c t] eqn:E.
    + apply normalb_lower in Na. rewrite E in Na. discriminate.
    + cbn [app is_absolute]. unfold memb in Ha'; cbn [existsb] in Ha'. apply orb_false_iff in Ha'.
      destruct Ha' as [Hc _]. rewrite N.eqb_sym. exact Hc.
Qed.

Theorem module_path_confined : forall cache u, rsync_wf u -> root_ok cache -> under cache (module_path cache u).
Proof.
  intros cache u Hw [sr Hr]. exists sr, [r_mod u; lower (r_auth u); C_rsync]. split; [exact Hr|].
  rewrite (module_path_nstack cache u sr Hw Hr). reflexivity.
Qed.

(* module directories coincide only for URIs of the same module *)
Theorem module_path_distinct : forall cache u v, rsync_wf u -> rsync_wf v -> root_ok cache ->
  norm (module_path cache u) = norm (module_path cache v) ->
  lower (r_auth u) = lower (r_auth v) /\ r_mod u = r_mod v.
Proof.
  intros cache u v Hu Hv [sr Hr] H.
  pose proof (norm_eq_stack _ _ _ _ (module_path_nstack cache u sr Hu Hr) (module_path_nstack cache v sr Hv Hr) H) as E.
  inversion E; auto.
Qed.

(* ---- Store::dump_object: dir/authority/module/path ---- *)

Lemma dump_object_nstack : forall dir u sr, rsync_wf u -> nstack [] (comps dir) = Some sr ->
  exists ns, forallb normalb ns = true /\
    nstack [] (comps (dump_object_path dir u)) = Some (rev ns ++ r_mod u :: lower (r_auth u) :: sr) /\
    ((comps (r_path u) = ns /\ last (comps (r_path u)) [DOT] <> []) \/ comps (r_path u) = ns ++ [[]]).
Proof.
  intros dir u sr Hw Hr.
  destruct (rsync_tail_nstack u sr Hw) as [ns [Hns [Hst Hc]]].
  exists ns. split; [exact Hns|]. split; [|exact Hc].
  unfold dump_object_path. rewrite (comps_push_rel _ _ _ (rsync_rel_not_absolute u Hw)).
  rewrite nstack_app, Hr, (rsync_rel_comps u Hw). exact Hst.
Qed.

Theorem dump_object_confined : forall dir u, rsync_wf u -> root_ok dir -> under dir (dump_object_path dir u).
Proof.
  intros dir u Hw [sr Hr]. destruct (dump_object_nstack dir u sr Hw Hr) as [ns [_ [H _]]].
  exists sr, (rev ns ++ [r_mod u; lower (r_auth u)]). split; [exact Hr|].
  rewrite H, <- app_assoc. reflexivity.
Qed.

Lemma rsync_rel_dirflag : forall u, rsync_wf u -> dirflag (rsync_rel u) = pflag (r_path u).
Proof.
  intros u Hw. unfold dirflag, pflag. rewrite (rsync_rel_comps u Hw), last_app_ne; [reflexivity | apply comps_nonempty].
Qed.

Theorem dump_object_distinct : forall dir u v, rsync_wf u -> rsync_wf v -> root_ok dir ->
  fid (dump_object_path dir u) = fid (dump_object_path dir v) -> rsync_eqv u v.
Proof.
  intros dir u v Hu Hv [sr Hr] H. unfold fid in H. inversion H as [[Hn Hd]].
  destruct (dump_object_nstack dir u sr Hu Hr) as [nsu [_ [Su Cu]]].
  destruct (dump_object_nstack dir v sr Hv Hr) as [nsv [_ [Sv Cv]]].
  pose proof (norm_eq_stack _ _ _ _ Su Sv Hn) as E.
  unfold dump_object_path in Hd.
  rewrite !dirflag_push, !rsync_rel_dirflag in Hd by (try apply rsync_rel_not_absolute; assumption).
  apply (rsync_tail_distinct u v nsu nsv sr); assumption.
Qed.

(* ---- stored publication points: <repository directory>/rsync/authority/module/path ---- *)

Lemma nstack_one : forall st (A : bstr),
  nstack st [A] = match A with
                  | [] => Some st
                  | _ => if beqb A [DOT] then Some st
                         else if beqb A [DOT; DOT] then match st with [] => None | _ :: st' => Some st' end
                         else Some (A :: st)
                  end.
Proof.
  intros st [|a0 a']; [reflexivity|]. cbn [nstack].
  destruct (beqb (a0 :: a') [DOT]); [reflexivity|].
  destruct (beqb (a0 :: a') [DOT; DOT]); [destruct st; reflexivity | reflexivity].
Qed.

Lemma repo_tail_stack : forall (A H : bstr) sr, normalb H = true ->
  exists R, (R = [H; A; C_rrdp; C_stored] \/ R = [H; C_rrdp; C_stored] \/ R = [H; C_stored]) /\
    nstack sr ([C_stored; C_rrdp] ++ [A] ++ [H]) = Some (R ++ sr).
Proof.
  intros A H sr HH.
  assert (Hc1 : forall st, nstack st [H] = Some (H :: st)).
  { intros st. apply (nstack_normal [H] st). cbn [forallb]. rewrite HH. reflexivity. }
  assert (E : nstack sr ([C_stored; C_rrdp] ++ [A] ++ [H])
            = match nstack (C_rrdp :: C_stored :: sr) [A] with Some st => nstack st [H] | None => None end).
  { rewrite nstack_app. rewrite (nstack_normal [C_stored; C_rrdp] sr) by reflexivity.
    cbv beta iota. cbn [rev app].
    change (nstack (C_rrdp :: C_stored :: sr) [A; H]) with (nstack (C_rrdp :: C_stored :: sr) ([A] ++ [H])).
    rewrite nstack_app. reflexivity. }
  rewrite E. clear E. rewrite nstack_one.
  destruct A as [|a0 a'].
  - exists [H; C_rrdp; C_stored]. split; [right; left; reflexivity|]. rewrite Hc1. reflexivity.
  - destruct (beqb (a0 :: a') [DOT]).
    + exists [H; C_rrdp; C_stored]. split; [right; left; reflexivity|]. rewrite Hc1. reflexivity.
    + destruct (beqb (a0 :: a') [DOT; DOT]).
      * exists [H; C_stored]. split; [right; right; reflexivity|]. rewrite Hc1. reflexivity.
      * exists [H; a0 :: a'; C_rrdp; C_stored]. split; [left; reflexivity|]. rewrite Hc1. reflexivity.
Qed.

Section Points.
Variable hd : bstr -> bstr.
Variable D : bstr -> Prop.
Hypothesis hd_injective : forall x y, D x -> D y -> hd x = hd y -> x = y.
Hypothesis hd_shape : forall x, hexlike (hd x) = true.

(* the resolved repository directory, relative to the cache directory (top first) *)
Definition repo_stack (r : option https_uri) (R : list bstr) : Prop :=
  match r with
  | None => R = [C_rsync; C_stored]
  | Some n => let H := hd (https_digest_input n) in
              R = [H; lower (h_auth n); C_rrdp; C_stored] \/ R = [H; C_rrdp; C_stored] \/ R = [H; C_stored]
  end.

Definition repo_wf (r : option https_uri) : Prop :=
  match r with Some n => https_wf n /\ D (https_digest_input n) | None => True end.
Definition repo_eqv (r s : option https_uri) : Prop :=
  match r, s with
  | None, None => True
  | Some n, Some m => https_eqv n m
  | _, _ => False
  end.

Definition repo_dir (cache : bstr) (r : option https_uri) : bstr :=
  match r with Some n => rrdp_repository_path hd cache n | None => rsync_repository_path cache end.

Lemma repo_dir_stack : forall cache r sr, repo_wf r -> nstack [] (comps cache) = Some sr ->
  exists R, repo_stack r R /\ nstack [] (comps (repo_dir cache r)) = Some (R ++ sr).
Proof.
  intros cache r sr Hw Hr. destruct r as [n|]; cbn [repo_dir repo_stack repo_wf] in *.
  - destruct Hw as ((_ & Ha & _) & _).
    assert (Ha' : memb SLASH (lower (h_auth n)) = false) by (rewrite memb_slash_lower; exact Ha).
    set (H := hd (https_digest_input n)).
    assert (HH : normalb H = true).
    { rewrite <- (app_nil_r H). apply hexlike_ext_normal, hd_shape. }
    assert (HHs : memb SLASH H = false) by (apply hexlike_no; [apply hd_shape | reflexivity]).
    change (rrdp_repository_path hd cache n)
      with (pushes cache [bytes_of "stored"; https_unique_path hd (bytes_of "rrdp") [] n]).
    assert (Hcomps : flat_map comps [bytes_of "stored"; https_unique_path hd (bytes_of "rrdp") [] n]
                     = [C_stored; C_rrdp] ++ [lower (h_auth n)] ++ [H]).
    { cbn [flat_map]. unfold https_unique_path.
      rewrite (unique_path_comps hd hd_shape); [|discriminate | exact Ha' | reflexivity].
      rewrite !app_nil_r. reflexivity. }
    rewrite comps_pushes_rel, Hcomps.
    2:{ cbn [forallb]. unfold https_unique_path.
        rewrite (unique_path_not_absolute hd); [reflexivity | discriminate | reflexivity]. }
    rewrite nstack_app, Hr. cbv beta iota. apply repo_tail_stack. exact HH.
  - exists [C_rsync; C_stored]. split; [reflexivity|].
    change (rsync_repository_path cache) with (pushes cache [bytes_of "stored"; bytes_of "rsync"]).
    rewrite comps_pushes_rel by reflexivity. rewrite nstack_app, Hr. reflexivity.
Qed.

Lemma point_path_nstack : forall cache r m sr, repo_wf r -> rsync_wf m -> nstack [] (comps cache) = Some sr ->
  exists ns R, forallb normalb ns = true /\ repo_stack r R /\
    nstack [] (comps (point_path hd cache r m)) =
      Some (rev ns ++ r_mod m :: lower (r_auth m) :: (C_rsync :: R) ++ sr) /\
    ((comps (r_path m) = ns /\ last (comps (r_path m)) [DOT] <> []) \/ comps (r_path m) = ns ++ [[]]).
Proof.
  intros cache r m sr Hrw Hw Hr.
  destruct (repo_dir_stack cache r sr Hrw Hr) as [R [HR Hst]].
  destruct (rsync_tail_nstack m (C_rsync :: R ++ sr) Hw) as [ns [Hns [Hs Hc]]].
  exists ns, R. split; [exact Hns|]. split; [exact HR|]. split; [|exact Hc].
  assert (Hrel : is_absolute (bytes_of "rsync/" ++ rsync_rel m) = false) by reflexivity.
  change (point_path hd cache r m) with (push (repo_dir cache r) (bytes_of "rsync/" ++ rsync_rel m)).
  rewrite (comps_push_rel _ _ _ Hrel), nstack_app, Hst.
  change (bytes_of "rsync/" ++ rsync_rel m) with (bytes_of "rsync" ++ SLASH :: rsync_rel m).
  rewrite comps_app_sep, (rsync_rel_comps m Hw). change (comps (bytes_of "rsync")) with [C_rsync].
  cbn [app]. cbn [app] in Hs. exact Hs.
Qed.

Theorem point_path_confined : forall cache r m, repo_wf r -> rsync_wf m -> root_ok cache ->
  under cache (point_path hd cache r m).
Proof.
  intros cache r m Hrw Hw [sr Hr]. destruct (point_path_nstack cache r m sr Hrw Hw Hr) as [ns [R [_ [_ [H _]]]]].
  exists sr, (rev ns ++ r_mod m :: lower (r_auth m) :: C_rsync :: R). split; [exact Hr|].
  rewrite H. rewrite <- app_assoc. reflexivity.
Qed.

Lemma point_path_dirflag : forall cache r m, rsync_wf m -> dirflag (point_path hd cache r m) = pflag (r_path m).
Proof.
  intros cache r m Hw.
  change (point_path hd cache r m) with (push (repo_dir cache r) (bytes_of "rsync/" ++ rsync_rel m)).
  rewrite dirflag_push by reflexivity. unfold dirflag, pflag.
  change (bytes_of "rsync/" ++ rsync_rel m) with (bytes_of "rsync" ++ SLASH :: rsync_rel m).
  rewrite comps_app_sep, (rsync_rel_comps m Hw), !last_app_ne; try apply comps_nonempty; [reflexivity | discriminate].
Qed.

Lemma hd_not_rsync : forall x, hd x <> C_rsync.
Proof. intros x. apply (hexlike_neq _ _ 114); [apply hd_shape | reflexivity | reflexivity]. Qed.
Lemma hd_not_rrdp : forall x, hd x <> C_rrdp.
Proof. intros x. apply (hexlike_neq _ _ 114); [apply hd_shape | reflexivity | reflexivity]. Qed.

(* bottom-first view of a point's resolved path below the cache directory *)
Lemma point_bottom : forall ns (M A : bstr) R,
  rev (rev ns ++ M :: A :: C_rsync :: R) = rev R ++ C_rsync :: A :: M :: ns.
Proof.
  intros. rewrite rev_app_distr, rev_involutive. cbn [rev]. rewrite <- !app_assoc. reflexivity.
Qed.

Theorem point_path_distinct : forall cache r1 m1 r2 m2,
  repo_wf r1 -> repo_wf r2 -> rsync_wf m1 -> rsync_wf m2 -> root_ok cache ->
  fid (point_path hd cache r1 m1) = fid (point_path hd cache r2 m2) ->
  repo_eqv r1 r2 /\ rsync_eqv m1 m2.
Proof.
  intros cache r1 m1 r2 m2 Hr1 Hr2 Hm1 Hm2 [sr Hr] H. unfold fid in H. inversion H as [[Hn Hd]].
  destruct (point_path_nstack cache r1 m1 sr Hr1 Hm1 Hr) as [ns1 [R1 [_ [HR1 [S1 C1]]]]].
  destruct (point_path_nstack cache r2 m2 sr Hr2 Hm2 Hr) as [ns2 [R2 [_ [HR2 [S2 C2]]]]].
  pose proof (norm_eq_stack _ _ _ _ S1 S2 Hn) as E.
  rewrite !point_path_dirflag in Hd by assumption.
  (* drop the cache directory, look at the rest bottom-first *)
  assert (E' : rev R1 ++ C_rsync :: lower (r_auth m1) :: r_mod m1 :: ns1
             = rev R2 ++ C_rsync :: lower (r_auth m2) :: r_mod m2 :: ns2).
  { rewrite <- !point_bottom. f_equal.
    change (rev ns1 ++ r_mod m1 :: lower (r_auth m1) :: (C_rsync :: R1) ++ sr)
      with (rev ns1 ++ (r_mod m1 :: lower (r_auth m1) :: C_rsync :: R1) ++ sr) in E.
    change (rev ns2 ++ r_mod m2 :: lower (r_auth m2) :: (C_rsync :: R2) ++ sr)
      with (rev ns2 ++ (r_mod m2 :: lower (r_auth m2) :: C_rsync :: R2) ++ sr) in E.
    rewrite !app_assoc in E. apply app_inv_tail in E. exact E. }
  clear E S1 S2 Hn H.
  assert (Kr : C_rsync <> C_rrdp) by discriminate.
  destruct r1 as [n1|], r2 as [n2|]; cbn [repo_stack repo_wf repo_eqv] in *.
  - (* both in RRDP repositories *)
    pose proof (hd_not_rsync (https_digest_input n1)) as K1. pose proof (hd_not_rrdp (https_digest_input n1)) as K2.
    pose proof (hd_not_rsync (https_digest_input n2)) as K3. pose proof (hd_not_rrdp (https_digest_input n2)) as K4.
    assert (G : hd (https_digest_input n1) = hd (https_digest_input n2) /\
                lower (r_auth m1) :: r_mod m1 :: ns1 = lower (r_auth m2) :: r_mod m2 :: ns2).
    { destruct HR1 as [-> | [-> | ->]], HR2 as [-> | [-> | ->]]; cbn [rev app] in E'; inversion E'; subst;
        try (split; [first [assumption | reflexivity] | reflexivity]); try congruence. }
    destruct G as [G1 G2]. split.
    + destruct Hr1 as [Hw1 D1], Hr2 as [Hw2 D2]. apply hd_injective in G1; [|assumption..].
      apply https_digest_input_inj; assumption.
    + inversion G2 as [[Ga Gm Gn]]. subst ns2. unfold rsync_eqv. repeat split; try assumption.
      apply (path_from_shape _ _ ns1); assumption.
  - exfalso. pose proof (hd_not_rsync (https_digest_input n1)) as K1.
    subst R2. destruct HR1 as [-> | [-> | ->]]; cbn [rev app] in E'; inversion E'; congruence.
  - exfalso. pose proof (hd_not_rsync (https_digest_input n2)) as K1.
    subst R1. destruct HR2 as [-> | [-> | ->]]; cbn [rev app] in E'; inversion E'; congruence.
  - split; [exact I|]. subst R1 R2. cbn [rev app] in E'. inversion E' as [[Ga Gm Gn]]. subst ns2.
    unfold rsync_eqv. repeat split; try assumption. apply (path_from_shape _ _ ns1); assumption.
Qed.

End Points.

(* ------------------------------------------------------------------ *)
(* the instance used by the checker: hex rendering of SHA-256 has the assumed shape *)

Lemma hexdigit_hexlow : forall x, x < 16 -> is_hexlow (hexdigit x) = true.
Proof.
  intros x Hx. unfold hexdigit, is_hexlow, is_digit. destruct (N.ltb_spec x 10).
  - replace (48 <=? 48 + x) with true by (symmetry; apply N.leb_le; lia).
    replace (48 + x <=? 57) with true by (symmetry; apply N.leb_le; lia). reflexivity.
  - replace (97 <=? 87 + x) with true by (symmetry; apply N.leb_le; lia).
    replace (87 + x <=? 102) with true by (symmetry; apply N.leb_le; lia). apply orb_true_r.
Qed.

Lemma hex_hexlow : forall bs, Forall (fun b => b < 256) bs -> forallb is_hexlow (hex bs) = true.
Proof.
  induction bs as [|b bs IH]; intros H; [reflexivity|]. inversion H; subst.
  unfold hex; cbn [flat_map app forallb]. fold (hex bs). rewrite (IH H3), andb_true_r.
  apply andb_true_iff; split; apply hexdigit_hexlow.
  - rewrite N.shiftr_div_pow2. change (2 ^ 4) with 16. apply N.div_lt_upper_bound; lia.
  - change 15 with (N.ones 4). rewrite N.land_ones. apply N.mod_lt. discriminate.
Qed.

Theorem sha256_hex_shape : forall x, hexlike (sha256_hex x) = true.
Proof.
  intros x. unfold sha256_hex, hexlike.
  pose proof (sha256_nonempty x) as Hne. pose proof (hex_hexlow _ (sha256_small x)) as Hh.
  destruct (sha256 x) as [|b bs] eqn:E; [congruence|].
  destruct (hex (b :: bs)) eqn:E2; [discriminate | exact Hh].
Qed.

(* ------------------------------------------------------------------ *)
(* boolean confinement test *)

Lemma lbeqb_eq : forall a b, lbeqb a b = true <-> a = b.
Proof.
  induction a as [|x a IH]; intros [|y b]; cbn [lbeqb]; split; intros H; try discriminate; try reflexivity.
  - apply andb_true_iff in H. destruct H as [H1 H2]. apply beqb_eq in H1. apply IH in H2. congruence.
  - inversion H; subst. rewrite beqb_refl. cbn [andb]. apply IH. reflexivity.
Qed.

Lemma prefix_combine : forall (r q : list bstr), forallb (fun x => beqb (fst x) (snd x)) (combine r (r ++ q)) = true.
Proof. induction r as [|x r IH]; intros q; [reflexivity|]. cbn [app combine forallb fst snd]. rewrite beqb_refl. apply IH. Qed.

Lemma under_underb : forall root p, under root p -> underb root p = true.
Proof.
  intros root p [sr [out [Hr Hp]]]. unfold underb, norm. rewrite Hr, Hp. cbn [option_map].
  rewrite rev_app_distr. rewrite prefix_combine, andb_true_r. apply Nat.leb_le. rewrite app_length. lia.
Qed.
