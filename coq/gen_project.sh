#!/bin/sh
# regenerates _CoqProject (all .v files except generated case files) and the Makefile
cd "$(dirname "$0")"
{ cat _CoqProject.head; find . -name '*.v' ! -path './_cases/*' | sed 's|^\./||' | sort; } > _CoqProject
coq_makefile -f _CoqProject -o Makefile >/dev/null
