#!/bin/sh
# regenerates _CoqProject (all .v files except generated case files) and the Makefile, only on change, under a lock
cd "$(dirname "$0")"
exec 9>.genlock
flock 9
tmp=$(mktemp _CoqProject.XXXXXX)
{ cat _CoqProject.head; find . -name '*.v' ! -path './_cases/*' | sed 's|^\./||' | sort; } > "$tmp"
if [ -f _CoqProject ] && [ -f Makefile ] && [ -f Makefile.conf ] && cmp -s "$tmp" _CoqProject; then rm -f "$tmp"; exit 0; fi
mv "$tmp" _CoqProject
coq_makefile -f _CoqProject -o Makefile >/dev/null
exit 0
