(* C25: where the hash-integrity premise [genuine] comes from.  SHA-256 is not modelled: it is a Section
   variable [H] from documents to digests, assumed injective on the documents considered.  If every served file
   carries the digest of its own document and every hash announced in a notification is the hash of a document
   that is either the server's genuine snapshot / delta for that session and serial or no complete snapshot /
   delta document for that session and serial at all, then the executable premise [step_genuine] holds. *)
From Coq Require Import List NArith Bool Lia.
From RV Require Import Base.KMap C25.Model C25.Spec C25.Proofs.
Import ListNotations.
Local Open Scope N_scope.

Section HashIntegrity.
Variable H : doc -> N.
Hypothesis H_injective : forall a b, H a = H b -> a = b.

(* a complete snapshot document for (s, n) that publishes the server's content at n *)
Definition genuine_snapshot (w : world) (s n : N) (d : doc) : Prop :=
  exists els, d = DSnap s n els false /\ forall c, snap_pubs els [] = Some c -> truth w s n = Some c.

(* a complete delta document for (s, n) that leads from the server's content at n-1 to the one at n *)
Definition genuine_delta (w : world) (s n : N) (d : doc) : Prop :=
  exists els, d = DDelta s n els false /\
    forall a c, truth w s (n - 1) = Some a -> delta_els els [] a = (c, true) -> truth w s n = Some c.

Definition announced_snapshot_ok (w : world) (nf : notif) : Prop :=
  exists d, nf_snap_dig nf = H d /\
    (genuine_snapshot w (nf_session nf) (nf_serial nf) d \/
     forall els, d <> DSnap (nf_session nf) (nf_serial nf) els false).

Definition announced_delta_ok (w : world) (nf : notif) (di : dinfo) : Prop :=
  exists d, di_dig di = H d /\
    (genuine_delta w (nf_session nf) (di_serial di) d \/
     forall els, d <> DDelta (nf_session nf) (di_serial di) els false).

Definition honestly_hashed (fs : list file) : Prop := forall f, In f fs -> f_dig f = H (f_doc f).

Lemma find_file_In r fs f : find_file r fs = Some f -> In f fs.
Proof. unfold find_file. intros Hf. apply find_some in Hf. exact (proj1 Hf). Qed.

Theorem injective_hash_gives_genuine w st nf :
  s_notify st = NOk nf ->
  honestly_hashed (s_files st) ->
  announced_snapshot_ok w nf ->
  (forall di, In di (nf_deltas nf) -> announced_delta_ok w nf di) ->
  step_genuine w st = true.
Proof.
  intros Hn Hh Hs Hd. unfold step_genuine. rewrite Hn. apply andb_true_intro. split.
  - unfold snap_genuine.
    destruct (find_file (nf_snap_ref nf) (s_files st)) as [f|] eqn:Hf; [|reflexivity].
    destruct (f_ok f); cbn [andb negb]; [|reflexivity].
    destruct (N.eqb_spec (f_dig f) (nf_snap_dig nf)) as [He|]; cbn [negb]; [|reflexivity].
    destruct (f_doc f) as [s n els b|] eqn:Hdoc; [|reflexivity].
    destruct b; [reflexivity|].
    destruct (N.eqb_spec s (nf_session nf)) as [->|]; cbn [andb]; [|reflexivity].
    destruct (N.eqb_spec n (nf_serial nf)) as [->|]; [|reflexivity].
    destruct (snap_pubs els []) as [c|] eqn:Hp; [|reflexivity].
    destruct Hs as (d & Hdig & Hcase).
    rewrite (Hh f (find_file_In _ _ _ Hf)), Hdig, Hdoc in He. apply H_injective in He. subst d.
    destruct Hcase as [(els' & Heq & Hg)|Hno].
    + inversion Heq; subst els'. apply is_truth_spec. apply Hg. exact Hp.
    + exfalso. exact (Hno els eq_refl).
  - apply forallb_forall. intros di Hin. unfold delta_genuine.
    destruct (find_file (di_ref di) (s_files st)) as [f|] eqn:Hf; [|reflexivity].
    destruct (f_ok f); cbn [andb negb]; [|reflexivity].
    destruct (N.eqb_spec (f_dig f) (di_dig di)) as [He|]; cbn [negb]; [|reflexivity].
    destruct (f_doc f) as [|s n els b] eqn:Hdoc; [reflexivity|].
    destruct b; [reflexivity|].
    destruct (N.eqb_spec s (nf_session nf)) as [->|]; cbn [andb]; [|reflexivity].
    destruct (N.eqb_spec n (di_serial di)) as [->|]; cbn [andb]; [|reflexivity].
    destruct (di_serial di =? 0); cbn [negb]; [reflexivity|].
    destruct (truth w (nf_session nf) (di_serial di - 1)) as [a|] eqn:Ha; [|reflexivity].
    destruct (delta_els els [] a) as [c ok] eqn:Hel. destruct ok; [|reflexivity].
    destruct (Hd di Hin) as (d & Hdig & Hcase).
    rewrite (Hh f (find_file_In _ _ _ Hf)), Hdig, Hdoc in He. apply H_injective in He. subst d.
    destruct Hcase as [(els' & Heq & Hg)|Hno].
    + inversion Heq; subst els'. apply is_truth_spec. exact (Hg a c Ha Hel).
    + exfalso. exact (Hno els eq_refl).
Qed.

End HashIntegrity.
