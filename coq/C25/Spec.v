(* C25: the property as an executable oracle, the hash-integrity premise as an executable predicate, and the
   case checker of the correspondence run.  No proofs here. *)
From Coq Require Import List NArith Bool.
From RV Require Export Base.KMap C25.Model.
Import ListNotations.
Local Open Scope N_scope.

(* The server's history ("world"): (session, serial) -> the content of the repository at that serial. *)
Definition world := list (N * N * content).

Fixpoint truth (w : world) (s n : N) : option content :=
  match w with
  | [] => None
  | (s', n', c) :: t => if (s =? s') && (n =? n') then Some c else truth t s n
  end.

Fixpoint content_eqb (a b : content) : bool :=
  match a, b with
  | [], [] => true
  | (u, d) :: a', (u', d') :: b' => (u =? u') && (d =? d') && content_eqb a' b'
  | _, _ => false
  end.

Definition is_truth (w : world) (s n : N) (c : content) : bool :=
  match truth w s n with Some t => content_eqb t c | None => false end.

(* ---- hash integrity: files whose hash matches the notification are what the server meant ----
   snapshot: a complete snapshot document for the notified session and serial whose hash is the one in the
   notification publishes the server's content at that serial;
   delta: a complete delta document for the notified session and the serial of its entry whose hash is the one in
   the entry, when it applies to the server's content at the previous serial, yields the server's content at its
   serial.  Nothing is assumed about files whose hash does not match, about documents for another session or
   serial, about broken documents, or about the notification's delta list. *)

Definition snap_genuine (w : world) (nf : notif) (fs : list file) : bool :=
  match find_file (nf_snap_ref nf) fs with
  | None => true
  | Some f =>
      if negb (f_ok f && (f_dig f =? nf_snap_dig nf)) then true else
      match f_doc f with
      | DSnap s n els false =>
          if (s =? nf_session nf) && (n =? nf_serial nf) then
            match snap_pubs els [] with
            | Some c => is_truth w s n c
            | None => true
            end
          else true
      | _ => true
      end
  end.

Definition delta_genuine (w : world) (nf : notif) (fs : list file) (di : dinfo) : bool :=
  match find_file (di_ref di) fs with
  | None => true
  | Some f =>
      if negb (f_ok f && (f_dig f =? di_dig di)) then true else
      match f_doc f with
      | DDelta s n els false =>
          if (s =? nf_session nf) && (n =? di_serial di) && negb (n =? 0) then
            match truth w s (n - 1) with
            | None => true
            | Some a => let '(c, ok) := delta_els els [] a in
                        if ok then is_truth w s n c else true
            end
          else true
      | _ => true
      end
  end.

Definition step_genuine (w : world) (st : step) : bool :=
  match s_notify st with
  | NOk nf => snap_genuine w nf (s_files st) && forallb (delta_genuine w nf (s_files st)) (nf_deltas nf)
  | _ => true
  end.

Definition genuine (w : world) (sts : list step) : bool := forallb (step_genuine w) sts.

(* ---- the property, per run: [prev] is the local copy before the run ---- *)

Definition lstate_same (a b : lstate) : bool :=
  (l_session a =? l_session b) && (l_serial a =? l_serial b) && content_eqb (l_content a) (l_content b).

Definition step_okb (w : world) (prev : option lstate) (st : step) (o : sobs) : bool :=
  (* the outcome is a LoadResult: the run as a whole does not fail because of what the server sent *)
  (o_result o <=? RES_updated) &&
  (* reported as updated -> the copy is exactly the server's snapshot at the notified serial, and that is what
     the run's reader hands out *)
  (if o_result o =? RES_updated then
     o_probe_ok o &&
     match o_local o with
     | None => false
     | Some l =>
         match s_notify st with
         | NOk nf => (l_session l =? nf_session nf) && (l_serial l =? nf_serial nf)
                     && is_truth w (nf_session nf) (nf_serial nf) (l_content l)
         | N304 => match prev with                       (* "not modified": the serial notified earlier *)
                   | Some p => lstate_same p l && is_truth w (l_session l) (l_serial l) (l_content l)
                   | None => false
                   end
         | _ => false
         end
     end
   else true).

Fixpoint steps_okb (w : world) (prev : option lstate) (sts : list step) (os : list sobs) : bool :=
  match sts, os with
  | [], [] => true
  | st :: sts', o :: os' => step_okb w prev st o && steps_okb w (o_local o) sts' os'
  | _, _ => false
  end.

(* the oracle: under the hash-integrity premise, every run of the sequence satisfies the property *)
Definition spec_okb (w : world) (sts : list step) (os : list sobs) : bool :=
  if genuine w sts then steps_okb w None sts os else true.

Definition model_obs (cfg : config) (sts : list step) : list sobs := run_steps all_fixes cfg None sts.

(* ---- comparison of observations ---- *)

Fixpoint nlist_eqb (a b : list N) : bool :=
  match a, b with
  | [], [] => true
  | x :: a', y :: b' => (x =? y) && nlist_eqb a' b'
  | _, _ => false
  end.

Definition olstate_eqb (a b : option lstate) : bool :=
  match a, b with
  | None, None => true
  | Some x, Some y => (l_session x =? l_session y) && (l_serial x =? l_serial y)
                      && content_eqb (l_dstate x) (l_dstate y) && content_eqb (l_content x) (l_content y)
  | _, _ => false
  end.

Definition sobs_eqb (a b : sobs) : bool :=
  (o_result a =? o_result b) && (o_reason a =? o_reason b) && nlist_eqb (o_reqs a) (o_reqs b)
  && olstate_eqb (o_local a) (o_local b) && Bool.eqb (o_probe_ok a) (o_probe_ok b).

Fixpoint obs_eqb (a b : list sobs) : bool :=
  match a, b with
  | [], [] => true
  | x :: a', y :: b' => sobs_eqb x y && obs_eqb a' b'
  | _, _ => false
  end.

(* ---- rewritten history: the server re-issues a (session, serial) with other content ----------------------------
   Each run has its own world (what the server stands for while that run is made).  The code's defence is
   Notification::check_deltas: the hashes of the deltas listed when the copy was stored are remembered; a
   notification listing one of those serials with another hash makes the run fetch the snapshot.  The premise per
   run, evaluated on the copy the run starts from: the copy is that run's world's content at the stored serial,
   OR the rewriting is visible (a listed delta's hash differs from the remembered one), OR the session differs.
   Defined on the raw notification, without the model's functions. *)

Definition mismatch (l : lstate) (nf : notif) : bool :=
  existsb (fun d => match lookup (di_serial d) (l_dstate l) with
                    | Some h => negb (di_dig d =? h)
                    | None => false
                    end) (nf_deltas nf).

Definition step_premise (w : world) (prev : option lstate) (st : step) : bool :=
  step_genuine w st &&
  match prev with
  | None => true
  | Some l =>
      match s_notify st with
      | NOk nf => is_truth w (l_session l) (l_serial l) (l_content l) || mismatch l nf
                  || negb (nf_session nf =? l_session l)
      | N304 => is_truth w (l_session l) (l_serial l) (l_content l)     (* 304: the server says nothing changed *)
      | _ => true
      end
  end.

(* one (world, run) pair per step *)
Fixpoint steps_okb2 (prev : option lstate) (wsts : list (world * step)) (os : list sobs) : bool :=
  match wsts, os with
  | [], [] => true
  | (w, st) :: t, o :: os' =>
      (if step_premise w prev st then step_okb w prev st o else true) && steps_okb2 (o_local o) t os'
  | _, _ => false
  end.

(* One correspondence case.  Result codes: 0 the model's runs equal the implementation's and the property holds
   on the implementation's output; 1 the property holds on the implementation's output but the model differs;
   2 the property fails on the implementation's output.  [c_worlds] = [] : one world for all runs (the oracle
   [spec_okb], whose premise is on the input only); otherwise one world per run (oracle [steps_okb2]). *)
Record case := { c_cfg : config; c_world : world; c_worlds : list world; c_steps : list step; c_impl : list sobs }.

Definition case_okb (c : case) : bool :=
  match c_worlds c with
  | [] => spec_okb (c_world c) (c_steps c) (c_impl c)
  | ws => Nat.eqb (length ws) (length (c_steps c)) && steps_okb2 None (combine ws (c_steps c)) (c_impl c)
  end.

Definition check_case (c : case) : N :=
  if negb (case_okb c) then 2
  else if obs_eqb (model_obs (c_cfg c) (c_steps c)) (c_impl c) then 0 else 1.
