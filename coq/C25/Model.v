(* C25 — RRDP updates reproduce the server state or report failure.
   Executable model of one validation run's update of one RRDP repository,
   transcribed from
     src/collector/rrdp/base.rs    RepositoryUpdate::{try_update, update, not_modified, snapshot_update,
                                   delta_update, calc_deltas}, Run::load_repository (result mapping)
     src/collector/rrdp/update.rs  Notification::{get, from_response, to_repository_state, check_deltas},
                                   SnapshotUpdate::{try_update, meta, publish}, DeltaUpdate::{try_update, meta,
                                   publish, withdraw}, HashRead::verify_hash
     rpki 0.19.3 rrdp.rs           NotificationFile::{parse_limited (delta list limit), sort_deltas, deltas,
                                   delta_status}
   The archive (src/collector/rrdp/archive.rs over utils/archive.rs) is a map URI -> content plus the state
   record; archive storage operations are assumed not to fail (no I/O error, no corruption).

   What the server answers during the run is the input ([step]): the answer to the notification request and a
   table reference -> file.  Hash values are abstract digests ([N]); two byte strings have the same digest iff
   the harness computed the same SHA-256 for them.  Object contents are identified by small numbers as well (the
   per-object hashes inside deltas and in the archive's meta data compare exactly as the content numbers do).

   The three corrections made to the code (notes/C25-fix.patch) are switchable ([fixes]) so that the code as
   found is the same function with a flag off; every theorem is about [all_fixes], the refutations about one
   flag off.  No proofs here. *)
From Coq Require Import List NArith Bool.
From RV Require Export Base.KMap.
Import ListNotations.
Local Open Scope N_scope.

Definition content := list (N * N).          (* URI -> content id, strictly sorted by URI *)

(* ---- what is served ---- *)

Inductive delem :=
| EPub (u d : N)                (* <publish uri> without hash *)
| EUpd (u old d : N)            (* <publish uri hash=H(old)> *)
| EWdr (u old : N).             (* <withdraw uri hash=H(old)> *)

(* [broken]: after the listed elements the XML is unusable (processing fails right after them) *)
Inductive doc :=
| DSnap (s n : N) (els : list (N * N)) (broken : bool)
| DDelta (s n : N) (els : list delem) (broken : bool).

Record file := { f_ref : N; f_ok : bool (* status 200 *); f_doc : doc; f_dig : N (* SHA-256 of the body *) }.
Record dinfo := { di_serial : N; di_ref : N; di_dig : N }.
Record notif := { nf_session : N; nf_serial : N; nf_snap_ref : N; nf_snap_dig : N;
                  nf_deltas : list dinfo (* document order *) }.

Inductive nresp :=
| NErr                          (* request failed / status other than 200 and 304 *)
| N304                          (* 304 Not Modified *)
| NBad                          (* 200 but unusable: XML error, truncated transfer, foreign origin *)
| NOk (nf : notif).

Record step := { s_notify : nresp; s_files : list file }.

Record config := { c_max_list : N      (* rrdp-max-delta-list-len *);
                   c_max_count : N     (* rrdp-max-delta-count *);
                   c_expire : bool     (* a copy found at the start of a run is past its best-before time *) }.

(* ---- the local copy: RepositoryState (session, serial, delta_state) + the objects ---- *)

Record lstate := { l_session : N; l_serial : N; l_dstate : list (N * N); l_content : content }.

Record fixes := { fix_304 : bool;       (* F16: 304 without a local copy is a failed update *)
                  fix_gap : bool;       (* F17: the deltas to follow must have consecutive serials *)
                  fix_taint : bool      (* F20: a copy left by a failed delta update is removed unless the snapshot replaces it *) }.
Definition all_fixes := {| fix_304 := true; fix_gap := true; fix_taint := true |}.

(* snapshot reasons, numbered as the harness numbers SnapshotReason::code() *)
Definition R_none := 0.
Definition R_new_repository := 1.
Definition R_new_session := 2.
Definition R_bad_delta_set := 3.
Definition R_large_delta_set := 4.
Definition R_delta_mutation := 5.
Definition R_large_serial := 6.
Definition R_outdated_local := 7.
Definition R_conflicting_delta := 8.
Definition R_too_many_deltas := 9.

(* LoadResult / RunFailed as the harness numbers them *)
Definition RES_unavailable := 0.
Definition RES_stale := 1.
Definition RES_current := 2.
Definition RES_updated := 3.
Definition RES_run_failed := 4.

Definition find_file (r : N) (fs : list file) : option file := find (fun f => f_ref f =? r) fs.

(* ---- notification: rpki NotificationFile ---- *)

(* sort_deltas: deltas.sort_by_key(serial) — a stable sort *)
Fixpoint dinsert (d : dinfo) (l : list dinfo) : list dinfo :=
  match l with
  | [] => [d]
  | h :: t => if di_serial d <? di_serial h then d :: l else h :: dinsert d t
  end.
Definition sort_deltas (l : list dinfo) : list dinfo := fold_left (fun acc d => dinsert d acc) l [].

(* parse_limited: more than [limit] delta elements -> the list is dropped (deltas() = [], delta_status() = Err) *)
Definition oversized (cfg : config) (nf : notif) : bool := c_max_list cfg <? N.of_nat (length (nf_deltas nf)).
Definition deltas_of (cfg : config) (nf : notif) : list dinfo :=
  if oversized cfg nf then [] else sort_deltas (nf_deltas nf).

(* Notification::to_repository_state: delta_state = deltas().map((serial, hash)).collect::<HashMap>() *)
Definition dstate_of (ds : list dinfo) : list (N * N) :=
  fold_left (fun acc d => kinsert (di_serial d) (di_dig d) acc) ds [].
Definition state_of (cfg : config) (nf : notif) (c : content) : lstate :=
  {| l_session := nf_session nf; l_serial := nf_serial nf; l_dstate := dstate_of (deltas_of cfg nf); l_content := c |}.

(* Notification::check_deltas *)
Definition check_deltas (ds : list dinfo) (st : lstate) : bool :=
  forallb (fun d => match lookup (di_serial d) (l_dstate st) with
                    | Some h => di_dig d =? h
                    | None => true
                    end) ds.

(* ---- SnapshotUpdate ---- *)

(* ProcessSnapshot::publish for each element, into the fresh temporary archive *)
Fixpoint snap_pubs (els : list (N * N)) (acc : content) : option content :=
  match els with
  | [] => Some acc
  | (u, d) :: t => match lookup u acc with
                   | Some _ => None                        (* PublishError::AlreadyExists -> DuplicateObject *)
                   | None => snap_pubs t (kinsert u d acc)
                   end
  end.

(* SnapshotUpdate::try_update: Some content = the temporary archive was completed *)
Definition snapshot_fetch (nf : notif) (fs : list file) : option content :=
  match find_file (nf_snap_ref nf) fs with
  | None => None                                           (* 404 *)
  | Some f =>
      if negb (f_ok f) then None else
      match f_doc f with
      | DDelta _ _ _ _ => None                             (* root element is not <snapshot> *)
      | DSnap s n els broken =>
          if negb (s =? nf_session nf) then None           (* meta: SessionMismatch *)
          else if negb (n =? nf_serial nf) then None       (* meta: SerialMismatch *)
          else match snap_pubs els [] with
               | None => None
               | Some c => if broken then None             (* XML error after the elements *)
                           else if f_dig f =? nf_snap_dig nf then Some c
                           else None                       (* verify_hash: HashMismatch *)
               end
      end
  end.

(* ---- DeltaUpdate: applied to the archive in place, element by element ---- *)

Definition elem_uri (e : delem) : N := match e with EPub u _ => u | EUpd u _ _ => u | EWdr u _ => u end.

(* returns the archive content afterwards and whether every element was processed *)
Fixpoint delta_els (els : list delem) (seen : list N) (c : content) : content * bool :=
  match els with
  | [] => (c, true)
  | e :: t =>
      if existsb (N.eqb (elem_uri e)) seen then (c, false)                 (* ObjectRepeated *)
      else match e with
           | EPub u d => match lookup u c with
                         | Some _ => (c, false)                            (* ObjectAlreadyPresent *)
                         | None => delta_els t (u :: seen) (kinsert u d c)
                         end
           | EUpd u old d => match lookup u c with
                             | None => (c, false)                          (* MissingObject *)
                             | Some x => if x =? old then delta_els t (u :: seen) (kinsert u d c)
                                         else (c, false)                   (* ObjectHashMismatch *)
                             end
           | EWdr u old => match lookup u c with
                           | None => (c, false)
                           | Some x => if x =? old then delta_els t (u :: seen) (kremove u c)
                                       else (c, false)
                           end
           end
  end.

(* DeltaUpdate::try_update for one DeltaInfo; the hash of the file is verified after it has been processed *)
Definition delta_one (session : N) (di : dinfo) (fs : list file) (c : content) : content * bool :=
  match find_file (di_ref di) fs with
  | None => (c, false)
  | Some f =>
      if negb (f_ok f) then (c, false) else
      match f_doc f with
      | DSnap _ _ _ _ => (c, false)                        (* root element is not <delta> *)
      | DDelta s n els broken =>
          if negb (s =? session) then (c, false)           (* meta: SessionMismatch *)
          else if negb (n =? di_serial di) then (c, false) (* meta: SerialMismatch *)
          else let '(c', ok) := delta_els els [] c in
               if negb ok then (c', false)
               else if broken then (c', false)
               else (c', f_dig f =? di_dig di)             (* verify_hash *)
      end
  end.

(* the loop of delta_update: stops at the first delta that fails; also the requests made *)
Fixpoint delta_chain (session : N) (ds : list dinfo) (fs : list file) (c : content) : content * bool * list N :=
  match ds with
  | [] => (c, true, [])
  | d :: t =>
      let '(c', ok) := delta_one session d fs c in
      if ok then let '(c'', ok', rq) := delta_chain session t fs c' in (c'', ok', di_ref d :: rq)
      else (c', false, [di_ref d])
  end.

(* ---- calc_deltas ---- *)

Definition max_serial := 18446744073709551615.   (* u64::MAX *)

Fixpoint skip_older (serial : N) (ds : list dinfo) : list dinfo :=
  match ds with
  | [] => []
  | d :: t => if di_serial d <? serial then skip_older serial t else ds
  end.

Fixpoint consecutive (ds : list dinfo) : bool :=
  match ds with
  | [] => true
  | d :: t => match t with
              | [] => true
              | d' :: _ => (di_serial d + 1 =? di_serial d') && consecutive t
              end
  end.

Definition last_serial (ds : list dinfo) : option N :=
  match rev ds with [] => None | d :: _ => Some (di_serial d) end.

(* inl deltas = follow these; inr reason = use the snapshot *)
Definition calc_deltas (fx : fixes) (cfg : config) (nf : notif) (ds : list dinfo) (st : lstate)
  : list dinfo + N :=
  if negb (nf_session nf =? l_session st) then inr R_new_session
  else if nf_serial nf =? l_serial st then inl []
  else if negb (match last_serial ds with Some s => s =? nf_serial nf | None => false end) then inr R_bad_delta_set
  else if l_serial st =? max_serial then inr R_large_serial
  else
    let serial := l_serial st + 1 in
    match skip_older serial ds with
    | [] => inr R_bad_delta_set                                    (* ran out of deltas *)
    | d :: t =>
        if serial <? di_serial d then inr R_outdated_local         (* first delta is too new *)
        else if fix_gap fx && negb (consecutive (d :: t)) then inr R_bad_delta_set
        else if c_max_count cfg <? N.of_nat (length (d :: t)) then inr R_too_many_deltas
        else inl (d :: t)
    end.

(* ---- delta_update: None = up to date now; Some reason = try the snapshot.
        Also: the archive content afterwards, the new state if successful, the delta requests made ---- *)

Definition delta_update (fx : fixes) (cfg : config) (nf : notif) (fs : list file) (st : lstate)
  : option N * content * list N :=
  if oversized cfg nf then (Some R_large_delta_set, l_content st, [])
  else
    let ds := deltas_of cfg nf in
    if negb (check_deltas ds st) then (Some R_delta_mutation, l_content st, [])
    else match calc_deltas fx cfg nf ds st with
         | inr reason => (Some reason, l_content st, [])
         | inl follow =>
             let '(c, ok, rq) := delta_chain (nf_session nf) follow fs (l_content st) in
             if ok then (None, c, rq) else (Some R_conflicting_delta, c, rq)
         end.

(* ---- update + try_update + load_repository: one run ---- *)

Record sobs := { o_result : N; o_reason : N; o_reqs : list N; o_local : option lstate; o_probe_ok : bool }.

Definition failed_result (cfg : config) (had_copy : bool) : N :=
  if had_copy then (if c_expire cfg then RES_stale else RES_current) else RES_unavailable.

Definition mk_obs (res reason : N) (reqs : list N) (l : option lstate) : sobs :=
  {| o_result := res; o_reason := reason; o_reqs := reqs; o_local := l; o_probe_ok := true |}.

(* the notification request is request 0; a file request is its reference *)
Definition run_step (fx : fixes) (cfg : config) (local : option lstate) (st : step) : sobs :=
  let had := match local with Some _ => true | None => false end in
  match s_notify st with
  | NErr | NBad => mk_obs (failed_result cfg had) R_none [0] local
  | N304 =>
      match local with
      | Some l => mk_obs RES_updated R_none [0] local                         (* not_modified: state touched only *)
      | None => if fix_304 fx then mk_obs (failed_result cfg false) R_none [0] None
                else mk_obs RES_run_failed R_none [0] None                    (* Updated, then the archive cannot be opened *)
      end
  | NOk nf =>
      let snapshot (reason : N) (rq : list N) (keep : option lstate) :=
        match snapshot_fetch nf (s_files st) with
        | Some c => mk_obs RES_updated reason (0 :: rq ++ [nf_snap_ref nf]) (Some (state_of cfg nf c))
        | None => mk_obs (failed_result cfg had) reason (0 :: rq ++ [nf_snap_ref nf]) keep
        end in
      match local with
      | None => snapshot R_new_repository [] None
      | Some l =>
          match delta_update fx cfg nf (s_files st) l with
          | (None, c, rq) => mk_obs RES_updated R_none (0 :: rq) (Some (state_of cfg nf c))
          | (Some reason, c, rq) =>
              let tainted := reason =? R_conflicting_delta in
              snapshot reason rq
                (if tainted && fix_taint fx then None
                 else Some {| l_session := l_session l; l_serial := l_serial l; l_dstate := l_dstate l; l_content := c |})
          end
      end
  end.

(* successive validation runs against the same cache directory *)
Fixpoint run_steps (fx : fixes) (cfg : config) (local : option lstate) (sts : list step) : list sobs :=
  match sts with
  | [] => []
  | st :: t => let o := run_step fx cfg local st in o :: run_steps fx cfg (o_local o) t
  end.
