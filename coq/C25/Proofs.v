(* C25: proofs.  Main results: under the hash-integrity premise ([genuine]) every run of the corrected update
   algorithm keeps the invariant "the local copy, if any, is the server's content at the stored session and
   serial", a run reported as updated ends with the server's content at the notified serial, and no run fails as
   a whole.  All by induction over the list of runs / the list of deltas; no bound on histories, delta lists,
   object universes. *)
From Coq Require Import List NArith Bool Lia.
From RV Require Import Base.KMap C25.Model C25.Spec.
Import ListNotations.
Local Open Scope N_scope.

(* ---- small facts ---- *)

Lemma content_eqb_eq a b : content_eqb a b = true <-> a = b.
Proof.
  revert b. induction a as [|[u d] a IH]; intros [|[u' d'] b]; cbn [content_eqb]; split; intros H;
    try reflexivity; try discriminate.
  - apply andb_prop in H as [H1 H3]. apply andb_prop in H1 as [H1 H2].
    apply N.eqb_eq in H1, H2. apply IH in H3. subst. reflexivity.
  - inversion H; subst. rewrite !N.eqb_refl. cbn [andb]. apply IH. reflexivity.
Qed.

Lemma is_truth_spec w s n c : is_truth w s n c = true <-> truth w s n = Some c.
Proof.
  unfold is_truth. destruct (truth w s n) as [t|]; split; intros H; try discriminate.
  - apply content_eqb_eq in H. subst. reflexivity.
  - inversion H; subst. apply content_eqb_eq. reflexivity.
Qed.

(* the invariant on the local copy *)
Definition inv (w : world) (l : option lstate) : Prop :=
  match l with
  | None => True
  | Some l => truth w (l_session l) (l_serial l) = Some (l_content l)
  end.

(* ---- the sorted delta list has the elements of the notification's list ---- *)

Lemma dinsert_In d x l : In x (dinsert d l) -> x = d \/ In x l.
Proof.
  induction l as [|h t IH]; cbn [dinsert]; intros H.
  - destruct H as [H|[]]; left; symmetry; exact H.
  - destruct (di_serial d <? di_serial h).
    + destruct H as [H|H]; [left; symmetry; exact H | right; exact H].
    + destruct H as [H|H]; [right; left; exact H|].
      destruct (IH H) as [H'|H']; [left; exact H' | right; right; exact H'].
Qed.

Lemma sort_deltas_In_gen x l acc : In x (fold_left (fun acc d => dinsert d acc) l acc) -> In x l \/ In x acc.
Proof.
  revert acc. induction l as [|d l IH]; intros acc H; cbn [fold_left] in H.
  - right; exact H.
  - destruct (IH _ H) as [H'|H'].
    + left; right; exact H'.
    + destruct (dinsert_In _ _ _ H') as [->|H'']; [left; left; reflexivity | right; exact H''].
Qed.

Lemma sort_deltas_In x l : In x (sort_deltas l) -> In x l.
Proof. intros H. destruct (sort_deltas_In_gen x l [] H) as [H'|[]]. exact H'. Qed.

Lemma deltas_of_In cfg nf x : In x (deltas_of cfg nf) -> In x (nf_deltas nf).
Proof.
  unfold deltas_of. destruct (oversized cfg nf); [intros [] | apply sort_deltas_In].
Qed.

(* ---- calc_deltas: what a list to follow looks like ---- *)

Lemma skip_older_suffix serial ds : exists pre, ds = pre ++ skip_older serial ds.
Proof.
  induction ds as [|d t IH]; cbn [skip_older].
  - exists []. reflexivity.
  - destruct (di_serial d <? serial).
    + destruct IH as [pre IH]. exists (d :: pre). cbn [app]. f_equal. exact IH.
    + exists []. reflexivity.
Qed.

Lemma last_serial_app_cons pre d t : last_serial (pre ++ d :: t) = last_serial (d :: t).
Proof.
  unfold last_serial. rewrite rev_app_distr. cbn [rev].
  destruct (rev t ++ [d]) as [|x r] eqn:E.
  - destruct (rev t); discriminate.
  - cbn [app]. reflexivity.
Qed.

(* the serial reached by following a consecutive list that starts right after [k] *)
Definition follows (k : N) (fl : list dinfo) : Prop :=
  consecutive fl = true /\ match fl with [] => True | d :: _ => di_serial d = k + 1 end.

Lemma follows_tail k d t : follows k (d :: t) -> di_serial d = k + 1 /\ follows (k + 1) t.
Proof.
  intros [Hc Hf]. split; [exact Hf|]. unfold follows. destruct t as [|d' t'].
  - split; [reflexivity | exact I].
  - cbn [consecutive] in Hc. apply andb_prop in Hc as [H1 H2]. apply N.eqb_eq in H1.
    split; [exact H2 | lia].
Qed.

Lemma last_serial_follows k fl : follows k fl ->
  last_serial fl = match fl with [] => None | _ => Some (k + N.of_nat (length fl)) end.
Proof.
  revert k. induction fl as [|d t IH]; intros k Hf; [reflexivity|].
  destruct (follows_tail _ _ _ Hf) as [Hd Ht].
  destruct t as [|d' t'].
  - unfold last_serial. cbn [rev app length]. rewrite Hd. f_equal.
  - change (d :: d' :: t') with ([d] ++ d' :: t'). rewrite last_serial_app_cons.
    rewrite (IH _ Ht). f_equal. cbn [app length]. lia.
Qed.

Lemma calc_deltas_inl cfg nf ds st fl :
  calc_deltas all_fixes cfg nf ds st = inl fl ->
  nf_session nf = l_session st /\ follows (l_serial st) fl /\ (forall x, In x fl -> In x ds) /\
  nf_serial nf = l_serial st + N.of_nat (length fl).
Proof.
  unfold calc_deltas.
  destruct (N.eqb_spec (nf_session nf) (l_session st)) as [Hs|]; cbn [negb]; [|discriminate].
  destruct (N.eqb_spec (nf_serial nf) (l_serial st)) as [Hn|Hn].
  { intros H; inversion H; subst. repeat split; try assumption; try reflexivity.
    - intros x [].
    - change (N.of_nat (length (@nil dinfo))) with 0. lia. }
  destruct (last_serial ds) as [ls|] eqn:Hls; cbn [negb]; [|discriminate].
  destruct (N.eqb_spec ls (nf_serial nf)) as [Hl|]; cbn [negb]; [|discriminate].
  destruct (l_serial st =? max_serial); [discriminate|].
  destruct (skip_older_suffix (l_serial st + 1) ds) as [pre Hpre].
  destruct (skip_older (l_serial st + 1) ds) as [|d t] eqn:Hsk; [discriminate|].
  destruct (N.ltb_spec (l_serial st + 1) (di_serial d)) as [|Hle]; [discriminate|].
  cbn [fix_gap all_fixes andb].
  destruct (consecutive (d :: t)) eqn:Hc; cbn [negb]; [|discriminate].
  destruct (c_max_count cfg <? N.of_nat (length (d :: t))); [discriminate|].
  intros H; inversion H; subst fl.
  assert (Hd : di_serial d = l_serial st + 1).
  { (* the first retained delta is not older than serial *)
    assert (Hge : (di_serial d <? l_serial st + 1) = false).
    { clear - Hsk. induction ds as [|x r IH]; cbn [skip_older] in Hsk; [discriminate|].
      destruct (di_serial x <? l_serial st + 1) eqn:E; [apply IH; exact Hsk|].
      inversion Hsk; subst. exact E. }
    apply N.ltb_ge in Hge. lia. }
  assert (Hf : follows (l_serial st) (d :: t)) by (split; assumption).
  split; [exact Hs|]. split; [exact Hf|]. split.
  - intros x Hx. rewrite Hpre. apply in_or_app. right. exact Hx.
  - rewrite Hpre in Hls. rewrite last_serial_app_cons in Hls.
    rewrite (last_serial_follows _ _ Hf) in Hls. injection Hls as Hls.
    rewrite <- Hl, <- Hls. reflexivity.
Qed.

(* ---- one genuine delta ---- *)

Lemma delta_one_truth w nf fs di k c c' :
  delta_genuine w nf fs di = true ->
  di_serial di = k + 1 ->
  truth w (nf_session nf) k = Some c ->
  delta_one (nf_session nf) di fs c = (c', true) ->
  truth w (nf_session nf) (k + 1) = Some c'.
Proof.
  unfold delta_genuine, delta_one. intros Hg Hk Ht H.
  destruct (find_file (di_ref di) fs) as [f|]; [|discriminate].
  destruct (f_ok f); cbn [negb andb] in *; [|discriminate].
  destruct (f_doc f) as [s n els b|s n els b]; [discriminate|].
  destruct (N.eqb_spec s (nf_session nf)) as [->|]; cbn [negb andb] in *; [|discriminate].
  destruct (N.eqb_spec n (di_serial di)) as [->|]; cbn [negb andb] in *; [|discriminate].
  destruct (delta_els els [] c) as [c2 ok] eqn:He.
  destruct ok; cbn [negb] in H; [|discriminate].
  destruct b; [discriminate|].
  inversion H as [[Hc Hd]]. subst c2. rewrite Hd in Hg. cbn [negb] in Hg.
  rewrite Hk in Hg.
  destruct (N.eqb_spec (k + 1) 0) as [|_]; [lia|]. cbn [negb] in Hg.
  replace (k + 1 - 1) with k in Hg by lia. rewrite Ht, He in Hg.
  apply is_truth_spec. exact Hg.
Qed.

Lemma delta_chain_truth w nf fs : forall fl k c c' rq,
  follows k fl ->
  (forall x, In x fl -> delta_genuine w nf fs x = true) ->
  truth w (nf_session nf) k = Some c ->
  delta_chain (nf_session nf) fl fs c = (c', true, rq) ->
  truth w (nf_session nf) (k + N.of_nat (length fl)) = Some c'.
Proof.
  induction fl as [|d t IH]; intros k c c' rq Hf Hg Ht H; cbn [delta_chain] in H.
  - inversion H; subst. cbn [length]. replace (k + N.of_nat 0) with k by lia. exact Ht.
  - destruct (follows_tail _ _ _ Hf) as [Hd Hft].
    destruct (delta_one (nf_session nf) d fs c) as [c1 ok] eqn:H1.
    destruct ok; [|discriminate].
    destruct (delta_chain (nf_session nf) t fs c1) as [[c2 ok2] rq2] eqn:H2.
    inversion H; subst c2 ok2 rq.
    assert (Ht1 : truth w (nf_session nf) (k + 1) = Some c1).
    { eapply delta_one_truth; [apply Hg; left; reflexivity | exact Hd | exact Ht | exact H1]. }
    specialize (IH (k + 1) c1 c' rq2 Hft (fun x Hx => Hg x (or_intror Hx)) Ht1 H2).
    replace (k + N.of_nat (length (d :: t))) with (k + 1 + N.of_nat (length t)) by (cbn [length]; lia).
    exact IH.
Qed.

(* ---- the snapshot ---- *)

Lemma snapshot_fetch_truth w nf fs c :
  snap_genuine w nf fs = true -> snapshot_fetch nf fs = Some c ->
  truth w (nf_session nf) (nf_serial nf) = Some c.
Proof.
  unfold snap_genuine, snapshot_fetch. intros Hg H.
  destruct (find_file (nf_snap_ref nf) fs) as [f|]; [|discriminate].
  destruct (f_ok f); cbn [negb andb] in *; [|discriminate].
  destruct (f_doc f) as [s n els b|s n els b]; [|discriminate].
  destruct (N.eqb_spec s (nf_session nf)) as [->|]; cbn [negb andb] in *; [|discriminate].
  destruct (N.eqb_spec n (nf_serial nf)) as [->|]; cbn [negb andb] in *; [|discriminate].
  destruct (snap_pubs els []) as [c0|]; [|discriminate].
  destruct b; [discriminate|].
  destruct (f_dig f =? nf_snap_dig nf); [|discriminate].
  inversion H; subst c0. cbn [negb] in Hg. apply is_truth_spec. exact Hg.
Qed.

(* ---- delta_update ---- *)

Lemma delta_update_none w cfg nf fs st c rq :
  forallb (delta_genuine w nf fs) (nf_deltas nf) = true ->
  truth w (l_session st) (l_serial st) = Some (l_content st) ->
  delta_update all_fixes cfg nf fs st = (None, c, rq) ->
  truth w (nf_session nf) (nf_serial nf) = Some c.
Proof.
  unfold delta_update. intros Hg Hinv H.
  destruct (oversized cfg nf) eqn:Ho; [discriminate|].
  destruct (check_deltas (deltas_of cfg nf) st); cbn [negb] in H; [|discriminate].
  destruct (calc_deltas all_fixes cfg nf (deltas_of cfg nf) st) as [fl|r] eqn:Hc; [|discriminate].
  destruct (delta_chain (nf_session nf) fl fs (l_content st)) as [[c1 ok] rq1] eqn:Hch.
  destruct ok; [|discriminate]. inversion H; subst c1 rq1.
  destruct (calc_deltas_inl _ _ _ _ _ Hc) as (Hs & Hf & Hin & Hn).
  rewrite Hn. rewrite <- Hs in Hinv.
  eapply delta_chain_truth; [exact Hf | | exact Hinv | exact Hch].
  intros x Hx. rewrite forallb_forall in Hg. apply Hg. eapply deltas_of_In. apply Hin. exact Hx.
Qed.

(* ---- one run ---- *)

Definition notified_ok (w : world) (prev : option lstate) (st : step) (o : sobs) : Prop :=
  o_result o = RES_updated ->
  exists l, o_local o = Some l /\
    match s_notify st with
    | NOk nf => l_session l = nf_session nf /\ l_serial l = nf_serial nf /\
                truth w (nf_session nf) (nf_serial nf) = Some (l_content l)
    | N304 => prev = Some l /\ truth w (l_session l) (l_serial l) = Some (l_content l)
    | _ => False
    end.

Lemma failed_result_le cfg had : failed_result cfg had <= RES_updated.
Proof. unfold failed_result, RES_stale, RES_current, RES_unavailable, RES_updated. destruct had, (c_expire cfg); lia. Qed.

Lemma failed_result_ne cfg had : failed_result cfg had <> RES_updated.
Proof. unfold failed_result, RES_stale, RES_current, RES_unavailable, RES_updated. destruct had, (c_expire cfg); lia. Qed.

Lemma run_step_correct w cfg local st :
  step_genuine w st = true -> inv w local ->
  let o := run_step all_fixes cfg local st in
  o_result o <= RES_updated /\ o_probe_ok o = true /\ notified_ok w local st o /\ inv w (o_local o).
Proof.
  intros Hg Hinv. cbv zeta. unfold notified_ok, run_step, step_genuine in *.
  destruct (s_notify st) as [| | |nf] eqn:En.
  - (* NErr *) cbn [mk_obs o_result o_probe_ok o_local inv]. repeat split; try apply failed_result_le; try exact Hinv.
    intros H. exfalso. exact (failed_result_ne _ _ H).
  - (* N304 *) destruct local as [l|].
    + cbn [mk_obs o_result o_probe_ok o_local inv]. repeat split; try (unfold RES_updated; lia); try exact Hinv.
      intros _. exists l. repeat split. exact Hinv.
    + cbn [fix_304 all_fixes mk_obs o_result o_probe_ok o_local inv]. repeat split; try apply failed_result_le.
      intros H. exfalso. exact (failed_result_ne _ _ H).
  - (* NBad *) cbn [mk_obs o_result o_probe_ok o_local inv]. repeat split; try apply failed_result_le; try exact Hinv.
    intros H. exfalso. exact (failed_result_ne _ _ H).
  - (* NOk *)
    apply andb_prop in Hg as [Hgs Hgd].
    (* the snapshot part, for any reason, requests and kept copy *)
    assert (Hsnap : forall had reason rq keep, inv w keep ->
      let o := match snapshot_fetch nf (s_files st) with
               | Some c => mk_obs RES_updated reason (0 :: rq ++ [nf_snap_ref nf]) (Some (state_of cfg nf c))
               | None => mk_obs (failed_result cfg had) reason (0 :: rq ++ [nf_snap_ref nf]) keep
               end in
      o_result o <= RES_updated /\ o_probe_ok o = true /\
      (o_result o = RES_updated ->
       exists l, o_local o = Some l /\ l_session l = nf_session nf /\ l_serial l = nf_serial nf /\
                 truth w (nf_session nf) (nf_serial nf) = Some (l_content l)) /\
      inv w (o_local o)).
    { intros had reason rq keep Hk. cbv zeta.
      destruct (snapshot_fetch nf (s_files st)) as [c|] eqn:Hf; cbn [mk_obs o_result o_probe_ok o_local inv state_of l_session l_serial l_content].
      - pose proof (snapshot_fetch_truth _ _ _ _ Hgs Hf) as Ht.
        repeat split; try (unfold RES_updated; lia); try exact Ht.
        intros _. exists (state_of cfg nf c). repeat split. exact Ht.
      - repeat split; try apply failed_result_le; try exact Hk.
        intros H. exfalso. exact (failed_result_ne _ _ H). }
    destruct local as [l|].
    + destruct (delta_update all_fixes cfg nf (s_files st) l) as [[r c] rq] eqn:Hd.
      destruct r as [reason|].
      * (* fall back to the snapshot; what is kept satisfies the invariant *)
        cbn [fix_taint all_fixes].
        assert (Hkeep : inv w (if (reason =? R_conflicting_delta) && true then None
                               else Some {| l_session := l_session l; l_serial := l_serial l;
                                            l_dstate := l_dstate l; l_content := c |})).
        { destruct (reason =? R_conflicting_delta) eqn:Er; cbn [andb]; [exact I|].
          cbn. (* no delta was applied: the content is unchanged *)
          assert (c = l_content l).
          { unfold delta_update in Hd.
            destruct (oversized cfg nf); [inversion Hd; reflexivity|].
            destruct (check_deltas (deltas_of cfg nf) l); cbn [negb] in Hd; [|inversion Hd; reflexivity].
            destruct (calc_deltas all_fixes cfg nf (deltas_of cfg nf) l) as [fl|r]; [|inversion Hd; reflexivity].
            destruct (delta_chain (nf_session nf) fl (s_files st) (l_content l)) as [[c1 ok] rq1].
            destruct ok; inversion Hd; subst. rewrite N.eqb_refl in Er. discriminate. }
          subst c. exact Hinv. }
        apply (Hsnap true reason rq _ Hkeep).
      * (* up to date through deltas *)
        pose proof (delta_update_none _ _ _ _ _ _ _ Hgd Hinv Hd) as Ht.
        cbn [mk_obs o_result o_probe_ok o_local inv]. repeat split; try (unfold RES_updated; lia); try exact Ht.
        intros _. exists (state_of cfg nf c). repeat split. exact Ht.
    + apply (Hsnap false R_new_repository [] None I).
Qed.

(* ---- sequences of runs ---- *)

Lemma run_steps_okb w cfg : forall sts local,
  genuine w sts = true -> inv w local ->
  steps_okb w local sts (run_steps all_fixes cfg local sts) = true.
Proof.
  induction sts as [|st t IH]; intros local Hg Hinv; [reflexivity|].
  cbn [genuine forallb] in Hg. apply andb_prop in Hg as [Hg1 Hg2].
  cbn [run_steps steps_okb].
  destruct (run_step_correct w cfg local st Hg1 Hinv) as (Hle & Hp & Hn & Hi).
  apply andb_true_intro. split; [|apply IH; assumption].
  unfold step_okb. apply andb_true_intro. split; [apply N.leb_le; exact Hle|].
  destruct (N.eqb_spec (o_result (run_step all_fixes cfg local st)) RES_updated) as [Hr|]; [|reflexivity].
  rewrite Hp. cbn [andb].
  destruct (Hn Hr) as (l & Hl & Hm). rewrite Hl.
  destruct (s_notify st) as [| | |nf]; try contradiction.
  - destruct Hm as [Hprev Ht]. rewrite Hprev. apply andb_true_intro. split.
    + unfold lstate_same. rewrite !N.eqb_refl. cbn [andb]. apply content_eqb_eq. reflexivity.
    + apply is_truth_spec. exact Ht.
  - destruct Hm as (Hs & Hn' & Ht). rewrite Hs, Hn', !N.eqb_refl. cbn [andb]. apply is_truth_spec. exact Ht.
Qed.

Theorem model_satisfies_spec cfg w sts : spec_okb w sts (model_obs cfg sts) = true.
Proof.
  unfold spec_okb, model_obs. destruct (genuine w sts) eqn:Hg; [|reflexivity].
  apply run_steps_okb; [exact Hg | exact I].
Qed.

(* the local copy after a sequence of runs *)
Fixpoint local_after (fx : fixes) (cfg : config) (local : option lstate) (sts : list step) : option lstate :=
  match sts with
  | [] => local
  | st :: t => local_after fx cfg (o_local (run_step fx cfg local st)) t
  end.

Lemma local_after_inv w cfg : forall sts local,
  genuine w sts = true -> inv w local -> inv w (local_after all_fixes cfg local sts).
Proof.
  induction sts as [|st t IH]; intros local Hg Hinv; [exact Hinv|].
  cbn [genuine forallb] in Hg. apply andb_prop in Hg as [Hg1 Hg2]. cbn [local_after].
  apply IH; [exact Hg2|]. apply (run_step_correct w cfg local st Hg1 Hinv).
Qed.

Lemma genuine_app w a b : genuine w (a ++ b) = genuine w a && genuine w b.
Proof. unfold genuine. apply forallb_app. Qed.

(* The statement of the property: after any sequence of earlier runs (any faults, under hash integrity), a run
   that is reported as updated leaves exactly the server's content at the notified serial (for "not modified":
   the unchanged copy, which is the server's content at the serial notified earlier). *)
Theorem updated_is_exact w cfg pre st :
  genuine w (pre ++ [st]) = true ->
  let local := local_after all_fixes cfg None pre in
  let o := run_step all_fixes cfg local st in
  o_result o = RES_updated ->
  exists l, o_local o = Some l /\
    match s_notify st with
    | NOk nf => l_session l = nf_session nf /\ l_serial l = nf_serial nf /\
                truth w (nf_session nf) (nf_serial nf) = Some (l_content l)
    | N304 => local = Some l /\ truth w (l_session l) (l_serial l) = Some (l_content l)
    | _ => False
    end.
Proof.
  intros Hg local o. rewrite genuine_app in Hg. apply andb_prop in Hg as [Hg1 Hg2].
  cbn [genuine forallb] in Hg2. rewrite andb_true_r in Hg2.
  pose proof (local_after_inv w cfg pre None Hg1 I) as Hinv.
  exact (proj1 (proj2 (proj2 (run_step_correct w cfg _ st Hg2 Hinv)))).
Qed.

(* no run fails as a whole, and a run that is not reported as updated reports one of the three "not updated"
   results (the copy is then not used: collector/base.rs Run::repository only hands out the copy for Updated) *)
Theorem result_is_load_result w cfg pre st :
  genuine w (pre ++ [st]) = true ->
  o_result (run_step all_fixes cfg (local_after all_fixes cfg None pre) st) <= RES_updated.
Proof.
  intros Hg. rewrite genuine_app in Hg. apply andb_prop in Hg as [Hg1 Hg2].
  cbn [genuine forallb] in Hg2. rewrite andb_true_r in Hg2.
  pose proof (local_after_inv w cfg pre None Hg1 I) as Hinv.
  exact (proj1 (run_step_correct w cfg _ st Hg2 Hinv)).
Qed.

(* every reachable local state is the server's content at its stored serial *)
Theorem reachable_copy_is_truth w cfg sts l :
  genuine w sts = true -> local_after all_fixes cfg None sts = Some l ->
  truth w (l_session l) (l_serial l) = Some (l_content l).
Proof.
  intros Hg Hl. pose proof (local_after_inv w cfg sts None Hg I) as H. rewrite Hl in H. exact H.
Qed.

(* failures of the notification request never report an update and never touch the copy *)
Theorem failed_notification_not_updated fx cfg local st :
  s_notify st = NErr \/ s_notify st = NBad ->
  let o := run_step fx cfg local st in
  o_result o <> RES_updated /\ o_local o = local /\ o_reqs o = [0].
Proof.
  intros [H|H]; unfold run_step; rewrite H; cbn; repeat split; apply failed_result_ne.
Qed.

(* the gap check added to calc_deltas: whatever list is followed leads exactly to the notified serial *)
Theorem followed_deltas_are_consecutive cfg nf ds st fl :
  calc_deltas all_fixes cfg nf ds st = inl fl ->
  consecutive fl = true /\ nf_serial nf = l_serial st + N.of_nat (length fl) /\
  match fl with [] => True | d :: _ => di_serial d = l_serial st + 1 end.
Proof.
  intros H. destruct (calc_deltas_inl _ _ _ _ _ H) as (_ & [Hc Hf] & _ & Hn). repeat split; assumption.
Qed.
