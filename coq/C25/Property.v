(* C25 — RRDP updates reproduce the server state or report failure.
   Only statements, [exact], examples and [Check] pins.

   Setting: [world] = the server's history (session, serial) -> content; [step] = what is served during one
   validation run (answer to the notification request: error / 304 / unusable / any notification with any session,
   serial, snapshot reference and delta list; and any table of files, each an HTTP error or a snapshot / delta
   document with any session, serial and elements, possibly broken after some elements, with any digest).
   [genuine w steps] is the hash-integrity premise: only files whose digest equals the one announced for them
   are assumed to be the server's (C25.HashIntegrity derives it from an injective hash).  The client is the
   transcription of the corrected code ([all_fixes]); the code as found is the same function with a flag off. *)
From Coq Require Import List NArith Bool.
From RV Require Import Base.KMap C25.Model C25.Spec C25.Proofs C25.RewriteProofs C25.HashIntegrity.
Import ListNotations.
Local Open Scope N_scope.

(* Main statement: after any sequence of earlier runs with any faults, a run reported as updated leaves the local
   copy exactly equal to the server's snapshot at the notified serial ("not modified": the untouched copy, which
   is the server's snapshot at the serial notified before). *)
Theorem C25_updated_is_exact : forall w cfg pre st,
  genuine w (pre ++ [st]) = true ->
  let local := local_after all_fixes cfg None pre in
  let o := run_step all_fixes cfg local st in
  o_result o = RES_updated ->
  exists l, o_local o = Some l /\
    match s_notify st with
    | NOk nf => l_session l = nf_session nf /\ l_serial l = nf_serial nf /\
                truth w (nf_session nf) (nf_serial nf) = Some (l_content l)
    | N304 => local = Some l /\ truth w (l_session l) (l_serial l) = Some (l_content l)
    | _ => False
    end.
Proof. exact updated_is_exact. Qed.

(* otherwise the repository is reported as not updated (unavailable / stale / current); the run never fails as a
   whole because of what the server sent.  (That a copy which is not reported as updated is not used is the shape
   of collector/base.rs Run::repository: the copy is only handed out for LoadResult::Updated; see C29.) *)
Theorem C25_result_is_load_result : forall w cfg pre st,
  genuine w (pre ++ [st]) = true ->
  o_result (run_step all_fixes cfg (local_after all_fixes cfg None pre) st) <= RES_updated.
Proof. exact result_is_load_result. Qed.

(* every reachable local state — also after failed runs — is the server's content at its stored serial *)
Theorem C25_reachable_copy_is_truth : forall w cfg sts l,
  genuine w sts = true -> local_after all_fixes cfg None sts = Some l ->
  truth w (l_session l) (l_serial l) = Some (l_content l).
Proof. exact reachable_copy_is_truth. Qed.

(* a failed notification request: not updated, copy untouched, nothing else requested (any variant of the code) *)
Theorem C25_failed_notification : forall fx cfg local st,
  s_notify st = NErr \/ s_notify st = NBad ->
  let o := run_step fx cfg local st in
  o_result o <> RES_updated /\ o_local o = local /\ o_reqs o = [0].
Proof. exact failed_notification_not_updated. Qed.

(* the delta list that is followed has consecutive serials from the stored serial + 1 to the notified serial *)
Theorem C25_followed_deltas_consecutive : forall cfg nf ds st fl,
  calc_deltas all_fixes cfg nf ds st = inl fl ->
  consecutive fl = true /\ nf_serial nf = l_serial st + N.of_nat (length fl) /\
  match fl with [] => True | d :: _ => di_serial d = l_serial st + 1 end.
Proof. exact followed_deltas_are_consecutive. Qed.

(* the executable oracle evaluated on the implementation's output holds of the model on every input *)
Theorem C25_model_satisfies_spec : forall cfg w sts, spec_okb w sts (model_obs cfg sts) = true.
Proof. exact model_satisfies_spec. Qed.

(* ---- a server that REWRITES its history (re-issues a (session, serial) with other content) ----
   Whatever copy a run starts from - the copy of a history the server has since rewritten, a copy of another
   session, any content under any state record - if the notification lists a delta serial remembered in the
   copy's state with ANOTHER hash (Notification::check_deltas) or names another session, then no delta file is
   requested, the snapshot is, and a run reported as updated leaves exactly the snapshot the server stands for
   NOW ([w] is the world of this run only); otherwise the run is not reported as updated and the copy is left
   as it was.  No premise on the copy. *)
Theorem C25_rewritten_history_refetched : forall w cfg l st nf,
  s_notify st = NOk nf -> step_genuine w st = true ->
  mismatch l nf = true \/ nf_session nf <> l_session l ->
  let o := run_step all_fixes cfg (Some l) st in
  o_reqs o = [0; nf_snap_ref nf] /\
  (o_result o = RES_updated ->
     exists l', o_local o = Some l' /\ l_session l' = nf_session nf /\ l_serial l' = nf_serial nf /\
                truth w (nf_session nf) (nf_serial nf) = Some (l_content l')) /\
  (o_result o <> RES_updated -> o_result o < RES_updated /\ o_local o = Some l).
Proof. exact rewritten_history_refetched. Qed.

(* sequences of runs with one world per run: the per-run oracle (premise [step_premise], evaluated on the copy the
   run starts from: the copy is this run's world's content at its serial, or the rewriting is visible, or the
   session differs) holds of the model for every list of (world, served answers) pairs *)
Theorem C25_rewritten_model_satisfies_spec : forall cfg wsts,
  steps_okb2 None wsts (model_obs cfg (map snd wsts)) = true.
Proof. exact rewritten_model_satisfies_spec. Qed.

(* the premise follows from an injective hash *)
Theorem C25_injective_hash_gives_genuine : forall (H : doc -> N), (forall a b, H a = H b -> a = b) ->
  forall w st nf, s_notify st = NOk nf ->
  honestly_hashed H (s_files st) -> announced_snapshot_ok H w nf ->
  (forall di, In di (nf_deltas nf) -> announced_delta_ok H w nf di) ->
  step_genuine w st = true.
Proof. exact injective_hash_gives_genuine. Qed.

(* ---- the code as found violates the property: three witnesses (replayed on the real code, corpus/C25) ---- *)

Definition w0 : world :=
  [(1, 5, [(0, 0)]); (1, 6, [(0, 0); (1, 0)]); (1, 7, [(0, 1); (1, 0)]); (1, 8, [(0, 1); (1, 0); (2, 0)])].
Definition cfg0 := {| c_max_list := 10; c_max_count := 10; c_expire := false |}.
Definition first_run : step :=
  {| s_notify := NOk {| nf_session := 1; nf_serial := 5; nf_snap_ref := 1; nf_snap_dig := 1; nf_deltas := [] |};
     s_files := [{| f_ref := 1; f_ok := true; f_doc := DSnap 1 5 [(0, 0)] false; f_dig := 1 |}] |}.

(* F17: the delta list [6; 8] (7 missing) for serial 8: deltas 6 and 8 are both applied, the change of delta 7 is lost *)
Definition gap_steps : list step :=
  [first_run;
   {| s_notify := NOk {| nf_session := 1; nf_serial := 8; nf_snap_ref := 1; nf_snap_dig := 2;
                         nf_deltas := [{| di_serial := 6; di_ref := 11; di_dig := 3 |};
                                       {| di_serial := 8; di_ref := 13; di_dig := 5 |}] |};
      s_files := [{| f_ref := 1; f_ok := true; f_doc := DSnap 1 8 [(0, 1); (1, 0); (2, 0)] false; f_dig := 2 |};
                  {| f_ref := 11; f_ok := true; f_doc := DDelta 1 6 [EPub 1 0] false; f_dig := 3 |};
                  {| f_ref := 12; f_ok := true; f_doc := DDelta 1 7 [EUpd 0 0 1] false; f_dig := 4 |};
                  {| f_ref := 13; f_ok := true; f_doc := DDelta 1 8 [EPub 2 0] false; f_dig := 5 |}] |}].

(* F16: 304 although there is no local copy: reported as updated, then the run fails opening the archive *)
Definition nocopy_steps : list step := [{| s_notify := N304; s_files := [] |}; first_run].

(* F20: a delta file that is not the announced one (wrong hash) is applied before its hash is checked; the
   snapshot fails too; the copy keeps the old serial.  The honest delta of the next run applies cleanly on top. *)
Definition taint_steps : list step :=
  [first_run;
   {| s_notify := NOk {| nf_session := 1; nf_serial := 6; nf_snap_ref := 1; nf_snap_dig := 2;
                         nf_deltas := [{| di_serial := 6; di_ref := 11; di_dig := 4 |}] |};
      s_files := [{| f_ref := 1; f_ok := false; f_doc := DSnap 1 6 [(0, 0); (1, 0)] false; f_dig := 2 |};
                  {| f_ref := 11; f_ok := true; f_doc := DDelta 1 6 [EPub 2 0] false; f_dig := 3 |}] |};
   {| s_notify := NOk {| nf_session := 1; nf_serial := 6; nf_snap_ref := 1; nf_snap_dig := 2;
                         nf_deltas := [{| di_serial := 6; di_ref := 11; di_dig := 4 |}] |};
      s_files := [{| f_ref := 1; f_ok := true; f_doc := DSnap 1 6 [(0, 0); (1, 0)] false; f_dig := 2 |};
                  {| f_ref := 11; f_ok := true; f_doc := DDelta 1 6 [EPub 1 0] false; f_dig := 4 |}] |}].

Definition without_gap_fix := {| fix_304 := true; fix_gap := false; fix_taint := true |}.
Definition without_304_fix := {| fix_304 := false; fix_gap := true; fix_taint := true |}.
Definition without_taint_fix := {| fix_304 := true; fix_gap := true; fix_taint := false |}.

Theorem C25_unfixed_refuted :
  (genuine w0 gap_steps = true /\ steps_okb w0 None gap_steps (run_steps without_gap_fix cfg0 None gap_steps) = false) /\
  (genuine w0 nocopy_steps = true /\ steps_okb w0 None nocopy_steps (run_steps without_304_fix cfg0 None nocopy_steps) = false) /\
  (genuine w0 taint_steps = true /\ steps_okb w0 None taint_steps (run_steps without_taint_fix cfg0 None taint_steps) = false).
Proof. vm_compute. repeat split. Qed.

(* what exactly goes wrong in the three witnesses *)
Example C25_gap_applied :
  map (fun o => (o_result o, option_map l_content (o_local o))) (run_steps without_gap_fix cfg0 None gap_steps)
  = [(RES_updated, Some [(0, 0)]); (RES_updated, Some [(0, 0); (1, 0); (2, 0)])]      (* server at 8: [(0,1); (1,0); (2,0)] *)
  /\ map (fun o => (o_result o, option_map l_content (o_local o))) (run_steps all_fixes cfg0 None gap_steps)
  = [(RES_updated, Some [(0, 0)]); (RES_updated, Some [(0, 1); (1, 0); (2, 0)])].
Proof. vm_compute. split; reflexivity. Qed.

Example C25_nocopy_run_fails :
  map o_result (run_steps without_304_fix cfg0 None nocopy_steps) = [RES_run_failed; RES_updated]
  /\ map o_result (run_steps all_fixes cfg0 None nocopy_steps) = [RES_unavailable; RES_updated].
Proof. vm_compute. split; reflexivity. Qed.

Example C25_taint_diverges :
  map (fun o => (o_result o, option_map l_content (o_local o))) (run_steps without_taint_fix cfg0 None taint_steps)
  = [(RES_updated, Some [(0, 0)]); (RES_current, Some [(0, 0); (2, 0)]); (RES_updated, Some [(0, 0); (1, 0); (2, 0)])]
  /\ map (fun o => (o_result o, option_map l_content (o_local o))) (run_steps all_fixes cfg0 None taint_steps)
  = [(RES_updated, Some [(0, 0)]); (RES_current, None); (RES_updated, Some [(0, 0); (1, 0)])].
Proof. vm_compute. split; reflexivity. Qed.

(* ---- non-vacuity: an honest server, a snapshot then two deltas in one run, then "not modified" ---- *)
Definition honest_steps : list step :=
  [first_run;
   {| s_notify := NOk {| nf_session := 1; nf_serial := 7; nf_snap_ref := 1; nf_snap_dig := 2;
                         nf_deltas := [{| di_serial := 7; di_ref := 12; di_dig := 4 |};
                                       {| di_serial := 6; di_ref := 11; di_dig := 3 |}] |};
      s_files := [{| f_ref := 1; f_ok := true; f_doc := DSnap 1 7 [(0, 1); (1, 0)] false; f_dig := 2 |};
                  {| f_ref := 11; f_ok := true; f_doc := DDelta 1 6 [EPub 1 0] false; f_dig := 3 |};
                  {| f_ref := 12; f_ok := true; f_doc := DDelta 1 7 [EUpd 0 0 1] false; f_dig := 4 |}] |};
   {| s_notify := N304; s_files := [] |}].

Example C25_nonvacuous :
  genuine w0 honest_steps = true /\
  map (fun o => (o_result o, o_reason o, o_reqs o, option_map l_serial (o_local o), option_map l_content (o_local o)))
      (model_obs cfg0 honest_steps)
  = [(RES_updated, R_new_repository, [0; 1], Some 5, Some [(0, 0)]);
     (RES_updated, R_none, [0; 11; 12], Some 7, Some [(0, 1); (1, 0)]);
     (RES_updated, R_none, [0], Some 7, Some [(0, 1); (1, 0)])]
  /\ truth w0 1 7 = Some [(0, 1); (1, 0)].
Proof. vm_compute. repeat split. Qed.

Check C25_updated_is_exact : forall w cfg pre st,
  genuine w (pre ++ [st]) = true ->
  let local := local_after all_fixes cfg None pre in
  let o := run_step all_fixes cfg local st in
  o_result o = RES_updated ->
  exists l, o_local o = Some l /\
    match s_notify st with
    | NOk nf => l_session l = nf_session nf /\ l_serial l = nf_serial nf /\
                truth w (nf_session nf) (nf_serial nf) = Some (l_content l)
    | N304 => local = Some l /\ truth w (l_session l) (l_serial l) = Some (l_content l)
    | _ => False
    end.
Check C25_result_is_load_result : forall w cfg pre st,
  genuine w (pre ++ [st]) = true ->
  o_result (run_step all_fixes cfg (local_after all_fixes cfg None pre) st) <= RES_updated.
Check C25_reachable_copy_is_truth : forall w cfg sts l,
  genuine w sts = true -> local_after all_fixes cfg None sts = Some l ->
  truth w (l_session l) (l_serial l) = Some (l_content l).
Check C25_model_satisfies_spec : forall cfg w sts, spec_okb w sts (model_obs cfg sts) = true.

(* non-vacuity of the rewritten-history statements: the server replaces version 6 (and its delta) after the client
   has stored it, keeping the serial; the notification still lists delta 6, now with another hash *)
Definition w0' : world := [(1, 5, [(0, 0)]); (1, 6, [(0, 0); (2, 0)])].
Definition stored6 : step :=
  {| s_notify := NOk {| nf_session := 1; nf_serial := 6; nf_snap_ref := 1; nf_snap_dig := 2;
                        nf_deltas := [{| di_serial := 6; di_ref := 11; di_dig := 3 |}] |};
     s_files := [{| f_ref := 1; f_ok := true; f_doc := DSnap 1 6 [(0, 0); (1, 0)] false; f_dig := 2 |};
                 {| f_ref := 11; f_ok := true; f_doc := DDelta 1 6 [EPub 1 0] false; f_dig := 3 |}] |}.
Definition rewritten6 : step :=
  {| s_notify := NOk {| nf_session := 1; nf_serial := 6; nf_snap_ref := 1; nf_snap_dig := 7;
                        nf_deltas := [{| di_serial := 6; di_ref := 11; di_dig := 8 |}] |};
     s_files := [{| f_ref := 1; f_ok := true; f_doc := DSnap 1 6 [(0, 0); (2, 0)] false; f_dig := 7 |};
                 {| f_ref := 11; f_ok := true; f_doc := DDelta 1 6 [EPub 2 0] false; f_dig := 8 |}] |}.
Example C25_rewritten_nonvacuous :
  let wsts := [(w0, first_run); (w0, stored6); (w0', rewritten6)] in
  let os := model_obs cfg0 (map snd wsts) in
  map (fun o => (o_result o, o_reason o, o_reqs o, option_map l_content (o_local o))) os
  = [(RES_updated, R_new_repository, [0; 1], Some [(0, 0)]);
     (RES_updated, R_none, [0; 11], Some [(0, 0); (1, 0)]);
     (RES_updated, R_delta_mutation, [0; 1], Some [(0, 0); (2, 0)])]
  /\ step_premise w0' (o_local (nth 1 os (mk_obs 0 0 [] None))) rewritten6 = true
  /\ is_truth w0' 1 6 [(0, 0); (1, 0)] = false.
Proof. vm_compute. repeat split. Qed.

Check C25_rewritten_history_refetched : forall w cfg l st nf,
  s_notify st = NOk nf -> step_genuine w st = true ->
  mismatch l nf = true \/ nf_session nf <> l_session l ->
  let o := run_step all_fixes cfg (Some l) st in
  o_reqs o = [0; nf_snap_ref nf] /\
  (o_result o = RES_updated ->
     exists l', o_local o = Some l' /\ l_session l' = nf_session nf /\ l_serial l' = nf_serial nf /\
                truth w (nf_session nf) (nf_serial nf) = Some (l_content l')) /\
  (o_result o <> RES_updated -> o_result o < RES_updated /\ o_local o = Some l).
Check C25_rewritten_model_satisfies_spec : forall cfg wsts,
  steps_okb2 None wsts (model_obs cfg (map snd wsts)) = true.
