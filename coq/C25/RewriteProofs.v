(* C25, rewritten history: a server that re-issues a (session, serial) with other content.  The run's world may
   differ from the world the local copy was taken from; Notification::check_deltas (the remembered delta hashes)
   turns every VISIBLE rewriting into a snapshot fetch, whatever the local copy is. *)
From Coq Require Import List NArith Bool Lia.
From RV Require Import Base.KMap C25.Model C25.Spec C25.Proofs.
Import ListNotations.
Local Open Scope N_scope.

(* ---- the sorted list contains every element of the notification's list (converse of sort_deltas_In) ---- *)

Lemma dinsert_In_conv d x l : x = d \/ In x l -> In x (dinsert d l).
Proof.
  induction l as [|h t IH]; cbn [dinsert]; intros [H|H].
  - subst. left. reflexivity.
  - destruct H.
  - subst. destruct (di_serial d <? di_serial h); [left; reflexivity|]. right. apply IH. left. reflexivity.
  - destruct (di_serial d <? di_serial h); [right; exact H|].
    destruct H as [H|H]; [left; exact H|]. right. apply IH. right. exact H.
Qed.

Lemma sort_deltas_In_conv_gen x l : forall acc,
  In x l \/ In x acc -> In x (fold_left (fun acc d => dinsert d acc) l acc).
Proof.
  induction l as [|d t IH]; cbn [fold_left]; intros acc [H|H].
  - destruct H.
  - exact H.
  - apply IH. destruct H as [H|H]; [right; apply dinsert_In_conv; left; symmetry; exact H | left; exact H].
  - apply IH. right. apply dinsert_In_conv. right. exact H.
Qed.

Lemma sort_deltas_In_conv x l : In x l -> In x (sort_deltas l).
Proof. intros H. unfold sort_deltas. apply sort_deltas_In_conv_gen. left. exact H. Qed.

(* ---- a visible rewriting makes check_deltas fail ---- *)

Lemma mismatch_check_deltas cfg l nf :
  oversized cfg nf = false -> mismatch l nf = true -> check_deltas (deltas_of cfg nf) l = false.
Proof.
  intros Ho Hm. unfold mismatch in Hm. apply existsb_exists in Hm as (d & Hin & Hd).
  unfold deltas_of. rewrite Ho.
  destruct (check_deltas (sort_deltas (nf_deltas nf)) l) eqn:Hc; [|reflexivity]. exfalso.
  unfold check_deltas in Hc. rewrite forallb_forall in Hc.
  specialize (Hc d (sort_deltas_In_conv _ _ Hin)).
  destruct (lookup (di_serial d) (l_dstate l)) as [h|]; [|discriminate].
  rewrite Hc in Hd. discriminate.
Qed.

(* the update by deltas is not attempted: the snapshot is asked for, with the copy untouched and no delta file
   requested; the reason is never "conflicting delta" (nothing was applied) *)
Lemma delta_update_rewritten cfg nf fs l :
  mismatch l nf = true \/ nf_session nf <> l_session l ->
  exists reason, delta_update all_fixes cfg nf fs l = (Some reason, l_content l, []) /\
                 (reason = R_large_delta_set \/ reason = R_delta_mutation \/ reason = R_new_session).
Proof.
  intros Hv. unfold delta_update.
  destruct (oversized cfg nf) eqn:Ho; [exists R_large_delta_set; split; [reflexivity|left; reflexivity]|].
  destruct (check_deltas (deltas_of cfg nf) l) eqn:Hc; cbn [negb];
    [|exists R_delta_mutation; split; [reflexivity|right; left; reflexivity]].
  destruct Hv as [Hm|Hs].
  - rewrite (mismatch_check_deltas _ _ _ Ho Hm) in Hc. discriminate.
  - unfold calc_deltas. destruct (N.eqb_spec (nf_session nf) (l_session l)) as [E|_]; [contradiction|].
    cbn [negb]. exists R_new_session. split; [reflexivity|right; right; reflexivity].
Qed.

(* ---- one run from ANY local copy, in the world of that run ---- *)

Lemma run_step_rewritten w cfg l st nf :
  s_notify st = NOk nf -> step_genuine w st = true ->
  mismatch l nf = true \/ nf_session nf <> l_session l ->
  let o := run_step all_fixes cfg (Some l) st in
  o_result o <= RES_updated /\ o_probe_ok o = true /\ notified_ok w (Some l) st o /\
  o_reqs o = [0; nf_snap_ref nf] /\
  (o_result o <> RES_updated -> o_local o = Some l).
Proof.
  intros En Hg Hv. cbv zeta. unfold notified_ok, run_step, step_genuine in *. rewrite En in *.
  apply andb_prop in Hg as [Hgs _].
  destruct (delta_update_rewritten cfg nf (s_files st) l Hv) as (reason & Hd & Hr). rewrite Hd.
  assert (Ht : (reason =? R_conflicting_delta) = false).
  { destruct Hr as [Hr|[Hr|Hr]]; subst reason; reflexivity. }
  rewrite Ht. cbn [andb app].
  destruct (snapshot_fetch nf (s_files st)) as [c|] eqn:Hf;
    cbn [mk_obs o_result o_probe_ok o_local o_reqs].
  - pose proof (snapshot_fetch_truth _ _ _ _ Hgs Hf) as Htr.
    split; [unfold RES_updated; lia|]. split; [reflexivity|]. split; [|split].
    + intros _. exists (state_of cfg nf c). repeat split. exact Htr.
    + reflexivity.
    + intros H. exfalso. apply H. reflexivity.
  - split; [apply failed_result_le|]. split; [reflexivity|]. split; [|split].
    + intros H. exfalso. exact (failed_result_ne _ _ H).
    + reflexivity.
    + intros _. destruct l; reflexivity.
Qed.

(* ---- from the per-run facts to the executable per-run oracle ---- *)

Lemma step_okb_intro w prev st o :
  o_result o <= RES_updated -> o_probe_ok o = true -> notified_ok w prev st o -> step_okb w prev st o = true.
Proof.
  intros Hle Hp Hn. unfold step_okb. apply andb_true_intro. split; [apply N.leb_le; exact Hle|].
  destruct (N.eqb_spec (o_result o) RES_updated) as [Hr|]; [|reflexivity].
  rewrite Hp. cbn [andb].
  destruct (Hn Hr) as (l & Hl & Hm). rewrite Hl.
  destruct (s_notify st) as [| | |nf]; try contradiction.
  - destruct Hm as [Hprev Ht]. rewrite Hprev. apply andb_true_intro. split.
    + unfold lstate_same. rewrite !N.eqb_refl. cbn [andb]. apply content_eqb_eq. reflexivity.
    + apply is_truth_spec. exact Ht.
  - destruct Hm as (Hs & Hn' & Ht). rewrite Hs, Hn', !N.eqb_refl. cbn [andb]. apply is_truth_spec. exact Ht.
Qed.

Lemma run_step_premise_okb w cfg prev st :
  step_premise w prev st = true -> step_okb w prev st (run_step all_fixes cfg prev st) = true.
Proof.
  unfold step_premise. intros H. apply andb_prop in H as [Hg Hp].
  assert (Hinv_case : inv w prev -> step_okb w prev st (run_step all_fixes cfg prev st) = true).
  { intros Hinv. destruct (run_step_correct w cfg prev st Hg Hinv) as (Hle & Hpr & Hn & _).
    apply step_okb_intro; assumption. }
  destruct prev as [l|]; [|apply Hinv_case; exact I].
  destruct (s_notify st) as [| | |nf] eqn:En.
  - (* NErr: nothing is reported as updated, whatever the copy *)
    unfold step_okb, run_step. rewrite En. cbn [mk_obs o_result o_probe_ok o_local].
    apply andb_true_intro. split; [apply N.leb_le; apply failed_result_le|].
    destruct (N.eqb_spec (failed_result cfg true) RES_updated) as [E|]; [|reflexivity].
    exfalso. exact (failed_result_ne _ _ E).
  - apply Hinv_case. cbn [inv]. apply is_truth_spec. exact Hp.
  - unfold step_okb, run_step. rewrite En. cbn [mk_obs o_result o_probe_ok o_local].
    apply andb_true_intro. split; [apply N.leb_le; apply failed_result_le|].
    destruct (N.eqb_spec (failed_result cfg true) RES_updated) as [E|]; [|reflexivity].
    exfalso. exact (failed_result_ne _ _ E).
  - apply orb_prop in Hp as [Hp|Hs]; [apply orb_prop in Hp as [Ht|Hm]|].
    + apply Hinv_case. cbn [inv]. apply is_truth_spec. exact Ht.
    + destruct (run_step_rewritten w cfg l st nf En Hg (or_introl Hm)) as (Hle & Hpr & Hn & _).
      apply step_okb_intro; assumption.
    + assert (Hne : nf_session nf <> l_session l).
      { intros E. rewrite E, N.eqb_refl in Hs. discriminate. }
      destruct (run_step_rewritten w cfg l st nf En Hg (or_intror Hne)) as (Hle & Hpr & Hn & _).
      apply step_okb_intro; assumption.
Qed.

(* ---- sequences of runs, one world per run ---- *)

Lemma run_steps_okb2 cfg : forall wsts local,
  steps_okb2 local wsts (run_steps all_fixes cfg local (map snd wsts)) = true.
Proof.
  induction wsts as [|[w st] t IH]; intros local; [reflexivity|].
  cbn [map snd run_steps steps_okb2]. apply andb_true_intro. split; [|apply IH].
  destruct (step_premise w local st) eqn:Hp; [|reflexivity].
  apply run_step_premise_okb. exact Hp.
Qed.

Theorem rewritten_model_satisfies_spec cfg wsts :
  steps_okb2 None wsts (model_obs cfg (map snd wsts)) = true.
Proof. apply run_steps_okb2. Qed.

(* the statement in words: whatever copy a run starts from (a copy of a history the server has since rewritten,
   a copy of another session, anything), if the notification lists a remembered delta serial with another hash
   or names another session, then no delta file is requested, the snapshot is, and a run reported as updated
   leaves exactly the snapshot the run's world has at the notified serial; otherwise the copy is left alone *)
Theorem rewritten_history_refetched w cfg l st nf :
  s_notify st = NOk nf -> step_genuine w st = true ->
  mismatch l nf = true \/ nf_session nf <> l_session l ->
  let o := run_step all_fixes cfg (Some l) st in
  o_reqs o = [0; nf_snap_ref nf] /\
  (o_result o = RES_updated ->
     exists l', o_local o = Some l' /\ l_session l' = nf_session nf /\ l_serial l' = nf_serial nf /\
                truth w (nf_session nf) (nf_serial nf) = Some (l_content l')) /\
  (o_result o <> RES_updated -> o_result o < RES_updated /\ o_local o = Some l).
Proof.
  intros En Hg Hv. cbv zeta.
  destruct (run_step_rewritten w cfg l st nf En Hg Hv) as (Hle & _ & Hn & Hrq & Hk).
  split; [exact Hrq|]. split.
  - intros Hr. destruct (Hn Hr) as (l' & Hl & Hm). rewrite En in Hm. exists l'. split; [exact Hl|exact Hm].
  - intros Hr. split; [lia|]. apply Hk. exact Hr.
Qed.
