(* RFC 1982 serial number arithmetic on N modulo 2^32: transcription of
   rpki::rtr::Serial (add, PartialEq, partial_cmp). *)
From Coq Require Import NArith Lia Bool.
Local Open Scope N_scope.

Definition M32 : N := 4294967296.
Definition H31 : N := 2147483648.

Definition sadd (s k : N) : N := (s + k) mod M32.

(* Serial::partial_cmp *)
Definition scmp (a b : N) : option comparison :=
  if a =? b then Some Eq
  else if a <? b then
    let d := b - a in
    if d <? H31 then Some Lt else if H31 <? d then Some Gt else None
  else
    let d := a - b in
    if d <? H31 then Some Gt else if H31 <? d then Some Lt else None.

(* `a < b` on Serial (PartialOrd::lt) *)
Definition slt (a b : N) : bool := match scmp a b with Some Lt => true | _ => false end.

(* distance from a forward to b, modulo 2^32 *)
Definition sdist (a b : N) : N := (b + M32 - a) mod M32.

Lemma sadd_lt s k : sadd s k < M32.
Proof. unfold sadd. apply N.mod_lt. discriminate. Qed.

Lemma sadd_0 s : s < M32 -> sadd s 0 = s.
Proof. intros H. unfold sadd. rewrite N.add_0_r. apply N.mod_small. exact H. Qed.

Lemma sadd_sadd s a b : sadd (sadd s a) b = sadd s (a + b).
Proof.
  unfold sadd. rewrite N.add_mod_idemp_l by discriminate. f_equal. lia.
Qed.

Lemma M32_val : M32 = 4294967296. Proof. reflexivity. Qed.
Lemma H31_val : H31 = 2147483648. Proof. reflexivity. Qed.

(* sadd is injective on offsets below 2^32 *)
Lemma sadd_inj s a b : a < M32 -> b < M32 -> sadd s a = sadd s b -> a = b.
Proof.
  unfold sadd, M32. intros Ha Hb E.
  pose proof (N.div_mod (s + a) 4294967296 ltac:(discriminate)) as Da.
  pose proof (N.div_mod (s + b) 4294967296 ltac:(discriminate)) as Db.
  pose proof (N.mod_lt (s + a) 4294967296 ltac:(discriminate)).
  pose proof (N.mod_lt (s + b) 4294967296 ltac:(discriminate)).
  rewrite E in Da.
  assert ((s + a) / 4294967296 = (s + b) / 4294967296 \/ (s + a) / 4294967296 < (s + b) / 4294967296 \/ (s + b) / 4294967296 < (s + a) / 4294967296) as [Q|[Q|Q]] by lia.
  - rewrite Q in Da. lia.
  - nia.
  - nia.
Qed.

(* an offset strictly between 0 and 2^31 ahead is "greater" *)
Lemma slt_sadd s k : s < M32 -> 0 < k -> k < H31 -> slt s (sadd s k) = true.
Proof.
  unfold slt, scmp, sadd, M32, H31. intros Hs Hk1 Hk2.
  destruct (N.lt_ge_cases (s + k) 4294967296) as [Hsm|Hbig].
  - rewrite (N.mod_small _ _ Hsm).
    destruct (N.eqb_spec s (s + k)); [lia|].
    destruct (N.ltb_spec s (s + k)); [|lia].
    destruct (N.ltb_spec (s + k - s) 2147483648); [reflexivity|lia].
  - assert ((s + k) mod 4294967296 = s + k - 4294967296) as ->.
    { symmetry. apply (N.mod_unique _ _ 1); lia. }
    destruct (N.eqb_spec s (s + k - 4294967296)); [lia|].
    destruct (N.ltb_spec s (s + k - 4294967296)); [lia|].
    destruct (N.ltb_spec (s - (s + k - 4294967296)) 2147483648); [lia|].
    destruct (N.ltb_spec 2147483648 (s - (s + k - 4294967296))); [reflexivity|lia].
Qed.

(* an offset of at most 2^31 behind (or equal) is never "less" from the newer side *)
Lemma slt_sadd_back s k : s < M32 -> k <= H31 -> slt (sadd s k) s = false.
Proof.
  unfold slt, scmp, sadd, M32, H31. intros Hs Hk.
  destruct (N.lt_ge_cases (s + k) 4294967296) as [Hsm|Hbig].
  - rewrite (N.mod_small _ _ Hsm).
    destruct (N.eqb_spec (s + k) s); [reflexivity|].
    destruct (N.ltb_spec (s + k) s); [lia|].
    destruct (N.ltb_spec (s + k - s) 2147483648); [reflexivity|].
    destruct (N.ltb_spec 2147483648 (s + k - s)); [lia|reflexivity].
  - assert ((s + k) mod 4294967296 = s + k - 4294967296) as ->.
    { symmetry. apply (N.mod_unique _ _ 1); lia. }
    destruct (N.eqb_spec (s + k - 4294967296) s); [reflexivity|].
    destruct (N.ltb_spec (s + k - 4294967296) s); [|lia].
    destruct (N.ltb_spec (s - (s + k - 4294967296)) 2147483648); [lia|].
    destruct (N.ltb_spec 2147483648 (s - (s + k - 4294967296))); reflexivity.
Qed.
