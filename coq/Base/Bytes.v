(* Byte strings, fixed-width big-endian integers and a reader monad in which
   panics and allocation requests are values.

   byte            = N below 256 ([byteb], [bytes_okb])
   be_enc w n      = the w-byte big-endian encoding of n   (Rust: to_be_bytes)
   be_dec l        = the number a byte string denotes      (Rust: from_be_bytes)
   i64_enc/i64_dec = two's complement on 8 bytes
   res A           = Ok a | ErrEof | ErrFormat | Panic why
   reader A        = list byte -> res (A * list byte) * list N
                     (result and remaining input; trace of capacity requests
                      in bytes, in program order)
   alloc n         = one capacity request of n bytes; a request above
                     isize::MAX is Rust's "capacity overflow" panic.
   safe c r        = on every input b (with |b| + c <= isize::MAX) reader r
                     does not panic, every request is <= |b| + c and the
                     remaining input is not longer than b.
   Stdlib only. *)
From Coq Require Import List NArith ZArith Lia Bool.
Import ListNotations.
Local Open Scope N_scope.

(* ------------------------------------------------------------------ *)
(* lengths in N *)

Definition lenN {A} (l : list A) : N := N.of_nat (length l).

Lemma lenN_nil {A} : lenN (@nil A) = 0.
Proof. reflexivity. Qed.
Lemma lenN_cons {A} (x : A) l : lenN (x :: l) = lenN l + 1.
Proof. unfold lenN. cbn [length]. lia. Qed.
Lemma lenN_app {A} (a b : list A) : lenN (a ++ b) = lenN a + lenN b.
Proof. unfold lenN. rewrite app_length. lia. Qed.
Lemma lenN_rev {A} (a : list A) : lenN (rev a) = lenN a.
Proof. unfold lenN. rewrite rev_length. reflexivity. Qed.

(* ------------------------------------------------------------------ *)
(* bytes *)

Definition byteb (b : N) : bool := b <? 256.
Definition bytes_okb (l : list N) : bool := forallb byteb l.

Lemma bytes_okb_app a b : bytes_okb (a ++ b) = bytes_okb a && bytes_okb b.
Proof. apply forallb_app. Qed.
Lemma bytes_okb_rev a : bytes_okb (rev a) = bytes_okb a.
Proof.
  induction a as [|x a IH]; [reflexivity|].
  cbn [rev]. rewrite bytes_okb_app, IH. cbn [bytes_okb forallb].
  rewrite andb_true_r. apply andb_comm.
Qed.
Lemma bytes_okb_firstn n l : bytes_okb l = true -> bytes_okb (firstn n l) = true.
Proof.
  revert n; induction l as [|x l IH]; intros [|n] H; try reflexivity.
  cbn [firstn bytes_okb forallb] in *. apply andb_true_iff in H as [H1 H2].
  rewrite H1. exact (IH n H2).
Qed.
Lemma bytes_okb_skipn n l : bytes_okb l = true -> bytes_okb (skipn n l) = true.
Proof.
  revert n; induction l as [|x l IH]; intros [|n] H; try reflexivity; try exact H.
  cbn [skipn bytes_okb forallb] in *. apply andb_true_iff in H as [H1 H2]. exact (IH n H2).
Qed.

Fixpoint bytes_eqb (a b : list N) : bool :=
  match a, b with
  | [], [] => true
  | x :: a', y :: b' => (x =? y) && bytes_eqb a' b'
  | _, _ => false
  end.

Lemma bytes_eqb_refl a : bytes_eqb a a = true.
Proof. induction a as [|x a IH]; [reflexivity|]. cbn [bytes_eqb]. rewrite N.eqb_refl. exact IH. Qed.
Lemma bytes_eqb_eq a b : bytes_eqb a b = true <-> a = b.
Proof.
  split; [|intros ->; apply bytes_eqb_refl].
  revert b; induction a as [|x a IH]; intros [|y b] H; try reflexivity; try discriminate.
  cbn [bytes_eqb] in H. apply andb_true_iff in H as [H1 H2].
  apply N.eqb_eq in H1. subst. f_equal. exact (IH _ H2).
Qed.

(* ------------------------------------------------------------------ *)
(* fixed-width integers *)

Fixpoint le_enc (w : nat) (n : N) : list N :=
  match w with
  | O => []
  | S w' => n mod 256 :: le_enc w' (n / 256)
  end.

Fixpoint le_dec (l : list N) : N :=
  match l with
  | [] => 0
  | b :: t => b + 256 * le_dec t
  end.

Definition be_enc (w : nat) (n : N) : list N := rev (le_enc w n).
Definition be_dec (l : list N) : N := le_dec (rev l).

Lemma le_enc_length w n : length (le_enc w n) = w.
Proof. revert n; induction w as [|w IH]; intros n; [reflexivity|]. cbn [le_enc length]. rewrite IH. reflexivity. Qed.

Lemma le_enc_bytes w n : bytes_okb (le_enc w n) = true.
Proof.
  revert n; induction w as [|w IH]; intros n; [reflexivity|].
  cbn [le_enc bytes_okb forallb]. apply andb_true_iff; split; [|apply IH].
  unfold byteb. apply N.ltb_lt. apply N.mod_lt. discriminate.
Qed.

Lemma le_dec_enc w n : n < 256 ^ N.of_nat w -> le_dec (le_enc w n) = n.
Proof.
  revert n; induction w as [|w IH]; intros n H.
  - cbn in H. cbn. lia.
  - cbn [le_enc le_dec]. rewrite IH.
    + pose proof (N.div_mod' n 256). lia.
    + rewrite Nat2N.inj_succ, N.pow_succ_r' in H.
      apply N.div_lt_upper_bound; [discriminate | exact H].
Qed.

Lemma le_dec_lt l : bytes_okb l = true -> le_dec l < 256 ^ lenN l.
Proof.
  induction l as [|b l IH]; intros H.
  - cbn. lia.
  - cbn [bytes_okb forallb] in H. apply andb_true_iff in H as [H1 H2].
    unfold byteb in H1. apply N.ltb_lt in H1. specialize (IH H2).
    rewrite lenN_cons, N.add_1_r, N.pow_succ_r'. cbn [le_dec]. lia.
Qed.

Lemma le_enc_dec l : bytes_okb l = true -> le_enc (length l) (le_dec l) = l.
Proof.
  induction l as [|b l IH]; intros H; [reflexivity|].
  cbn [bytes_okb forallb] in H. apply andb_true_iff in H as [H1 H2].
  unfold byteb in H1. apply N.ltb_lt in H1.
  cbn [length le_enc le_dec].
  assert (E1 : (b + 256 * le_dec l) mod 256 = b).
  { rewrite N.mul_comm, N.mod_add by discriminate. apply N.mod_small; exact H1. }
  assert (E2 : (b + 256 * le_dec l) / 256 = le_dec l).
  { rewrite N.mul_comm, N.div_add by discriminate. rewrite N.div_small by exact H1. reflexivity. }
  rewrite E1, E2, IH by exact H2. reflexivity.
Qed.

Lemma be_enc_length w n : length (be_enc w n) = w.
Proof. unfold be_enc. rewrite rev_length. apply le_enc_length. Qed.
Lemma be_enc_lenN w n : lenN (be_enc w n) = N.of_nat w.
Proof. unfold lenN. rewrite be_enc_length. reflexivity. Qed.
Lemma be_enc_bytes w n : bytes_okb (be_enc w n) = true.
Proof. unfold be_enc. rewrite bytes_okb_rev. apply le_enc_bytes. Qed.
Lemma be_dec_enc w n : n < 256 ^ N.of_nat w -> be_dec (be_enc w n) = n.
Proof. intros H. unfold be_dec, be_enc. rewrite rev_involutive. apply le_dec_enc; exact H. Qed.
Lemma be_dec_lt l : bytes_okb l = true -> be_dec l < 256 ^ lenN l.
Proof. intros H. unfold be_dec. rewrite <- lenN_rev. apply le_dec_lt. rewrite bytes_okb_rev. exact H. Qed.
Lemma be_enc_dec l : bytes_okb l = true -> be_enc (length l) (be_dec l) = l.
Proof.
  intros H. unfold be_enc, be_dec. rewrite <- (rev_length l), le_enc_dec.
  - apply rev_involutive.
  - rewrite bytes_okb_rev. exact H.
Qed.

(* constants (literals, so that lia sees numbers) *)
Definition P8 : N := 256.
Definition P32 : N := 4294967296.
Definition P63 : N := 9223372036854775808.
Definition P64 : N := 18446744073709551616.
Definition U64_MAX : N := 18446744073709551615.
Definition ISIZE_MAX : N := 9223372036854775807.   (* 64-bit target *)
Definition I64_MIN : Z := (-9223372036854775808)%Z.
Definition I64_MAX : Z := 9223372036854775807%Z.

Example P8_ok : P8 = 256 ^ N.of_nat 1. Proof. reflexivity. Qed.
Example P32_ok : P32 = 256 ^ N.of_nat 4. Proof. reflexivity. Qed.
Example P64_ok : P64 = 256 ^ N.of_nat 8. Proof. reflexivity. Qed.
Example P63_ok : P63 * 2 = P64. Proof. reflexivity. Qed.
Example U64_MAX_ok : U64_MAX + 1 = P64. Proof. reflexivity. Qed.
Example ISIZE_MAX_ok : ISIZE_MAX + 1 = P63. Proof. reflexivity. Qed.

(* two's complement, 64 bit *)
Definition u64_of_i64 (z : Z) : N := Z.to_N (z mod 18446744073709551616).
Definition i64_of_u64 (n : N) : Z :=
  if n <? P63 then Z.of_N n else (Z.of_N n - 18446744073709551616)%Z.
Definition i64_okb (z : Z) : bool := (I64_MIN <=? z)%Z && (z <=? I64_MAX)%Z.

Definition i64_enc (z : Z) : list N := be_enc 8 (u64_of_i64 z).
Definition i64_dec (l : list N) : Z := i64_of_u64 (be_dec l).

Lemma i64_okb_spec z : i64_okb z = true <-> (I64_MIN <= z <= I64_MAX)%Z.
Proof. unfold i64_okb. rewrite andb_true_iff, !Z.leb_le. tauto. Qed.

Lemma u64_of_i64_lt z : u64_of_i64 z < P64.
Proof.
  unfold u64_of_i64, P64.
  pose proof (Z.mod_pos_bound z 18446744073709551616 eq_refl). lia.
Qed.

Lemma i64_of_u64_of_i64 z : i64_okb z = true -> i64_of_u64 (u64_of_i64 z) = z.
Proof.
  intros H. apply i64_okb_spec in H. unfold I64_MIN, I64_MAX in H.
  unfold i64_of_u64, u64_of_i64, P63.
  destruct (Z_lt_le_dec z 0) as [Hn | Hp].
  - assert (E : (z mod 18446744073709551616 = z + 18446744073709551616)%Z).
    { symmetry. apply (Z.mod_unique_pos _ _ (-1)%Z); lia. }
    rewrite E. destruct (N.ltb_spec (Z.to_N (z + 18446744073709551616)) 9223372036854775808); lia.
  - rewrite Z.mod_small by lia.
    destruct (N.ltb_spec (Z.to_N z) 9223372036854775808); lia.
Qed.

Lemma i64_of_u64_ok n : n < P64 -> i64_okb (i64_of_u64 n) = true.
Proof.
  intros H. unfold P64 in H. apply i64_okb_spec. unfold I64_MIN, I64_MAX, i64_of_u64, P63.
  destruct (N.ltb_spec n 9223372036854775808); lia.
Qed.

Lemma i64_dec_enc z : i64_okb z = true -> i64_dec (i64_enc z) = z.
Proof.
  intros H. unfold i64_dec, i64_enc. rewrite be_dec_enc.
  - apply i64_of_u64_of_i64; exact H.
  - change (256 ^ N.of_nat 8) with P64. apply u64_of_i64_lt.
Qed.

(* ------------------------------------------------------------------ *)
(* splitting off a prefix whose length is an N (possibly astronomically
   large: the conversion to nat only happens when the input is long enough) *)

Definition split_at (n : N) (b : list N) : option (list N * list N) :=
  if n <=? lenN b then Some (firstn (N.to_nat n) b, skipn (N.to_nat n) b) else None.

Lemma split_at_app a rest : split_at (lenN a) (a ++ rest) = Some (a, rest).
Proof.
  unfold split_at. rewrite lenN_app.
  destruct (N.leb_spec (lenN a) (lenN a + lenN rest)); [|lia].
  unfold lenN. rewrite Nat2N.id.
  rewrite firstn_app, Nat.sub_diag, firstn_all, app_nil_r.
  rewrite skipn_app, Nat.sub_diag, skipn_all. reflexivity.
Qed.

Lemma split_at_some n b c b' : split_at n b = Some (c, b') ->
  b = c ++ b' /\ lenN c = n /\ lenN b = n + lenN b'.
Proof.
  unfold split_at. destruct (N.leb_spec n (lenN b)) as [H|H]; [|discriminate].
  intros E; inversion E; subst; clear E.
  assert (L : (N.to_nat n <= length b)%nat) by (unfold lenN in H; lia).
  split; [symmetry; apply firstn_skipn|].
  unfold lenN in *. rewrite firstn_length, skipn_length. lia.
Qed.

Lemma split_at_none n b : split_at n b = None -> lenN b < n.
Proof. unfold split_at. destruct (N.leb_spec n (lenN b)); [discriminate | intros _; assumption]. Qed.

(* ------------------------------------------------------------------ *)
(* results and readers *)

Inductive panic := CapacityOverflow | OutOfFuel.

Inductive res (A : Type) : Type :=
| Ok (a : A)
| ErrEof                 (* io::ErrorKind::UnexpectedEof: input ended early *)
| ErrFormat              (* ParseError::format: not a valid encoding *)
| Panic (why : panic).
Arguments Ok {A} a.
Arguments ErrEof {A}.
Arguments ErrFormat {A}.
Arguments Panic {A} why.

Definition no_panic {A} (r : res A) : Prop :=
  match r with Panic _ => False | _ => True end.
Definition no_panicb {A} (r : res A) : bool :=
  match r with Panic _ => false | _ => true end.

Definition reader (A : Type) : Type := list N -> res (A * list N) * list N.

Definition run {A} (r : reader A) (b : list N) : res (A * list N) := fst (r b).
Definition trace {A} (r : reader A) (b : list N) : list N := snd (r b).

Definition ret {A} (a : A) : reader A := fun b => (Ok (a, b), []).
Definition fail_eof {A} : reader A := fun _ => (ErrEof, []).
Definition fail_format {A} : reader A := fun _ => (ErrFormat, []).
Definition panic_with {A} (p : panic) : reader A := fun _ => (Panic p, []).

Definition bind {A B} (r : reader A) (f : A -> reader B) : reader B :=
  fun b =>
    match r b with
    | (Ok (a, b'), t) => let '(x, t') := f a b' in (x, t ++ t')
    | (ErrEof, t) => (ErrEof, t)
    | (ErrFormat, t) => (ErrFormat, t)
    | (Panic p, t) => (Panic p, t)
    end.

(* A capacity request of n bytes (Vec::with_capacity, Vec::resize, vec![0; n],
   HashMap::with_capacity).  More than isize::MAX bytes: "capacity overflow". *)
Definition alloc (n : N) : reader unit :=
  fun b => if n <=? ISIZE_MAX then (Ok (tt, b), [n]) else (Panic CapacityOverflow, [n]).

(* Read::read_exact into a buffer of n bytes that already exists *)
Definition read_exact (n : N) : reader (list N) :=
  fun b => match split_at n b with
           | Some (c, b') => (Ok (c, b'), [])
           | None => (ErrEof, [])
           end.

Lemma run_bind_ok {A B} (r : reader A) (f : A -> reader B) b a b' :
  run r b = Ok (a, b') -> run (bind r f) b = run (f a) b'.
Proof.
  unfold run, bind. destruct (r b) as [x t]. cbn [fst]. intros ->.
  destruct (f a b'). reflexivity.
Qed.

Lemma run_ret {A} (a : A) b : run (ret a) b = Ok (a, b).
Proof. reflexivity. Qed.

Lemma run_alloc n b : n <= ISIZE_MAX -> run (alloc n) b = Ok (tt, b).
Proof. intros H. unfold run, alloc. destruct (N.leb_spec n ISIZE_MAX); [reflexivity | lia]. Qed.

Lemma run_read_exact_app a rest : run (read_exact (lenN a)) (a ++ rest) = Ok (a, rest).
Proof. unfold run, read_exact. rewrite split_at_app. reflexivity. Qed.

(* ------------------------------------------------------------------ *)
(* safety of a reader relative to a budget L (the length of the whole input
   the enclosing decoder was started on) *)

Definition safe_at {A} (c L : N) (r : reader A) (b : list N) : Prop :=
  no_panic (run r b) /\
  Forall (fun n => n <= L + c) (trace r b) /\
  (forall a b', run r b = Ok (a, b') -> lenN b' <= lenN b).

Definition safe {A} (c : N) (r : reader A) : Prop :=
  forall L b, lenN b <= L -> L + c <= ISIZE_MAX -> safe_at c L r b.

Lemma safe_weaken {A} c c' (r : reader A) : c <= c' -> safe c r -> safe c' r.
Proof.
  intros Hc H L b HL HI. destruct (H L b HL ltac:(lia)) as (H1 & H2 & H3).
  split; [exact H1|]. split; [|exact H3].
  eapply Forall_impl; [|exact H2]. cbv beta. intros; lia.
Qed.

Lemma safe_ret {A} c (a : A) : safe c (ret a).
Proof.
  intros L b _ _. split; [exact I|]. split; [constructor|].
  intros a' b' E. inversion E; subst. lia.
Qed.
Lemma safe_fail_eof {A} c : safe c (@fail_eof A).
Proof. intros L b _ _. split; [exact I|]. split; [constructor|]. intros a' b' E. discriminate. Qed.
Lemma safe_fail_format {A} c : safe c (@fail_format A).
Proof. intros L b _ _. split; [exact I|]. split; [constructor|]. intros a' b' E. discriminate. Qed.

Lemma safe_at_bind {A B} c L (r : reader A) (f : A -> reader B) b :
  safe_at c L r b ->
  (forall a b', run r b = Ok (a, b') -> safe_at c L (f a) b') ->
  safe_at c L (bind r f) b.
Proof.
  intros (H1 & H2 & H3) Hf. unfold safe_at, run, trace, bind in *.
  destruct (r b) as [[[a b']| | |p] t]; cbn [fst snd] in *.
  - specialize (Hf a b' eq_refl). specialize (H3 a b' eq_refl).
    destruct (f a b') as [x t']. cbn [fst snd] in *.
    destruct Hf as (F1 & F2 & F3).
    split; [exact F1|]. split; [apply Forall_app; split; assumption|].
    intros a0 b0 E. specialize (F3 a0 b0 E). lia.
  - split; [exact I|]. split; [exact H2|]. intros; discriminate.
  - split; [exact I|]. split; [exact H2|]. intros; discriminate.
  - contradiction.
Qed.

Lemma safe_bind {A B} c (r : reader A) (f : A -> reader B) :
  safe c r -> (forall a, safe c (f a)) -> safe c (bind r f).
Proof.
  intros Hr Hf L b HL HI. apply safe_at_bind.
  - apply Hr; assumption.
  - intros a b' E. apply Hf; [|exact HI].
    destruct (Hr L b HL HI) as (_ & _ & H3). specialize (H3 a b' E). lia.
Qed.

Lemma safe_read_exact c n : safe c (read_exact n).
Proof.
  intros L b _ _. unfold safe_at, run, trace, read_exact.
  destruct (split_at n b) as [[x b']|] eqn:E; cbn [fst snd].
  - split; [exact I|]. split; [constructor|]. intros a0 b0 E0. inversion E0; subst.
    apply split_at_some in E. lia.
  - split; [exact I|]. split; [constructor|]. intros; discriminate.
Qed.

(* a request that is within budget *)
Lemma safe_at_alloc c L n b : n <= L + c -> L + c <= ISIZE_MAX -> safe_at c L (alloc n) b.
Proof.
  intros Hn HI. unfold safe_at, run, trace, alloc.
  destruct (N.leb_spec n ISIZE_MAX); [|lia]. cbn [fst snd].
  split; [exact I|]. split; [constructor; [exact Hn | constructor]|].
  intros a0 b0 E0. inversion E0; subst. lia.
Qed.

Lemma safe_alloc_const c n : n <= c -> safe c (alloc n).
Proof. intros Hn L b _ HI. apply safe_at_alloc; lia. Qed.

(* Vec's amortised growth (RawVec::grow_amortized): when the needed capacity
   exceeds the current one the new capacity is max(2*cap, need); hence an
   actual allocation is below twice the request that triggered it. *)
Definition vec_grow (cap need : N) : N := if cap <? need then N.max (2 * cap) need else cap.
Lemma vec_grow_le cap need : cap < need -> vec_grow cap need <= 2 * need.
Proof. intros H. unfold vec_grow. destruct (N.ltb_spec cap need); lia. Qed.
