(* Association lists strictly sorted by an [N] key: the shape of every
   ordered payload collection, delta and index in Routinator.
   Contents: [lookup], strict sortedness [ksorted], extensionality of
   sorted lists, the generic merge-join [mjoin] with its characterising
   lemma, and sorted insert/remove. Stdlib only. *)
From Coq Require Import List NArith Lia Bool Sorted.
Import ListNotations.
Local Open Scope N_scope.

Section KMap.
Context {V : Type}.

Fixpoint lookup (k : N) (l : list (N * V)) : option V :=
  match l with
  | [] => None
  | (k', v) :: t => if k =? k' then Some v else lookup k t
  end.

(* [lb k l]: k is strictly below every key of l. *)
Definition lb (k : N) (l : list (N * V)) : Prop :=
  forall k' v, In (k', v) l -> k < k'.

Fixpoint ksorted (l : list (N * V)) : Prop :=
  match l with
  | [] => True
  | (k, _) :: t => lb k t /\ ksorted t
  end.

Fixpoint ksortedb (l : list (N * V)) : bool :=
  match l with
  | [] => true
  | (k, _) :: t =>
      match t with
      | [] => true
      | (k', _) :: _ => (k <? k') && ksortedb t
      end
  end.

Lemma lb_nil k : lb k [].
Proof. intros ? ? []. Qed.

Lemma lb_cons k k' v t : k < k' -> lb k' t -> lb k ((k', v) :: t).
Proof.
  intros H Hl a b [E | I].
  - inversion E; subst; exact H.
  - specialize (Hl _ _ I). lia.
Qed.

Lemma lb_cons' k k' v t : k < k' -> lb k t -> lb k ((k', v) :: t).
Proof.
  intros H Hl a b [E | I].
  - inversion E; subst; exact H.
  - exact (Hl _ _ I).
Qed.

Lemma lb_cons_inv k k' v t : lb k ((k', v) :: t) -> k < k' /\ lb k t.
Proof.
  intros H; split.
  - apply (H k' v); left; reflexivity.
  - intros a b I; apply (H a b); right; exact I.
Qed.

Lemma lb_weaken k k' l : k <= k' -> lb k' l -> lb k l.
Proof. intros H Hl a b I. specialize (Hl _ _ I). lia. Qed.

Lemma ksortedb_spec l : ksortedb l = true <-> ksorted l.
Proof.
  induction l as [|[k v] t IH]; cbn [ksortedb ksorted].
  - tauto.
  - destruct t as [|[k' v'] t'].
    + split; intros _; [split; [apply lb_nil | exact I] | reflexivity].
    + rewrite andb_true_iff, N.ltb_lt, IH. split.
      * intros [H1 H2]. split; [|exact H2].
        destruct H2 as [H2 _]. apply lb_cons; assumption.
      * intros [H1 H2]. split; [|exact H2].
        apply (lb_cons_inv _ _ _ _ H1).
Qed.

Lemma lookup_lb k l : lb k l -> lookup k l = None.
Proof.
  induction l as [|[k' v] t IH]; intros H; cbn [lookup]; [reflexivity|].
  apply lb_cons_inv in H as [H1 H2].
  destruct (N.eqb_spec k k'); [lia | apply IH; exact H2].
Qed.

Lemma lookup_lb_lt k k' l : lb k' l -> k <= k' -> lookup k l = None.
Proof. intros H Hle. apply lookup_lb. apply (lb_weaken _ _ _ Hle H). Qed.

Lemma lookup_In k v l : lookup k l = Some v -> In (k, v) l.
Proof.
  induction l as [|[k' v'] t IH]; cbn [lookup]; [discriminate|].
  destruct (N.eqb_spec k k') as [->|Hne]; intros H.
  - inversion H; subst; left; reflexivity.
  - right; apply IH; exact H.
Qed.

Lemma In_lookup k v l : ksorted l -> In (k, v) l -> lookup k l = Some v.
Proof.
  induction l as [|[k' v'] t IH]; cbn [lookup ksorted]; intros Hs HI; [destruct HI|].
  destruct Hs as [Hl Hs]. destruct HI as [E | HI].
  - inversion E; subst. rewrite N.eqb_refl. reflexivity.
  - specialize (Hl _ _ HI). destruct (N.eqb_spec k k'); [lia|]. apply IH; assumption.
Qed.

Lemma lb_of_lookup k l :
  ksorted l -> (forall k', k' <= k -> lookup k' l = None) -> lb k l.
Proof.
  intros Hs H a b I. destruct (N.lt_ge_cases k a) as [Hlt|Hge]; [exact Hlt|].
  specialize (H a Hge). rewrite (In_lookup _ _ _ Hs I) in H. discriminate.
Qed.

(* Two strictly sorted lists with the same lookups are equal. *)
Lemma ksorted_ext l1 l2 :
  ksorted l1 -> ksorted l2 -> (forall k, lookup k l1 = lookup k l2) -> l1 = l2.
Proof.
  revert l2; induction l1 as [|[k1 v1] t1 IH]; intros [|[k2 v2] t2] H1 H2 E.
  - reflexivity.
  - specialize (E k2). cbn [lookup] in E. rewrite N.eqb_refl in E. discriminate.
  - specialize (E k1). cbn [lookup] in E. rewrite N.eqb_refl in E. discriminate.
  - cbn [ksorted] in H1, H2. destruct H1 as [L1 S1], H2 as [L2 S2].
    assert (k1 = k2) as ->.
    { pose proof (E k1) as E1. pose proof (E k2) as E2. cbn [lookup] in E1, E2.
      rewrite N.eqb_refl in E1, E2.
      destruct (N.eqb_spec k1 k2) as [?|Hne]; [assumption|].
      destruct (N.eqb_spec k2 k1) as [?|_]; [congruence|].
      destruct (N.lt_total k1 k2) as [Hlt|[?|Hgt]]; [|congruence|].
      - rewrite (lookup_lb_lt k1 k2 t2 L2) in E1 by lia. discriminate.
      - rewrite (lookup_lb_lt k2 k1 t1 L1) in E2 by lia. discriminate. }
    assert (v1 = v2) as ->.
    { specialize (E k2). cbn [lookup] in E. rewrite N.eqb_refl in E. congruence. }
    f_equal. apply IH; [assumption..|].
    intros k. specialize (E k). cbn [lookup] in E.
    destruct (N.eqb_spec k k2) as [Heq|Hne]; [|exact E].
    rewrite Heq. rewrite (lookup_lb _ _ L1), (lookup_lb _ _ L2). reflexivity.
Qed.

End KMap.

Arguments lb {V} k l.

(* ------------------------------------------------------------------ *)
(* Generic merge-join. [f] decides per key what the result carries,
   given the optional entries of the two inputs; [f None None] is never
   consulted. *)
Section MJoin.
Context {A B C : Type}.
Variable f : option A -> option B -> option C.

Definition ocons (k : N) (o : option C) (l : list (N * C)) : list (N * C) :=
  match o with Some c => (k, c) :: l | None => l end.

Fixpoint only1 (l : list (N * A)) : list (N * C) :=
  match l with [] => [] | (k, a) :: t => ocons k (f (Some a) None) (only1 t) end.

Fixpoint only2 (l : list (N * B)) : list (N * C) :=
  match l with [] => [] | (k, b) :: t => ocons k (f None (Some b)) (only2 t) end.

Fixpoint mjoin (l1 : list (N * A)) : list (N * B) -> list (N * C) :=
  match l1 with
  | [] => fun l2 => only2 l2
  | (k1, a) :: t1 =>
      fix go (l2 : list (N * B)) : list (N * C) :=
        match l2 with
        | [] => only1 ((k1, a) :: t1)
        | (k2, b) :: t2 =>
            match k1 ?= k2 with
            | Lt => ocons k1 (f (Some a) None) (mjoin t1 ((k2, b) :: t2))
            | Eq => ocons k1 (f (Some a) (Some b)) (mjoin t1 t2)
            | Gt => ocons k2 (f None (Some b)) (go t2)
            end
        end
  end.

Definition fj (oa : option A) (ob : option B) : option C :=
  match oa, ob with None, None => None | _, _ => f oa ob end.

Lemma lb_ocons k k' o l : k < k' -> lb k l -> lb k (ocons k' o l).
Proof. intros H Hl. destruct o; cbn [ocons]; [apply lb_cons'|]; assumption. Qed.

Lemma ksorted_ocons k o l : lb k l -> ksorted l -> ksorted (ocons k o l).
Proof. intros H Hs. destruct o; cbn [ocons ksorted]; [split|]; assumption. Qed.

Lemma lookup_ocons k k' o l :
  lookup k (ocons k' o l) = if k =? k' then match o with Some c => Some c | None => lookup k l end else lookup k l.
Proof. destruct o; cbn [ocons lookup]; destruct (k =? k'); reflexivity. Qed.

Lemma only1_lb k l : lb k l -> lb k (only1 l).
Proof.
  induction l as [|[k' a] t IH]; intros H; cbn [only1]; [apply lb_nil|].
  apply lb_cons_inv in H as [H1 H2]. apply lb_ocons; [exact H1 | apply IH; exact H2].
Qed.

Lemma only2_lb k l : lb k l -> lb k (only2 l).
Proof.
  induction l as [|[k' a] t IH]; intros H; cbn [only2]; [apply lb_nil|].
  apply lb_cons_inv in H as [H1 H2]. apply lb_ocons; [exact H1 | apply IH; exact H2].
Qed.

Lemma only1_sorted l : ksorted l -> ksorted (only1 l).
Proof.
  induction l as [|[k a] t IH]; cbn [only1 ksorted]; [tauto|]. intros [H1 H2].
  apply ksorted_ocons; [apply only1_lb; exact H1 | apply IH; exact H2].
Qed.

Lemma only2_sorted l : ksorted l -> ksorted (only2 l).
Proof.
  induction l as [|[k a] t IH]; cbn [only2 ksorted]; [tauto|]. intros [H1 H2].
  apply ksorted_ocons; [apply only2_lb; exact H1 | apply IH; exact H2].
Qed.

Lemma only1_lookup k l : ksorted l -> lookup k (only1 l) = fj (lookup k l) None.
Proof.
  induction l as [|[k' a] t IH]; cbn [only1 lookup ksorted]; [reflexivity|]. intros [H1 H2].
  rewrite lookup_ocons. destruct (N.eqb_spec k k') as [->|Hne].
  - cbn [fj]. destruct (f (Some a) None) eqn:E; [reflexivity|].
    rewrite (lookup_lb k' (only1 t)); [reflexivity | apply only1_lb; exact H1].
  - apply IH; exact H2.
Qed.

Lemma only2_lookup k l : ksorted l -> lookup k (only2 l) = fj None (lookup k l).
Proof.
  induction l as [|[k' a] t IH]; cbn [only2 lookup ksorted]; [reflexivity|]. intros [H1 H2].
  rewrite lookup_ocons. destruct (N.eqb_spec k k') as [->|Hne].
  - cbn [fj]. destruct (f None (Some a)) eqn:E; [reflexivity|].
    rewrite (lookup_lb k' (only2 t)); [reflexivity | apply only2_lb; exact H1].
  - apply IH; exact H2.
Qed.

Lemma mjoin_nil_r l1 : mjoin l1 [] = only1 l1.
Proof. destruct l1 as [|[k a] t]; reflexivity. Qed.

Lemma mjoin_cons k1 a t1 k2 b t2 :
  mjoin ((k1, a) :: t1) ((k2, b) :: t2) =
  match k1 ?= k2 with
  | Lt => ocons k1 (f (Some a) None) (mjoin t1 ((k2, b) :: t2))
  | Eq => ocons k1 (f (Some a) (Some b)) (mjoin t1 t2)
  | Gt => ocons k2 (f None (Some b)) (mjoin ((k1, a) :: t1) t2)
  end.
Proof. reflexivity. Qed.

Lemma mjoin_lb k l1 l2 : lb k l1 -> lb k l2 -> lb k (mjoin l1 l2).
Proof.
  revert l2; induction l1 as [|[k1 a] t1 IH1]; intros l2 H1 H2.
  - cbn [mjoin]. apply only2_lb; exact H2.
  - induction l2 as [|[k2 b] t2 IH2].
    + rewrite mjoin_nil_r. apply only1_lb; exact H1.
    + rewrite mjoin_cons.
      pose proof (lb_cons_inv _ _ _ _ H1) as [H1a H1b].
      pose proof (lb_cons_inv _ _ _ _ H2) as [H2a H2b].
      destruct (N.compare_spec k1 k2) as [->|Hlt|Hgt].
      * apply lb_ocons; [exact H2a | apply IH1; assumption].
      * apply lb_ocons; [exact H1a | apply IH1; assumption].
      * apply lb_ocons; [exact H2a | apply IH2; assumption].
Qed.

Lemma mjoin_sorted l1 l2 : ksorted l1 -> ksorted l2 -> ksorted (mjoin l1 l2).
Proof.
  revert l2; induction l1 as [|[k1 a] t1 IH1]; intros l2 H1 H2.
  - cbn [mjoin]. apply only2_sorted; exact H2.
  - induction l2 as [|[k2 b] t2 IH2].
    + rewrite mjoin_nil_r. apply only1_sorted; exact H1.
    + rewrite mjoin_cons.
      pose proof H1 as [H1a H1b]. pose proof H2 as [H2a H2b].
      destruct (N.compare_spec k1 k2) as [->|Hlt|Hgt].
      * apply ksorted_ocons; [apply mjoin_lb; assumption | apply IH1; assumption].
      * apply ksorted_ocons; [|apply IH1; assumption].
        apply mjoin_lb; [assumption|]. apply lb_cons; assumption.
      * apply ksorted_ocons; [|apply IH2; assumption].
        apply mjoin_lb; [|assumption]. apply lb_cons; assumption.
Qed.

Lemma mjoin_lookup k l1 l2 :
  ksorted l1 -> ksorted l2 ->
  lookup k (mjoin l1 l2) = fj (lookup k l1) (lookup k l2).
Proof.
  revert l2; induction l1 as [|[k1 a] t1 IH1]; intros l2 H1 H2.
  - cbn [mjoin lookup]. apply only2_lookup; exact H2.
  - induction l2 as [|[k2 b] t2 IH2].
    + rewrite mjoin_nil_r. rewrite only1_lookup by exact H1. reflexivity.
    + rewrite mjoin_cons.
      pose proof H1 as [H1a H1b]. pose proof H2 as [H2a H2b].
      destruct (N.compare_spec k1 k2) as [->|Hlt|Hgt].
      * rewrite lookup_ocons. cbn [lookup].
        destruct (N.eqb_spec k k2) as [->|Hne].
        -- cbn [fj]. destruct (f (Some a) (Some b)); [reflexivity|].
           apply lookup_lb. apply mjoin_lb; assumption.
        -- apply IH1; assumption.
      * rewrite lookup_ocons. cbn [lookup].
        destruct (N.eqb_spec k k1) as [->|Hne].
        -- destruct (N.eqb_spec k1 k2) as [?|_]; [lia|].
           rewrite (lookup_lb_lt k1 k2 t2 H2a) by lia. cbn [fj].
           destruct (f (Some a) None); [reflexivity|].
           apply lookup_lb. apply mjoin_lb; [assumption|].
           apply lb_cons; assumption.
        -- rewrite IH1 by assumption. cbn [lookup]. reflexivity.
      * rewrite lookup_ocons. cbn [lookup].
        destruct (N.eqb_spec k k2) as [->|Hne].
        -- destruct (N.eqb_spec k2 k1) as [?|_]; [lia|].
           rewrite (lookup_lb_lt k2 k1 t1 H1a) by lia. cbn [fj].
           destruct (f None (Some b)); [reflexivity|].
           apply lookup_lb. apply mjoin_lb; [|assumption].
           apply lb_cons; assumption.
        -- rewrite IH2 by assumption. cbn [lookup]. reflexivity.
Qed.

End MJoin.

(* ------------------------------------------------------------------ *)
(* Sorted insert / remove: what a client does with one action. *)
Section InsRem.
Context {V : Type}.

Fixpoint kinsert (k : N) (v : V) (l : list (N * V)) : list (N * V) :=
  match l with
  | [] => [(k, v)]
  | (k', v') :: t =>
      match k ?= k' with
      | Lt => (k, v) :: (k', v') :: t
      | Eq => (k, v) :: t
      | Gt => (k', v') :: kinsert k v t
      end
  end.

Fixpoint kremove (k : N) (l : list (N * V)) : list (N * V) :=
  match l with
  | [] => []
  | (k', v') :: t => if k =? k' then kremove k t else (k', v') :: kremove k t
  end.

Lemma kinsert_lb k0 k v l : k0 < k -> lb k0 l -> lb k0 (kinsert k v l).
Proof.
  induction l as [|[k' v'] t IH]; intros H Hl; cbn [kinsert].
  - apply lb_cons'; [exact H | apply lb_nil].
  - pose proof (lb_cons_inv _ _ _ _ Hl) as [Ha Hb].
    destruct (N.compare_spec k k') as [Heq|Hlt|Hgt].
    + apply lb_cons'; assumption.
    + apply lb_cons'; [exact H|exact Hl].
    + apply lb_cons'; [exact Ha|]. apply IH; assumption.
Qed.

Lemma kinsert_sorted k v l : ksorted l -> ksorted (kinsert k v l).
Proof.
  induction l as [|[k' v'] t IH]; intros Hs; cbn [kinsert].
  - cbn. split; [apply lb_nil | exact I].
  - destruct Hs as [Ha Hb].
    destruct (N.compare_spec k k') as [Heq|Hlt|Hgt]; cbn [ksorted].
    + subst k'. split; assumption.
    + split; [|split; assumption]. apply lb_cons; assumption.
    + split; [|apply IH; exact Hb]. apply kinsert_lb; assumption.
Qed.

Lemma kinsert_lookup k0 k v l :
  ksorted l -> lookup k0 (kinsert k v l) = if k0 =? k then Some v else lookup k0 l.
Proof.
  induction l as [|[k' v'] t IH]; intros Hs; cbn [kinsert lookup]; [reflexivity|].
  destruct Hs as [Ha Hb].
  destruct (N.compare_spec k k') as [Heq|Hlt|Hgt]; cbn [lookup].
  - subst k'. destruct (k0 =? k); reflexivity.
  - reflexivity.
  - rewrite IH by exact Hb.
    destruct (N.eqb_spec k0 k') as [->|Hne]; [|reflexivity].
    destruct (N.eqb_spec k' k); [lia|reflexivity].
Qed.

Lemma kremove_lb k0 k l : lb k0 l -> lb k0 (kremove k l).
Proof.
  induction l as [|[k' v'] t IH]; intros Hl; cbn [kremove]; [exact Hl|].
  pose proof (lb_cons_inv _ _ _ _ Hl) as [Ha Hb].
  destruct (k =? k'); [apply IH; exact Hb | apply lb_cons'; [exact Ha | apply IH; exact Hb] ].
Qed.

Lemma kremove_sorted k l : ksorted l -> ksorted (kremove k l).
Proof.
  induction l as [|[k' v'] t IH]; intros Hs; cbn [kremove]; [exact I|].
  destruct Hs as [Ha Hb]. destruct (k =? k'); [apply IH; exact Hb|].
  cbn [ksorted]. split; [apply kremove_lb; exact Ha | apply IH; exact Hb].
Qed.

Lemma kremove_lookup k0 k l :
  lookup k0 (kremove k l) = if k0 =? k then None else lookup k0 l.
Proof.
  induction l as [|[k' v'] t IH]; cbn [kremove lookup].
  - destruct (k0 =? k); reflexivity.
  - destruct (N.eqb_spec k k') as [->|Hne].
    + rewrite IH. destruct (N.eqb_spec k0 k'); reflexivity.
    + cbn [lookup]. rewrite IH.
      destruct (N.eqb_spec k0 k') as [->|Hne2]; [|reflexivity].
      destruct (N.eqb_spec k' k); [congruence|reflexivity].
Qed.

End InsRem.
