(* Byte strings, the URI syntax of the rpki crate (rpki-0.19.3 src/uri.rs) and
   lexical path normalisation.  Shared by C31 (authority of a URI) and C30
   (paths built from URIs).  Executable definitions and their basic lemmas. *)
From Coq Require Import List NArith Bool Lia String Ascii.
Import ListNotations.
Local Open Scope N_scope.

(* ------------------------------------------------------------------ *)
(* byte strings *)

Definition bstr := list N.

Definition bytes_of (s : string) : bstr := map N_of_ascii (list_ascii_of_string s).
Arguments bytes_of s%string.

Fixpoint beqb (a b : bstr) : bool :=
  match a, b with
  | [], [] => true
  | x :: a', y :: b' => (x =? y) && beqb a' b'
  | _, _ => false
  end.

Lemma beqb_spec : forall a b, reflect (a = b) (beqb a b).
Proof.
  induction a as [|x a IH]; destruct b as [|y b]; cbn [beqb]; try (constructor; congruence).
  destruct (N.eqb_spec x y); cbn [andb].
  - destruct (IH b); constructor; congruence.
  - constructor; congruence.
Qed.

Lemma beqb_eq : forall a b, beqb a b = true <-> a = b.
Proof. intros; destruct (beqb_spec a b); split; congruence. Qed.

Lemma beqb_refl : forall a, beqb a a = true.
Proof. intros; apply beqb_eq; reflexivity. Qed.

Definition memb (c : N) (s : bstr) : bool := existsb (N.eqb c) s.

Lemma memb_In : forall c s, memb c s = true <-> In c s.
Proof.
  intros; unfold memb; rewrite existsb_exists; split.
  - intros [x [H1 H2]]; apply N.eqb_eq in H2; subst; assumption.
  - intros H; exists c; split; [assumption | apply N.eqb_refl].
Qed.

Lemma memb_app : forall c a b, memb c (a ++ b) = memb c a || memb c b.
Proof. intros; unfold memb; apply existsb_app. Qed.

(* u8::is_ascii_uppercase / to_ascii_lowercase / is_ascii_digit *)
Definition is_upper (c : N) : bool := (65 <=? c) && (c <=? 90).
Definition is_lowerc (c : N) : bool := (97 <=? c) && (c <=? 122).
Definition is_digit (c : N) : bool := (48 <=? c) && (c <=? 57).
Definition lower_c (c : N) : N := if is_upper c then c + 32 else c.
Definition lower (s : bstr) : bstr := map lower_c s.

(* [u8]::eq_ignore_ascii_case *)
Definition eq_ignore_case (a b : bstr) : bool := beqb (lower a) (lower b).

Lemma lower_c_idem : forall c, lower_c (lower_c c) = lower_c c.
Proof.
  intros c. destruct (is_upper c) eqn:E.
  - assert (H : lower_c c = c + 32) by (unfold lower_c; rewrite E; reflexivity). rewrite H.
    unfold is_upper in E; apply andb_true_iff in E; destruct E as [E1 E2]; apply N.leb_le in E1, E2.
    unfold lower_c, is_upper.
    replace (c + 32 <=? 90) with false by (symmetry; apply N.leb_gt; lia).
    rewrite andb_false_r. reflexivity.
  - assert (H : lower_c c = c) by (unfold lower_c; rewrite E; reflexivity). rewrite H. exact H.
Qed.

Lemma lower_idem : forall s, lower (lower s) = lower s.
Proof. induction s; cbn [lower map]; [reflexivity|]. f_equal; [apply lower_c_idem | exact IHs]. Qed.

Lemma lower_app : forall a b, lower (a ++ b) = lower a ++ lower b.
Proof. intros; apply map_app. Qed.

(* a byte that is not an ASCII letter is the lower-case image of itself only *)
Lemma lower_c_nonletter : forall c x, lower_c c = x -> is_lowerc x = false -> c = x.
Proof.
  intros c x H Hx; unfold lower_c in H; destruct (is_upper c) eqn:E; [|assumption].
  exfalso. unfold is_upper in E; apply andb_true_iff in E; destruct E as [E1 E2]; apply N.leb_le in E1, E2.
  subst x; unfold is_lowerc in Hx; apply andb_false_iff in Hx; destruct Hx as [Hx|Hx]; apply N.leb_gt in Hx; lia.
Qed.

Lemma lower_nonletters : forall s x, lower s = x -> forallb (fun c => negb (is_lowerc c)) x = true -> s = x.
Proof.
  induction s as [|c s IH]; intros x H Hx; cbn [lower map] in H; subst x; [reflexivity|].
  cbn [forallb] in Hx; apply andb_true_iff in Hx; destruct Hx as [H1 H2].
  apply negb_true_iff in H1. f_equal.
  - apply lower_c_nonletter; [reflexivity | assumption].
  - apply IH; [reflexivity | assumption].
Qed.

Lemma memb_lower_nonletter : forall c s, is_upper c = false -> is_lowerc c = false ->
  memb c (lower s) = memb c s.
Proof.
  intros c s Hu Hl; induction s as [|x s IH]; [reflexivity|].
  cbn [lower map]; unfold memb in *; cbn [existsb]; fold (lower s); rewrite IH; f_equal.
  destruct (N.eqb_spec c x) as [->|Hne].
  - unfold lower_c; rewrite Hu; apply N.eqb_refl.
  - destruct (N.eqb_spec c (lower_c x)) as [He|]; [|reflexivity].
    exfalso; apply Hne; symmetry; apply lower_c_nonletter; [symmetry; exact He | exact Hl].
Qed.

(* ------------------------------------------------------------------ *)
(* splitting *)

(* slice::split(|ch| *ch == c): always at least one item *)
Fixpoint split_on (c : N) (s : bstr) : list bstr :=
  match s with
  | [] => [[]]
  | x :: t =>
      if x =? c then [] :: split_on c t
      else match split_on c t with
           | [] => [[x]]                      (* unreachable *)
           | h :: r => (x :: h) :: r
           end
  end.

Fixpoint join_with (c : N) (l : list bstr) : bstr :=
  match l with
  | [] => []
  | [a] => a
  | a :: r => a ++ c :: join_with c r
  end.

Lemma split_on_nonempty : forall c s, split_on c s <> [].
Proof.
  induction s as [|x t IH]; cbn [split_on]; [discriminate|].
  destruct (x =? c); [discriminate|]. destruct (split_on c t); discriminate.
Qed.

Lemma join_split : forall c s, join_with c (split_on c s) = s.
Proof.
  induction s as [|x t IH]; [reflexivity|]. cbn [split_on].
  destruct (N.eqb_spec x c) as [->|Hne].
  - pose proof (split_on_nonempty c t). destruct (split_on c t) eqn:E; [congruence|].
    cbn [join_with app]. cbn [join_with] in IH. rewrite IH. reflexivity.
  - pose proof (split_on_nonempty c t). destruct (split_on c t) as [|h r] eqn:E; [congruence|].
    destruct r; cbn [join_with app] in *; rewrite IH; reflexivity.
Qed.

Lemma split_on_no_sep : forall c s, Forall (fun p => memb c p = false) (split_on c s).
Proof.
  induction s as [|x t IH]; cbn [split_on]; [repeat constructor|].
  destruct (N.eqb_spec x c) as [->|Hne]; [constructor; [reflexivity | exact IH]|].
  destruct (split_on c t) as [|h r]; [repeat constructor; unfold memb; cbn [existsb]|].
  - destruct (N.eqb_spec c x); [congruence | reflexivity].
  - inversion IH; subst; constructor; [|assumption].
    unfold memb in *; cbn [existsb]. destruct (N.eqb_spec c x); [congruence | assumption].
Qed.

Lemma split_on_single : forall c s, memb c s = false -> split_on c s = [s].
Proof.
  induction s as [|x t IH]; intros H; [reflexivity|].
  unfold memb in H; cbn [existsb] in H; apply orb_false_iff in H; destruct H as [H1 H2].
  cbn [split_on]. rewrite N.eqb_sym, H1. rewrite (IH H2). reflexivity.
Qed.

Lemma memb_join : forall c l, (2 <= List.length l)%nat -> memb c (join_with c l) = true.
Proof.
  intros c [|a [|b r]] H; cbn [List.length] in H; try lia.
  cbn [join_with]. rewrite memb_app. unfold memb at 2; cbn [existsb]. rewrite N.eqb_refl.
  apply orb_true_iff; right; reflexivity.
Qed.

(* first item of splitn(2, c): (before the first c, Some rest) or (s, None) *)
Fixpoint cut_at (c : N) (s : bstr) : bstr * option bstr :=
  match s with
  | [] => ([], None)
  | x :: t => if x =? c then ([], Some t)
              else let '(h, r) := cut_at c t in (x :: h, r)
  end.

Lemma cut_at_some : forall c s h r, cut_at c s = (h, Some r) -> s = h ++ c :: r /\ memb c h = false.
Proof.
  induction s as [|x t IH]; intros h r H; cbn [cut_at] in H; [discriminate|].
  destruct (N.eqb_spec x c) as [->|Hne].
  - inversion H; subst; split; reflexivity.
  - destruct (cut_at c t) as [h' r'] eqn:E. inversion H; subst.
    destruct (IH h' r eq_refl) as [-> Hm]. split; [reflexivity|].
    unfold memb in *; cbn [existsb]. destruct (N.eqb_spec c x); [congruence | assumption].
Qed.

Lemma cut_at_none : forall c s h, cut_at c s = (h, None) -> s = h /\ memb c s = false.
Proof.
  induction s as [|x t IH]; intros h H; cbn [cut_at] in H.
  - inversion H; split; reflexivity.
  - destruct (N.eqb_spec x c) as [->|Hne]; [discriminate|].
    destruct (cut_at c t) as [h' r'] eqn:E. inversion H; subst.
    destruct (IH h' eq_refl) as [-> Hm]. split; [reflexivity|].
    unfold memb in *; cbn [existsb]. destruct (N.eqb_spec c x); [congruence | assumption].
Qed.

(* ------------------------------------------------------------------ *)
(* rpki::uri *)

(* is_u8_uri_ascii: '!' | '$'..=';' | '=' | 'A'..='Z' | '_' | 'a'..='z' | '~' *)
Definition is_uri_ascii (c : N) : bool :=
  (c =? 33) || ((36 <=? c) && (c <=? 59)) || (c =? 61) || is_upper c || (c =? 95) || is_lowerc c || (c =? 126).

Definition check_uri_ascii (s : bstr) : bool := forallb is_uri_ascii s.

(* starts_with_ignore_case(s, expected) for an 8-byte [expected] *)
Definition starts_with_ignore_case (s expected : bstr) : bool :=
  let n := List.length expected in
  Nat.leb n (List.length s) && eq_ignore_case (firstn n s) expected.

Definition SLASH : N := 47.
Definition DOT : N := 46.
Definition COLON : N := 58.

(* Rsync::check_path over the items of path.split('/'):
   no "." / ".." item, an empty item only as the last one *)
Fixpoint check_path_items (items : list bstr) : bool :=
  match items with
  | [] => true
  | it :: rest =>
      match it with
      | [] => match rest with [] => true | _ => false end
      | _ => if beqb it [DOT; DOT] || beqb it [DOT] then false else check_path_items rest
      end
  end.

Definition check_path (s : bstr) : bool := check_path_items (split_on SLASH s).

(* r_scheme: the first eight bytes as written ("rsync://" in any letter case) *)
Record rsync_uri := { r_scheme : bstr; r_auth : bstr; r_mod : bstr; r_path : bstr }.
(* h_scheme: the first eight bytes as written; h_path is empty or starts with '/' *)
Record https_uri := { h_scheme : bstr; h_auth : bstr; h_path : bstr }.

(* Rsync::from_bytes *)
Definition rsync_parse (s : bstr) : option rsync_uri :=
  if negb (check_uri_ascii s) then None
  else if negb (starts_with_ignore_case s (bytes_of "rsync://")) then None
  else let t := skipn 8 s in
    if negb (check_path t) then None
    else match cut_at SLASH t with
         | (a, Some t1) =>
             match a with [] => None | _ =>
             match cut_at SLASH t1 with
             | (m, Some p) => match m with [] => None | _ => Some {| r_scheme := firstn 8 s; r_auth := a; r_mod := m; r_path := p |} end
             | (_, None) => None
             end end
         | (_, None) => None
         end.

(* Https::from_bytes; authority() = uri[8..path_idx], path() = uri[path_idx..] *)
Definition https_parse (s : bstr) : option https_uri :=
  if negb (check_uri_ascii s) then None
  else if negb (starts_with_ignore_case s (bytes_of "https://")) then None
  else let t := skipn 8 s in
    match cut_at SLASH t with
    | (a, Some p) => Some {| h_scheme := firstn 8 s; h_auth := a; h_path := SLASH :: p |}
    | (a, None) => Some {| h_scheme := firstn 8 s; h_auth := a; h_path := [] |}
    end.

(* canonical_authority(): ASCII letters lowered *)
Definition canonical (a : bstr) : bstr := lower a.

Definition has_upper (s : bstr) : bool := existsb is_upper s.

(* Rsync::canonical_module(): the URI up to and including the slash after the module name;
   rebuilt with scheme "rsync://" and lower-cased authority only if the authority has an
   upper-case letter, otherwise borrowed as written (including the letter case of the scheme) *)
Definition canonical_module (u : rsync_uri) : bstr :=
  if has_upper (r_auth u)
  then bytes_of "rsync://" ++ lower (r_auth u) ++ SLASH :: r_mod u ++ [SLASH]
  else r_scheme u ++ r_auth u ++ SLASH :: r_mod u ++ [SLASH].

(* URI equivalence: scheme and authority are case-insensitive, the rest is not *)
Definition rsync_eqv (u v : rsync_uri) : Prop :=
  lower (r_auth u) = lower (r_auth v) /\ r_mod u = r_mod v /\ r_path u = r_path v.
Definition https_eqv (u v : https_uri) : Prop :=
  lower (h_auth u) = lower (h_auth v) /\ h_path u = h_path v.

(* Https::as_slice(): the URI as written *)
Definition https_raw (u : https_uri) : bstr := h_scheme u ++ h_auth u ++ h_path u.

(* ------------------------------------------------------------------ *)
(* paths: PathBuf::push on Unix, components, lexical normalisation *)

Definition is_absolute (p : bstr) : bool := match p with c :: _ => c =? SLASH | [] => false end.
Definition ends_with_slash (s : bstr) : bool := match s with [] => false | _ => last s 0 =? SLASH end.

(* PathBuf::push: an absolute argument replaces the path; otherwise a separator is added
   unless the buffer is empty or already ends with one *)
Definition push (buf p : bstr) : bstr :=
  if is_absolute p then p
  else match buf with
       | [] => p
       | _ => if ends_with_slash buf then buf ++ p else buf ++ SLASH :: p
       end.

Definition pushes (root : bstr) (ps : list bstr) : bstr := fold_left push ps root.

Definition comps (s : bstr) : list bstr := split_on SLASH s.

(* lexical resolution with a stack (top first): empty and "." components are skipped,
   ".." pops; None = ".." with nothing to pop *)
Fixpoint nstack (st : list bstr) (cs : list bstr) : option (list bstr) :=
  match cs with
  | [] => Some st
  | c :: r =>
      match c with
      | [] => nstack st r
      | _ => if beqb c [DOT] then nstack st r
             else if beqb c [DOT; DOT] then match st with [] => None | _ :: st' => nstack st' r end
             else nstack (c :: st) r
      end
  end.

Definition norm (s : bstr) : option (list bstr) := option_map (@rev bstr) (nstack [] (comps s)).

(* a component that resolution keeps as it is *)
Definition normalb (c : bstr) : bool :=
  match c with [] => false | _ => negb (beqb c [DOT]) && negb (beqb c [DOT; DOT]) end.

(* [p] stays below [root]: the resolved root is a prefix of the resolved path
   (stacks are top-first, so the root's stack is a suffix) *)
Definition under (root p : bstr) : Prop :=
  exists sr out, nstack [] (comps root) = Some sr /\ nstack [] (comps p) = Some (out ++ sr).

Definition underb (root p : bstr) : bool :=
  match norm root, norm p with
  | Some r, Some q => Nat.leb (List.length r) (List.length q) &&
                      forallb (fun x => beqb (fst x) (snd x)) (combine r q)
  | _, _ => false
  end.

Lemma split_on_app_sep : forall c a b, split_on c (a ++ c :: b) = split_on c a ++ split_on c b.
Proof.
  induction a as [|x a IH]; intros b.
  - cbn [app split_on]. rewrite N.eqb_refl. reflexivity.
  - cbn [app split_on]. destruct (x =? c); [rewrite IH; reflexivity|].
    rewrite IH. pose proof (split_on_nonempty c a). destruct (split_on c a); [congruence|]. reflexivity.
Qed.

Lemma nstack_app : forall xs ys st,
  nstack st (xs ++ ys) = match nstack st xs with Some st' => nstack st' ys | None => None end.
Proof.
  induction xs as [|c xs IH]; intros ys st; [reflexivity|].
  cbn [app nstack]. destruct c as [|c0 c']; [apply IH|].
  destruct (beqb (c0 :: c') [DOT]); [apply IH|].
  destruct (beqb (c0 :: c') [DOT; DOT]); [destruct st; [reflexivity | apply IH] | apply IH].
Qed.

Lemma nstack_skip_empty : forall xs ys st, nstack st (xs ++ [] :: ys) = nstack st (xs ++ ys).
Proof. intros. rewrite !nstack_app. destruct (nstack st xs); reflexivity. Qed.

(* resolution relative to a deeper stack *)
Lemma nstack_frame : forall cs st out base, nstack st cs = Some out -> nstack (st ++ base) cs = Some (out ++ base).
Proof.
  induction cs as [|c cs IH]; intros st out base H; cbn [nstack] in *.
  - inversion H; reflexivity.
  - destruct c as [|c0 c']; [apply IH; exact H|].
    destruct (beqb (c0 :: c') [DOT]); [apply IH; exact H|].
    destruct (beqb (c0 :: c') [DOT; DOT]).
    + destruct st as [|t st]; [discriminate|]. cbn [app]. apply IH; exact H.
    + apply (IH (( c0 :: c') :: st)); exact H.
Qed.

Lemma nstack_normal : forall cs st, forallb normalb cs = true -> nstack st cs = Some (rev cs ++ st).
Proof.
  induction cs as [|c cs IH]; intros st H; [reflexivity|].
  cbn [forallb] in H. apply andb_true_iff in H. destruct H as [H1 H2].
  cbn [nstack]. destruct c as [|c0 c']; [discriminate|]. cbn [normalb] in H1.
  apply andb_true_iff in H1. destruct H1 as [Ha Hb]. apply negb_true_iff in Ha, Hb. rewrite Ha, Hb.
  rewrite (IH _ H2). cbn [rev]. rewrite <- app_assoc. reflexivity.
Qed.

Lemma last_snoc : forall (a : bstr) x d, last (a ++ [x]) d = x.
Proof. intros; apply last_last. Qed.

Lemma comps_push_rel : forall b p st, is_absolute p = false ->
  nstack st (comps (push b p)) = nstack st (comps b ++ comps p).
Proof.
  intros b p st Hp. unfold push. rewrite Hp.
  destruct b as [|x b'] eqn:Eb.
  - reflexivity.
  - rewrite <- Eb. assert (Hne : b <> []) by (subst; discriminate).
    destruct (ends_with_slash b) eqn:E.
    + unfold ends_with_slash in E. rewrite Eb in E. rewrite <- Eb in E. apply N.eqb_eq in E.
      destruct (exists_last Hne) as [b0 [y Hb]]. rewrite Hb in E. rewrite last_snoc in E. subst y.
      rewrite Hb. rewrite <- app_assoc. cbn [app]. unfold comps.
      rewrite !split_on_app_sep. cbn [split_on]. rewrite <- app_assoc. cbn [app].
      symmetry. apply nstack_skip_empty.
    + unfold comps. rewrite split_on_app_sep. reflexivity.
Qed.

Lemma comps_pushes_rel : forall ps root st, forallb (fun p => negb (is_absolute p)) ps = true ->
  nstack st (comps (pushes root ps)) = nstack st (comps root ++ flat_map comps ps).
Proof.
  induction ps as [|p ps IH]; intros root st H.
  - cbn [pushes fold_left flat_map]. rewrite app_nil_r. reflexivity.
  - cbn [forallb] in H. apply andb_true_iff in H. destruct H as [H1 H2]. apply negb_true_iff in H1.
    cbn [pushes fold_left flat_map]. fold (pushes (push root p) ps). rewrite (IH _ _ H2).
    rewrite nstack_app, (comps_push_rel _ _ _ H1), <- nstack_app, <- app_assoc. reflexivity.
Qed.

(* what stays below the root: relative pushes whose components resolve without popping out *)
Lemma under_pushes : forall root ps sr out,
  forallb (fun p => negb (is_absolute p)) ps = true ->
  nstack [] (comps root) = Some sr ->
  nstack [] (flat_map comps ps) = Some out ->
  nstack [] (comps (pushes root ps)) = Some (out ++ sr).
Proof.
  intros root ps sr out Hrel Hr Ho.
  rewrite (comps_pushes_rel _ _ _ Hrel), nstack_app, Hr.
  apply (nstack_frame _ [] out sr Ho).
Qed.

(* a common separator splits uniquely when the heads contain none *)
Lemma app_sep_inj : forall c a a' b b', memb c a = false -> memb c a' = false ->
  a ++ c :: b = a' ++ c :: b' -> a = a' /\ b = b'.
Proof.
  induction a as [|x a IH]; intros a' b b' Ha Ha' H.
  - destruct a' as [|y a']; cbn [app] in H.
    + inversion H; auto.
    + inversion H; subst. unfold memb in Ha'; cbn [existsb] in Ha'. rewrite N.eqb_refl in Ha'. discriminate.
  - destruct a' as [|y a']; cbn [app] in H.
    + inversion H; subst. unfold memb in Ha; cbn [existsb] in Ha. rewrite N.eqb_refl in Ha. discriminate.
    + inversion H; subst. unfold memb in Ha, Ha'; cbn [existsb] in Ha, Ha'.
      apply orb_false_iff in Ha, Ha'. destruct Ha as [_ Ha], Ha' as [_ Ha'].
      destruct (IH a' b b' Ha Ha' H2) as [-> ->]. auto.
Qed.
