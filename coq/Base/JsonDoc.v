(* Document-level facts about the JSON reader of Base/Json.v.

   - [lexes l ts]: the lexer turns the bytes [l] into the tokens [ts] (for
     some fuel); compositional lemmas, one per kind of token, so that the
     token sequence of any concrete layout is obtained by rewriting;
     [lexes_fuel]: the fuel [json_parse] uses is always enough.
   - [toks v]: the token sequence of a JSON value; [pval_toks]: the token
     parser reads [toks v] back as [v].
   - [json_parse_of_lexes]: a byte string that lexes to [toks v] is one JSON
     document, and it reads back as [v].
   Used by C22 (JsonBuilder layout) and C21 (the layouts of the json,
   jsonext, slurm and slurm2 output formats). *)
From Coq Require Import List NArith Lia Bool Arith.
From RV Require Import Base.Json.
Import ListNotations.
Local Open Scope N_scope.

(* ---------------------------------------------------------------- spans *)

Lemma span_app_stop {A} (p : A -> bool) a c r :
  forallb p a = true -> p c = false -> span p (a ++ c :: r) = (a, c :: r).
Proof.
  induction a as [|x a IH]; cbn [forallb app span]; intros Ha Hc.
  - rewrite Hc. reflexivity.
  - apply andb_true_iff in Ha as [Hx Ha]. rewrite Hx, (IH Ha Hc). reflexivity.
Qed.

Lemma span_all {A} (p : A -> bool) a : forallb p a = true -> span p a = (a, []).
Proof.
  induction a as [|x a IH]; cbn [forallb span]; intros Ha; [reflexivity|].
  apply andb_true_iff in Ha as [Hx Ha]. rewrite Hx, (IH Ha). reflexivity.
Qed.

Lemma span_length {A} (p : A -> bool) l : (length (snd (span p l)) <= length l)%nat.
Proof.
  induction l as [|x l IH]; cbn [span]; [auto|].
  destruct (p x); [|cbn; lia]. destruct (span p l) as [a b]. cbn [snd length] in *. lia.
Qed.

(* ---------------------------------------------------------------- the string lexer consumes input *)

Lemma cons_str_some p r s rest :
  cons_str p r = Some (s, rest) -> exists s', r = Some (s', rest).
Proof. destruct r as [[s' r']|]; cbn; intros H; inversion H; subst; eauto. Qed.

Lemma lex_string_length_aux n : forall l s r, (length l <= n)%nat -> lex_string l = Some (s, r) -> (length r < length l)%nat.
Proof.
  induction n as [|n IH]; intros l s r Hn H.
  - destruct l; [discriminate|cbn in Hn; lia].
  - destruct l as [|c t]; [discriminate|]. cbn [lex_string] in H. cbn [length] in *.
    destruct (c =? 34). { inversion H; subst. lia. }
    destruct (c =? 92).
    + destruct t as [|e t1]; [discriminate|]. cbn [length] in *.
      destruct (e =? 117).
      * destruct t1 as [|a [|b [|c1 [|d t2]]]]; try discriminate. cbn [length] in *.
        destruct (hex4 a b c1 d) as [cp|]; [|discriminate].
        destruct ((55296 <=? cp) && (cp <=? 56319)).
        -- destruct t2 as [|b1 [|u1 [|a2 [|b2 [|c2 [|d2 t3]]]]]]; try discriminate. cbn [length] in *.
           destruct ((b1 =? 92) && (u1 =? 117)); [|discriminate].
           destruct (hex4 a2 b2 c2 d2) as [lo|]; [|discriminate].
           destruct ((56320 <=? lo) && (lo <=? 57343)); [|discriminate].
           apply cons_str_some in H as [s' H]. apply IH in H; lia.
        -- destruct ((56320 <=? cp) && (cp <=? 57343)); [discriminate|].
           apply cons_str_some in H as [s' H]. apply IH in H; lia.
      * destruct (simple_escape e); [|discriminate].
        apply cons_str_some in H as [s' H]. apply IH in H; lia.
    + destruct (c <? 32); [discriminate|].
      apply cons_str_some in H as [s' H]. apply IH in H; lia.
Qed.

Lemma lex_string_length l s r : lex_string l = Some (s, r) -> (length r < length l)%nat.
Proof. apply (lex_string_length_aux (length l)); lia. Qed.

(* ---------------------------------------------------------------- fuel *)

Lemma cons_tok_mono t (a b : option (list token)) ts :
  (forall x, a = Some x -> b = Some x) -> cons_tok t a = Some ts -> cons_tok t b = Some ts.
Proof.
  intros H. destruct a as [x|]; cbn; [|discriminate]. intros E. rewrite (H x eq_refl). exact E.
Qed.

(* [lex_body] only calls [rec] on strictly shorter inputs *)
Lemma lex_body_mono (r1 r2 : list N -> option (list token)) l ts :
  (forall x xs, (length x < length l)%nat -> r1 x = Some xs -> r2 x = Some xs) ->
  lex_body r1 l = Some ts -> lex_body r2 l = Some ts.
Proof.
  intros HR. unfold lex_body. destruct l as [|c t]; [auto|]. cbn [length] in HR.
  assert (Ht : forall xs, r1 t = Some xs -> r2 t = Some xs) by (intros xs; apply HR; lia).
  destruct (is_ws c); [apply Ht|].
  repeat (match goal with |- (if ?c =? ?k then _ else _) = _ -> _ => destruct (c =? k); [apply cons_tok_mono; exact Ht|] end).
  destruct (c =? 34).
  { destruct (lex_string t) as [[s r]|] eqn:E; [|auto].
    apply cons_tok_mono. intros xs. apply HR. apply lex_string_length in E. lia. }
  destruct (c =? 116).
  { destruct t as [|r [|u [|e t']]]; auto. destruct ((r =? 114) && (u =? 117) && (e =? 101)); auto.
    apply cons_tok_mono. intros xs. apply HR. cbn [length]. lia. }
  destruct (c =? 102).
  { destruct t as [|a [|l1 [|s [|e t']]]]; auto. destruct ((a =? 97) && (l1 =? 108) && (s =? 115) && (e =? 101)); auto.
    apply cons_tok_mono. intros xs. apply HR. cbn [length]. lia. }
  destruct (c =? 110).
  { destruct t as [|u [|l1 [|l2 t']]]; auto. destruct ((u =? 117) && (l1 =? 108) && (l2 =? 108)); auto.
    apply cons_tok_mono. intros xs. apply HR. cbn [length]. lia. }
  destruct (is_num_char c) eqn:Hc; [|auto].
  cbn [span]. rewrite Hc. pose proof (span_length is_num_char t) as HL.
  destruct (span is_num_char t) as [a b]. cbn [snd] in HL.
  destruct (num_okb (c :: a)); [|auto].
  apply cons_tok_mono. intros xs. apply HR. lia.
Qed.

Lemma lex_mono f : forall l ts, lex f l = Some ts -> lex (S f) l = Some ts.
Proof.
  induction f as [|f IH]; intros l ts H; [discriminate|].
  change (lex_body (lex f) l = Some ts) in H. change (lex_body (lex (S f)) l = Some ts).
  revert H. apply lex_body_mono. intros x xs _. apply IH.
Qed.

Lemma lex_mono_le f g l ts : (f <= g)%nat -> lex f l = Some ts -> lex g l = Some ts.
Proof. intros Hle. induction Hle as [|g Hle IH]; [auto|]. intros Hl. apply lex_mono. auto. Qed.

Definition lexes (l : list N) (ts : list token) : Prop := exists f, lex f l = Some ts.

(* the fuel used by [json_parse] is enough whenever any fuel is *)
Lemma lex_fuel f : forall l ts, lex f l = Some ts -> lex (S (length l)) l = Some ts.
Proof.
  induction f as [|f IH]; intros l ts H; [discriminate|].
  change (lex_body (lex f) l = Some ts) in H. change (lex_body (lex (length l)) l = Some ts).
  revert H. apply lex_body_mono. intros x xs Hlen Hx.
  apply IH in Hx. revert Hx. apply lex_mono_le. lia.
Qed.

Lemma lexes_fuel l ts : lexes l ts -> lex (S (length l)) l = Some ts.
Proof. intros [f H]. exact (lex_fuel f l ts H). Qed.

(* ---------------------------------------------------------------- one lemma per token *)

Lemma lexes_nil : lexes [] [].
Proof. exists 1%nat. reflexivity. Qed.

Lemma lexes_ws c l ts : is_ws c = true -> lexes l ts -> lexes (c :: l) ts.
Proof. intros Hc [f H]. exists (S f). cbn [lex lex_body]. rewrite Hc. exact H. Qed.

Lemma lexes_wsl w l ts : forallb is_ws w = true -> lexes l ts -> lexes (w ++ l) ts.
Proof.
  induction w as [|c w IH]; cbn [forallb app]; intros Hw H; [exact H|].
  apply andb_true_iff in Hw as [Hc Hw]. apply lexes_ws; auto.
Qed.

Lemma lexes_punct c tk l ts :
  lex_body (fun _ => Some ts) (c :: l) = Some (tk :: ts) -> is_ws c = false ->
  (c = 123 \/ c = 125 \/ c = 91 \/ c = 93 \/ c = 58 \/ c = 44) ->
  lexes l ts -> lexes (c :: l) (tk :: ts).
Proof.
  intros Hb Hw Hc [f H]. exists (S f). cbn [lex]. revert Hb.
  destruct Hc as [->|[->|[->|[->|[->| ->]]]]]; cbn; rewrite H; auto.
Qed.

Lemma lexes_lbrace l ts : lexes l ts -> lexes (123 :: l) (TLBrace :: ts).
Proof. apply lexes_punct; auto. Qed.
Lemma lexes_rbrace l ts : lexes l ts -> lexes (125 :: l) (TRBrace :: ts).
Proof. apply lexes_punct; auto. Qed.
Lemma lexes_lbrack l ts : lexes l ts -> lexes (91 :: l) (TLBrack :: ts).
Proof. apply lexes_punct; auto 10. Qed.
Lemma lexes_rbrack l ts : lexes l ts -> lexes (93 :: l) (TRBrack :: ts).
Proof. apply lexes_punct; auto 10. Qed.
Lemma lexes_colon l ts : lexes l ts -> lexes (58 :: l) (TColon :: ts).
Proof. apply lexes_punct; auto 10. Qed.
Lemma lexes_comma l ts : lexes l ts -> lexes (44 :: l) (TComma :: ts).
Proof. apply lexes_punct; auto 10. Qed.

Lemma lexes_string t s r ts : lex_string t = Some (s, r) -> lexes r ts -> lexes (34 :: t) (TStr s :: ts).
Proof.
  intros Hs [f H]. exists (S f). cbn [lex].
  change (lex_body (lex f) (34 :: t)) with
    (match lex_string t with Some (s, r) => cons_tok (TStr s) (lex f r) | None => None end).
  rewrite Hs, H. reflexivity.
Qed.

(* a string written with [json_escape] between quotes *)
Lemma lexes_escaped s l ts : lexes l ts -> lexes (34 :: json_escape s ++ 34 :: l) (TStr s :: ts).
Proof. apply lexes_string, lex_string_escape. Qed.

Lemma lexes_true l ts : lexes l ts -> lexes (116 :: 114 :: 117 :: 101 :: l) (TTrue :: ts).
Proof. intros [f H]. exists (S f). cbn [lex]. change (cons_tok TTrue (lex f l) = Some (TTrue :: ts)). rewrite H. reflexivity. Qed.
Lemma lexes_false l ts : lexes l ts -> lexes (102 :: 97 :: 108 :: 115 :: 101 :: l) (TFalse :: ts).
Proof. intros [f H]. exists (S f). cbn [lex]. change (cons_tok TFalse (lex f l) = Some (TFalse :: ts)). rewrite H. reflexivity. Qed.
Lemma lexes_null l ts : lexes l ts -> lexes (110 :: 117 :: 108 :: 108 :: l) (TNull :: ts).
Proof. intros [f H]. exists (S f). cbn [lex]. change (cons_tok TNull (lex f l) = Some (TNull :: ts)). rewrite H. reflexivity. Qed.

(* numbers *)
Definition num_end (l : list N) : Prop := match l with [] => True | c :: _ => is_num_char c = false end.

Definition num_wfb (n : list N) : bool := num_okb n && forallb is_num_char n.

Lemma num_okb_head n : num_okb n = true -> exists c n', n = c :: n' /\ (c = 45 \/ is_digit c = true).
Proof.
  unfold num_okb. destruct n as [|m t]; [cbn; discriminate|].
  destruct (N.eqb_spec m 45) as [->|Hm]; [eauto|].
  cbn [span]. destruct (is_digit m) eqn:Hd; [eauto|]. discriminate.
Qed.

Lemma lex_body_num_start rec c t :
  c = 45 \/ is_digit c = true ->
  lex_body rec (c :: t) =
    let (n, r) := span is_num_char (c :: t) in if num_okb n then cons_tok (TNum n) (rec r) else None.
Proof.
  intros [->|Hd]; [reflexivity|].
  unfold is_digit in Hd. apply andb_true_iff in Hd as [H1 H2]. apply N.leb_le in H1, H2.
  unfold lex_body, is_ws.
  repeat match goal with |- context [c =? ?k] =>
    replace (c =? k) with false by (symmetry; apply N.eqb_neq; lia) end.
  cbn [orb].
  assert (is_num_char c = true) as Hn.
  { unfold is_num_char, is_digit. apply N.leb_le in H1, H2. rewrite H1, H2. reflexivity. }
  rewrite Hn. reflexivity.
Qed.

Lemma lexes_num n l ts : num_wfb n = true -> num_end l -> lexes l ts -> lexes (n ++ l) (TNum n :: ts).
Proof.
  unfold num_wfb. intros Hn He [f H]. apply andb_true_iff in Hn as [Hok Hall].
  destruct (num_okb_head n Hok) as (c & n' & -> & Hc).
  exists (S f). cbn [lex app]. rewrite (lex_body_num_start _ c (n' ++ l) Hc).
  change (c :: n' ++ l) with ((c :: n') ++ l).
  assert (span is_num_char ((c :: n') ++ l) = (c :: n', l)) as ->.
  { destruct l as [|d l']; [rewrite app_nil_r; apply span_all; exact Hall|].
    apply span_app_stop; [exact Hall | exact He]. }
  rewrite Hok, H. reflexivity.
Qed.

Lemma json_escape_num n : forallb is_num_char n = true -> json_escape n = n.
Proof.
  intros H. apply json_escape_plain. revert H. induction n as [|c n IH]; cbn [forallb]; [auto|].
  intros Hcn. apply andb_true_iff in Hcn as [Hc Hn]. apply andb_true_iff. split; [|auto].
  unfold is_num_char, is_digit in Hc.
  destruct (N.eqb_spec c 34) as [->|]; [discriminate|].
  destruct (N.eqb_spec c 92) as [->|]; [discriminate|].
  destruct (N.ltb_spec c 32) as [L|]; [|reflexivity].
  repeat (apply orb_true_iff in Hc as [Hc|Hc]); try (apply N.eqb_eq in Hc; lia).
  apply andb_true_iff in Hc as [H1 _]. apply N.leb_le in H1. lia.
Qed.

(* ---------------------------------------------------------------- values as token sequences *)

Section JsonInd.
Variable P : json -> Prop.
Hypothesis Hnull : P JNull.
Hypothesis Htrue : P JTrue.
Hypothesis Hfalse : P JFalse.
Hypothesis Hnum : forall n, P (JNum n).
Hypothesis Hstr : forall s, P (JStr s).
Hypothesis Harr : forall vs, Forall P vs -> P (JArr vs).
Hypothesis Hobj : forall ms, Forall (fun kv => P (snd kv)) ms -> P (JObj ms).
Fixpoint json_ind' (v : json) : P v :=
  match v with
  | JNull => Hnull | JTrue => Htrue | JFalse => Hfalse
  | JNum n => Hnum n | JStr s => Hstr s
  | JArr vs => Harr vs ((fix go (l : list json) : Forall P l :=
                           match l with [] => Forall_nil _ | x :: t => Forall_cons x (json_ind' x) (go t) end) vs)
  | JObj ms => Hobj ms ((fix go (l : list (list N * json)) : Forall (fun kv => P (snd kv)) l :=
                           match l with
                           | [] => Forall_nil _
                           | x :: t => Forall_cons x (json_ind' (snd x)) (go t)
                           end) ms)
  end.
End JsonInd.

(* items joined by a comma token *)
Fixpoint tsep (items : list (list token)) : list token :=
  match items with
  | [] => []
  | [x] => x
  | x :: rest => x ++ TComma :: tsep rest
  end.

Fixpoint toks (v : json) : list token :=
  match v with
  | JNull => [TNull] | JTrue => [TTrue] | JFalse => [TFalse]
  | JNum n => [TNum n] | JStr s => [TStr s]
  | JArr vs => TLBrack :: tsep (map toks vs) ++ [TRBrack]
  | JObj ms => TLBrace :: tsep (map (fun kv => TStr (fst kv) :: TColon :: toks (snd kv)) ms) ++ [TRBrace]
  end.

Fixpoint jsize (v : json) : nat :=
  match v with
  | JArr vs => S (list_sum (map jsize vs))
  | JObj ms => S (list_sum (map (fun kv => jsize (snd kv)) ms))
  | _ => 1
  end.

Definition val_start (t : token) : Prop :=
  match t with TRBrace | TRBrack | TColon | TComma => False | _ => True end.

Lemma toks_head v : exists t r, toks v = t :: r /\ val_start t.
Proof. destruct v; cbn [toks]; eexists _, _; split; try reflexivity; exact I. Qed.

Lemma pval_S f ts : pval (S f) ts =
  match ts with
  | TStr s :: r => Some (JStr s, r)
  | TNum n :: r => Some (JNum n, r)
  | TTrue :: r => Some (JTrue, r)
  | TFalse :: r => Some (JFalse, r)
  | TNull :: r => Some (JNull, r)
  | TLBrack :: TRBrack :: r => Some (JArr [], r)
  | TLBrack :: r =>
    match pelems (pval f) f r with Some (vs, r') => Some (JArr vs, r') | None => None end
  | TLBrace :: TRBrace :: r => Some (JObj [], r)
  | TLBrace :: r =>
    match pmembers (pval f) f r with Some (ms, r') => Some (JObj ms, r') | None => None end
  | _ => None
  end.
Proof. reflexivity. Qed.

Lemma pelems_toks pv : forall vs n rest,
  vs <> [] -> (length vs <= n)%nat ->
  Forall (fun v => forall rest, pv (toks v ++ rest) = Some (v, rest)) vs ->
  pelems pv n (tsep (map toks vs) ++ TRBrack :: rest) = Some (vs, rest).
Proof.
  induction vs as [|v vs IH]; intros n rest Hne Hn HF; [congruence|].
  inversion HF as [|? ? Hv HF']; subst.
  destruct n as [|n]; [cbn in Hn; lia|]. cbn [length] in Hn.
  destruct vs as [|w vs'].
  - cbn [map tsep pelems]. rewrite Hv. reflexivity.
  - change (tsep (map toks (v :: w :: vs'))) with (toks v ++ TComma :: tsep (map toks (w :: vs'))).
    rewrite <- app_assoc. cbn [pelems]. rewrite Hv. cbn [app].
    rewrite (IH n rest); [reflexivity | discriminate | lia | exact HF'].
Qed.

Lemma pmembers_toks pv : forall (ms : list (list N * json)) n rest,
  ms <> [] -> (length ms <= n)%nat ->
  Forall (fun kv => forall rest, pv (toks (snd kv) ++ rest) = Some (snd kv, rest)) ms ->
  pmembers pv n (tsep (map (fun kv => TStr (fst kv) :: TColon :: toks (snd kv)) ms) ++ TRBrace :: rest) = Some (ms, rest).
Proof.
  induction ms as [|[k v] ms IH]; intros n rest Hne Hn HF; [congruence|].
  inversion HF as [|? ? Hv HF']; subst. cbn [snd] in Hv.
  destruct n as [|n]; [cbn in Hn; lia|]. cbn [length] in Hn.
  destruct ms as [|w ms'].
  - cbn [map tsep pmembers fst snd app]. rewrite Hv. reflexivity.
  - change (tsep (map (fun kv => TStr (fst kv) :: TColon :: toks (snd kv)) ((k, v) :: w :: ms')))
      with ((TStr k :: TColon :: toks v) ++ TComma :: tsep (map (fun kv => TStr (fst kv) :: TColon :: toks (snd kv)) (w :: ms'))).
    rewrite <- app_assoc. cbn [app pmembers]. rewrite Hv.
    rewrite (IH n rest); [reflexivity | discriminate | lia | exact HF'].
Qed.

Lemma list_sum_cons a l : list_sum (a :: l) = (a + list_sum l)%nat.
Proof. reflexivity. Qed.

Lemma list_sum_ge_length {A} (f : A -> nat) l : (forall x, 1 <= f x)%nat -> (length l <= list_sum (map f l))%nat.
Proof. intros Hf. induction l as [|x l IH]; cbn [length map]; [cbn; lia|]. rewrite list_sum_cons. specialize (Hf x). lia. Qed.

Lemma jsize_pos v : (1 <= jsize v)%nat.
Proof. destruct v; cbn; lia. Qed.

Lemma list_sum_In {A} (f : A -> nat) l x : In x l -> (f x <= list_sum (map f l))%nat.
Proof. induction l as [|y l IH]; cbn [In map]; [tauto|]. rewrite list_sum_cons. intros [->|H]; [lia|]. specialize (IH H). lia. Qed.

Theorem pval_toks v : forall f rest, (jsize v < f)%nat -> pval f (toks v ++ rest) = Some (v, rest).
Proof.
  induction v using json_ind'; intros f rest Hf; (destruct f as [|f]; [lia|]); rewrite pval_S; try reflexivity.
  - (* arrays *)
    cbn [toks app]. destruct vs as [|v vs]; [reflexivity|].
    remember (v :: vs) as l eqn:El.
    assert (Hne : l <> []) by (subst; discriminate).
    destruct (toks_head v) as (t & r & Ht & Hs).
    assert (E : tsep (map toks l) ++ [TRBrack] ++ rest = t :: (tl (tsep (map toks l)) ++ [TRBrack] ++ rest)).
    { subst l. cbn [map]. destruct vs; cbn [tsep map]; rewrite Ht; reflexivity. }
    rewrite <- app_assoc. rewrite E. destruct t; try contradiction; rewrite <- E;
    change ([TRBrack] ++ rest) with (TRBrack :: rest);
    (cbn [jsize] in Hf; rewrite (pelems_toks (pval f) l f rest Hne);
     [reflexivity
     | pose proof (list_sum_ge_length jsize l jsize_pos); lia
     | rewrite Forall_forall in H |- *; intros x Hx rest'; apply H; [exact Hx|];
       pose proof (list_sum_In jsize l x Hx); lia]).
  - (* objects *)
    cbn [toks app]. destruct ms as [|m ms]; [reflexivity|].
    remember (m :: ms) as l eqn:El.
    assert (Hne : l <> []) by (subst; discriminate).
    assert (E : exists r, tsep (map (fun kv => TStr (fst kv) :: TColon :: toks (snd kv)) l) ++ [TRBrace] ++ rest = TStr (fst m) :: r).
    { subst l. cbn [map]. destruct ms; cbn [tsep map app]; eexists; reflexivity. }
    destruct E as [r E]. rewrite <- app_assoc. rewrite E, <- E.
    change ([TRBrace] ++ rest) with (TRBrace :: rest).
    cbn [jsize] in Hf. rewrite (pmembers_toks (pval f) l f rest Hne);
     [reflexivity
     | pose proof (list_sum_ge_length (fun kv : list N * json => jsize (snd kv)) l (fun kv => jsize_pos (snd kv))); lia
     | rewrite Forall_forall in H |- *; intros x Hx rest'; apply H; [exact Hx|];
       pose proof (list_sum_In (fun kv : list N * json => jsize (snd kv)) l x Hx); lia].
Qed.

Lemma length_tsep_ge (items : list (list token)) : (list_sum (map (@length token) items) <= length (tsep items))%nat.
Proof.
  induction items as [|x [|y items] IH].
  - cbn. lia.
  - cbn [tsep map]. rewrite list_sum_cons. change (list_sum []) with 0%nat. lia.
  - change (tsep (x :: y :: items)) with (x ++ TComma :: tsep (y :: items)).
    cbn [map]. rewrite list_sum_cons. rewrite app_length. cbn [length]. cbn [map] in IH. lia.
Qed.

Lemma jsize_le_toks v : (jsize v <= length (toks v))%nat.
Proof.
  induction v using json_ind'; cbn [jsize toks length]; try lia.
  - rewrite app_length. cbn [length].
    assert (list_sum (map jsize vs) <= list_sum (map (fun x => length (toks x)) vs))%nat.
    { induction H; cbn [map]; rewrite ?list_sum_cons; [lia|]. cbv beta in *. lia. }
    pose proof (length_tsep_ge (map toks vs)) as HL. rewrite map_map in HL.
    lia.
  - rewrite app_length. cbn [length].
    assert (list_sum (map (fun kv : list N * json => jsize (snd kv)) ms)
            <= list_sum (map (fun x : list N * json => length (TStr (fst x) :: TColon :: toks (snd x))) ms))%nat.
    { induction H; cbn [map]; rewrite ?list_sum_cons; [lia|]. cbv beta in *. cbn [length] in *. lia. }
    pose proof (length_tsep_ge (map (fun kv : list N * json => TStr (fst kv) :: TColon :: toks (snd kv)) ms)) as HL.
    rewrite map_map in HL.
    lia.
Qed.

(* ---------------------------------------------------------------- separated items *)

(* The bytes of a separated list lex to the items' tokens joined by commas,
   provided the separator lexes to a comma and every item is followed
   correctly whatever comes next. *)
Lemma lexes_sep_by {A} (sep : list N) (pf : A -> list N) (tf : A -> list token) (xs : list A) tail tts :
  (forall l, num_end (sep ++ l)) ->
  (forall l ts, lexes l ts -> lexes (sep ++ l) (TComma :: ts)) ->
  (forall x, In x xs -> forall rest ts, num_end rest -> lexes rest ts -> lexes (pf x ++ rest) (tf x ++ ts)) ->
  num_end tail -> lexes tail tts ->
  lexes (sep_by sep (map pf xs) ++ tail) (tsep (map tf xs) ++ tts).
Proof.
  intros Hse Hsl. induction xs as [|x xs IH]; intros Hx He Hl; [exact Hl|].
  destruct xs as [|y xs'].
  - cbn [map sep_by tsep]. apply Hx; [left; reflexivity | exact He | exact Hl].
  - change (sep_by sep (map pf (x :: y :: xs'))) with (pf x ++ sep ++ sep_by sep (map pf (y :: xs'))).
    change (tsep (map tf (x :: y :: xs'))) with (tf x ++ TComma :: tsep (map tf (y :: xs'))).
    rewrite <- !app_assoc. cbn [app].
    apply Hx; [left; reflexivity | apply Hse |].
    apply Hsl. apply IH; [|exact He | exact Hl].
    intros z Hz. apply Hx. right. exact Hz.
Qed.

(* A byte string that lexes to the tokens of [v] is one JSON document that
   reads back as [v]. *)
Theorem json_parse_of_lexes l v : lexes l (toks v) -> json_parse l = Some v.
Proof.
  intros H. unfold json_parse. rewrite (lexes_fuel _ _ H).
  pose proof (pval_toks v (S (length (toks v))) []) as P. rewrite app_nil_r in P.
  rewrite P; [reflexivity|]. pose proof (jsize_le_toks v). lia.
Qed.
