(* A layout-carrying JSON emitter: a document as a list of (whitespace, token) pairs.
   [emit] writes the whitespace and the token's text; under the side condition [twl_okb]
   (whitespace is whitespace, numbers are well-formed and not glued to what follows) the
   emitted bytes lex back to exactly the token list, hence parse to the value whose token
   list it is (Base/JsonDoc.json_parse_of_lexes). *)
From Coq Require Import List NArith Lia Bool.
From RV Require Import Base.Json Base.JsonDoc.
Import ListNotations.
Local Open Scope N_scope.

Definition tw : Type := list N * token.

Definition render_tok (t : token) : list N :=
  match t with
  | TLBrace => [123] | TRBrace => [125] | TLBrack => [91] | TRBrack => [93]
  | TColon => [58] | TComma => [44]
  | TStr s => 34 :: json_escape s ++ [34]
  | TNum n => n
  | TTrue => [116; 114; 117; 101]
  | TFalse => [102; 97; 108; 115; 101]
  | TNull => [110; 117; 108; 108]
  end.

Definition emit1 (x : tw) : list N := fst x ++ render_tok (snd x).
Definition emit (l : list tw) : list N := flat_map emit1 l.

Definition tok_okb (t : token) : bool := match t with TNum n => num_wfb n | _ => true end.

(* may directly follow a number *)
Definition after_num_okb (x : tw) : bool :=
  match fst x with
  | _ :: _ => true
  | [] => match snd x with TLBrace | TRBrace | TLBrack | TRBrack | TColon | TComma | TStr _ => true | _ => false end
  end.

Fixpoint twl_okb (l : list tw) : bool :=
  match l with
  | [] => true
  | x :: t =>
      forallb is_ws (fst x) && tok_okb (snd x)
      && match snd x, t with TNum _, y :: _ => after_num_okb y | _, _ => true end
      && twl_okb t
  end.

Definition ends_in_num (l : list tw) : bool :=
  match rev l with (_, TNum _) :: _ => true | _ => false end.

Lemma num_end_emit1 x rest : forallb is_ws (fst x) = true -> after_num_okb x = true -> num_end (emit1 x ++ rest).
Proof.
  destruct x as [w t]. unfold emit1, after_num_okb. cbn [fst snd]. intros W A.
  destruct w as [|c w].
  - destruct t; try discriminate; cbn; reflexivity.
  - cbn [forallb] in W. apply andb_true_iff in W as [W _]. cbn [app num_end].
    unfold is_ws in W. unfold is_num_char, is_digit.
    destruct (N.eqb_spec c 32) as [->|]; [reflexivity|]. destruct (N.eqb_spec c 10) as [->|]; [reflexivity|].
    destruct (N.eqb_spec c 13) as [->|]; [reflexivity|]. destruct (N.eqb_spec c 9) as [->|]; [reflexivity|]. discriminate.
Qed.

Lemma lexes_tok t rest ts : tok_okb t = true ->
  (match t with TNum _ => num_end rest | _ => True end) ->
  lexes rest ts -> lexes (render_tok t ++ rest) (t :: ts).
Proof.
  intros K E L. destruct t; cbn [render_tok app].
  - apply lexes_lbrace; exact L.
  - apply lexes_rbrace; exact L.
  - apply lexes_lbrack; exact L.
  - apply lexes_rbrack; exact L.
  - apply lexes_colon; exact L.
  - apply lexes_comma; exact L.
  - rewrite <- app_assoc. cbn [app]. apply lexes_escaped; exact L.
  - apply lexes_num; assumption.
  - apply lexes_true; exact L.
  - apply lexes_false; exact L.
  - apply lexes_null; exact L.
Qed.

Theorem emit_lexes l : twl_okb l = true ->
  forall tail tts, (ends_in_num l = true -> num_end tail) -> lexes tail tts ->
  lexes (emit l ++ tail) (map snd l ++ tts).
Proof.
  induction l as [|x l IH]; intros K tail tts E L; [exact L|].
  cbn [twl_okb] in K. apply andb_true_iff in K as [K K4]. apply andb_true_iff in K as [K K3].
  apply andb_true_iff in K as [K1 K2].
  cbn [emit flat_map map app]. fold (emit l). unfold emit1 at 1. rewrite <- !app_assoc.
  apply lexes_wsl; [exact K1|].
  apply lexes_tok; [exact K2| |].
  - destruct (snd x) eqn:T; try exact I. destruct l as [|y l'].
    + cbn [emit flat_map app]. apply E. unfold ends_in_num. cbn [rev app]. destruct x as [w t]. cbn in T. subst t. reflexivity.
    + cbn [emit flat_map]. rewrite <- app_assoc. apply num_end_emit1; [|exact K3].
      cbn [twl_okb] in K4. apply andb_true_iff in K4 as [K4 _]. apply andb_true_iff in K4 as [K4 _].
      apply andb_true_iff in K4 as [K4 _]. exact K4.
  - apply IH; [exact K4 | | exact L]. intros En. apply E.
    unfold ends_in_num in *. cbn [rev]. destruct (rev l) as [|z r] eqn:R.
    + destruct l; [discriminate|]. cbn [rev] in R. destruct (rev l); discriminate.
    + cbn [app]. exact En.
Qed.

Corollary emit_parses l v : twl_okb l = true -> ends_in_num l = false -> map snd l = toks v ->
  json_parse (emit l) = Some v.
Proof.
  intros K E T. apply json_parse_of_lexes. rewrite <- T.
  pose proof (emit_lexes l K [] [] (fun H => ltac:(congruence)) lexes_nil) as P.
  rewrite !app_nil_r in P. exact P.
Qed.

Lemma emit_app a b : emit (a ++ b) = emit a ++ emit b.
Proof. unfold emit. apply flat_map_app. Qed.
