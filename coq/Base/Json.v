(* JSON over byte lists (bytes are [N]; nothing depends on them being < 256).

   Contents
   - [json_escape]: byte-level model of routinator's [utils::json::json_str]
     (as fixed for C22: quote (34), backslash (92) and every byte < 0x20 are escaped).  All
     special bytes are ASCII, UTF-8 continuation/lead bytes are >= 0x80, so
     the byte-level model is exact for Rust [str]s.
   - [lex_string]: the string lexer of a JSON reader (RFC 8259 section 7),
     including \uXXXX with surrogate pairs, result re-encoded as UTF-8;
     [json_unescape].
   - tokens, the fuelled lexer [lex], the token parser [pval], [json_parse]:
     an executable validator good enough to state that a byte string is one
     JSON document.  UTF-8 well-formedness of string contents is not checked
     here (Rust [String]s are UTF-8 by construction; the harness also runs
     serde_json).
   - theorems about strings: [json_unescape_escape], [lex_string_escape]
     (framing: the lexer consumes exactly the escaped string and the closing
     quote, whatever follows), [json_escape_no_ctrl],
     [json_escape_quotes_escaped], [json_escape_no_lone_backslash].
   Document-level theorems are in Base/JsonDoc.v.  Stdlib only. *)
From Coq Require Import List NArith Lia Bool.
Import ListNotations.
Local Open Scope N_scope.

(* ---------------------------------------------------------------- AST *)

Inductive json :=
| JNull | JTrue | JFalse
| JNum (lexeme : list N)           (* the text of the number, e.g. -1 or 0.250 *)
| JStr (s : list N)                (* decoded content, UTF-8 bytes *)
| JArr (l : list json)
| JObj (l : list (list N * json)). (* members in document order, duplicates kept *)

(* ---------------------------------------------------------------- escaping *)

Definition hexdigit (n : N) : N := if n <? 10 then 48 + n else 87 + n.   (* lower case, as {:04x} *)

Definition hexval (c : N) : option N :=
  if (48 <=? c) && (c <=? 57) then Some (c - 48)
  else if (97 <=? c) && (c <=? 102) then Some (c - 87)
  else if (65 <=? c) && (c <=? 70) then Some (c - 55)
  else None.

(* utils/json.rs json_str, WriteJsonStr::write_str: the loop finds the next
   byte that is a quote, a backslash or < 0x20, copies the prefix unchanged and writes the
   escape; i.e. a per-byte map. *)
Definition esc_byte (b : N) : list N :=
  if b =? 34 then [92; 34]
  else if b =? 92 then [92; 92]
  else if b =? 10 then [92; 110]
  else if b =? 13 then [92; 114]
  else if b =? 9 then [92; 116]
  else if b <? 32 then [92; 117; 48; 48; hexdigit (b / 16); hexdigit (b mod 16)]
  else [b].

Definition json_escape (s : list N) : list N := flat_map esc_byte s.

(* ---------------------------------------------------------------- string lexer *)

Definition utf8_encode (cp : N) : list N :=
  if cp <? 128 then [cp]
  else if cp <? 2048 then [192 + cp / 64; 128 + cp mod 64]
  else if cp <? 65536 then [224 + cp / 4096; 128 + (cp / 64) mod 64; 128 + cp mod 64]
  else [240 + cp / 262144; 128 + (cp / 4096) mod 64; 128 + (cp / 64) mod 64; 128 + cp mod 64].

Definition hex4 (a b c d : N) : option N :=
  match hexval a, hexval b, hexval c, hexval d with
  | Some x, Some y, Some z, Some w => Some (((x * 16 + y) * 16 + z) * 16 + w)
  | _, _, _, _ => None
  end.

Definition simple_escape (e : N) : option N :=
  if e =? 34 then Some 34          (* \ quote *)
  else if e =? 92 then Some 92     (* \\ *)
  else if e =? 47 then Some 47     (* \/ *)
  else if e =? 98 then Some 8      (* \b *)
  else if e =? 102 then Some 12    (* \f *)
  else if e =? 110 then Some 10    (* \n *)
  else if e =? 114 then Some 13    (* \r *)
  else if e =? 116 then Some 9     (* \t *)
  else None.

Definition cons_str (p : list N) (r : option (list N * list N)) : option (list N * list N) :=
  match r with Some (s, rest) => Some (p ++ s, rest) | None => None end.

(* [lex_string l]: [l] is the input just after an opening quote; returns the
   decoded content and the input after the closing quote. *)
Fixpoint lex_string (l : list N) : option (list N * list N) :=
  match l with
  | [] => None
  | c :: t =>
    if c =? 34 then Some ([], t)
    else if c =? 92 then
      match t with
      | [] => None
      | e :: t1 =>
        if e =? 117 then
          match t1 with
          | a :: b :: c1 :: d :: t2 =>
            match hex4 a b c1 d with
            | None => None
            | Some cp =>
              if (55296 <=? cp) && (cp <=? 56319) then        (* high surrogate *)
                match t2 with
                | b1 :: u1 :: a2 :: b2 :: c2 :: d2 :: t3 =>
                  if (b1 =? 92) && (u1 =? 117) then
                    match hex4 a2 b2 c2 d2 with
                    | None => None
                    | Some lo =>
                      if (56320 <=? lo) && (lo <=? 57343) then
                        cons_str (utf8_encode (65536 + (cp - 55296) * 1024 + (lo - 56320))) (lex_string t3)
                      else None
                    end
                  else None
                | _ => None
                end
              else if (56320 <=? cp) && (cp <=? 57343) then None   (* lone low surrogate *)
              else cons_str (utf8_encode cp) (lex_string t2)
            end
          | _ => None
          end
        else
          match simple_escape e with
          | Some b => cons_str [b] (lex_string t1)
          | None => None
          end
      end
    else if c <? 32 then None
    else cons_str [c] (lex_string t)
  end.

Definition json_unescape (s : list N) : option (list N) :=
  match lex_string (s ++ [34]) with
  | Some (r, []) => Some r
  | _ => None
  end.

(* No raw quote, no raw control byte, every backslash starts one of the
   escapes of RFC 8259.  (Implied by [json_unescape s <> None]; stated
   separately because it is what the property text says.) *)
Fixpoint str_body_okb (l : list N) : bool :=
  match l with
  | [] => true
  | c :: t =>
    if c =? 34 then false
    else if c <? 32 then false
    else if c =? 92 then
      match t with
      | [] => false
      | e :: t1 =>
        if e =? 117 then
          match t1 with
          | a :: b :: c1 :: d :: t2 =>
            match hex4 a b c1 d with Some _ => str_body_okb t2 | None => false end
          | _ => false
          end
        else match simple_escape e with Some _ => str_body_okb t1 | None => false end
      end
    else str_body_okb t
  end.

(* ---------------------------------------------------------------- tokens *)

Inductive token :=
| TLBrace | TRBrace | TLBrack | TRBrack | TColon | TComma
| TStr (s : list N) | TNum (lexeme : list N) | TTrue | TFalse | TNull.

Definition is_ws (c : N) : bool := (c =? 32) || (c =? 10) || (c =? 13) || (c =? 9).
Definition is_digit (c : N) : bool := (48 <=? c) && (c <=? 57).
Definition is_num_char (c : N) : bool :=
  is_digit c || (c =? 45) || (c =? 43) || (c =? 46) || (c =? 101) || (c =? 69).

Section Span.
Context {A : Type} (p : A -> bool).
Fixpoint span (l : list A) : list A * list A :=
  match l with
  | [] => ([], [])
  | c :: t => if p c then let (a, b) := span t in (c :: a, b) else ([], l)
  end.
End Span.

Definition nonempty {A} (l : list A) : bool := match l with [] => false | _ => true end.

(* -? (0 | [1-9][0-9]* ) ( . [0-9]+ )? ( [eE] [+-]? [0-9]+ )? *)
Definition num_exp_okb (l : list N) : bool :=
  match l with
  | [] => true
  | e :: t =>
    if (e =? 101) || (e =? 69) then
      let t' := match t with s :: t1 => if (s =? 43) || (s =? 45) then t1 else t | [] => t end in
      nonempty t' && forallb is_digit t'
    else false
  end.
Definition num_frac_okb (l : list N) : bool :=
  match l with
  | [] => true
  | d :: t =>
    if d =? 46 then
      let (fr, r) := span is_digit t in nonempty fr && num_exp_okb r
    else num_exp_okb l
  end.
Definition num_okb (l : list N) : bool :=
  let l1 := match l with m :: t => if m =? 45 then t else l | [] => l end in
  let (int, r) := span is_digit l1 in
  match int with
  | [] => false
  | d :: more => (negb (d =? 48) || negb (nonempty more)) && num_frac_okb r
  end.

Definition cons_tok (t : token) (r : option (list token)) : option (list token) :=
  match r with Some ts => Some (t :: ts) | None => None end.

(* one step of the lexer; [rec] lexes the rest of the input *)
Definition lex_body (rec : list N -> option (list token)) (l : list N) : option (list token) :=
  match l with
  | [] => Some []
  | c :: t =>
    if is_ws c then rec t
    else if c =? 123 then cons_tok TLBrace (rec t)
    else if c =? 125 then cons_tok TRBrace (rec t)
    else if c =? 91 then cons_tok TLBrack (rec t)
    else if c =? 93 then cons_tok TRBrack (rec t)
    else if c =? 58 then cons_tok TColon (rec t)
    else if c =? 44 then cons_tok TComma (rec t)
    else if c =? 34 then
      match lex_string t with
      | Some (s, r) => cons_tok (TStr s) (rec r)
      | None => None
      end
    else if c =? 116 then                                   (* true *)
      match t with
      | r :: u :: e :: t' =>
        if (r =? 114) && (u =? 117) && (e =? 101) then cons_tok TTrue (rec t') else None
      | _ => None
      end
    else if c =? 102 then                                   (* false *)
      match t with
      | a :: l1 :: s :: e :: t' =>
        if (a =? 97) && (l1 =? 108) && (s =? 115) && (e =? 101) then cons_tok TFalse (rec t') else None
      | _ => None
      end
    else if c =? 110 then                                   (* null *)
      match t with
      | u :: l1 :: l2 :: t' =>
        if (u =? 117) && (l1 =? 108) && (l2 =? 108) then cons_tok TNull (rec t') else None
      | _ => None
      end
    else if is_num_char c then
      let (n, r) := span is_num_char l in
      if num_okb n then cons_tok (TNum n) (rec r) else None
    else None
  end.

Fixpoint lex (fuel : nat) (l : list N) : option (list token) :=
  match fuel with
  | O => None
  | S f => lex_body (lex f) l
  end.

(* ---------------------------------------------------------------- token parser *)

Definition pres : Type := option (json * list token).

Fixpoint pelems (pv : list token -> pres) (n : nat) (ts : list token) : option (list json * list token) :=
  match n with
  | O => None
  | S n' =>
    match pv ts with
    | Some (v, TComma :: r) =>
      match pelems pv n' r with Some (vs, r') => Some (v :: vs, r') | None => None end
    | Some (v, TRBrack :: r) => Some ([v], r)
    | _ => None
    end
  end.

Fixpoint pmembers (pv : list token -> pres) (n : nat) (ts : list token)
  : option (list (list N * json) * list token) :=
  match n with
  | O => None
  | S n' =>
    match ts with
    | TStr k :: TColon :: ts' =>
      match pv ts' with
      | Some (v, TComma :: r) =>
        match pmembers pv n' r with Some (ms, r') => Some ((k, v) :: ms, r') | None => None end
      | Some (v, TRBrace :: r) => Some ([(k, v)], r)
      | _ => None
      end
    | _ => None
    end
  end.

Fixpoint pval (fuel : nat) (ts : list token) : pres :=
  match fuel with
  | O => None
  | S f =>
    match ts with
    | TStr s :: r => Some (JStr s, r)
    | TNum n :: r => Some (JNum n, r)
    | TTrue :: r => Some (JTrue, r)
    | TFalse :: r => Some (JFalse, r)
    | TNull :: r => Some (JNull, r)
    | TLBrack :: TRBrack :: r => Some (JArr [], r)
    | TLBrack :: r =>
      match pelems (pval f) f r with Some (vs, r') => Some (JArr vs, r') | None => None end
    | TLBrace :: TRBrace :: r => Some (JObj [], r)
    | TLBrace :: r =>
      match pmembers (pval f) f r with Some (ms, r') => Some (JObj ms, r') | None => None end
    | _ => None
    end
  end.

Definition json_parse (l : list N) : option json :=
  match lex (S (length l)) l with
  | Some ts =>
    match pval (S (length ts)) ts with
    | Some (v, []) => Some v
    | _ => None
    end
  | None => None
  end.

Definition json_validb (l : list N) : bool :=
  match json_parse l with Some _ => true | None => false end.

(* ---------------------------------------------------------------- accessors used by oracles *)

Fixpoint list_eqb (a b : list N) : bool :=
  match a, b with
  | [], [] => true
  | x :: a', y :: b' => (x =? y) && list_eqb a' b'
  | _, _ => false
  end.

Lemma list_eqb_spec a b : list_eqb a b = true <-> a = b.
Proof.
  revert b; induction a as [|x a IH]; intros [|y b]; cbn [list_eqb]; try (split; congruence).
  rewrite andb_true_iff, N.eqb_eq, IH. split; [intros [E1 E2]; subst; reflexivity | intros E; inversion E; auto].
Qed.

Lemma list_eqb_refl a : list_eqb a a = true.
Proof. apply list_eqb_spec; reflexivity. Qed.

Fixpoint jget (k : list N) (ms : list (list N * json)) : option json :=
  match ms with
  | [] => None
  | (k', v) :: t => if list_eqb k k' then Some v else jget k t
  end.
Definition jfield (k : list N) (v : json) : option json :=
  match v with JObj ms => jget k ms | _ => None end.
Definition jkeys (v : json) : list (list N) :=
  match v with JObj ms => map fst ms | _ => [] end.
Definition jvalues (v : json) : list json :=
  match v with JObj ms => map snd ms | JArr vs => vs | _ => [] end.

(* items joined by a separator (no separator before the first / after the last) *)
Fixpoint sep_by {A} (sep : list A) (items : list (list A)) : list A :=
  match items with
  | [] => []
  | [x] => x
  | x :: rest => x ++ sep ++ sep_by sep rest
  end.

(* ================================================================ theorems *)

(* ---- hex digits ---- *)
Lemma hexval_hexdigit n : n < 16 -> hexval (hexdigit n) = Some n.
Proof.
  intros H.
  assert (E : n = 0 \/ n = 1 \/ n = 2 \/ n = 3 \/ n = 4 \/ n = 5 \/ n = 6 \/ n = 7 \/ n = 8 \/ n = 9 \/
              n = 10 \/ n = 11 \/ n = 12 \/ n = 13 \/ n = 14 \/ n = 15) by lia.
  repeat (destruct E as [-> | E]; [reflexivity|]). subst; reflexivity.
Qed.

Lemma hex4_00 b : b < 32 -> hex4 48 48 (hexdigit (b / 16)) (hexdigit (b mod 16)) = Some b.
Proof.
  intros H. unfold hex4.
  assert (H1 : b / 16 < 16) by (apply N.div_lt_upper_bound; lia).
  assert (H2 : b mod 16 < 16) by (apply N.mod_lt; lia).
  rewrite (hexval_hexdigit _ H1), (hexval_hexdigit _ H2).
  change (hexval 48) with (Some 0). cbv iota beta.
  f_equal. pose proof (N.div_mod b 16). lia.
Qed.

(* ---- the escaper against the string lexer ---- *)

(* What one escaped byte does to the lexer. *)
Lemma lex_string_esc_byte b rest :
  lex_string (esc_byte b ++ rest) = cons_str [b] (lex_string rest).
Proof.
  unfold esc_byte.
  destruct (N.eqb_spec b 34) as [->|N34]; [reflexivity|].
  destruct (N.eqb_spec b 92) as [->|N92]; [reflexivity|].
  destruct (N.eqb_spec b 10) as [->|N10]; [reflexivity|].
  destruct (N.eqb_spec b 13) as [->|N13]; [reflexivity|].
  destruct (N.eqb_spec b 9) as [->|N9]; [reflexivity|].
  destruct (N.ltb_spec b 32) as [L|G].
  - cbn [app lex_string].
    change (92 =? 34) with false. change (92 =? 92) with true. change (117 =? 117) with true.
    cbv iota beta.
    rewrite (hex4_00 b L).
    assert (b < 55296) as Lb by lia.
    assert ((55296 <=? b) && (b <=? 56319) = false) as -> by (apply andb_false_iff; left; apply N.leb_gt; lia).
    assert ((56320 <=? b) && (b <=? 57343) = false) as -> by (apply andb_false_iff; left; apply N.leb_gt; lia).
    unfold utf8_encode. assert (b <? 128 = true) as -> by (apply N.ltb_lt; lia). reflexivity.
  - cbn [app lex_string].
    destruct (N.eqb_spec b 34); [contradiction|].
    destruct (N.eqb_spec b 92); [contradiction|].
    destruct (N.ltb_spec b 32); [lia|]. reflexivity.
Qed.

(* Framing: after an opening quote, the lexer reads back exactly [s] from
   [json_escape s], stops at the closing quote and leaves [rest] untouched -
   for every byte string [s] and every continuation [rest]. *)
Theorem lex_string_escape s rest :
  lex_string (json_escape s ++ 34 :: rest) = Some (s, rest).
Proof.
  induction s as [|b s IH]; [reflexivity|].
  unfold json_escape in *. cbn [flat_map]. rewrite <- app_assoc.
  rewrite lex_string_esc_byte, IH. reflexivity.
Qed.

Theorem json_unescape_escape s : json_unescape (json_escape s) = Some s.
Proof.
  unfold json_unescape. rewrite (lex_string_escape s []). reflexivity.
Qed.

(* ---- the escaped output is safe ---- *)

Lemma hexdigit_ok n : n < 16 -> hexval (hexdigit n) <> None.
Proof. intros H; rewrite hexval_hexdigit by exact H; discriminate. Qed.

Lemma str_body_okb_esc_byte b rest :
  str_body_okb (esc_byte b ++ rest) = str_body_okb rest.
Proof.
  unfold esc_byte.
  destruct (N.eqb_spec b 34) as [->|N34]; [reflexivity|].
  destruct (N.eqb_spec b 92) as [->|N92]; [reflexivity|].
  destruct (N.eqb_spec b 10) as [->|N10]; [reflexivity|].
  destruct (N.eqb_spec b 13) as [->|N13]; [reflexivity|].
  destruct (N.eqb_spec b 9) as [->|N9]; [reflexivity|].
  destruct (N.ltb_spec b 32) as [L|G].
  - cbn [app str_body_okb].
    change (92 =? 34) with false. change (92 <? 32) with false. change (92 =? 92) with true.
    change (117 =? 117) with true. cbv iota beta.
    rewrite (hex4_00 b L). reflexivity.
  - cbn [app str_body_okb].
    destruct (N.eqb_spec b 34); [contradiction|].
    destruct (N.eqb_spec b 92); [contradiction|].
    destruct (N.ltb_spec b 32); [lia|]. reflexivity.
Qed.

Theorem json_escape_body_ok s : str_body_okb (json_escape s) = true.
Proof.
  induction s as [|b s IH]; [reflexivity|].
  unfold json_escape in *. cbn [flat_map]. rewrite str_body_okb_esc_byte. exact IH.
Qed.

(* The three syntactic facts of the property, spelled out on bytes:
   no raw quote, no byte below 0x20, and every backslash is followed by one of
   quote, backslash, n, r, t, u. *)
Fixpoint no_lone_backslash (l : list N) : Prop :=
  match l with
  | [] => True
  | c :: t =>
    if c =? 92 then
      match t with
      | e :: t' => In e [34; 92; 110; 114; 116; 117] /\ no_lone_backslash t'
      | [] => False
      end
    else no_lone_backslash t
  end.

Lemma esc_byte_no_ctrl b : Forall (fun c => 32 <= c) (esc_byte b).
Proof.
  unfold esc_byte.
  destruct (N.eqb_spec b 34) as [->|N34]; [repeat constructor; lia|].
  destruct (N.eqb_spec b 92) as [->|N92]; [repeat constructor; lia|].
  destruct (N.eqb_spec b 10) as [->|N10]; [repeat constructor; lia|].
  destruct (N.eqb_spec b 13) as [->|N13]; [repeat constructor; lia|].
  destruct (N.eqb_spec b 9) as [->|N9]; [repeat constructor; lia|].
  destruct (N.ltb_spec b 32) as [L|G].
  - assert (HD : forall n, 48 <= hexdigit n) by (intros n; unfold hexdigit; destruct (n <? 10); lia).
    pose proof (HD (b / 16)); pose proof (HD (b mod 16)).
    repeat constructor; lia.
  - repeat constructor; lia.
Qed.

Theorem json_escape_no_ctrl s : Forall (fun c => 32 <= c) (json_escape s).
Proof.
  induction s as [|b s IH]; [constructor|].
  unfold json_escape in *. cbn [flat_map]. apply Forall_app; split; [apply esc_byte_no_ctrl | exact IH].
Qed.

(* every quote in the output is the second byte of the pair backslash quote *)
Fixpoint quotes_escaped (l : list N) : Prop :=
  match l with
  | [] => True
  | c :: t =>
    if c =? 34 then False
    else if c =? 92 then match t with _ :: t' => quotes_escaped t' | [] => False end
    else quotes_escaped t
  end.

Lemma quotes_escaped_esc_byte b rest :
  quotes_escaped rest -> quotes_escaped (esc_byte b ++ rest).
Proof.
  intros H. unfold esc_byte.
  destruct (N.eqb_spec b 34) as [->|N34]; [exact H|].
  destruct (N.eqb_spec b 92) as [->|N92]; [exact H|].
  destruct (N.eqb_spec b 10) as [->|N10]; [exact H|].
  destruct (N.eqb_spec b 13) as [->|N13]; [exact H|].
  destruct (N.eqb_spec b 9) as [->|N9]; [exact H|].
  destruct (N.ltb_spec b 32) as [L|G].
  - cbn [app quotes_escaped]. change (92 =? 34) with false. change (92 =? 92) with true. cbv iota.
    change (48 =? 34) with false. change (48 =? 92) with false. cbv iota.
    assert (HD : forall n, n < 16 -> (hexdigit n =? 34) = false /\ (hexdigit n =? 92) = false).
    { intros n Hn. unfold hexdigit. destruct (N.ltb_spec n 10); split; apply N.eqb_neq; lia. }
    assert (H1 : b / 16 < 16) by (apply N.div_lt_upper_bound; lia).
    assert (H2 : b mod 16 < 16) by (apply N.mod_lt; lia).
    destruct (HD _ H1) as [-> ->]. destruct (HD _ H2) as [-> ->]. exact H.
  - cbn [app quotes_escaped].
    destruct (N.eqb_spec b 34); [contradiction|].
    destruct (N.eqb_spec b 92); [contradiction|]. exact H.
Qed.

Theorem json_escape_quotes_escaped s : quotes_escaped (json_escape s).
Proof.
  induction s as [|b s IH]; [exact I|].
  unfold json_escape in *. cbn [flat_map]. apply quotes_escaped_esc_byte, IH.
Qed.

Lemma no_lone_backslash_esc_byte b rest :
  no_lone_backslash rest -> no_lone_backslash (esc_byte b ++ rest).
Proof.
  intros H. unfold esc_byte.
  destruct (N.eqb_spec b 34) as [->|N34]; [cbn; intuition|].
  destruct (N.eqb_spec b 92) as [->|N92]; [cbn; intuition|].
  destruct (N.eqb_spec b 10) as [->|N10]; [cbn; intuition|].
  destruct (N.eqb_spec b 13) as [->|N13]; [cbn; intuition|].
  destruct (N.eqb_spec b 9) as [->|N9]; [cbn; intuition|].
  destruct (N.ltb_spec b 32) as [L|G].
  - cbn [app no_lone_backslash]. change (92 =? 92) with true. cbv iota.
    split; [cbn; intuition|].
    change (48 =? 92) with false. cbv iota.
    assert (HD : forall n, n < 16 -> (hexdigit n =? 92) = false).
    { intros n Hn. unfold hexdigit. destruct (N.ltb_spec n 10); apply N.eqb_neq; lia. }
    assert (H1 : b / 16 < 16) by (apply N.div_lt_upper_bound; lia).
    assert (H2 : b mod 16 < 16) by (apply N.mod_lt; lia).
    rewrite (HD _ H1), (HD _ H2). exact H.
  - cbn [app no_lone_backslash].
    destruct (N.eqb_spec b 92); [contradiction|]. exact H.
Qed.

Theorem json_escape_no_lone_backslash s : no_lone_backslash (json_escape s).
Proof.
  induction s as [|b s IH]; [exact I|].
  unfold json_escape in *. cbn [flat_map]. apply no_lone_backslash_esc_byte, IH.
Qed.

(* bytes that need no escaping are copied *)
Lemma json_escape_plain s :
  forallb (fun b => negb (b =? 34) && negb (b =? 92) && negb (b <? 32)) s = true -> json_escape s = s.
Proof.
  induction s as [|b s IH]; [reflexivity|].
  cbn [forallb]. rewrite !andb_true_iff, !negb_true_iff. intros [[[H1 H2] H3] H].
  unfold json_escape in *. cbn [flat_map]. rewrite (IH H). unfold esc_byte.
  rewrite H1, H2, H3.
  destruct (N.eqb_spec b 10) as [->|]; [discriminate|].
  destruct (N.eqb_spec b 13) as [->|]; [discriminate|].
  destruct (N.eqb_spec b 9) as [->|]; [discriminate|]. reflexivity.
Qed.
