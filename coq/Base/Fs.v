(* A file system as a map from paths to byte strings, file-operation programs
   and crash states.

   fs                = path -> option bytes        (directories are not modelled)
   op                = Create p      create or truncate p (File::create, O_TRUNC)
                     | Write p d     append d to p (write_all on a handle positioned at the end)
                     | Rename a b    rename(2): b is replaced by a's content atomically
                     | Remove p      unlink
                     | SetLen p n    truncate / zero-extend to n bytes
   run_ops prog f    = the state after the whole program
   crash_at n cut prog f
                     = the state after the first n operations of prog; with
                       cut = Some c and the (n+1)-th operation a write, that
                       write has been applied with only its first c bytes
                       (a torn write).  All other operations are atomic.

   What is modelled is what survives a *process* kill: every completed
   operation is in the state, in program order.  Power loss (write-back
   order, missing fsync) is not modelled.

   The path type is a parameter (with a boolean equality).  Stdlib only. *)
From Coq Require Import List NArith Bool Lia.
Import ListNotations.
Local Open Scope N_scope.

Section Fs.
Context {P : Type}.
Variable peqb : P -> P -> bool.
Hypothesis peqb_spec : forall a b, reflect (a = b) (peqb a b).

Definition fs : Type := P -> option (list N).

Definition fs_empty : fs := fun _ => None.

Definition upd (f : fs) (p : P) (v : option (list N)) : fs :=
  fun q => if peqb q p then v else f q.

Inductive op :=
| Create (p : P)
| Write (p : P) (d : list N)
| Rename (a b : P)
| Remove (p : P)
| SetLen (p : P) (n : N).

Definition step (f : fs) (o : op) : fs :=
  match o with
  | Create p => upd f p (Some [])
  | Write p d => match f p with Some c => upd f p (Some (c ++ d)) | None => f end
  | Rename a b =>
      if peqb a b then f
      else match f a with Some c => upd (upd f b (Some c)) a None | None => f end
  | Remove p => upd f p None
  | SetLen p n =>
      match f p with
      | Some c => upd f p (Some (firstn (N.to_nat n) c ++ repeat 0 (N.to_nat n - length c)))
      | None => f
      end
  end.

Definition run_ops (prog : list op) (f : fs) : fs := fold_left step prog f.

(* what a torn operation leaves: only writes can be torn *)
Definition tear (cut : N) (o : op) : list op :=
  match o with
  | Write p d => [Write p (firstn (N.to_nat cut) d)]
  | _ => []
  end.

Definition crash_at (n : nat) (cut : option N) (prog : list op) (f : fs) : fs :=
  let done := run_ops (firstn n prog) f in
  match cut, nth_error prog n with
  | Some c, Some o => run_ops (tear c o) done
  | _, _ => done
  end.

(* the paths an operation can change *)
Definition touches (o : op) (q : P) : bool :=
  match o with
  | Create p | Write p _ | Remove p | SetLen p _ => peqb q p
  | Rename a b => peqb q a || peqb q b
  end.

(* ------------------------------------------------------------------ *)

Lemma peqb_refl p : peqb p p = true.
Proof. destruct (peqb_spec p p); [reflexivity | contradiction]. Qed.

Lemma peqb_neq p q : p <> q -> peqb p q = false.
Proof. intros H. destruct (peqb_spec p q); [contradiction | reflexivity]. Qed.

Lemma upd_same f p v : upd f p v p = v.
Proof. unfold upd. rewrite peqb_refl. reflexivity. Qed.

Lemma upd_other f p v q : q <> p -> upd f p v q = f q.
Proof. intros H. unfold upd. rewrite peqb_neq by exact H. reflexivity. Qed.

Lemma run_ops_nil f : run_ops [] f = f.
Proof. reflexivity. Qed.

Lemma run_ops_cons o prog f : run_ops (o :: prog) f = run_ops prog (step f o).
Proof. reflexivity. Qed.

Lemma run_ops_app p1 p2 f : run_ops (p1 ++ p2) f = run_ops p2 (run_ops p1 f).
Proof. unfold run_ops. apply fold_left_app. Qed.

(* an operation leaves alone what it does not touch *)
Lemma step_frame f o q : touches o q = false -> step f o q = f q.
Proof.
  destruct o as [p|p d|a b|p|p n]; cbn [touches step]; intros H.
  - unfold upd. rewrite H. reflexivity.
  - destruct (f p); [|reflexivity]. unfold upd. rewrite H. reflexivity.
  - apply orb_false_iff in H as [Ha Hb].
    destruct (peqb a b); [reflexivity|]. destruct (f a); [|reflexivity].
    unfold upd. rewrite Ha, Hb. reflexivity.
  - unfold upd. rewrite H. reflexivity.
  - destruct (f p); [|reflexivity]. unfold upd. rewrite H. reflexivity.
Qed.

Lemma run_ops_frame prog : forall f q,
  forallb (fun o => negb (touches o q)) prog = true -> run_ops prog f q = f q.
Proof.
  induction prog as [|o prog IH]; intros f q H; [reflexivity|].
  cbn [forallb] in H. apply andb_true_iff in H as [H1 H2]. apply negb_true_iff in H1.
  rewrite run_ops_cons, IH by exact H2. apply step_frame; exact H1.
Qed.

Lemma In_firstn {A} (x : A) n : forall l, In x (firstn n l) -> In x l.
Proof.
  induction n as [|n IH]; intros [|y l] H; cbn [firstn] in H; try contradiction.
  destruct H as [H|H]; [left; exact H | right; apply IH; exact H].
Qed.

Lemma tear_touches c o q : touches o q = false -> forallb (fun o' => negb (touches o' q)) (tear c o) = true.
Proof.
  destruct o; cbn [tear forallb touches]; intros H; try reflexivity.
  rewrite H. reflexivity.
Qed.

Lemma crash_at_frame prog n cut f q :
  forallb (fun o => negb (touches o q)) prog = true -> crash_at n cut prog f q = f q.
Proof.
  intros H. unfold crash_at.
  assert (Hf : forallb (fun o => negb (touches o q)) (firstn n prog) = true).
  { rewrite forallb_forall in *. intros o Ho. apply H. eapply In_firstn; exact Ho. }
  destruct cut as [c|]; [|apply run_ops_frame; exact Hf].
  destruct (nth_error prog n) as [o|] eqn:E; [|apply run_ops_frame; exact Hf].
  rewrite run_ops_frame; [apply run_ops_frame; exact Hf|].
  apply tear_touches. rewrite forallb_forall in H. apply nth_error_In in E.
  specialize (H o E). apply negb_true_iff in H. exact H.
Qed.

(* crash states of a sequence of two programs *)
Lemma crash_at_app_l p1 p2 n cut f :
  (n < length p1)%nat -> crash_at n cut (p1 ++ p2) f = crash_at n cut p1 f.
Proof.
  intros H. unfold crash_at.
  rewrite firstn_app. replace (n - length p1)%nat with O by lia. cbn [firstn]. rewrite app_nil_r.
  rewrite nth_error_app1 by exact H. reflexivity.
Qed.

Lemma crash_at_app_r p1 p2 n cut f :
  (length p1 <= n)%nat -> crash_at n cut (p1 ++ p2) f = crash_at (n - length p1) cut p2 (run_ops p1 f).
Proof.
  intros H. unfold crash_at.
  rewrite firstn_app, firstn_all2 by exact H. rewrite run_ops_app.
  rewrite nth_error_app2 by exact H. reflexivity.
Qed.

Lemma crash_at_end prog n cut f : (length prog <= n)%nat -> crash_at n cut prog f = run_ops prog f.
Proof.
  intros H. unfold crash_at. rewrite firstn_all2 by exact H.
  assert (E : nth_error prog n = None) by (apply nth_error_None; exact H).
  rewrite E. destruct cut; reflexivity.
Qed.

Lemma crash_at_0 prog f : crash_at 0 None prog f = f.
Proof. reflexivity. Qed.

(* an untorn crash state after n+1 operations = n operations and the next one complete *)
Lemma crash_at_S_none prog n o f :
  nth_error prog n = Some o -> crash_at (S n) None prog f = step (crash_at n None prog f) o.
Proof.
  intros E. unfold crash_at.
  assert (F : firstn (S n) prog = firstn n prog ++ [o]).
  { revert n E. induction prog as [|x prog IH]; intros [|n] E; try discriminate.
    - cbn in E. inversion E; subst. reflexivity.
    - cbn [nth_error] in E.
      change (firstn (S (S n)) (x :: prog)) with (x :: firstn (S n) prog).
      change (firstn (S n) (x :: prog)) with (x :: firstn n prog).
      rewrite (IH n E). reflexivity. }
  rewrite F, run_ops_app. reflexivity.
Qed.

(* a write torn at or beyond its length is the complete write *)
Lemma tear_full c p d : (length d <= N.to_nat c)%nat -> tear c (Write p d) = [Write p d].
Proof. intros H. cbn [tear]. rewrite firstn_all2 by exact H. reflexivity. Qed.

(* a file that is created and then only appended to holds the concatenation *)
Lemma run_writes p chunks : forall f c,
  f p = Some c -> run_ops (map (Write p) chunks) f p = Some (c ++ concat chunks).
Proof.
  induction chunks as [|d chunks IH]; intros f c H.
  - cbn. rewrite app_nil_r. exact H.
  - cbn [map]. rewrite run_ops_cons. cbn [concat]. rewrite app_assoc.
    apply IH. cbn [step]. rewrite H. apply upd_same.
Qed.

End Fs.

Arguments fs P : clear implicits.
Arguments op P : clear implicits.
