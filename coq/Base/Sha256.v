(* SHA-256 (FIPS 180-4) over byte strings, executable, for evaluating models whose
   outputs contain digests (C30: hashed path components).  Words are N < 2^32.
   Nothing is proved about the function here except the shape of its hex rendering;
   collision freedom is always an explicit hypothesis of the theorems that need it. *)
From Coq Require Import List NArith Bool Lia Arith PeanoNat.
Import ListNotations.
Local Open Scope N_scope.

Definition w32 (x : N) : N := N.land x 4294967295.
Definition add32 (a b : N) : N := w32 (a + b).
Definition rotr (n x : N) : N := N.lor (N.shiftr x n) (w32 (N.shiftl x (32 - n))).
Definition shr (n x : N) : N := N.shiftr x n.
Definition not32 (x : N) : N := N.lxor x 4294967295.

Definition Ch (x y z : N) : N := N.lxor (N.land x y) (N.land (not32 x) z).
Definition Maj (x y z : N) : N := N.lxor (N.lxor (N.land x y) (N.land x z)) (N.land y z).
Definition bsig0 (x : N) : N := N.lxor (N.lxor (rotr 2 x) (rotr 13 x)) (rotr 22 x).
Definition bsig1 (x : N) : N := N.lxor (N.lxor (rotr 6 x) (rotr 11 x)) (rotr 25 x).
Definition ssig0 (x : N) : N := N.lxor (N.lxor (rotr 7 x) (rotr 18 x)) (shr 3 x).
Definition ssig1 (x : N) : N := N.lxor (N.lxor (rotr 17 x) (rotr 19 x)) (shr 10 x).

Definition K256 : list N := [
  1116352408; 1899447441; 3049323471; 3921009573; 961987163; 1508970993; 2453635748; 2870763221;
  3624381080; 310598401; 607225278; 1426881987; 1925078388; 2162078206; 2614888103; 3248222580;
  3835390401; 4022224774; 264347078; 604807628; 770255983; 1249150122; 1555081692; 1996064986;
  2554220882; 2821834349; 2952996808; 3210313671; 3336571891; 3584528711; 113926993; 338241895;
  666307205; 773529912; 1294757372; 1396182291; 1695183700; 1986661051; 2177026350; 2456956037;
  2730485921; 2820302411; 3259730800; 3345764771; 3516065817; 3600352804; 4094571909; 275423344;
  430227734; 506948616; 659060556; 883997877; 958139571; 1322822218; 1537002063; 1747873779;
  1955562222; 2024104815; 2227730452; 2361852424; 2428436474; 2756734187; 3204031479; 3329325298].

Definition H0 : list N := [1779033703; 3144134277; 1013904242; 2773480762; 1359893119; 2600822924; 528734635; 1541459225].

(* padding: 0x80, zeros up to 56 mod 64, 64-bit big-endian bit length *)
Fixpoint be_bytes (n : nat) (x : N) : list N :=
  match n with
  | O => []
  | S k => be_bytes k (N.shiftr x 8) ++ [N.land x 255]
  end.

Definition pad (msg : list N) : list N :=
  let l := N.of_nat (length msg) in
  let k := (119 - (l mod 64)) mod 64 in      (* zeros so that l + 1 + k = 56 (mod 64) *)
  msg ++ [128] ++ repeat 0 (N.to_nat k) ++ be_bytes 8 (8 * l).

Fixpoint words (fuel : nat) (bs : list N) : list N :=
  match fuel, bs with
  | S f, a :: b :: c :: d :: r => (((a * 256 + b) * 256 + c) * 256 + d) :: words f r
  | _, _ => []
  end.

(* message schedule: w holds W[t-1] ... W[t-16] (most recent first) *)
Fixpoint schedule (n : nat) (recent : list N) (acc : list N) : list N :=
  match n with
  | O => rev acc
  | S k =>
      let w2 := nth 1 recent 0 in let w7 := nth 6 recent 0 in
      let w15 := nth 14 recent 0 in let w16 := nth 15 recent 0 in
      let w := add32 (add32 (ssig1 w2) w7) (add32 (ssig0 w15) w16) in
      schedule k (w :: firstn 15 recent) (w :: acc)
  end.

Definition expand (block : list N) : list N :=   (* 16 words -> 64 words *)
  block ++ schedule 48 (rev block) [].

Definition round (st : list N) (kw : N * N) : list N :=
  match st with
  | [a; b; c; d; e; f; g; h] =>
      let t1 := add32 (add32 (add32 h (bsig1 e)) (add32 (Ch e f g) (fst kw))) (snd kw) in
      let t2 := add32 (bsig0 a) (Maj a b c) in
      [add32 t1 t2; a; b; c; add32 d t1; e; f; g]
  | _ => st
  end.

Definition compress (h : list N) (block : list N) : list N :=
  let st := fold_left round (combine K256 (expand block)) h in
  map (fun p => add32 (fst p) (snd p)) (combine h st).

Fixpoint blocks (fuel : nat) (ws : list N) (h : list N) : list N :=
  match fuel with
  | O => h
  | S f => match ws with
           | [] => h
           | _ => blocks f (skipn 16 ws) (compress h (firstn 16 ws))
           end
  end.

Definition sha256 (msg : list N) : list N :=
  let p := pad msg in
  let ws := words (length p) p in
  let h := blocks (length ws) ws H0 in
  flat_map (be_bytes 4) h.

(* utils::str::append_hex: two lower-case hex digits per octet *)
Definition hexdigit (x : N) : N := if x <? 10 then 48 + x else 87 + x.
Definition hex (bs : list N) : list N := flat_map (fun b => [hexdigit (N.shiftr b 4); hexdigit (N.land b 15)]) bs.

Definition sha256_hex (msg : list N) : list N := hex (sha256 msg).

(* ------------------------------------------------------------------ *)
(* shape of the output: 32 octets, hence 64 lower-case hex digits *)

Lemma round_length : forall st kw, length (round st kw) = length st.
Proof.
  intros st kw. unfold round.
  destruct st as [|a [|b [|c [|d [|e [|f [|g [|h [|i r]]]]]]]]]; reflexivity.
Qed.

Lemma fold_round_length : forall l st, length (fold_left round l st) = length st.
Proof. induction l as [|x l IH]; intros st; [reflexivity|]. cbn [fold_left]. rewrite IH. apply round_length. Qed.

Lemma compress_length : forall h b, length (compress h b) = length h.
Proof.
  intros h b. unfold compress. rewrite map_length, combine_length, fold_round_length. apply Nat.min_id.
Qed.

Lemma blocks_length : forall fuel ws h, length (blocks fuel ws h) = length h.
Proof.
  induction fuel as [|f IH]; intros ws h; [reflexivity|]. cbn [blocks].
  destruct ws; [reflexivity|]. rewrite IH. apply compress_length.
Qed.

Lemma be_bytes_length : forall n x, length (be_bytes n x) = n.
Proof. induction n as [|n IH]; intros x; [reflexivity|]. cbn [be_bytes]. rewrite app_length, IH. cbn [length]. lia. Qed.

Lemma be_bytes_small : forall n x, Forall (fun b => b < 256) (be_bytes n x).
Proof.
  induction n as [|n IH]; intros x; [constructor|]. cbn [be_bytes]. apply Forall_app. split; [apply IH|].
  constructor; [|constructor]. change 255 with (N.ones 8). rewrite N.land_ones. apply N.mod_lt. discriminate.
Qed.

Lemma sha256_nonempty : forall msg, sha256 msg <> [].
Proof.
  intros msg. unfold sha256.
  set (h := blocks _ _ H0). assert (Hl : length h = 8%nat) by (unfold h; rewrite blocks_length; reflexivity).
  destruct h as [|w h']; [discriminate|]. cbn [flat_map].
  pose proof (be_bytes_length 4 w). destruct (be_bytes 4 w); [discriminate | discriminate].
Qed.

Lemma sha256_small : forall msg, Forall (fun b => b < 256) (sha256 msg).
Proof.
  intros msg. unfold sha256. set (h := blocks _ _ H0). clearbody h.
  induction h as [|w h IH]; [constructor|]. cbn [flat_map]. apply Forall_app. split; [apply be_bytes_small | exact IH].
Qed.
