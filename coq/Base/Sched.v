(* Interleaving semantics for shared-memory programs, and the invariant rule.

   A system is a shared state [G] and any number of threads, each with a
   thread-local state [L] (program counter, registers).  [step i g l] is the
   one atomic step thread [i] takes from shared state [g] and local state [l];
   a finished or blocked thread stutters (returns its arguments unchanged).
   A schedule is a list of thread numbers; [run] executes it.  Nothing bounds
   the number of threads or the length of the schedule.

   [run_invariant]: a predicate on configurations that holds initially and is
   preserved by every atomic step of every thread holds after every schedule
   (induction on the schedule).

   The second half specialises this to straight-line threads given as lists
   of atomic steps [G -> option G] ([None] = blocked). *)
From Coq Require Import List Arith Lia.
Import ListNotations.

Section Sched.
Variables G L : Type.
Variable step : nat -> G -> L -> G * L.

Record config := { shared : G; locals : list L }.

Fixpoint upd (i : nat) (x : L) (l : list L) : list L :=
  match l, i with
  | [], _ => []
  | _ :: t, O => x :: t
  | h :: t, S i' => h :: upd i' x t
  end.

Definition step_thread (i : nat) (c : config) : config :=
  match nth_error (locals c) i with
  | None => c
  | Some l => let (g', l') := step i (shared c) l in {| shared := g'; locals := upd i l' (locals c) |}
  end.

Definition run (sched : list nat) (c : config) : config :=
  fold_left (fun c i => step_thread i c) sched c.

Lemma upd_length : forall i x l, length (upd i x l) = length l.
Proof. intros i x l. revert i. induction l as [| h t IH]; intros [| i]; cbn; auto. Qed.

Lemma nth_error_upd_eq : forall i x l, i < length l -> nth_error (upd i x l) i = Some x.
Proof.
  intros i x l. revert i. induction l as [| h t IH]; intros [| i] H; cbn in *; try lia; auto.
  apply IH. lia.
Qed.

Lemma nth_error_upd_neq : forall i j x l, i <> j -> nth_error (upd i x l) j = nth_error l j.
Proof.
  intros i j x l. revert i j. induction l as [| h t IH]; intros [| i] [| j] H; cbn; auto; try congruence.
Qed.

Lemma nth_error_upd : forall i j x l y, nth_error (upd i x l) j = Some y ->
  (i = j /\ y = x /\ j < length l) \/ (i <> j /\ nth_error l j = Some y).
Proof.
  intros i j x l y H. destruct (Nat.eq_dec i j) as [-> | Hn].
  - left. assert (Hj : j < length l).
    { rewrite <- (upd_length j x l). apply nth_error_Some. congruence. }
    rewrite nth_error_upd_eq in H by exact Hj. inversion H. auto.
  - right. rewrite nth_error_upd_neq in H by exact Hn. auto.
Qed.

Lemma upd_same : forall i l x, nth_error l i = Some x -> upd i x l = l.
Proof.
  intros i l. revert i. induction l as [| h t IH]; intros [| i] x H; cbn in *; try discriminate; auto.
  - inversion H. reflexivity.
  - f_equal. apply IH. exact H.
Qed.

Lemma run_nil : forall c, run [] c = c.
Proof. reflexivity. Qed.

Lemma run_cons : forall i sched c, run (i :: sched) c = run sched (step_thread i c).
Proof. reflexivity. Qed.

Lemma run_app : forall s1 s2 c, run (s1 ++ s2) c = run s2 (run s1 c).
Proof. intros. unfold run. apply fold_left_app. Qed.

Lemma step_thread_length : forall i c, length (locals (step_thread i c)) = length (locals c).
Proof.
  intros i c. unfold step_thread. destruct (nth_error (locals c) i); auto.
  destruct (step i (shared c) l). cbn. apply upd_length.
Qed.

Lemma run_length : forall sched c, length (locals (run sched c)) = length (locals c).
Proof.
  induction sched as [| i sched IH]; intros c; auto.
  rewrite run_cons, IH. apply step_thread_length.
Qed.

(* The invariant rule. *)
Theorem run_invariant : forall (Inv : config -> Prop),
  (forall i c, Inv c -> Inv (step_thread i c)) ->
  forall sched c, Inv c -> Inv (run sched c).
Proof.
  intros Inv Hstep. induction sched as [| i sched IH]; intros c Hc; auto.
  rewrite run_cons. apply IH. apply Hstep. exact Hc.
Qed.

(* The same with the obligation unfolded: only real steps of existing threads matter. *)
Theorem run_invariant_steps : forall (Inv : G -> list L -> Prop),
  (forall i g ls l g' l', Inv g ls -> nth_error ls i = Some l -> step i g l = (g', l') ->
     Inv g' (upd i l' ls)) ->
  forall sched c, Inv (shared c) (locals c) -> Inv (shared (run sched c)) (locals (run sched c)).
Proof.
  intros Inv Hstep sched c.
  apply (run_invariant (fun c => Inv (shared c) (locals c))).
  intros i c0 H0. unfold step_thread.
  destruct (nth_error (locals c0) i) as [l |] eqn:E; auto.
  destruct (step i (shared c0) l) as [g' l'] eqn:Es. cbn.
  eapply Hstep; eauto.
Qed.

Definition reachable (c0 c : config) : Prop := exists sched, run sched c0 = c.

Lemma reachable_invariant : forall (Inv : config -> Prop) c0,
  Inv c0 -> (forall i c, Inv c -> Inv (step_thread i c)) -> forall c, reachable c0 c -> Inv c.
Proof. intros Inv c0 H0 Hs c [sched <-]. apply run_invariant; auto. Qed.

End Sched.

Arguments shared {G L} _.
Arguments locals {G L} _.
Arguments Build_config {G L} _ _.
Arguments upd {L} _ _ _.

(* ---- straight-line threads: lists of atomic steps ----------------------- *)
Section Atomic.
Variable G : Type.

Definition astep := G -> option G.          (* None: the step is blocked in this state *)
Definition athread := list astep.

Definition athread_step (_ : nat) (g : G) (t : athread) : G * athread :=
  match t with
  | [] => (g, [])
  | a :: rest => match a g with Some g' => (g', rest) | None => (g, t) end
  end.

Definition arun : list nat -> config G athread -> config G athread := run G athread athread_step.

Definition preserves (I : G -> Prop) (a : astep) : Prop := forall g g', I g -> a g = Some g' -> I g'.

(* If every atomic step of every thread preserves [I], then [I] holds after every schedule. *)
Theorem arun_invariant : forall (I : G -> Prop) (c : config G athread),
  I (shared c) -> Forall (Forall (preserves I)) (locals c) ->
  forall sched, I (shared (arun sched c)).
Proof.
  intros I c H0 Hall sched.
  pose (Inv := fun (g : G) (ls : list athread) => I g /\ Forall (Forall (preserves I)) ls).
  assert (H : Inv (shared (arun sched c)) (locals (arun sched c))).
  { apply (run_invariant_steps G athread athread_step Inv); [| split; assumption].
    intros i g ls t g' t' [Hg Hls] Hnth Hst.
    assert (Ht : Forall (preserves I) t).
    { rewrite Forall_forall in Hls. apply Hls. eapply nth_error_In; eauto. }
    unfold athread_step in Hst. destruct t as [| a rest].
    - inversion Hst; subst. split; auto. rewrite upd_same; auto.
    - assert (Ha : preserves I a) by (inversion Ht; auto).
      assert (Hrest : Forall (preserves I) rest) by (inversion Ht; auto).
      destruct (a g) as [g1 |] eqn:Ea; injection Hst as Hg' Ht'; subst g' t'.
      + split.
        * eapply Ha; eauto.
        * clear - Hls Hrest. revert i. induction ls as [| h tl IH]; intros [| i]; cbn; auto.
          -- inversion Hls; subst. constructor; auto.
          -- inversion Hls; subst. constructor; auto.
      + split; auto. rewrite upd_same; auto. }
  apply H.
Qed.

End Atomic.
