(* C20: the model of rpki's Prefix::covers computes the declarative "covers". *)
From Coq Require Import List NArith Bool Lia.
From RV Require Import C20.Model C20.Spec.
Import ListNotations.
Local Open Scope N_scope.

Lemma bits_high : forall b i, b < 2 ^ 128 -> 128 <= i -> N.testbit b i = false.
Proof.
  intros b i Hb Hi. rewrite <- (N.mod_small b (2 ^ 128)) by exact Hb.
  apply N.mod_pow2_bits_high. exact Hi.
Qed.

(* other.bits & !(u128::MAX >> len)  keeps exactly the first [len] bits *)
Lemma mask_land : forall b la, la <= 128 -> b < 2 ^ 128 ->
  N.land b (not128 (N.shiftr MAX128 la)) = N.shiftl (N.shiftr b (128 - la)) (128 - la).
Proof.
  intros b la Hla Hb. apply N.bits_inj. intro i.
  rewrite N.land_spec. unfold not128, MAX128. rewrite N.lxor_spec, N.shiftr_spec'.
  destruct (N.lt_ge_cases i (128 - la)) as [Hlow | Hhigh].
  - rewrite N.shiftl_spec_low by exact Hlow.
    rewrite (N.ones_spec_low 128 i) by lia. rewrite (N.ones_spec_low 128 (i + la)) by lia.
    cbn [xorb]. apply andb_false_r.
  - rewrite N.shiftl_spec_high' by exact Hhigh. rewrite N.shiftr_spec'.
    replace (i - (128 - la) + (128 - la)) with i by lia.
    destruct (N.lt_ge_cases i 128) as [Hi | Hi].
    + rewrite (N.ones_spec_low 128 i) by lia. rewrite (N.ones_spec_high 128 (i + la)) by lia.
      cbn [xorb]. apply andb_true_r.
    + rewrite (bits_high b i Hb Hi). reflexivity.
Qed.

Lemma hostzero_shift : forall a k, N.land a (N.ones k) = 0 -> N.shiftl (N.shiftr a k) k = a.
Proof.
  intros a k H. rewrite <- N.ldiff_ones_r.
  rewrite <- (N.lor_ldiff_and a (N.ones k)) at 2. rewrite H. symmetry. apply N.lor_0_r.
Qed.

Lemma eq_shift_iff : forall a b k, N.land a (N.ones k) = 0 ->
  (a = N.shiftl (N.shiftr b k) k <-> N.shiftr a k = N.shiftr b k).
Proof.
  intros a b k Ha. split; intro H.
  - rewrite H. rewrite N.shiftr_shiftl_l by lia. rewrite N.sub_diag. apply N.shiftl_0_r.
  - rewrite <- (hostzero_shift a k Ha). rewrite H. reflexivity.
Qed.

Lemma shiftr_eq_bits : forall a b la, la <= 128 -> a < 2 ^ 128 -> b < 2 ^ 128 ->
  (N.shiftr a (128 - la) = N.shiftr b (128 - la) <->
   forall i, i < la -> N.testbit a (127 - i) = N.testbit b (127 - i)).
Proof.
  intros a b la Hla Ha Hb. split.
  - intros H i Hi.
    replace (127 - i) with ((127 - i - (128 - la)) + (128 - la)) by lia.
    rewrite <- !N.shiftr_spec'. rewrite H. reflexivity.
  - intro H. apply N.bits_inj. intro m. rewrite !N.shiftr_spec'.
    destruct (N.lt_ge_cases (m + (128 - la)) 128) as [Hm | Hm].
    + replace (m + (128 - la)) with (127 - (127 - (m + (128 - la)))) by lia. apply H. lia.
    + rewrite (bits_high a _ Ha Hm), (bits_high b _ Hb Hm). reflexivity.
Qed.

Lemma wf_prefix_inv : forall p, wf_prefix p ->
  p_len p <= fam_max (p_v4 p) /\ p_bits p < 2 ^ 128 /\ N.land (p_bits p) (N.ones (128 - p_len p)) = 0.
Proof.
  intros p H. unfold wf_prefix, wf_prefixb in H.
  apply andb_prop in H. destruct H as [H H3]. apply andb_prop in H. destruct H as [H1 H2].
  apply N.leb_le in H1. apply N.ltb_lt in H2. apply N.eqb_eq in H3. auto.
Qed.

Lemma fam_max_le : forall b, fam_max b <= 128.
Proof. intros []; cbn [fam_max]; lia. Qed.

(* the model of the code equals the declarative boolean on well-formed prefixes *)
Lemma covers_is_specb : forall a b, wf_prefix a -> wf_prefix b -> covers a b = covers_specb a b.
Proof.
  intros a b Wa Wb.
  destruct (wf_prefix_inv a Wa) as (La & Ba & Za). destruct (wf_prefix_inv b Wb) as (Lb & Bb & Zb).
  pose proof (fam_max_le (p_v4 a)) as Ma. pose proof (fam_max_le (p_v4 b)) as Mb.
  unfold covers, covers_specb.
  destruct (Bool.eqb (p_v4 a) (p_v4 b)) eqn:Ef; cbn [negb andb]; [| reflexivity].
  apply eqb_prop in Ef.
  destruct (N.ltb_spec (p_len b) (p_len a)) as [Hlt | Hge].
  { destruct (N.leb_spec (p_len a) (p_len b)); [lia | reflexivity]. }
  destruct (N.leb_spec (p_len a) (p_len b)) as [_ | ?]; [| lia]. cbn [andb].
  (* the generic (mask) branch *)
  assert (Hmask : p_len a < 128 ->
    (p_bits a =? N.land (p_bits b) (not128 (N.shiftr MAX128 (p_len a)))) =
    (N.shiftr (p_bits a) (128 - p_len a) =? N.shiftr (p_bits b) (128 - p_len a))).
  { intro Hl. rewrite mask_land by (try lia; assumption).
    apply eq_true_iff_eq. rewrite !N.eqb_eq. apply eq_shift_iff. exact Za. }
  (* the host-prefix branch: both lengths maximal *)
  assert (Hhost : p_len a = p_len b ->
    prefix_eqb a b = (N.shiftr (p_bits a) (128 - p_len a) =? N.shiftr (p_bits b) (128 - p_len a))).
  { intro Hl. unfold prefix_eqb. rewrite Ef, eqb_reflx, Hl, N.eqb_refl. cbn [andb].
    apply eq_true_iff_eq. rewrite !N.eqb_eq. rewrite <- Hl.
    split; intro H; [rewrite H; reflexivity |].
    rewrite <- (hostzero_shift (p_bits a) (128 - p_len a) Za).
    rewrite Hl in *. rewrite <- (hostzero_shift (p_bits b) (128 - p_len b) Zb).
    rewrite H. reflexivity. }
  destruct (p_v4 a) eqn:Ea.
  - cbn [fam_max] in La. rewrite <- Ef in Lb. cbn [fam_max] in Lb.
    destruct (N.eqb_spec (p_len a) 32) as [E1 | E1]; cbn [andb].
    + destruct (N.eqb_spec (p_len b) 32) as [E2 | E2].
      * apply Hhost. lia.
      * apply Hmask. lia.
    + apply Hmask. lia.
  - cbn [fam_max] in La. rewrite <- Ef in Lb. cbn [fam_max] in Lb.
    destruct (N.eqb_spec (p_len a) 128) as [E1 | E1]; cbn [andb].
    + destruct (N.eqb_spec (p_len b) 128) as [E2 | E2].
      * apply Hhost. lia.
      * lia.
    + apply Hmask. lia.
Qed.

Lemma covers_specb_iff : forall a b, wf_prefix a -> wf_prefix b ->
  (covers_specb a b = true <-> Covers a b).
Proof.
  intros a b Wa Wb.
  destruct (wf_prefix_inv a Wa) as (La & Ba & Za). destruct (wf_prefix_inv b Wb) as (Lb & Bb & Zb).
  pose proof (fam_max_le (p_v4 a)) as Ma.
  unfold covers_specb, Covers, pbit. rewrite !andb_true_iff, eqb_true_iff, N.leb_le, N.eqb_eq.
  rewrite (shiftr_eq_bits (p_bits a) (p_bits b) (p_len a)) by (try lia; assumption).
  tauto.
Qed.

Theorem covers_correct : forall a b, wf_prefix a -> wf_prefix b -> (covers a b = true <-> Covers a b).
Proof. intros a b Wa Wb. rewrite covers_is_specb by assumption. apply covers_specb_iff; assumption. Qed.
