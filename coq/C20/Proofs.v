(* C20: RouteValidity::new classifies by three filters; state and reason. *)
From Coq Require Import List NArith Bool Lia Permutation.
From RV Require Import C20.Model C20.Spec.
Import ListNotations.
Local Open Scope N_scope.

Section Lists.
Context {I : Type}.
Implicit Types (r : route) (vs : list (vrp * I)) (it : vrp * I).

(* ---- the loop is three filters --------------------------------------------- *)
Lemma rv_fold : forall r vs acc,
  fold_left (rv_step r) vs acc =
  {| matched := matched acc ++ filter (matb r) vs;
     bad_asn := bad_asn acc ++ filter (badasnb r) vs;
     bad_len := bad_len acc ++ filter (badlenb r) vs |}.
Proof.
  intros r vs. induction vs as [| it vs IH]; intro acc.
  - cbn [fold_left filter]. rewrite !app_nil_r. destruct acc; reflexivity.
  - cbn [fold_left filter]. rewrite IH. clear IH.
    unfold rv_step, matb, badasnb, badlenb, covb, lenokb, asnokb.
    destruct (covers (v_prefix (fst it)) (r_prefix r)); cbn [andb]; [| reflexivity].
    rewrite N.leb_antisym.
    destruct (resolved_max_len (fst it) <? p_len (r_prefix r)); cbn [negb andb];
      [rewrite andb_false_r; cbn [matched bad_asn bad_len]; rewrite <- app_assoc; reflexivity |].
    rewrite andb_true_r.
    destruct (v_asn (fst it) =? r_asn r); cbn [negb matched bad_asn bad_len];
      rewrite <- app_assoc; reflexivity.
Qed.

Lemma rv_new_filters : forall r vs,
  rv_new r vs = {| matched := filter (matb r) vs; bad_asn := filter (badasnb r) vs;
                   bad_len := filter (badlenb r) vs |}.
Proof. intros. unfold rv_new. rewrite rv_fold. reflexivity. Qed.

(* the three classes are exclusive and exhaust "covers" *)
Lemma class_cases : forall r it,
  (covb r it = false /\ matb r it = false /\ badasnb r it = false /\ badlenb r it = false)
  \/ (covb r it = true /\ matb r it = true /\ badasnb r it = false /\ badlenb r it = false)
  \/ (covb r it = true /\ matb r it = false /\ badasnb r it = true /\ badlenb r it = false)
  \/ (covb r it = true /\ matb r it = false /\ badasnb r it = false /\ badlenb r it = true).
Proof.
  intros. unfold matb, badasnb, badlenb.
  destruct (covb r it), (asnokb r it), (lenokb r it); cbn; tauto.
Qed.

Lemma partition3 : forall r vs,
  Permutation (filter (matb r) vs ++ filter (badasnb r) vs ++ filter (badlenb r) vs) (filter (covb r) vs).
Proof.
  intros r vs. induction vs as [| it vs IH]; [constructor |].
  cbn [filter].
  destruct (class_cases r it) as [(C & M & A & L) | [(C & M & A & L) | [(C & M & A & L) | (C & M & A & L)]]];
    rewrite C, M, A, L.
  - exact IH.
  - cbn [app]. constructor. exact IH.
  - apply Permutation_sym. apply Permutation_cons_app. apply Permutation_sym. exact IH.
  - apply Permutation_sym. rewrite app_assoc. apply Permutation_cons_app.
    rewrite <- app_assoc. apply Permutation_sym. exact IH.
Qed.

(* ---- state and reason in terms of the input --------------------------------- *)
Lemma is_empty_filter : forall (f : vrp * I -> bool) vs, is_empty (filter f vs) = negb (existsb f vs).
Proof.
  intros f vs. induction vs as [| x vs IH]; [reflexivity |].
  cbn [filter existsb]. destruct (f x); [reflexivity | exact IH].
Qed.

Lemma exists_cov_split : forall r vs,
  existsb (covb r) vs = existsb (matb r) vs || existsb (badasnb r) vs || existsb (badlenb r) vs.
Proof.
  intros r vs. induction vs as [| it vs IH]; [reflexivity |].
  cbn [existsb]. rewrite IH.
  destruct (class_cases r it) as [(C & M & A & L) | [(C & M & A & L) | [(C & M & A & L) | (C & M & A & L)]]];
    rewrite C, M, A, L; cbn [orb]; try reflexivity.
  - rewrite !orb_true_r. reflexivity.
  - rewrite !orb_true_r. reflexivity.
Qed.

Lemma state_new : forall r vs,
  state (rv_new r vs) = if existsb (matb r) vs then Valid
                        else if existsb (covb r) vs then Invalid else NotFound.
Proof.
  intros. rewrite rv_new_filters. unfold state. cbn [matched bad_asn bad_len].
  rewrite !is_empty_filter, exists_cov_split.
  destruct (existsb (matb r) vs), (existsb (badasnb r) vs), (existsb (badlenb r) vs); reflexivity.
Qed.

Lemma reason_new : forall r vs,
  reason (rv_new r vs) = if existsb (matb r) vs then None
                         else if existsb (badasnb r) vs then Some ReasonAs
                         else if existsb (badlenb r) vs then Some ReasonLength else None.
Proof.
  intros. rewrite rv_new_filters. unfold reason. cbn [matched bad_asn bad_len].
  rewrite !is_empty_filter.
  destruct (existsb (matb r) vs), (existsb (badasnb r) vs), (existsb (badlenb r) vs); reflexivity.
Qed.

Lemma description_new : forall r vs,
  description (rv_new r vs) =
    match state (rv_new r vs), reason (rv_new r vs) with
    | Valid, _ => DescValid
    | _, Some ReasonAs => DescBadAsn
    | _, Some ReasonLength => DescBadLen
    | _, None => DescNotFound
    end.
Proof.
  intros. rewrite rv_new_filters. unfold description, state, reason. cbn [matched bad_asn bad_len].
  destruct (filter (matb r) vs), (filter (badasnb r) vs), (filter (badlenb r) vs); reflexivity.
Qed.

(* ---- Prop-level readings ------------------------------------------------------ *)
Lemma matb_iff : forall r it, matb r it = true <-> VMatches r (fst it).
Proof.
  intros. unfold matb, covb, asnokb, lenokb, VMatches, VCovers.
  rewrite !andb_true_iff, N.eqb_eq, N.leb_le. tauto.
Qed.

Lemma covb_iff : forall r it, covb r it = true <-> VCovers r (fst it).
Proof. intros. unfold covb, VCovers. tauto. Qed.

Lemma badlenb_iff : forall r it,
  badlenb r it = true <-> VCovers r (fst it) /\ resolved_max_len (fst it) < p_len (r_prefix r).
Proof.
  intros. unfold badlenb, covb, lenokb, VCovers. rewrite andb_true_iff, negb_true_iff, N.leb_gt. tauto.
Qed.

Lemma badasnb_iff : forall r it,
  badasnb r it = true <-> VCovers r (fst it) /\ p_len (r_prefix r) <= resolved_max_len (fst it)
                          /\ v_asn (fst it) <> r_asn r.
Proof.
  intros. unfold badasnb, covb, lenokb, asnokb, VCovers.
  rewrite !andb_true_iff, negb_true_iff, N.leb_le, N.eqb_neq. tauto.
Qed.

Lemma existsb_In : forall (f : vrp * I -> bool) vs, existsb f vs = true <-> exists it, In it vs /\ f it = true.
Proof. intros. apply existsb_exists. Qed.

Lemma existsb_false : forall (f : vrp * I -> bool) vs, existsb f vs = false <-> forall it, In it vs -> f it = false.
Proof.
  intros f vs. split.
  - intros H it Hin. destruct (f it) eqn:E; [| reflexivity].
    assert (existsb f vs = true) by (apply existsb_exists; eauto). congruence.
  - intro H. destruct (existsb f vs) eqn:E; [| reflexivity].
    apply existsb_exists in E. destruct E as (it & Hin & Hf). rewrite (H it Hin) in Hf. discriminate.
Qed.

Theorem valid_iff : forall r vs,
  state (rv_new r vs) = Valid <-> exists it, In it vs /\ VMatches r (fst it).
Proof.
  intros. rewrite state_new. split.
  - destruct (existsb (matb r) vs) eqn:E.
    + intros _. apply existsb_In in E. destruct E as (it & Hin & Hm). exists it. split; [exact Hin | apply matb_iff; exact Hm].
    + destruct (existsb (covb r) vs); discriminate.
  - intros (it & Hin & Hm). apply matb_iff in Hm.
    assert (E : existsb (matb r) vs = true) by (apply existsb_In; eauto). rewrite E. reflexivity.
Qed.

Theorem invalid_iff : forall r vs,
  state (rv_new r vs) = Invalid <->
  (exists it, In it vs /\ VCovers r (fst it)) /\ ~ (exists it, In it vs /\ VMatches r (fst it)).
Proof.
  intros. rewrite state_new. split.
  - destruct (existsb (matb r) vs) eqn:E; [discriminate |].
    destruct (existsb (covb r) vs) eqn:C; [| discriminate]. intros _. split.
    + apply existsb_In in C. destruct C as (it & Hin & Hc). exists it. auto.
    + intros (it & Hin & Hm). apply matb_iff in Hm. rewrite existsb_false in E. rewrite (E it Hin) in Hm. discriminate.
  - intros [(it & Hin & Hc) Hn].
    destruct (existsb (matb r) vs) eqn:E.
    + exfalso. apply Hn. apply existsb_In in E. destruct E as (x & Hx & Hm). exists x. split; [exact Hx | apply matb_iff; exact Hm].
    + assert (C : existsb (covb r) vs = true) by (apply existsb_In; exists it; auto). rewrite C. reflexivity.
Qed.

Theorem notfound_iff : forall r vs,
  state (rv_new r vs) = NotFound <-> forall it, In it vs -> ~ VCovers r (fst it).
Proof.
  intros. rewrite state_new. split.
  - destruct (existsb (matb r) vs) eqn:E; [discriminate |].
    destruct (existsb (covb r) vs) eqn:C; [discriminate |]. intros _ it Hin Hc.
    rewrite existsb_false in C. unfold VCovers in Hc. specialize (C it Hin). unfold covb in C. congruence.
  - intro H.
    assert (C : existsb (covb r) vs = false).
    { apply existsb_false. intros it Hin. destruct (covb r it) eqn:Ec; [| reflexivity]. exfalso. exact (H it Hin Ec). }
    assert (E : existsb (matb r) vs = false).
    { apply existsb_false. intros it Hin. unfold matb. rewrite existsb_false in C. rewrite (C it Hin). reflexivity. }
    rewrite E, C. reflexivity.
Qed.

(* membership in the three lists *)
Theorem matched_exact : forall r vs it,
  In it (matched (rv_new r vs)) <-> In it vs /\ VMatches r (fst it).
Proof. intros. rewrite rv_new_filters. cbn [matched]. rewrite filter_In, matb_iff. tauto. Qed.

Theorem bad_asn_exact : forall r vs it,
  In it (bad_asn (rv_new r vs)) <->
  In it vs /\ VCovers r (fst it) /\ p_len (r_prefix r) <= resolved_max_len (fst it) /\ v_asn (fst it) <> r_asn r.
Proof. intros. rewrite rv_new_filters. cbn [bad_asn]. rewrite filter_In, badasnb_iff. tauto. Qed.

Theorem bad_len_exact : forall r vs it,
  In it (bad_len (rv_new r vs)) <->
  In it vs /\ VCovers r (fst it) /\ resolved_max_len (fst it) < p_len (r_prefix r).
Proof. intros. rewrite rv_new_filters. cbn [bad_len]. rewrite filter_In, badlenb_iff. tauto. Qed.

Theorem partition_perm : forall r vs,
  Permutation (matched (rv_new r vs) ++ bad_asn (rv_new r vs) ++ bad_len (rv_new r vs)) (filter (covb r) vs).
Proof. intros. rewrite rv_new_filters. cbn [matched bad_asn bad_len]. apply partition3. Qed.

(* no VRP value is in two lists *)
Theorem lists_disjoint : forall r vs it,
  ~ (In it (matched (rv_new r vs)) /\ In it (bad_asn (rv_new r vs))) /\
  ~ (In it (matched (rv_new r vs)) /\ In it (bad_len (rv_new r vs))) /\
  ~ (In it (bad_asn (rv_new r vs)) /\ In it (bad_len (rv_new r vs))).
Proof.
  intros. rewrite matched_exact, bad_asn_exact, bad_len_exact. unfold VMatches.
  repeat split; intro H; lia.
Qed.

(* reason, read on the lists and on the input *)
Theorem reason_lists : forall (v : validity I),
  (reason v = Some ReasonAs <-> matched v = [] /\ bad_asn v <> []) /\
  (reason v = Some ReasonLength <-> matched v = [] /\ bad_asn v = [] /\ bad_len v <> []) /\
  (reason v = None <-> matched v <> [] \/ (bad_asn v = [] /\ bad_len v = [])).
Proof.
  intro v. unfold reason. destruct (matched v), (bad_asn v), (bad_len v); cbn;
    repeat split; intros; try discriminate; try tauto; try congruence;
    repeat match goal with H : _ /\ _ |- _ => destruct H | H : _ \/ _ |- _ => destruct H end;
    try congruence; try discriminate; auto; try (left; discriminate); try (right; split; reflexivity).
Qed.

Theorem reason_as_iff : forall r vs,
  reason (rv_new r vs) = Some ReasonAs <->
  ~ (exists it, In it vs /\ VMatches r (fst it)) /\
  exists it, In it vs /\ VCovers r (fst it) /\ p_len (r_prefix r) <= resolved_max_len (fst it)
             /\ v_asn (fst it) <> r_asn r.
Proof.
  intros. rewrite reason_new. split.
  - destruct (existsb (matb r) vs) eqn:E; [discriminate |].
    destruct (existsb (badasnb r) vs) eqn:A; [| destruct (existsb (badlenb r) vs); discriminate].
    intros _. split.
    + intros (it & Hin & Hm). apply matb_iff in Hm. rewrite existsb_false in E. rewrite (E it Hin) in Hm. discriminate.
    + apply existsb_In in A. destruct A as (it & Hin & Ha). exists it. split; [exact Hin | apply badasnb_iff; exact Ha].
  - intros [Hn (it & Hin & Ha)].
    destruct (existsb (matb r) vs) eqn:E.
    + exfalso. apply Hn. apply existsb_In in E. destruct E as (x & Hx & Hm). exists x. split; [exact Hx | apply matb_iff; exact Hm].
    + assert (A : existsb (badasnb r) vs = true) by (apply existsb_In; exists it; split; [exact Hin | apply badasnb_iff; exact Ha]).
      rewrite A. reflexivity.
Qed.

Theorem reason_length_iff : forall r vs,
  reason (rv_new r vs) = Some ReasonLength <->
  (exists it, In it vs /\ VCovers r (fst it)) /\
  forall it, In it vs -> VCovers r (fst it) -> resolved_max_len (fst it) < p_len (r_prefix r).
Proof.
  intros. rewrite reason_new. split.
  - destruct (existsb (matb r) vs) eqn:E; [discriminate |].
    destruct (existsb (badasnb r) vs) eqn:A; [discriminate |].
    destruct (existsb (badlenb r) vs) eqn:L; [| discriminate]. intros _. split.
    + apply existsb_In in L. destruct L as (it & Hin & Hl). apply badlenb_iff in Hl. exists it. tauto.
    + intros it Hin Hc. rewrite existsb_false in E, A. specialize (E it Hin). specialize (A it Hin).
      unfold matb, badasnb in *. unfold VCovers in Hc. unfold covb in *. rewrite Hc in *. cbn [andb] in *.
      unfold lenokb in *. destruct (N.leb_spec (p_len (r_prefix r)) (resolved_max_len (fst it))); [| assumption].
      destruct (asnokb r it); cbn in *; discriminate.
  - intros [(it & Hin & Hc) Hall].
    assert (E : existsb (matb r) vs = false).
    { apply existsb_false. intros x Hx. destruct (matb r x) eqn:M; [| reflexivity].
      apply matb_iff in M. destruct M as (Hcx & _ & Hlx). specialize (Hall x Hx Hcx). lia. }
    assert (A : existsb (badasnb r) vs = false).
    { apply existsb_false. intros x Hx. destruct (badasnb r x) eqn:M; [| reflexivity].
      apply badasnb_iff in M. destruct M as (Hcx & Hlx & _). specialize (Hall x Hx Hcx). lia. }
    assert (L : existsb (badlenb r) vs = true).
    { apply existsb_In. exists it. split; [exact Hin |]. apply badlenb_iff. auto. }
    rewrite E, A, L. reflexivity.
Qed.

End Lists.

(* ---- positional disjointness: with distinct position tags, no position occurs
   twice in matched ++ unmatched_as ++ unmatched_length ------------------------- *)
Lemma NoDup_map_filter : forall (A B : Type) (g : A -> B) (f : A -> bool) l,
  NoDup (map g l) -> NoDup (map g (filter f l)).
Proof.
  intros A B g f l. induction l as [| x l IH]; intro H; [constructor |].
  cbn [map] in H. inversion H as [| ? ? Hn Hd]; subst. cbn [filter].
  destruct (f x); [| exact (IH Hd)].
  cbn [map]. constructor; [| exact (IH Hd)].
  intro Hin. apply Hn. apply in_map_iff in Hin. destruct Hin as (y & Hy & Hin).
  apply filter_In in Hin. apply in_map_iff. exists y. tauto.
Qed.

Theorem positions_disjoint : forall (r : route) (vs : list item),
  NoDup (map snd vs) ->
  NoDup (map snd (matched (rv_new r vs) ++ bad_asn (rv_new r vs) ++ bad_len (rv_new r vs))).
Proof.
  intros r vs H.
  apply (Permutation_NoDup (l := map snd (filter (covb r) vs))).
  - apply Permutation_map. apply Permutation_sym. apply partition_perm.
  - apply NoDup_map_filter. exact H.
Qed.
