(* C20: the property (RFC 6811 classification) as Prop-level definitions and as
   an executable oracle, plus the case checkers used by the two correspondence
   streams ("validity": RouteValidity::new, readers, HTTP endpoints; "prefix":
   rpki's Prefix::covers and the Prefix constructors).  No proofs here. *)
From Coq Require Import List NArith Bool.
From RV Require Export C20.Model.
Import ListNotations.
Local Open Scope N_scope.

(* ---- well-formedness (what rpki's constructors guarantee) --------------- *)
(* Prefix::new / new_relaxed: len <= 32 / 128, host bits zero; Bits is a u128 *)
Definition wf_prefixb (p : prefix) : bool :=
  (p_len p <=? fam_max (p_v4 p)) && (p_bits p <? 2 ^ 128)
  && (N.land (p_bits p) (N.ones (128 - p_len p)) =? 0).

(* MaxLenPrefix::new: prefix.len() <= max_len <= 32 / 128 *)
Definition wf_vrpb (v : vrp) : bool :=
  wf_prefixb (v_prefix v)
  && match v_maxlen v with
     | None => true
     | Some m => (p_len (v_prefix v) <=? m) && (m <=? fam_max (p_v4 (v_prefix v)))
     end.

Definition wf_prefix (p : prefix) : Prop := wf_prefixb p = true.

(* ---- the RFC 6811 notions, declaratively --------------------------------- *)
(* bit [i] of a prefix counted from the most significant end, i = 0 .. 127 *)
Definition pbit (p : prefix) (i : N) : bool := N.testbit (p_bits p) (127 - i).

(* "its prefix length is less or equal and the bits of its network prefix
   match the respective bits of the announcement's prefix" *)
Definition Covers (a b : prefix) : Prop :=
  p_v4 a = p_v4 b /\ p_len a <= p_len b /\ forall i, i < p_len a -> pbit a i = pbit b i.

Definition VCovers (r : route) (v : vrp) : Prop := covers (v_prefix v) (r_prefix r) = true.
Definition VMatches (r : route) (v : vrp) : Prop :=
  VCovers r v /\ v_asn v = r_asn r /\ p_len (r_prefix r) <= resolved_max_len v.

(* executable, written independently of the mask arithmetic of the code *)
Definition covers_specb (a b : prefix) : bool :=
  Bool.eqb (p_v4 a) (p_v4 b) && (p_len a <=? p_len b)
  && (N.shiftr (p_bits a) (128 - p_len a) =? N.shiftr (p_bits b) (128 - p_len a)).

Section Preds.
Context {I : Type}.
Definition covb (r : route) (it : vrp * I) : bool := covers (v_prefix (fst it)) (r_prefix r).
Definition lenokb (r : route) (it : vrp * I) : bool := p_len (r_prefix r) <=? resolved_max_len (fst it).
Definition asnokb (r : route) (it : vrp * I) : bool := v_asn (fst it) =? r_asn r.
Definition matb (r : route) (it : vrp * I) : bool := covb r it && asnokb r it && lenokb r it.
(* the code's own tie-break for a VRP failing both tests: length first *)
Definition badlenb (r : route) (it : vrp * I) : bool := covb r it && negb (lenokb r it).
Definition badasnb (r : route) (it : vrp * I) : bool := covb r it && lenokb r it && negb (asnokb r it).
End Preds.

(* ---- observations ---------------------------------------------------------- *)
Definition state_code (s : route_state) : N := match s with Valid => 0 | Invalid => 1 | NotFound => 2 end.
Definition reason_code (r : option reason_t) : N :=
  match r with None => 0 | Some ReasonAs => 1 | Some ReasonLength => 2 end.
Definition descr_code (d : descr_t) : N :=
  match d with DescValid => 0 | DescBadAsn => 1 | DescBadLen => 2 | DescNotFound => 3 end.

(* items are tagged with their position in snapshot.origins() *)
Definition item : Type := vrp * N.

Record obs := {
  o_state : N; o_reason : N; o_desc : N;
  o_matched : list item; o_bad_asn : list item; o_bad_len : list item }.

Definition model_obs (r : route) (vs : list item) : obs :=
  let v := rv_new r vs in
  {| o_state := state_code (state v); o_reason := reason_code (reason v);
     o_desc := descr_code (description v);
     o_matched := matched v; o_bad_asn := bad_asn v; o_bad_len := bad_len v |}.

(* equality of items, multiset equality of item lists *)
Definition optN_eqb (a b : option N) : bool :=
  match a, b with Some x, Some y => x =? y | None, None => true | _, _ => false end.
Definition vrp_eqb (a b : vrp) : bool :=
  prefix_eqb (v_prefix a) (v_prefix b) && optN_eqb (v_maxlen a) (v_maxlen b) && (v_asn a =? v_asn b).
Definition item_eqb (a b : item) : bool := vrp_eqb (fst a) (fst b) && (snd a =? snd b).

Fixpoint countb (x : item) (l : list item) : N :=
  match l with [] => 0 | y :: t => (if item_eqb x y then 1 else 0) + countb x t end.
Definition mset_eqb (a b : list item) : bool :=
  forallb (fun x => countb x a =? countb x b) (a ++ b).

Fixpoint list_eqb (a b : list item) : bool :=
  match a, b with
  | [], [] => true
  | x :: a', y :: b' => item_eqb x y && list_eqb a' b'
  | _, _ => false
  end.

(* ---- the property, executable ------------------------------------------------
   state: valid iff some VRP matches, invalid iff some VRP covers and none
   matches, not-found otherwise; matched holds only matching VRPs,
   unmatched_as only covering VRPs with another AS, unmatched_length only
   covering VRPs whose max length is below the route's length; together the
   three lists are exactly the covering VRPs (as multisets of positions);
   the reason follows the lists.  A covering VRP failing both tests may be in
   either unmatched list (DESIGN.md section 8). *)
Definition spec_okb (r : route) (vs : list item) (o : obs) : bool :=
  (o_state o =? (if existsb (matb r) vs then 0 else if existsb (covb r) vs then 1 else 2))
  && forallb (matb r) (o_matched o)
  && forallb (fun it => covb r it && negb (asnokb r it)) (o_bad_asn o)
  && forallb (fun it => covb r it && negb (lenokb r it)) (o_bad_len o)
  && mset_eqb (o_matched o ++ o_bad_asn o ++ o_bad_len o) (filter (covb r) vs)
  && (o_reason o =? (if negb (is_empty (o_matched o)) then 0
                     else if negb (is_empty (o_bad_asn o)) then 1
                     else if negb (is_empty (o_bad_len o)) then 2 else 0))
  && (o_desc o =? (if o_state o =? 0 then 0 else if o_reason o =? 1 then 1
                   else if o_reason o =? 2 then 2 else 3)).

Definition obs_eqb (a b : obs) : bool :=
  (o_state a =? o_state b) && (o_reason a =? o_reason b) && (o_desc a =? o_desc b)
  && list_eqb (o_matched a) (o_matched b) && list_eqb (o_bad_asn a) (o_bad_asn b)
  && list_eqb (o_bad_len a) (o_bad_len b).

(* ---- stream "validity" --------------------------------------------------------
   c_vrps is snapshot.origins() in iteration order, tagged 0, 1, 2, ...
   Codes: 0 model = implementation and the oracle holds of the implementation's
   output; 1 oracle holds but the model differs; 2 the oracle fails on the
   implementation's output; 9 ill-formed input. *)
Fixpoint tags_from (n : N) (vs : list item) : bool :=
  match vs with [] => true | (_, i) :: t => (i =? n) && tags_from (n + 1) t end.

Definition wf_inputb (r : route) (vs : list item) : bool :=
  wf_prefixb (r_prefix r) && forallb (fun it => wf_vrpb (fst it)) vs && tags_from 0 vs.

Record case := { c_route : route; c_vrps : list item; c_impl : obs }.

Definition check_case (c : case) : N :=
  if negb (wf_inputb (c_route c) (c_vrps c)) then 9
  else if negb (spec_okb (c_route c) (c_vrps c) (c_impl c)) then 2
  else if obs_eqb (model_obs (c_route c) (c_vrps c)) (c_impl c) then 0 else 1.

(* ---- stream "covers": rpki's Prefix::covers against the declarative notion
   and against the model of its code ------------------------------------------- *)
Record ccase := { cc_a : prefix; cc_b : prefix; cc_impl : bool }.

Definition check_covers (c : ccase) : N :=
  if negb (wf_prefixb (cc_a c) && wf_prefixb (cc_b c)) then 9
  else if negb (Bool.eqb (cc_impl c) (covers_specb (cc_a c) (cc_b c))) then 2
  else if Bool.eqb (covers (cc_a c) (cc_b c)) (cc_impl c) then 0 else 1.

(* ---- stream "parse": Prefix::from_str / from_str_relaxed on a.b.c.d/len texts -----
   A text is accepted iff the length fits the family (strict: and the host bits
   are zero); what is accepted is well-formed, keeps family and length and the
   first [len] bits of the address.  This is where [wf_prefix] comes from. *)
Definition addr_width (v4 : bool) : N := if v4 then 32 else 128.

Definition parse_okb (v4 : bool) (addr len : N) (strict : bool) (res : option prefix) : bool :=
  let bits := bits_of_addr v4 addr in
  let hz := N.land bits (N.ones (128 - len)) =? 0 in
  match res with
  | None => (fam_max v4 <? len) || (strict && negb hz)
  | Some p => (len <=? fam_max v4) && (if strict then hz else true) && wf_prefixb p
              && Bool.eqb (p_v4 p) v4 && (p_len p =? len)
              && (N.shiftr (p_bits p) (128 - len) =? N.shiftr bits (128 - len))
  end.

Definition optp_eqb (a b : option prefix) : bool :=
  match a, b with Some x, Some y => prefix_eqb x y | None, None => true | _, _ => false end.

Record pcase := { pc_v4 : bool; pc_addr : N; pc_len : N; pc_strict : option prefix; pc_relaxed : option prefix }.

Definition check_parse (c : pcase) : N :=
  if negb (pc_addr c <? 2 ^ addr_width (pc_v4 c)) then 9
  else if negb (parse_okb (pc_v4 c) (pc_addr c) (pc_len c) true (pc_strict c)
                && parse_okb (pc_v4 c) (pc_addr c) (pc_len c) false (pc_relaxed c)) then 2
  else if optp_eqb (prefix_new (pc_v4 c) (pc_addr c) (pc_len c)) (pc_strict c)
          && optp_eqb (prefix_new_relaxed (pc_v4 c) (pc_addr c) (pc_len c)) (pc_relaxed c) then 0 else 1.

(* the two kinds of cases about rpki's Prefix share one stream ("prefix") *)
Inductive pxcase := CCov (c : ccase) | CPar (c : pcase).
Definition check_prefix (x : pxcase) : N :=
  match x with CCov c => check_covers c | CPar c => check_parse c end.

(* short constructors for the generated case files *)
Definition S4 (a : N) : N := N.shiftl a 96.    (* an IPv4 address as left-aligned bits *)
Definition P (v4 : bool) (bits len : N) : prefix := {| p_v4 := v4; p_bits := bits; p_len := len |}.
Definition V (v4 : bool) (bits len : N) (ml : option N) (asn : N) (tag : N) : item :=
  ({| v_prefix := P v4 bits len; v_maxlen := ml; v_asn := asn |}, tag).
Definition R (v4 : bool) (bits len : N) (asn : N) : route := {| r_prefix := P v4 bits len; r_asn := asn |}.
