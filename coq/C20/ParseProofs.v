(* C20: the constructors behind Prefix::from_str / from_str_relaxed yield
   well-formed prefixes (the precondition of C20_covers_correct). *)
From Coq Require Import List NArith Bool Lia.
From RV Require Import C20.Model C20.Spec C20.CoversProofs.
Import ListNotations.
Local Open Scope N_scope.

Lemma bits_of_addr_lt : forall v4 addr, addr < 2 ^ addr_width v4 -> bits_of_addr v4 addr < 2 ^ 128.
Proof.
  intros [] addr H; cbn [bits_of_addr addr_width] in *; [| exact H].
  rewrite N.shiftl_mul_pow2. replace (2 ^ 128) with (2 ^ 32 * 2 ^ 96) by reflexivity.
  apply N.mul_lt_mono_pos_r; [| exact H]. apply N.neq_0_lt_0. apply N.pow_nonzero. discriminate.
Qed.

Lemma shift_round_le : forall b k, N.shiftl (N.shiftr b k) k <= b.
Proof.
  intros. rewrite N.shiftl_mul_pow2, N.shiftr_div_pow2. rewrite N.mul_comm.
  apply N.mul_div_le. apply N.pow_nonzero. discriminate.
Qed.

Lemma clear_host_shift : forall b len, b < 2 ^ 128 -> len <= 128 ->
  clear_host b len = N.shiftl (N.shiftr b (128 - len)) (128 - len).
Proof.
  intros b len Hb Hl. unfold clear_host. destruct (N.eqb_spec len 0) as [E | E].
  - subst. replace (128 - 0) with 128 by reflexivity.
    rewrite N.shiftr_div_pow2, N.div_small by exact Hb. symmetry. apply N.shiftl_0_l.
  - apply N.bits_inj. intro i. rewrite !N.land_spec. unfold MAX128.
    destruct (N.lt_ge_cases i (128 - len)) as [Hlow | Hhigh].
    + rewrite !N.shiftl_spec_low by exact Hlow. cbn [andb]. apply andb_false_r.
    + rewrite !N.shiftl_spec_high' by exact Hhigh. rewrite N.shiftr_spec'.
      replace (i - (128 - len) + (128 - len)) with i by lia.
      destruct (N.lt_ge_cases i 128) as [Hi | Hi].
      * rewrite (N.ones_spec_low 128 i) by lia. rewrite (N.ones_spec_low 128 (i - (128 - len))) by lia.
        cbn [andb]. apply andb_true_r.
      * rewrite (bits_high b i Hb Hi). reflexivity.
Qed.

Theorem parse_model_ok : forall v4 addr len, addr < 2 ^ addr_width v4 ->
  parse_okb v4 addr len true (prefix_new v4 addr len) = true /\
  parse_okb v4 addr len false (prefix_new_relaxed v4 addr len) = true.
Proof.
  intros v4 addr len Ha. pose proof (bits_of_addr_lt v4 addr Ha) as Hb.
  pose proof (fam_max_le v4) as Hm.
  unfold parse_okb, prefix_new, prefix_new_relaxed.
  destruct (N.ltb_spec (fam_max v4) len) as [Hlen | Hlen]; [split; reflexivity |].
  assert (Hle : (len <=? fam_max v4) = true) by (apply N.leb_le; exact Hlen).
  split.
  - unfold is_host_zero. rewrite N.land_ones.
    destruct (N.eqb_spec (bits_of_addr v4 addr mod 2 ^ (128 - len)) 0) as [Hz | Hz]; cbn [negb andb orb]; [| reflexivity].
    rewrite Hle. unfold wf_prefixb. cbn [p_v4 p_bits p_len]. rewrite Hle, N.land_ones, Hz.
    assert (Hlt : (bits_of_addr v4 addr <? 2 ^ 128) = true) by (apply N.ltb_lt; exact Hb).
    rewrite Hlt, eqb_reflx, !N.eqb_refl. reflexivity.
  - rewrite Hle. unfold wf_prefixb. cbn [p_v4 p_bits p_len andb]. rewrite Hle, eqb_reflx, N.eqb_refl.
    rewrite clear_host_shift by (try lia; exact Hb).
    set (k := 128 - len). set (b := bits_of_addr v4 addr) in *.
    assert (H1 : (N.shiftl (N.shiftr b k) k <? 2 ^ 128) = true).
    { apply N.ltb_lt. pose proof (shift_round_le b k). lia. }
    assert (H2 : (N.land (N.shiftl (N.shiftr b k) k) (N.ones k) =? 0) = true).
    { apply N.eqb_eq. rewrite <- N.ldiff_ones_r. apply N.land_ldiff. }
    assert (H3 : (N.shiftr (N.shiftl (N.shiftr b k) k) k =? N.shiftr b k) = true).
    { apply N.eqb_eq. rewrite N.shiftr_shiftl_l by lia. rewrite N.sub_diag. apply N.shiftl_0_r. }
    rewrite H1, H2, H3. reflexivity.
Qed.

Theorem prefix_new_wf : forall v4 addr len p, addr < 2 ^ addr_width v4 ->
  prefix_new v4 addr len = Some p \/ prefix_new_relaxed v4 addr len = Some p -> wf_prefix p.
Proof.
  intros v4 addr len p Ha H. destruct (parse_model_ok v4 addr len Ha) as [S R].
  destruct H as [H | H]; [rewrite H in S | rewrite H in R]; unfold parse_okb in *; unfold wf_prefix.
  - repeat (apply andb_prop in S; destruct S as [S ?]). assumption.
  - repeat (apply andb_prop in R; destruct R as [R ?]). assumption.
Qed.
