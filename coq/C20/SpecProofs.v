(* C20: the executable oracle is satisfied by the model on every input, and an
   observation accepted by the oracle has the declarative property. *)
From Coq Require Import List NArith Bool Lia Permutation.
From RV Require Import C20.Model C20.Spec C20.Proofs C20.CoversProofs.
Import ListNotations.
Local Open Scope N_scope.

(* ---- boolean equalities decide equality -------------------------------------- *)
Lemma prefix_eqb_eq : forall a b, prefix_eqb a b = true <-> a = b.
Proof.
  intros [av ab al] [bv bb bl]. unfold prefix_eqb. cbn [p_v4 p_bits p_len].
  rewrite !andb_true_iff, eqb_true_iff, !N.eqb_eq. split.
  - intros [[-> ->] ->]. reflexivity.
  - intro H. inversion H. auto.
Qed.

Lemma optN_eqb_eq : forall a b, optN_eqb a b = true <-> a = b.
Proof.
  intros [x |] [y |]; cbn [optN_eqb]; try (split; [discriminate | congruence]).
  - rewrite N.eqb_eq. split; congruence.
  - tauto.
Qed.

Lemma vrp_eqb_eq : forall a b, vrp_eqb a b = true <-> a = b.
Proof.
  intros [ap am aa] [bp bm ba]. unfold vrp_eqb. cbn [v_prefix v_maxlen v_asn].
  rewrite !andb_true_iff, prefix_eqb_eq, optN_eqb_eq, N.eqb_eq. split.
  - intros [[-> ->] ->]. reflexivity.
  - intro H. inversion H. auto.
Qed.

Lemma item_eqb_eq : forall a b : item, item_eqb a b = true <-> a = b.
Proof.
  intros [av ai] [bv bi]. unfold item_eqb. cbn [fst snd].
  rewrite andb_true_iff, vrp_eqb_eq, N.eqb_eq. split.
  - intros [-> ->]. reflexivity.
  - intro H. inversion H. auto.
Qed.

Lemma item_eq_dec : forall a b : item, {a = b} + {a <> b}.
Proof.
  intros a b. destruct (item_eqb a b) eqn:E.
  - left. apply item_eqb_eq. exact E.
  - right. intro H. apply item_eqb_eq in H. congruence.
Qed.

Lemma countb_count_occ : forall x l, countb x l = N.of_nat (count_occ item_eq_dec l x).
Proof.
  intros x l. induction l as [| y l IH]; [reflexivity |].
  cbn [countb count_occ]. rewrite IH.
  destruct (item_eq_dec y x) as [E | E].
  - subst. assert (H : item_eqb x x = true) by (apply item_eqb_eq; reflexivity). rewrite H. lia.
  - destruct (item_eqb x y) eqn:H; [apply item_eqb_eq in H; congruence | lia].
Qed.

Lemma mset_eqb_perm : forall a b, mset_eqb a b = true <-> Permutation a b.
Proof.
  intros a b. rewrite (Permutation_count_occ item_eq_dec). unfold mset_eqb. rewrite forallb_forall. split.
  - intros H x. destruct (in_dec item_eq_dec x (a ++ b)) as [Hin | Hnin].
    + specialize (H x Hin). apply N.eqb_eq in H. rewrite !countb_count_occ in H. lia.
    + assert (~ In x a /\ ~ In x b) as [Ha Hb] by (rewrite in_app_iff in Hnin; tauto).
      rewrite (proj1 (count_occ_not_In item_eq_dec a x) Ha), (proj1 (count_occ_not_In item_eq_dec b x) Hb).
      reflexivity.
  - intros H x _. apply N.eqb_eq. rewrite !countb_count_occ, H. reflexivity.
Qed.

Lemma list_eqb_refl : forall l, list_eqb l l = true.
Proof.
  induction l as [| x l IH]; [reflexivity |]. cbn [list_eqb]. rewrite IH.
  assert (H : item_eqb x x = true) by (apply item_eqb_eq; reflexivity). rewrite H. reflexivity.
Qed.

Lemma list_eqb_eq : forall a b, list_eqb a b = true <-> a = b.
Proof.
  induction a as [| x a IH]; intros [| y b]; cbn [list_eqb]; try (split; [discriminate | congruence]); [tauto |].
  rewrite andb_true_iff, item_eqb_eq, IH. split; [intros [-> ->]; reflexivity | intro H; inversion H; auto].
Qed.

(* ---- the model satisfies the oracle ------------------------------------------- *)
Lemma forallb_filter_imp : forall (f g : item -> bool) l,
  (forall x, f x = true -> g x = true) -> forallb g (filter f l) = true.
Proof.
  intros f g l H. apply forallb_forall. intros x Hin. apply filter_In in Hin. apply H. tauto.
Qed.

Theorem model_satisfies_spec : forall r vs, spec_okb r vs (model_obs r vs) = true.
Proof.
  intros r vs. unfold spec_okb, model_obs.
  cbn [o_state o_reason o_desc o_matched o_bad_asn o_bad_len].
  repeat (apply andb_true_intro; split).
  - rewrite state_new. apply N.eqb_eq.
    destruct (existsb (matb r) vs); [reflexivity |]. destruct (existsb (covb r) vs); reflexivity.
  - rewrite rv_new_filters. cbn [matched]. apply forallb_filter_imp. auto.
  - rewrite rv_new_filters. cbn [bad_asn]. apply forallb_filter_imp.
    intro x. unfold badasnb. destruct (covb r x), (lenokb r x), (asnokb r x); cbn; congruence.
  - rewrite rv_new_filters. cbn [bad_len]. apply forallb_filter_imp. intro x. unfold badlenb. auto.
  - apply mset_eqb_perm. apply partition_perm.
  - apply N.eqb_eq. unfold reason.
    destruct (matched (rv_new r vs)), (bad_asn (rv_new r vs)), (bad_len (rv_new r vs)); reflexivity.
  - apply N.eqb_eq. unfold description, state, reason.
    destruct (matched (rv_new r vs)), (bad_asn (rv_new r vs)), (bad_len (rv_new r vs)); reflexivity.
Qed.

Theorem model_check_case : forall r vs, wf_inputb r vs = true ->
  check_case {| c_route := r; c_vrps := vs; c_impl := model_obs r vs |} = 0.
Proof.
  intros r vs W. unfold check_case. cbn [c_route c_vrps c_impl]. rewrite W, model_satisfies_spec.
  cbn [negb]. unfold obs_eqb. rewrite !N.eqb_refl, !list_eqb_refl. reflexivity.
Qed.

(* ---- what an accepted observation means ------------------------------------------ *)
Definition SpecProp (r : route) (vs : list item) (o : obs) : Prop :=
  (o_state o = 0 <-> exists it, In it vs /\ VMatches r (fst it)) /\
  (o_state o = 1 <-> (exists it, In it vs /\ VCovers r (fst it)) /\
                     ~ exists it, In it vs /\ VMatches r (fst it)) /\
  (o_state o = 2 <-> forall it, In it vs -> ~ VCovers r (fst it)) /\
  (forall it, In it (o_matched o) -> VMatches r (fst it)) /\
  (forall it, In it (o_bad_asn o) -> VCovers r (fst it) /\ v_asn (fst it) <> r_asn r) /\
  (forall it, In it (o_bad_len o) -> VCovers r (fst it) /\ resolved_max_len (fst it) < p_len (r_prefix r)) /\
  Permutation (o_matched o ++ o_bad_asn o ++ o_bad_len o) (filter (covb r) vs) /\
  (o_reason o = 1 <-> o_matched o = [] /\ o_bad_asn o <> []) /\
  (o_reason o = 2 <-> o_matched o = [] /\ o_bad_asn o = [] /\ o_bad_len o <> []).

Lemma state_code_cases : forall (m c : bool) (s : N),
  s = (if m then 0 else if c then 1 else 2) ->
  (s = 0 <-> m = true) /\ (s = 1 <-> c = true /\ m = false) /\ (s = 2 <-> c = false /\ m = false).
Proof. intros [] [] s ->; repeat split; intros; try lia; try tauto; try (destruct H; discriminate). Qed.

Lemma existsb_mat_cov : forall r (vs : list item), existsb (matb r) vs = true -> existsb (covb r) vs = true.
Proof.
  intros r vs H. apply existsb_exists in H. destruct H as (x & Hin & Hm). apply existsb_exists. exists x.
  split; [exact Hin |]. unfold matb in Hm. destruct (covb r x); [reflexivity | discriminate].
Qed.

Theorem spec_sound : forall r vs o, spec_okb r vs o = true -> SpecProp r vs o.
Proof.
  intros r vs o H. unfold spec_okb in H.
  apply andb_prop in H. destruct H as [H Sdesc].
  apply andb_prop in H. destruct H as [H Sreason].
  apply andb_prop in H. destruct H as [H Smset].
  apply andb_prop in H. destruct H as [H Slen].
  apply andb_prop in H. destruct H as [H Sasn].
  apply andb_prop in H. destruct H as [Sstate Smat].
  apply N.eqb_eq in Sstate. apply N.eqb_eq in Sreason.
  rewrite forallb_forall in Smat, Sasn, Slen.
  pose proof (state_code_cases _ _ _ Sstate) as (St0 & St1 & St2).
  unfold SpecProp.
  split; [| split; [| split; [| split; [| split; [| split; [| split; [| split]]]]]]].
  - rewrite St0. split.
    + intro E. apply existsb_exists in E. destruct E as (x & Hin & Hm). exists x.
      split; [exact Hin | apply matb_iff; exact Hm].
    + intros (x & Hin & Hm). apply existsb_exists. exists x. split; [exact Hin | apply matb_iff; exact Hm].
  - rewrite St1. split.
    + intros [C M]. split.
      * apply existsb_exists in C. destruct C as (x & Hin & Hc). exists x. auto.
      * intros (x & Hin & Hm). apply matb_iff in Hm.
        rewrite existsb_false in M. rewrite (M x Hin) in Hm. discriminate.
    + intros [(x & Hin & Hc) Hn]. split.
      * apply existsb_exists. exists x. auto.
      * destruct (existsb (matb r) vs) eqn:E; [| reflexivity]. exfalso. apply Hn.
        apply existsb_exists in E. destruct E as (y & Hy & Hm). exists y. split; [exact Hy | apply matb_iff; exact Hm].
  - rewrite St2. split.
    + intros [C _] x Hin Hc. rewrite existsb_false in C.
      specialize (C x Hin). unfold VCovers in Hc. unfold covb in C. congruence.
    + intro Hall.
      assert (C : existsb (covb r) vs = false).
      { apply existsb_false. intros x Hin. destruct (covb r x) eqn:E; [| reflexivity]. exfalso. exact (Hall x Hin E). }
      split; [exact C |]. destruct (existsb (matb r) vs) eqn:E; [| reflexivity].
      apply existsb_mat_cov in E. congruence.
  - intros x Hin. apply matb_iff. apply Smat. exact Hin.
  - intros x Hin. specialize (Sasn x Hin). apply andb_prop in Sasn. destruct Sasn as [Sc Sa]. split; [exact Sc |].
    apply negb_true_iff in Sa. unfold asnokb in Sa. apply N.eqb_neq in Sa. exact Sa.
  - intros x Hin. specialize (Slen x Hin). apply andb_prop in Slen. destruct Slen as [Sc Sl]. split; [exact Sc |].
    apply negb_true_iff in Sl. unfold lenokb in Sl. apply N.leb_gt in Sl. exact Sl.
  - apply mset_eqb_perm. exact Smset.
  - rewrite Sreason. destruct (o_matched o), (o_bad_asn o), (o_bad_len o); cbn;
      (split; [intro E; try discriminate E; split; congruence | intros [E1 E2]; congruence]).
  - rewrite Sreason. destruct (o_matched o), (o_bad_asn o), (o_bad_len o); cbn;
      (split; [intro E; try discriminate E; repeat split; congruence | intros (E1 & E2 & E3); congruence]).
Qed.

(* covers stream: a case accepted with code 0 means rpki's answer is the declarative one *)
Theorem check_covers_0 : forall c, check_covers c = 0 ->
  wf_prefix (cc_a c) /\ wf_prefix (cc_b c) /\ (cc_impl c = true <-> Covers (cc_a c) (cc_b c)).
Proof.
  intros c H. unfold check_covers in H.
  destruct (wf_prefixb (cc_a c)) eqn:Wa; cbn [andb negb] in H; [| discriminate].
  destruct (wf_prefixb (cc_b c)) eqn:Wb; cbn [negb] in H; [| discriminate].
  destruct (Bool.eqb (cc_impl c) (covers_specb (cc_a c) (cc_b c))) eqn:E; cbn [negb] in H; [| discriminate].
  apply eqb_prop in E. split; [exact Wa | split; [exact Wb |]].
  rewrite E. apply covers_specb_iff; assumption.
Qed.
