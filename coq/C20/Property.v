(* C20 — Route origin validation follows RFC 6811.
   Only statements, [exact], an [Example] and [Check] pins.
   Model: rpki Prefix::covers; /repo src/validity.rs RouteValidity::new/state/reason/description. *)
From Coq Require Import List NArith Bool Permutation.
From RV Require Import C20.Model C20.Spec C20.CoversProofs C20.ParseProofs C20.Proofs C20.SpecProofs.
Import ListNotations.
Local Open Scope N_scope.

(* The code's covers test is the RFC notion: same family, not longer, and the
   first [len] bits agree — for all well-formed prefixes of both families. *)
Theorem C20_covers_correct : forall a b, wf_prefix a -> wf_prefix b -> (covers a b = true <-> Covers a b).
Proof. exact covers_correct. Qed.

(* RouteValidity::new: the three lists are the order-preserving filters of the
   data set by three mutually exclusive tests (any item type, any list) *)
Theorem C20_lists : forall (I : Type) (r : route) (vs : list (vrp * I)),
  rv_new r vs = {| matched := filter (matb r) vs; bad_asn := filter (badasnb r) vs;
                   bad_len := filter (badlenb r) vs |}.
Proof. exact @rv_new_filters. Qed.

(* valid iff some VRP covers the prefix with the same AS and max length >= the route's length *)
Theorem C20_valid_iff : forall (I : Type) (r : route) (vs : list (vrp * I)),
  state (rv_new r vs) = Valid <-> exists it, In it vs /\ VMatches r (fst it).
Proof. exact @valid_iff. Qed.

(* invalid iff some VRP covers it but none matches *)
Theorem C20_invalid_iff : forall (I : Type) (r : route) (vs : list (vrp * I)),
  state (rv_new r vs) = Invalid <->
  (exists it, In it vs /\ VCovers r (fst it)) /\ ~ (exists it, In it vs /\ VMatches r (fst it)).
Proof. exact @invalid_iff. Qed.

(* not-found iff no VRP covers it *)
Theorem C20_notfound_iff : forall (I : Type) (r : route) (vs : list (vrp * I)),
  state (rv_new r vs) = NotFound <-> forall it, In it vs -> ~ VCovers r (fst it).
Proof. exact @notfound_iff. Qed.

(* matched is exactly the matching VRPs; unmatched_as / unmatched_length entries *)
Theorem C20_matched_exact : forall (I : Type) (r : route) (vs : list (vrp * I)) it,
  In it (matched (rv_new r vs)) <-> In it vs /\ VMatches r (fst it).
Proof. exact @matched_exact. Qed.

Theorem C20_unmatched_as_exact : forall (I : Type) (r : route) (vs : list (vrp * I)) it,
  In it (bad_asn (rv_new r vs)) <->
  In it vs /\ VCovers r (fst it) /\ p_len (r_prefix r) <= resolved_max_len (fst it) /\ v_asn (fst it) <> r_asn r.
Proof. exact @bad_asn_exact. Qed.

Theorem C20_unmatched_length_exact : forall (I : Type) (r : route) (vs : list (vrp * I)) it,
  In it (bad_len (rv_new r vs)) <->
  In it vs /\ VCovers r (fst it) /\ resolved_max_len (fst it) < p_len (r_prefix r).
Proof. exact @bad_len_exact. Qed.

(* the three lists together are exactly the covering VRPs (multiset equality) *)
Theorem C20_partition : forall (I : Type) (r : route) (vs : list (vrp * I)),
  Permutation (matched (rv_new r vs) ++ bad_asn (rv_new r vs) ++ bad_len (rv_new r vs)) (filter (covb r) vs).
Proof. exact @partition_perm. Qed.

(* pairwise disjoint: by value ... *)
Theorem C20_disjoint : forall (I : Type) (r : route) (vs : list (vrp * I)) it,
  ~ (In it (matched (rv_new r vs)) /\ In it (bad_asn (rv_new r vs))) /\
  ~ (In it (matched (rv_new r vs)) /\ In it (bad_len (rv_new r vs))) /\
  ~ (In it (bad_asn (rv_new r vs)) /\ In it (bad_len (rv_new r vs))).
Proof. exact @lists_disjoint. Qed.

(* ... and by position (items tagged with distinct positions: no position is listed twice) *)
Theorem C20_positions_disjoint : forall (r : route) (vs : list item),
  NoDup (map snd vs) ->
  NoDup (map snd (matched (rv_new r vs) ++ bad_asn (rv_new r vs) ++ bad_len (rv_new r vs))).
Proof. exact positions_disjoint. Qed.

(* the reason follows the lists ... *)
Theorem C20_reason_lists : forall (I : Type) (v : validity I),
  (reason v = Some ReasonAs <-> matched v = [] /\ bad_asn v <> []) /\
  (reason v = Some ReasonLength <-> matched v = [] /\ bad_asn v = [] /\ bad_len v <> []) /\
  (reason v = None <-> matched v <> [] \/ (bad_asn v = [] /\ bad_len v = [])).
Proof. exact @reason_lists. Qed.

(* ... and reads on the data set as: "as" iff nothing matches and some covering VRP
   allows the length (so only its AS differs); "length" iff something covers and
   every covering VRP has too small a max length *)
Theorem C20_reason_as_iff : forall (I : Type) (r : route) (vs : list (vrp * I)),
  reason (rv_new r vs) = Some ReasonAs <->
  ~ (exists it, In it vs /\ VMatches r (fst it)) /\
  exists it, In it vs /\ VCovers r (fst it) /\ p_len (r_prefix r) <= resolved_max_len (fst it)
             /\ v_asn (fst it) <> r_asn r.
Proof. exact @reason_as_iff. Qed.

Theorem C20_reason_length_iff : forall (I : Type) (r : route) (vs : list (vrp * I)),
  reason (rv_new r vs) = Some ReasonLength <->
  (exists it, In it vs /\ VCovers r (fst it)) /\
  forall it, In it vs -> VCovers r (fst it) -> resolved_max_len (fst it) < p_len (r_prefix r).
Proof. exact @reason_length_iff. Qed.

(* the executable oracle evaluated on the implementation's output: the model
   satisfies it on every input, and whatever it accepts has the declarative property *)
Theorem C20_model_satisfies_spec : forall (r : route) (vs : list item), spec_okb r vs (model_obs r vs) = true.
Proof. exact model_satisfies_spec. Qed.

Theorem C20_spec_sound : forall r vs o, spec_okb r vs o = true -> SpecProp r vs o.
Proof. exact spec_sound. Qed.

Theorem C20_covers_case_sound : forall c, check_covers c = 0 ->
  wf_prefix (cc_a c) /\ wf_prefix (cc_b c) /\ (cc_impl c = true <-> Covers (cc_a c) (cc_b c)).
Proof. exact check_covers_0. Qed.

(* where well-formedness comes from: the constructors behind Prefix::from_str /
   from_str_relaxed accept exactly the texts whose length fits the family (strict:
   and host bits zero) and return well-formed prefixes with the same first bits *)
Theorem C20_parse_model_ok : forall v4 addr len, addr < 2 ^ addr_width v4 ->
  parse_okb v4 addr len true (prefix_new v4 addr len) = true /\
  parse_okb v4 addr len false (prefix_new_relaxed v4 addr len) = true.
Proof. exact parse_model_ok. Qed.

Theorem C20_constructed_prefix_wf : forall v4 addr len p, addr < 2 ^ addr_width v4 ->
  prefix_new v4 addr len = Some p \/ prefix_new_relaxed v4 addr len = Some p -> wf_prefix p.
Proof. exact prefix_new_wf. Qed.

(* non-vacuity: 10.0.0.0/8-24 AS64496 (match), 10.0.0.0/8-16 AS64496 (too short and,
   second one, also wrong AS), 10.0.0.0/9 AS64497 (wrong AS), 11.0.0.0/8 and 2001:db8::/32
   (not covering) for the route 10.1.0.0/20 AS64496 and its variants *)
Example C20_nonvacuous :
  let ten := 13292279957849158729038070602803445760 in       (* 10.0.0.0 << 96 *)
  let r20 := R true (ten + 2 ^ 112) 20 64496 in                 (* 10.1.0.0/20 AS64496 *)
  let vs := [V true ten 8 (Some 24) 64496 0; V true ten 8 (Some 16) 64496 1; V true ten 8 (Some 16) 64499 2;
             V true ten 9 None 64497 3; V true (ten + 2 ^ 120) 8 None 64496 4;
             V false (2 ^ 125 + 2 ^ 108) 32 (Some 48) 64496 5] in
  wf_inputb r20 vs = true /\
  map snd (matched (rv_new r20 vs)) = [0] /\ map snd (bad_asn (rv_new r20 vs)) = [] /\
  map snd (bad_len (rv_new r20 vs)) = [1; 2; 3] /\ state (rv_new r20 vs) = Valid /\
  (let r' := R true (ten + 2 ^ 112) 20 64511 in
   state (rv_new r' vs) = Invalid /\ reason (rv_new r' vs) = Some ReasonAs /\ map snd (bad_asn (rv_new r' vs)) = [0]) /\
  (let r' := R true (ten + 2 ^ 112) 28 64496 in
   state (rv_new r' vs) = Invalid /\ reason (rv_new r' vs) = Some ReasonLength) /\
  (let r' := R true (ten + 2 ^ 121) 20 64496 in
   state (rv_new r' vs) = NotFound /\ reason (rv_new r' vs) = None).
Proof. vm_compute. repeat split; reflexivity. Qed.

Check C20_covers_correct : forall a b, wf_prefix a -> wf_prefix b -> (covers a b = true <-> Covers a b).
Check C20_valid_iff : forall (I : Type) (r : route) (vs : list (vrp * I)),
  state (rv_new r vs) = Valid <-> exists it, In it vs /\ VMatches r (fst it).
Check C20_invalid_iff : forall (I : Type) (r : route) (vs : list (vrp * I)),
  state (rv_new r vs) = Invalid <->
  (exists it, In it vs /\ VCovers r (fst it)) /\ ~ (exists it, In it vs /\ VMatches r (fst it)).
Check C20_notfound_iff : forall (I : Type) (r : route) (vs : list (vrp * I)),
  state (rv_new r vs) = NotFound <-> forall it, In it vs -> ~ VCovers r (fst it).
Check C20_partition : forall (I : Type) (r : route) (vs : list (vrp * I)),
  Permutation (matched (rv_new r vs) ++ bad_asn (rv_new r vs) ++ bad_len (rv_new r vs)) (filter (covb r) vs).
Check C20_model_satisfies_spec : forall (r : route) (vs : list item), spec_okb r vs (model_obs r vs) = true.
Check C20_spec_sound : forall r vs o, spec_okb r vs o = true -> SpecProp r vs o.
