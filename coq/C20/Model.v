(* C20 — route origin validation.  Executable model, no proofs.

   Transcribed from
     rpki 0.19.3  src/resources/addr.rs   Prefix, Prefix::covers, MaxLenPrefix::resolved_max_len
     /repo        src/validity.rs         RouteValidity::new, ::state, ::reason, ::description
   (src/http/validity.rs only parses ASN and prefix and calls RouteValidity::new(..).into_json(..).) *)
From Coq Require Import List NArith Bool.
Import ListNotations.
Local Open Scope N_scope.

(* ---- rpki::resources::addr::Prefix ------------------------------------
   struct Prefix { family_and_len: FamilyAndLen, bits: Bits(u128) }.
   The bits are left-aligned in 128 bits for both families
   (Bits::from_v4(a) = u128::from(u32::from(a)) << 96). *)
Record prefix := { p_v4 : bool; p_bits : N; p_len : N }.

(* u128::MAX and `!x` on u128 *)
Definition MAX128 : N := N.ones 128.
Definition not128 (x : N) : N := N.lxor MAX128 x.

(* derive(PartialEq) on Prefix: family_and_len and bits *)
Definition prefix_eqb (a b : prefix) : bool :=
  Bool.eqb (p_v4 a) (p_v4 b) && (p_len a =? p_len b) && (p_bits a =? p_bits b).

(* Prefix::covers(self, other), statement by statement.
   `u128::MAX >> self.len()` is only reached with self.len() < 128 on
   well-formed prefixes (a shift by 128 would be an overflow panic in Rust;
   N.shiftr gives 0 there, the case is excluded by [wf_prefixb]). *)
Definition covers (self other : prefix) : bool :=
  (* if self.is_v4() != other.is_v4() { return false } *)
  if negb (Bool.eqb (p_v4 self) (p_v4 other)) then false
  (* if self.len() > other.len() { return false } *)
  else if p_len other <? p_len self then false
  else if p_v4 self then
    (* if self.len() == 32 && other.len() == 32 { return self == other } *)
    if (p_len self =? 32) && (p_len other =? 32) then prefix_eqb self other
    else p_bits self =? N.land (p_bits other) (not128 (N.shiftr MAX128 (p_len self)))
  (* else if self.len() == 128 && other.len() == 128 { return self == other } *)
  else if (p_len self =? 128) && (p_len other =? 128) then prefix_eqb self other
  (* self.bits.into_int() == other.bits.into_int() & !(u128::MAX >> self.len()) *)
  else p_bits self =? N.land (p_bits other) (not128 (N.shiftr MAX128 (p_len self))).

(* ---- the constructors behind Prefix::from_str / from_str_relaxed ----------
   (from_str: IpAddr::from_str, u8::from_str, then Prefix::new / new_relaxed) *)
Definition fam_max (v4 : bool) : N := if v4 then 32 else 128.

(* Bits::from_v4: u128::from(u32::from(addr)) << 96;  Bits::from_v6: u128::from(addr) *)
Definition bits_of_addr (v4 : bool) (addr : N) : N := if v4 then N.shiftl addr 96 else addr.

(* Bits::is_host_zero: self.0.trailing_zeros() >= 128u32.saturating_sub(len) *)
Definition is_host_zero (bits len : N) : bool := bits mod 2 ^ (128 - len) =? 0.

(* Bits::clear_host: if len == 0 { 0 } else { self.0 & (u128::MAX << (128 - len)) }  (shift within u128) *)
Definition clear_host (bits len : N) : N :=
  if len =? 0 then 0 else N.land bits (N.land (N.shiftl MAX128 (128 - len)) MAX128).

(* Prefix::new_v4 / new_v6: FamilyAndLen::new_* fails with LenOverflow, then the host-bit check *)
Definition prefix_new (v4 : bool) (addr len : N) : option prefix :=
  if fam_max v4 <? len then None
  else if is_host_zero (bits_of_addr v4 addr) len
       then Some {| p_v4 := v4; p_bits := bits_of_addr v4 addr; p_len := len |}
       else None.

(* Prefix::new_v4_relaxed / new_v6_relaxed *)
Definition prefix_new_relaxed (v4 : bool) (addr len : N) : option prefix :=
  if fam_max v4 <? len then None
  else Some {| p_v4 := v4; p_bits := clear_host (bits_of_addr v4 addr) len; p_len := len |}.

(* ---- rpki::rtr::payload::RouteOrigin { prefix: MaxLenPrefix, asn } ---- *)
Record vrp := { v_prefix : prefix; v_maxlen : option N; v_asn : N }.

(* MaxLenPrefix::resolved_max_len: self.max_len.unwrap_or_else(|| self.prefix.len()) *)
Definition resolved_max_len (v : vrp) : N :=
  match v_maxlen v with Some m => m | None => p_len (v_prefix v) end.

(* a route announcement: (prefix, origin AS) *)
Record route := { r_prefix : prefix; r_asn : N }.

(* ---- src/validity.rs: RouteValidity ------------------------------------
   The vectors hold the items of snapshot.origins(), i.e. pairs
   (RouteOrigin, &PayloadInfo); the second component is kept abstract ([I]). *)
Record validity (I : Type) := {
  matched : list (vrp * I);
  bad_asn : list (vrp * I);     (* JSON "unmatched_as" *)
  bad_len : list (vrp * I) }.   (* JSON "unmatched_length" *)
Arguments matched {I} _.
Arguments bad_asn {I} _.
Arguments bad_len {I} _.
Arguments Build_validity {I} _ _ _.

Section New.
Context {I : Type}.

(* body of `for item in snapshot.origins()` in RouteValidity::new *)
Definition rv_step (r : route) (acc : validity I) (item : vrp * I) : validity I :=
  (* if item.0.prefix.prefix().covers(prefix) *)
  if covers (v_prefix (fst item)) (r_prefix r) then
    (* if prefix.len() > item.0.prefix.resolved_max_len() { bad_len.push(item) } *)
    if resolved_max_len (fst item) <? p_len (r_prefix r) then
      {| matched := matched acc; bad_asn := bad_asn acc; bad_len := bad_len acc ++ [item] |}
    (* else if item.0.asn != asn { bad_asn.push(item) } *)
    else if negb (v_asn (fst item) =? r_asn r) then
      {| matched := matched acc; bad_asn := bad_asn acc ++ [item]; bad_len := bad_len acc |}
    (* else { matched.push(item) } *)
    else
      {| matched := matched acc ++ [item]; bad_asn := bad_asn acc; bad_len := bad_len acc |}
  else acc.

(* RouteValidity::new(prefix, asn, snapshot); [vs] = snapshot.origins() in iteration order *)
Definition rv_new (r : route) (vs : list (vrp * I)) : validity I :=
  fold_left (rv_step r) vs {| matched := []; bad_asn := []; bad_len := [] |}.

End New.

Inductive route_state := Valid | Invalid | NotFound.
Inductive reason_t := ReasonAs | ReasonLength.
Inductive descr_t := DescValid | DescBadAsn | DescBadLen | DescNotFound.

Definition is_empty {A} (l : list A) : bool := match l with [] => true | _ => false end.

Section Read.
Context {I : Type}.

(* RouteValidity::state *)
Definition state (v : validity I) : route_state :=
  if is_empty (matched v) then
    if is_empty (bad_asn v) && is_empty (bad_len v) then NotFound else Invalid
  else Valid.

(* RouteValidity::reason *)
Definition reason (v : validity I) : option reason_t :=
  if is_empty (matched v) then
    if negb (is_empty (bad_asn v)) then Some ReasonAs
    else if negb (is_empty (bad_len v)) then Some ReasonLength
    else None
  else None.

(* RouteValidity::description *)
Definition description (v : validity I) : descr_t :=
  if is_empty (matched v) then
    if negb (is_empty (bad_asn v)) then DescBadAsn
    else if negb (is_empty (bad_len v)) then DescBadLen
    else DescNotFound
  else DescValid.

End Read.
