(* C09 — The served data set is the documented composition of validated payload.
   Only statements, [exact], an [Example] and [Check] pins.
   [run i] is the model of ValidationReport::into_snapshot (C09/Model.v);
   [expected_origins], [expected_keys], [provider_union] are the declarative
   composition (C09/Spec.v). *)
From Coq Require Import List NArith Bool.
From RV Require Import Base.KMap C09.Model C09.Spec C09.Proofs C09.Ranges.
Import ListNotations.
Local Open Scope N_scope.

(* route origins: served = (validated \ too long \ unsafe-under-reject \ SLURM-filtered) U assertions ... *)
Theorem C09_origins_exact : forall i o,
  In o (s_origins (run i)) <->
  (In o (validated_origins i) /\ too_long i o = false
   /\ (cf_policy (i_cfg i) = Reject -> unsafe i (o_pfx o) = false)
   /\ drop_origin (i_slurm i) o = false)
  \/ In o (sl_origins (i_slurm i)).
Proof. intros i o. rewrite origins_exact. apply expected_origins_In. Qed.

(* ... each distinct item once *)
Theorem C09_origins_once : forall i, NoDup (s_origins (run i)).
Proof. exact origins_nodup. Qed.

(* router keys: one per ASN of each valid router certificate if BGPsec is enabled, minus SLURM-filtered, plus assertions *)
Theorem C09_keys_exact : forall i k,
  In k (s_keys (run i)) <->
  (cf_bgpsec (i_cfg i) = true
   /\ (exists pp pk b, In pp (i_points i) /\ In pk (pp_keys pp) /\ In b (pk_asns pk) /\ fst b <= k_asn k <= snd b
                       /\ k_ski k = pk_ski pk /\ k_info k = pk_info pk)
   /\ drop_key (i_slurm i) k = false)
  \/ In k (sl_keys (i_slurm i)).
Proof.
  intros i k. rewrite keys_exact. unfold expected_keys. rewrite in_app_iff, filter_In, validated_keys_In, negb_true_iff.
  tauto.
Qed.

Theorem C09_keys_once : forall i, NoDup (s_keys (run i)).
Proof. exact keys_nodup. Qed.

(* ASPAs: a customer is served iff ASPA processing is enabled, it has at least one valid object and the union of
   the providers of its objects fits (at most MAX_COUNT = 16380 providers); it is served with exactly that union *)
Theorem C09_aspas_exact : forall i c,
  lookup c (s_aspas (run i)) =
  if mem N.eqb c (map a_cust (aspa_objects i)) && providers_fit (provider_union i c)
  then Some (provider_union i c) else None.
Proof. exact aspas_exact. Qed.

(* each customer once, in increasing order *)
Theorem C09_aspas_sorted : forall i, ksorted (s_aspas (run i)).
Proof. exact aspas_sorted. Qed.

(* the union is the set union of the customer's objects' providers (none when ASPA processing is disabled) ... *)
Theorem C09_union_members : forall i c p,
  In p (provider_union i c) <->
  exists a, In a (aspa_objects i) /\ a_cust a = c /\ In p (a_provs a).
Proof. exact provider_union_In. Qed.

Theorem C09_aspa_objects : forall i a,
  In a (aspa_objects i) <-> cf_aspa (i_cfg i) = true /\ exists pp, In pp (i_points i) /\ In a (pp_aspas pp).
Proof.
  intros i a. unfold aspa_objects. destruct (cf_aspa (i_cfg i)).
  - rewrite in_flat_map. split; [intros H; split; [reflexivity | exact H] | intros [_ H]; exact H].
  - split; [intros [] | intros [E _]; discriminate].
Qed.

(* ... strictly increasing, when every object's provider list is (which the ASPA decoder guarantees) *)
Theorem C09_union_sorted : forall i c,
  (forall a, In a (aspa_objects i) -> ssorted (a_provs a)) -> ssorted (provider_union i c).
Proof. exact provider_union_sorted. Qed.

(* what "too long", "unsafe" and "SLURM-filtered" mean in terms of addresses *)
Theorem C09_too_long : forall i o,
  too_long i o = true <->
  exists l, (if p_v4 (o_pfx o) then cf_lim4 (i_cfg i) else cf_lim6 (i_cfg i)) = Some l /\ l < p_len (o_pfx o).
Proof.
  intros i o. unfold too_long, within_limit.
  destruct (if p_v4 (o_pfx o) then cf_lim4 (i_cfg i) else cf_lim6 (i_cfg i)) as [l|].
  - rewrite negb_involutive, N.ltb_lt. split; [intros H; exists l; auto | intros (l' & E & H); inversion E; subst; exact H].
  - cbn [negb]. split; [discriminate | intros (l & E & _); discriminate].
Qed.

Theorem C09_covers_is_inclusion : forall a b, wf_pfx a -> wf_pfx b -> p_v4 a = p_v4 b ->
  (covers a b = true <-> pfx_lo a <= pfx_lo b /\ pfx_hi b <= pfx_hi a).
Proof. exact covers_range. Qed.

(* the executable oracle used on the implementation's output holds of the model on every input *)
Theorem C09_model_satisfies_spec : forall i, spec_okb i (model_obs i) = true.
Proof. exact model_satisfies_spec. Qed.

(* non-vacuity: duplicates over two points, a too long and an unsafe origin, a SLURM filter and an assertion,
   router keys over overlapping AS blocks, an ASPA customer merged over two objects *)
Example C09_nonvacuous :
  let p16 := Build_pfx true 167772160 16 in
  let p24 := Build_pfx true 167772160 24 in
  let q := Build_pfx true 3221225984 24 in
  let i := {|
    i_cfg := Build_config Reject (Some 24) None true true;
    i_rejected := [Build_rcert [BPrefix 3221225984 24; BPrefix 0 0] []];
    i_points := [
      Build_pubpoint [Build_roa 64496 [Build_roa_entry p16 (Some 24); Build_roa_entry q None;
                                       Build_roa_entry (Build_pfx true 167772160 25) None]]
                     [Build_pubkey [(64496, 64497); (64497, 64498)] 1 7] [Build_pubaspa 65000 [1; 3]];
      Build_pubpoint [Build_roa 64496 [Build_roa_entry p16 (Some 24)]; Build_roa 64497 [Build_roa_entry p24 None]]
                     [] [Build_pubaspa 65000 [2; 3]]];
    i_slurm := Build_slurm [Build_pfilter (Some p24) None] [Build_kfilter None (Some 64497)]
                           [Build_origin q 24 64511] [] |} in
  wf_inputb i = true /\
  run i = {| s_origins := [Build_origin q 24 64511; Build_origin p16 24 64496];
             s_keys := [Build_rkey 1 64498 7; Build_rkey 1 64496 7];
             s_aspas := [(65000, [1; 2; 3])] |}.
Proof. split; vm_compute; reflexivity. Qed.

Check C09_origins_exact : forall i o,
  In o (s_origins (run i)) <->
  (In o (validated_origins i) /\ too_long i o = false
   /\ (cf_policy (i_cfg i) = Reject -> unsafe i (o_pfx o) = false)
   /\ drop_origin (i_slurm i) o = false)
  \/ In o (sl_origins (i_slurm i)).
Check C09_origins_once : forall i, NoDup (s_origins (run i)).
Check C09_keys_once : forall i, NoDup (s_keys (run i)).
Check C09_aspas_exact : forall i c,
  lookup c (s_aspas (run i)) =
  if mem N.eqb c (map a_cust (aspa_objects i)) && providers_fit (provider_union i c)
  then Some (provider_union i c) else None.
Check C09_model_satisfies_spec : forall i, spec_okb i (model_obs i) = true.
