(* C09: lemmas about the model — sets as duplicate-free lists, the folds of
   the snapshot builder, the rejected resources, the ASPA map. *)
From Coq Require Import List NArith Bool Lia.
From RV Require Import Base.KMap C09.Model C09.Spec.
Import ListNotations.
Local Open Scope N_scope.

(* ---- equality tests ---------------------------------------------------- *)
Lemma pfx_eqb_eq a b : pfx_eqb a b = true <-> a = b.
Proof.
  destruct a as [v a l], b as [v' a' l']; unfold pfx_eqb; cbn [p_v4 p_addr p_len].
  rewrite !andb_true_iff, eqb_true_iff, !N.eqb_eq. split.
  - intros [[-> ->] ->]; reflexivity.
  - intros E; inversion E; auto.
Qed.

Lemma origin_eqb_eq a b : origin_eqb a b = true <-> a = b.
Proof.
  destruct a as [p m s], b as [p' m' s']; unfold origin_eqb; cbn [o_pfx o_ml o_asn].
  rewrite !andb_true_iff, pfx_eqb_eq, !N.eqb_eq. split.
  - intros [[-> ->] ->]; reflexivity.
  - intros E; inversion E; auto.
Qed.

Lemma rkey_eqb_eq a b : rkey_eqb a b = true <-> a = b.
Proof.
  destruct a as [p m s], b as [p' m' s']; unfold rkey_eqb; cbn [k_ski k_asn k_info].
  rewrite !andb_true_iff, !N.eqb_eq. split.
  - intros [[-> ->] ->]; reflexivity.
  - intros E; inversion E; auto.
Qed.

(* ---- sets as lists ----------------------------------------------------- *)
Section SetLemmas.
Context {A : Type}.
Variable eqb : A -> A -> bool.
Hypothesis eqb_eq : forall x y, eqb x y = true <-> x = y.

Lemma mem_In x l : mem eqb x l = true <-> In x l.
Proof.
  unfold mem. rewrite existsb_exists. split.
  - intros (y & Hy & E). apply eqb_eq in E. subst; exact Hy.
  - intros H. exists x. split; [exact H | apply eqb_eq; reflexivity].
Qed.

Lemma mem_false x l : mem eqb x l = false <-> ~ In x l.
Proof. rewrite <- mem_In. destruct (mem eqb x l); split; congruence. Qed.

Lemma set_add_In x y l : In y (set_add eqb x l) <-> y = x \/ In y l.
Proof.
  unfold set_add. fold (mem eqb x l). destruct (mem eqb x l) eqn:E.
  - apply mem_In in E. split; [auto|]. intros [->|H]; assumption.
  - cbn [In]. split; intros [H|H]; auto.
Qed.

Lemma set_add_NoDup x l : NoDup l -> NoDup (set_add eqb x l).
Proof.
  intros H. unfold set_add. fold (mem eqb x l). destruct (mem eqb x l) eqn:E; [exact H|].
  constructor; [apply mem_false; exact E | exact H].
Qed.

(* a fold that adds [f b] for the items with [f b = Some _] *)
Context {B : Type}.
Variable f : B -> option A.
Definition ostep (l : list A) (b : B) : list A :=
  match f b with Some a => set_add eqb a l | None => l end.

Lemma fold_ostep_In y bs : forall l,
  In y (fold_left ostep bs l) <-> In y l \/ exists b, In b bs /\ f b = Some y.
Proof.
  induction bs as [|b t IH]; intros l; cbn [fold_left].
  - split; [auto|]. intros [H|(b & [] & _)]; exact H.
  - rewrite IH. unfold ostep. split.
    + intros [H|(b' & Hb & E)].
      * destruct (f b) as [a|] eqn:Fb; [|auto].
        apply set_add_In in H as [->|H]; [|auto]. right. exists b. split; [left; reflexivity | exact Fb].
      * right. exists b'. split; [right; exact Hb | exact E].
    + intros [H|(b' & [<-|Hb] & E)].
      * left. destruct (f b); [apply set_add_In; auto | exact H].
      * left. rewrite E. apply set_add_In; auto.
      * right. exists b'. auto.
Qed.

Lemma fold_ostep_NoDup bs : forall l, NoDup l -> NoDup (fold_left ostep bs l).
Proof.
  induction bs as [|b t IH]; intros l H; cbn [fold_left]; [exact H|].
  apply IH. unfold ostep. destruct (f b); [apply set_add_NoDup|]; exact H.
Qed.

Lemma nodupb_NoDup l : NoDup l -> nodupb eqb l = true.
Proof.
  induction 1 as [|x l Hx _ IH]; cbn [nodupb]; [reflexivity|].
  rewrite IH, andb_true_r. apply negb_true_iff, mem_false. exact Hx.
Qed.

Lemma subsetb_spec a b : subsetb eqb a b = true <-> forall x, In x a -> In x b.
Proof.
  unfold subsetb. rewrite forallb_forall. split; intros H x Hx; [apply mem_In | apply mem_In]; auto.
Qed.

Lemma same_set_once_intro obs expected :
  NoDup obs -> (forall x, In x obs <-> In x expected) -> same_set_once eqb obs expected = true.
Proof.
  intros Hn He. unfold same_set_once. rewrite nodupb_NoDup by exact Hn.
  cbn [andb]. apply andb_true_iff; split; apply subsetb_spec; intros x; apply He.
Qed.
End SetLemmas.

Lemma fold_left_map {A B C} (g : A -> C -> A) (h : B -> C) l : forall a,
  fold_left g (map h l) a = fold_left (fun a b => g a (h b)) l a.
Proof. induction l as [|x t IH]; intros a; cbn [map fold_left]; [reflexivity | apply IH]. Qed.

Lemma fold_left_ext {A B} (g g' : A -> B -> A) l : (forall a b, g a b = g' a b) -> forall a,
  fold_left g l a = fold_left g' l a.
Proof. intros E. induction l as [|x t IH]; intros a; cbn [fold_left]; [reflexivity|]. rewrite E. apply IH. Qed.

Lemma fold_left_flat_map {A B C} (g : A -> C -> A) (h : B -> list C) l : forall a,
  fold_left g (flat_map h l) a = fold_left (fun a b => fold_left g (h b) a) l a.
Proof.
  induction l as [|x t IH]; intros a; cbn [flat_map fold_left]; [reflexivity|].
  rewrite fold_left_app. apply IH.
Qed.

Lemma existsb_map {A B} (f : B -> bool) (g : A -> B) l : existsb f (map g l) = existsb (fun x => f (g x)) l.
Proof. induction l as [|x t IH]; cbn [map existsb]; [reflexivity | rewrite IH; reflexivity]. Qed.

Lemma filter_map_In {A B} (f : A -> option B) l y : In y (filter_map f l) <-> exists x, In x l /\ f x = Some y.
Proof.
  induction l as [|x t IH]; cbn [filter_map].
  - split; [intros [] | intros (x & [] & _)].
  - destruct (f x) as [z|] eqn:E; cbn [In]; rewrite IH; split.
    + intros [<-|(x' & H & E')]; [exists x; auto | exists x'; auto].
    + intros (x' & [<-|H] & E'); [left; congruence | right; exists x'; auto].
    + intros (x' & H & E'); exists x'; auto.
    + intros (x' & [<-|H] & E'); [congruence | exists x'; auto].
Qed.

(* ---- the origin component of the builder -------------------------------- *)
(* does process_origin insert the origin? *)
Definition origin_keep (cf : config) (rj : rejected) (sl : slurm) (o : origin) : bool :=
  negb (negb (keep_prefix rj (o_pfx o)) && is_reject (cf_policy cf)) && negb (drop_origin sl o).

Definition okeep (cf : config) (rj : rejected) (sl : slurm) (o : origin) : option origin :=
  if origin_keep cf rj sl o then Some o else None.

Lemma builder_eta b : {| b_origins := b_origins b; b_keys := b_keys b; b_aspas := b_aspas b |} = b.
Proof. destruct b; reflexivity. Qed.

Lemma process_origin_eq cf rj sl b o :
  process_origin cf rj sl b o =
  {| b_origins := ostep origin_eqb (okeep cf rj sl) (b_origins b) o; b_keys := b_keys b; b_aspas := b_aspas b |}.
Proof.
  unfold process_origin, ostep, okeep, origin_keep.
  destruct (keep_prefix rj (o_pfx o)); cbn [negb andb];
    [|destruct (cf_policy cf); cbn [is_reject negb andb]];
    destruct (drop_origin sl o); cbn [negb]; try reflexivity; symmetry; apply builder_eta.
Qed.

Lemma fold_process_origin cf rj sl os : forall b,
  fold_left (process_origin cf rj sl) os b =
  {| b_origins := fold_left (ostep origin_eqb (okeep cf rj sl)) os (b_origins b);
     b_keys := b_keys b; b_aspas := b_aspas b |}.
Proof.
  induction os as [|o t IH]; intros b; cbn [fold_left]; [symmetry; apply builder_eta|].
  rewrite IH, process_origin_eq. reflexivity.
Qed.

(* ---- the router key component ------------------------------------------- *)
Definition kkeep (sl : slurm) (k : rkey) : option rkey := if drop_key sl k then None else Some k.

Lemma key_step_eq sl ski info ks asn :
  key_step sl ski info ks asn = ostep rkey_eqb (kkeep sl) ks {| k_ski := ski; k_asn := asn; k_info := info |}.
Proof. unfold key_step, ostep, kkeep. destruct (drop_key sl _); reflexivity. Qed.

Lemma process_key_eq sl b pk :
  process_key sl b pk =
  {| b_origins := b_origins b;
     b_keys := fold_left (ostep rkey_eqb (kkeep sl)) (keys_of pk) (b_keys b);
     b_aspas := b_aspas b |}.
Proof.
  unfold process_key, keys_of. rewrite fold_left_map. f_equal.
  apply fold_left_ext. intros a b'. apply key_step_eq.
Qed.

Lemma fold_process_key sl pks : forall b,
  fold_left (process_key sl) pks b =
  {| b_origins := b_origins b;
     b_keys := fold_left (ostep rkey_eqb (kkeep sl)) (flat_map keys_of pks) (b_keys b);
     b_aspas := b_aspas b |}.
Proof.
  induction pks as [|pk t IH]; intros b; cbn [fold_left flat_map]; [symmetry; apply builder_eta|].
  rewrite IH, process_key_eq, fold_left_app. reflexivity.
Qed.

(* ---- the ASPA component --------------------------------------------------- *)
Definition astep (m : list (N * list N)) (a : pubaspa) : list (N * list N) :=
  match lookup (a_cust a) m with
  | None => kinsert (a_cust a) (a_provs a) m
  | Some old => kinsert (a_cust a) (sunion old (a_provs a)) m
  end.

Lemma fold_process_aspa objs : forall b,
  fold_left process_aspa objs b =
  {| b_origins := b_origins b; b_keys := b_keys b; b_aspas := fold_left astep objs (b_aspas b) |}.
Proof.
  induction objs as [|a t IH]; intros b; cbn [fold_left]; [symmetry; apply builder_eta|].
  rewrite IH. reflexivity.
Qed.

(* ---- all publication points ------------------------------------------------ *)
Lemma fold_process_pub_point cf rj sl pts : forall b,
  fold_left (process_pub_point cf rj sl) pts b =
  {| b_origins := fold_left (ostep origin_eqb (okeep cf rj sl)) (flat_map pt_origins pts) (b_origins b);
     b_keys := fold_left (ostep rkey_eqb (kkeep sl)) (flat_map (fun pt => flat_map keys_of (pt_keys pt)) pts) (b_keys b);
     b_aspas := fold_left astep (flat_map pt_aspas pts) (b_aspas b) |}.
Proof.
  induction pts as [|pt t IH]; intros b; cbn [fold_left flat_map]; [symmetry; apply builder_eta|].
  rewrite IH. unfold process_pub_point.
  rewrite fold_process_aspa, fold_process_key, fold_process_origin. cbn [b_origins b_keys b_aspas].
  rewrite !fold_left_app. reflexivity.
Qed.

(* the three components of the result *)
Definition collected (i : input) : list point := map (collect (i_cfg i)) (i_points i).

Lemma run_origins i :
  s_origins (run i) =
  fold_left (fun l o => set_add origin_eqb o l) (sl_origins (i_slurm i))
    (fold_left (ostep origin_eqb (okeep (i_cfg i) (rejected_of i) (i_slurm i))) (flat_map pt_origins (collected i)) []).
Proof. unfold run. rewrite fold_process_pub_point. reflexivity. Qed.

Lemma run_keys i :
  s_keys (run i) =
  fold_left (fun l k => set_add rkey_eqb k l) (sl_keys (i_slurm i))
    (fold_left (ostep rkey_eqb (kkeep (i_slurm i)))
       (flat_map (fun pt => flat_map keys_of (pt_keys pt)) (collected i)) []).
Proof. unfold run. rewrite fold_process_pub_point. reflexivity. Qed.

Lemma run_aspas i :
  s_aspas (run i) = filter (fun x => providers_fit (snd x)) (fold_left astep (flat_map pt_aspas (collected i)) []).
Proof. unfold run. rewrite fold_process_pub_point. reflexivity. Qed.

(* assertions: a fold of plain set_add *)
Lemma fold_set_add_is_ostep {A} (eqb : A -> A -> bool) l acc :
  fold_left (fun l x => set_add eqb x l) l acc = fold_left (ostep eqb (@Some A)) l acc.
Proof. apply fold_left_ext. reflexivity. Qed.

(* ---- what the publication points contribute --------------------------------- *)
Lemma roa_origins_In r o :
  In o (roa_origins r) <-> exists e, In e (r_entries r) /\ entry_origin (r_asn r) e = Some o.
Proof.
  unfold roa_origins. rewrite in_app_iff, !filter_map_In. split.
  - intros [(e & H & E)|(e & H & E)]; apply filter_In in H as [H _]; exists e; auto.
  - intros (e & H & E). destruct (p_v4 (e_pfx e)) eqn:V; [left|right]; exists e; (split; [|exact E]);
      apply filter_In; rewrite V; auto.
Qed.

Lemma collected_origins_In i o :
  In o (flat_map pt_origins (collected i)) <->
  In o (validated_origins i) /\ too_long i o = false.
Proof.
  unfold collected, validated_origins, too_long. rewrite flat_map_concat_map, map_map, <- flat_map_concat_map.
  rewrite !in_flat_map. split.
  - intros (pp & Hpp & H). cbn [collect pt_origins] in H. apply in_flat_map in H as (r & Hr & H).
    unfold add_roa in H. apply filter_In in H as [H W]. split.
    + exists pp. split; [exact Hpp|]. apply in_flat_map. exists r; auto.
    + rewrite W. reflexivity.
  - intros [(pp & Hpp & H) W]. exists pp. split; [exact Hpp|]. cbn [collect pt_origins].
    apply in_flat_map in H as (r & Hr & H). apply in_flat_map. exists r. split; [exact Hr|].
    unfold add_roa. apply filter_In. split; [exact H|]. apply negb_false_iff in W. exact W.
Qed.

Lemma collected_keys i :
  flat_map (fun pt => flat_map keys_of (pt_keys pt)) (collected i) = validated_keys i.
Proof.
  unfold collected, validated_keys. rewrite flat_map_concat_map, map_map, <- flat_map_concat_map.
  generalize (i_points i) as l. destruct (cf_bgpsec (i_cfg i)) eqn:E; intros l.
  - apply flat_map_ext. intros pp. cbn [collect pt_keys]. rewrite E. reflexivity.
  - induction l as [|pp t IH]; cbn [flat_map]; [reflexivity|].
    rewrite IH. cbn [collect pt_keys]. rewrite E. reflexivity.
Qed.

Lemma collected_aspas i : flat_map pt_aspas (collected i) = aspa_objects i.
Proof.
  unfold collected, aspa_objects. rewrite flat_map_concat_map, map_map, <- flat_map_concat_map.
  generalize (i_points i) as l. destruct (cf_aspa (i_cfg i)) eqn:E; intros l.
  - apply flat_map_ext. intros pp. cbn [collect pt_aspas]. rewrite E. reflexivity.
  - induction l as [|pp t IH]; cbn [flat_map]; [reflexivity|].
    rewrite IH. cbn [collect pt_aspas]. rewrite E. reflexivity.
Qed.

(* ---- rejected resources ------------------------------------------------------ *)
Definition nz (b : block) : bool := negb (is_slash_zero b).

Lemma filter_fst_pair (v : bool) (l : list block) :
  filter (fun x : bool * block => fst x) (map (pair v) l) = if v then map (pair v) l else [].
Proof. induction l as [|x t IH]; cbn [map filter fst]; destruct v; cbn; try rewrite IH; reflexivity. Qed.

Lemma filter_nfst_pair (v : bool) (l : list block) :
  filter (fun x : bool * block => negb (fst x)) (map (pair v) l) = if v then [] else map (pair v) l.
Proof. induction l as [|x t IH]; cbn [map filter fst]; destruct v; cbn; try rewrite IH; reflexivity. Qed.

Lemma filter_fst_extend certs :
  filter (fun x : bool * block => fst x) (flat_map extend_from_cert certs)
  = map (pair true) (filter nz (flat_map rc_v4 certs)).
Proof.
  induction certs as [|c t IH]; cbn [flat_map]; [reflexivity|].
  unfold extend_from_cert at 1. rewrite !filter_app, IH, filter_fst_pair, filter_fst_pair, map_app.
  cbn [app]. rewrite app_nil_r. reflexivity.
Qed.

Lemma filter_nfst_extend certs :
  filter (fun x : bool * block => negb (fst x)) (flat_map extend_from_cert certs)
  = map (pair false) (filter nz (flat_map rc_v6 certs)).
Proof.
  induction certs as [|c t IH]; cbn [flat_map]; [reflexivity|].
  unfold extend_from_cert at 1. rewrite !filter_app, IH, filter_nfst_pair, filter_nfst_pair, map_app.
  reflexivity.
Qed.

(* the overlap test of the code is the declarative [unsafe] *)
Lemma keep_prefix_unsafe i p : keep_prefix (rejected_of i) p = negb (unsafe i p).
Proof.
  unfold keep_prefix, rejected_of, finalize, unsafe, rejected_blocks. f_equal.
  destruct (p_v4 p); cbn [rj_v4 rj_v6].
  - rewrite filter_fst_extend, map_map, existsb_map. cbn [snd]. reflexivity.
  - rewrite filter_nfst_extend, map_map, existsb_map. cbn [snd]. reflexivity.
Qed.

Lemma origin_keep_served i o :
  too_long i o = false ->
  origin_keep (i_cfg i) (rejected_of i) (i_slurm i) o = origin_served i o.
Proof.
  intros W. unfold origin_keep, origin_served. rewrite W, keep_prefix_unsafe, negb_involutive. cbn [negb andb].
  rewrite (andb_comm (unsafe i (o_pfx o))). reflexivity.
Qed.

(* ---- C09, route origins ------------------------------------------------------ *)
Lemma origins_exact i o : In o (s_origins (run i)) <-> In o (expected_origins i).
Proof.
  rewrite run_origins, fold_set_add_is_ostep.
  rewrite (fold_ostep_In origin_eqb origin_eqb_eq), (fold_ostep_In origin_eqb origin_eqb_eq).
  unfold expected_origins. rewrite in_app_iff, filter_In. cbn [In]. split.
  - intros [[[]|(o' & H & E)]|(o' & H & E)].
    + unfold okeep in E. destruct (origin_keep _ _ _ o') eqn:K; [|discriminate]. inversion E; subst o'.
      apply collected_origins_In in H as [H W]. left. split; [exact H|].
      rewrite <- origin_keep_served by exact W. exact K.
    + inversion E; subst. right; exact H.
  - intros [[H K]|H].
    + left. right. exists o. assert (W : too_long i o = false).
      { unfold origin_served in K. destruct (too_long i o); [discriminate | reflexivity]. }
      split; [apply collected_origins_In; auto|]. unfold okeep. rewrite origin_keep_served by exact W.
      rewrite K. reflexivity.
    + right. exists o. auto.
Qed.

Lemma origins_nodup i : NoDup (s_origins (run i)).
Proof.
  rewrite run_origins, fold_set_add_is_ostep.
  apply (fold_ostep_NoDup origin_eqb origin_eqb_eq), (fold_ostep_NoDup origin_eqb origin_eqb_eq). constructor.
Qed.

(* the composition spelled out *)
Lemma expected_origins_In i o :
  In o (expected_origins i) <->
  (In o (validated_origins i) /\ too_long i o = false
   /\ (cf_policy (i_cfg i) = Reject -> unsafe i (o_pfx o) = false)
   /\ drop_origin (i_slurm i) o = false)
  \/ In o (sl_origins (i_slurm i)).
Proof.
  unfold expected_origins. rewrite in_app_iff, filter_In. unfold origin_served.
  rewrite !andb_true_iff, !negb_true_iff, andb_false_iff.
  split; (intros [H|H]; [left|right; exact H]).
  - destruct H as (H & (W & U) & D). repeat split; try assumption.
    intros P. destruct U as [U|U]; [rewrite P in U; discriminate | exact U].
  - destruct H as (H & W & U & D). repeat split; try assumption.
    destruct (cf_policy (i_cfg i)); cbn [is_reject]; auto.
Qed.

(* ---- C09, router keys ---------------------------------------------------------- *)
Lemma keys_exact i k : In k (s_keys (run i)) <-> In k (expected_keys i).
Proof.
  rewrite run_keys, fold_set_add_is_ostep.
  rewrite (fold_ostep_In rkey_eqb rkey_eqb_eq), (fold_ostep_In rkey_eqb rkey_eqb_eq), collected_keys.
  unfold expected_keys. rewrite in_app_iff, filter_In. cbn [In]. unfold kkeep. split.
  - intros [[[]|(k' & H & E)]|(k' & H & E)].
    + destruct (drop_key (i_slurm i) k') eqn:D; [discriminate|]. inversion E; subst k'.
      left. split; [exact H | rewrite D; reflexivity].
    + inversion E; subst. right; exact H.
  - intros [[H D]|H].
    + left. right. exists k. split; [exact H|]. apply negb_true_iff in D. rewrite D. reflexivity.
    + right. exists k. auto.
Qed.

Lemma keys_nodup i : NoDup (s_keys (run i)).
Proof.
  rewrite run_keys, fold_set_add_is_ostep.
  apply (fold_ostep_NoDup rkey_eqb rkey_eqb_eq), (fold_ostep_NoDup rkey_eqb rkey_eqb_eq). constructor.
Qed.

Lemma nrange_In lo hi x : In x (nrange lo hi) <-> lo <= x <= hi.
Proof.
  unfold nrange. rewrite in_map_iff. split.
  - intros (n & <- & H). apply in_seq in H. lia.
  - intros H. exists (N.to_nat (x - lo)). split; [lia|]. apply in_seq. lia.
Qed.

Lemma validated_keys_In i k :
  In k (validated_keys i) <->
  cf_bgpsec (i_cfg i) = true /\
  exists pp pk b, In pp (i_points i) /\ In pk (pp_keys pp) /\ In b (pk_asns pk) /\ fst b <= k_asn k <= snd b
                  /\ k_ski k = pk_ski pk /\ k_info k = pk_info pk.
Proof.
  unfold validated_keys. destruct (cf_bgpsec (i_cfg i)).
  - rewrite in_flat_map. split.
    + intros (pp & Hpp & H). apply in_flat_map in H as (pk & Hpk & H). unfold keys_of in H.
      apply in_map_iff in H as (asn & <- & H). unfold iter_asns in H. apply in_flat_map in H as (b & Hb & H).
      apply nrange_In in H. split; [reflexivity|]. exists pp, pk, b. cbn [k_asn k_ski k_info]. repeat split; auto; lia.
    + intros (_ & pp & pk & b & Hpp & Hpk & Hb & Hr & Hs & Hi). exists pp. split; [exact Hpp|].
      apply in_flat_map. exists pk. split; [exact Hpk|]. unfold keys_of. apply in_map_iff. exists (k_asn k). split.
      * destruct k as [s a n]; cbn in Hs, Hi |- *; subst; reflexivity.
      * unfold iter_asns. apply in_flat_map. exists b. split; [exact Hb | apply nrange_In; exact Hr].
  - split; [intros [] | intros [E _]; discriminate].
Qed.

(* ---- sorted unions ---------------------------------------------------------------- *)
Fixpoint ssorted (l : list N) : Prop :=
  match l with [] => True | x :: t => (forall y, In y t -> x < y) /\ ssorted t end.

Lemma ssortedb_spec l : ssortedb l = true <-> ssorted l.
Proof.
  induction l as [|x t IH]; cbn [ssortedb ssorted]; [tauto|].
  destruct t as [|y t'].
  - split; [intros _; split; [intros ? []|exact I] | reflexivity].
  - rewrite andb_true_iff, N.ltb_lt, IH. cbn [ssorted]. split.
    + intros [H1 [H2 H3]]. split; [|auto]. intros z [<-|Hz]; [exact H1|]. specialize (H2 z Hz). lia.
    + intros [H1 H2]. split; [apply H1; left; reflexivity | exact H2].
Qed.

Lemma sunion_nil_r a : sunion a [] = a.
Proof. destruct a; reflexivity. Qed.

Lemma sunion_cons x a y b :
  sunion (x :: a) (y :: b) =
  match x ?= y with
  | Lt => x :: sunion a (y :: b)
  | Eq => y :: sunion a b
  | Gt => y :: sunion (x :: a) b
  end.
Proof. reflexivity. Qed.

Lemma sunion_In z a : forall b, In z (sunion a b) <-> In z a \/ In z b.
Proof.
  induction a as [|x a IHa]; intros b.
  - cbn [sunion In]. tauto.
  - induction b as [|y b IHb].
    + rewrite sunion_nil_r. cbn [In]. tauto.
    + rewrite sunion_cons. destruct (N.compare_spec x y) as [E|L|G]; cbn [In].
      * subst y. rewrite IHa. tauto.
      * rewrite IHa. cbn [In]. tauto.
      * rewrite IHb. cbn [In]. tauto.
Qed.

Lemma sunion_sorted a : forall b, ssorted a -> ssorted b -> ssorted (sunion a b).
Proof.
  induction a as [|x a IHa]; intros b Ha Hb.
  - exact Hb.
  - induction b as [|y b IHb].
    + rewrite sunion_nil_r. exact Ha.
    + rewrite sunion_cons. cbn [ssorted] in Ha, Hb. destruct Ha as [Ha1 Ha2], Hb as [Hb1 Hb2].
      destruct (N.compare_spec x y) as [E|L|G]; cbn [ssorted].
      * subst y. split; [|apply IHa; assumption].
        intros z Hz. apply sunion_In in Hz as [Hz|Hz]; auto.
      * split; [|apply IHa; [assumption | cbn [ssorted]; auto]].
        intros z Hz. apply sunion_In in Hz as [Hz|[<-|Hz]]; auto. specialize (Hb1 z Hz). lia.
      * split; [|apply IHb; assumption].
        intros z Hz. apply sunion_In in Hz as [[<-|Hz]|Hz]; auto. specialize (Ha1 z Hz). lia.
Qed.

Lemma fold_sunion_In z ls : forall acc,
  In z (fold_left sunion ls acc) <-> In z acc \/ exists l, In l ls /\ In z l.
Proof.
  induction ls as [|l t IH]; intros acc; cbn [fold_left].
  - split; [auto | intros [H|(l & [] & _)]; exact H].
  - rewrite IH, sunion_In. split.
    + intros [[H|H]|(l' & H & Hz)]; [auto | right; exists l; cbn [In]; auto | right; exists l'; cbn [In]; auto].
    + intros [H|(l' & [<-|H] & Hz)]; [auto | auto | right; exists l'; auto].
Qed.

Lemma fold_sunion_sorted ls : forall acc,
  ssorted acc -> (forall l, In l ls -> ssorted l) -> ssorted (fold_left sunion ls acc).
Proof.
  induction ls as [|l t IH]; intros acc Ha Hl; cbn [fold_left]; [exact Ha|].
  apply IH; [apply sunion_sorted; [exact Ha | apply Hl; left; reflexivity] | intros l' H; apply Hl; right; exact H].
Qed.

(* ---- the ASPA map -------------------------------------------------------------------- *)
(* what customer [c] accumulates over a sequence of objects *)
Definition acc1 (c : N) (acc : option (list N)) (a : pubaspa) : option (list N) :=
  if a_cust a =? c then Some (match acc with None => a_provs a | Some old => sunion old (a_provs a) end) else acc.

Lemma astep_sorted m a : ksorted m -> ksorted (astep m a).
Proof. intros H. unfold astep. destruct (lookup (a_cust a) m); apply kinsert_sorted; exact H. Qed.

Lemma astep_lookup c m a : ksorted m -> lookup c (astep m a) = acc1 c (lookup c m) a.
Proof.
  intros H. unfold astep, acc1. rewrite (N.eqb_sym (a_cust a) c).
  destruct (lookup (a_cust a) m) eqn:L; rewrite kinsert_lookup by exact H;
    destruct (N.eqb_spec c (a_cust a)) as [->|Hne]; try rewrite L; reflexivity.
Qed.

Lemma fold_astep objs : forall m, ksorted m ->
  ksorted (fold_left astep objs m) /\
  forall c, lookup c (fold_left astep objs m) = fold_left (acc1 c) objs (lookup c m).
Proof.
  induction objs as [|a t IH]; intros m H; cbn [fold_left]; [split; [exact H | reflexivity]|].
  destruct (IH (astep m a) (astep_sorted m a H)) as [S L]. split; [exact S|].
  intros c. rewrite L, astep_lookup by exact H. reflexivity.
Qed.

Definition objs_of (c : N) (objs : list pubaspa) : list pubaspa := filter (fun a => a_cust a =? c) objs.

Lemma acc_some c objs : forall l,
  fold_left (acc1 c) objs (Some l) = Some (fold_left sunion (map a_provs (objs_of c objs)) l).
Proof.
  induction objs as [|a t IH]; intros l; cbn [fold_left objs_of filter map]; [reflexivity|].
  unfold acc1 at 2. fold (objs_of c t). destruct (a_cust a =? c); cbn [map fold_left]; apply IH.
Qed.

Lemma acc_none c objs :
  fold_left (acc1 c) objs None =
  match objs_of c objs with [] => None | _ => Some (fold_left sunion (map a_provs (objs_of c objs)) []) end.
Proof.
  induction objs as [|a t IH]; cbn [fold_left objs_of filter]; [reflexivity|].
  unfold acc1 at 2. fold (objs_of c t). destruct (a_cust a =? c).
  - rewrite acc_some. cbn [map fold_left sunion]. reflexivity.
  - exact IH.
Qed.

Lemma objs_of_nil c objs : objs_of c objs = [] <-> mem N.eqb c (map a_cust objs) = false.
Proof.
  unfold objs_of, mem. rewrite existsb_map. induction objs as [|a t IH]; cbn [filter existsb]; [tauto|].
  rewrite (N.eqb_sym c (a_cust a)). destruct (a_cust a =? c); cbn [orb]; [split; discriminate | exact IH].
Qed.

Lemma lookup_filter {V} (p : V -> bool) c (m : list (N * V)) : ksorted m ->
  lookup c (filter (fun x => p (snd x)) m) =
  match lookup c m with Some v => if p v then Some v else None | None => None end.
Proof.
  induction m as [|[k v] t IH]; intros H; cbn [filter lookup]; [reflexivity|].
  cbn [ksorted] in H. destruct H as [Hl Hs]. cbn [snd].
  destruct (N.eqb_spec c k) as [->|Hne].
  - destruct (p v); cbn [lookup]; [rewrite N.eqb_refl; reflexivity|].
    rewrite IH by exact Hs. rewrite (lookup_lb _ _ Hl). reflexivity.
  - destruct (p v); cbn [lookup]; [destruct (N.eqb_spec c k); [contradiction|]|]; apply IH; exact Hs.
Qed.

Lemma filter_ksorted {V} (p : N * V -> bool) (m : list (N * V)) : ksorted m -> ksorted (filter p m).
Proof.
  induction m as [|[k v] t IH]; intros H; cbn [filter]; [exact I|].
  cbn [ksorted] in H. destruct H as [Hl Hs]. destruct (p (k, v)); [|apply IH; exact Hs].
  cbn [ksorted]. split; [|apply IH; exact Hs]. intros k' v' Hin. apply filter_In in Hin as [Hin _]. exact (Hl _ _ Hin).
Qed.

(* ---- C09, ASPAs ------------------------------------------------------------------------ *)
Lemma aspas_sorted i : ksorted (s_aspas (run i)).
Proof.
  rewrite run_aspas. apply filter_ksorted. apply (fold_astep _ []). exact I.
Qed.

Lemma aspas_exact i c :
  lookup c (s_aspas (run i)) =
  if mem N.eqb c (map a_cust (aspa_objects i)) && providers_fit (provider_union i c)
  then Some (provider_union i c) else None.
Proof.
  rewrite run_aspas, collected_aspas.
  destruct (fold_astep (aspa_objects i) [] I) as [S L].
  rewrite lookup_filter by exact S. rewrite L. cbn [lookup]. rewrite acc_none.
  unfold provider_union. fold (objs_of c (aspa_objects i)).
  destruct (objs_of c (aspa_objects i)) eqn:E.
  - apply objs_of_nil in E. rewrite E. reflexivity.
  - assert (M : mem N.eqb c (map a_cust (aspa_objects i)) = true).
    { destruct (mem N.eqb c (map a_cust (aspa_objects i))) eqn:M; [reflexivity|].
      apply objs_of_nil in M. congruence. }
    rewrite M. cbn [andb]. reflexivity.
Qed.

(* the provider union is the sorted union of the provider sets of the customer's objects *)
Lemma provider_union_In i c p :
  In p (provider_union i c) <-> exists a, In a (aspa_objects i) /\ a_cust a = c /\ In p (a_provs a).
Proof.
  unfold provider_union. rewrite fold_sunion_In. cbn [In]. split.
  - intros [[]|(l & Hl & Hp)]. apply in_map_iff in Hl as (a & <- & Ha). apply filter_In in Ha as [Ha E].
    apply N.eqb_eq in E. exists a. auto.
  - intros (a & Ha & E & Hp). right. exists (a_provs a). split; [|exact Hp].
    apply in_map_iff. exists a. split; [reflexivity|]. apply filter_In. split; [exact Ha | apply N.eqb_eq; exact E].
Qed.

Lemma provider_union_sorted i c :
  (forall a, In a (aspa_objects i) -> ssorted (a_provs a)) -> ssorted (provider_union i c).
Proof.
  intros H. unfold provider_union. apply fold_sunion_sorted; [exact I|].
  intros l Hl. apply in_map_iff in Hl as (a & <- & Ha). apply filter_In in Ha as [Ha _]. apply H; exact Ha.
Qed.

(* ---- the oracle holds of the model ------------------------------------------------------ *)
Lemma mem_map_fst_lookup {V} c (l : list (N * V)) :
  mem N.eqb c (map fst l) = match lookup c l with Some _ => true | None => false end.
Proof.
  unfold mem. induction l as [|[k v] t IH]; cbn [map existsb lookup fst]; [reflexivity|].
  destruct (c =? k); cbn [orb]; [reflexivity | exact IH].
Qed.

Lemma nlist_eqb_refl l : nlist_eqb l l = true.
Proof. induction l as [|x t IH]; cbn [nlist_eqb]; [reflexivity|]. rewrite N.eqb_refl, IH. reflexivity. Qed.

Lemma aspas_ok_model i : aspas_ok i (s_aspas (run i)) = true.
Proof.
  unfold aspas_ok. rewrite !andb_true_iff. split; [split|].
  - apply ksortedb_spec, aspas_sorted.
  - apply forallb_forall. intros [c ps] Hin. cbn [fst snd].
    pose proof (In_lookup _ _ _ (aspas_sorted i) Hin) as L. rewrite aspas_exact in L.
    destruct (mem N.eqb c (map a_cust (aspa_objects i))); [|discriminate].
    destruct (providers_fit (provider_union i c)) eqn:F; [|discriminate].
    cbn [andb] in L. inversion L; subst ps. rewrite nlist_eqb_refl, F. reflexivity.
  - apply forallb_forall. intros c Hc. rewrite mem_map_fst_lookup, aspas_exact.
    assert (M : mem N.eqb c (map a_cust (aspa_objects i)) = true) by (apply (mem_In N.eqb N.eqb_eq); exact Hc).
    rewrite M. cbn [andb]. destruct (providers_fit (provider_union i c)); reflexivity.
Qed.

Theorem model_satisfies_spec i : spec_okb i (model_obs i) = true.
Proof.
  unfold spec_okb, model_obs. cbn [ob_panic ob_sorted ob_snap negb andb].
  rewrite (same_set_once_intro origin_eqb origin_eqb_eq _ _ (origins_nodup i) (origins_exact i)).
  rewrite (same_set_once_intro rkey_eqb rkey_eqb_eq _ _ (keys_nodup i) (keys_exact i)).
  rewrite aspas_ok_model. reflexivity.
Qed.
