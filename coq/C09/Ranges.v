(* C09 / C08: what the overlap test and the SLURM prefix test mean in terms
   of address ranges. *)
From Coq Require Import List NArith Bool Lia.
From RV Require Import C09.Model C09.Spec.
Import ListNotations.
Local Open Scope N_scope.

(* two non-empty closed ranges intersect iff they have an address in common *)
Lemma intersects_common a b : fst a <= snd a -> fst b <= snd b ->
  (intersects a b = true <-> exists x, fst a <= x <= snd a /\ fst b <= x <= snd b).
Proof.
  intros Ha Hb. unfold intersects. rewrite andb_true_iff, !N.leb_le. split.
  - intros [H1 H2]. exists (N.max (fst a) (fst b)). lia.
  - intros (x & H1 & H2). lia.
Qed.

Lemma intersects_sym a b : intersects a b = intersects b a.
Proof. unfold intersects. apply andb_comm. Qed.

Definition wf_pfx (p : pfx) : Prop := wf_pfxb p = true.

Lemma wf_pfx_inv p : wf_pfx p ->
  p_len p <= width (p_v4 p) /\ p_addr p < 2 ^ width (p_v4 p) /\ p_addr p mod pfx_size p = 0.
Proof.
  unfold wf_pfx, wf_pfxb. rewrite !andb_true_iff, N.leb_le, N.ltb_lt, N.eqb_eq. tauto.
Qed.

Lemma pfx_size_pos p : 0 < pfx_size p.
Proof. unfold pfx_size. apply N.neq_0_lt_0, N.pow_nonzero. discriminate. Qed.

Lemma pfx_lo_le_hi p : pfx_lo p <= pfx_hi p.
Proof. unfold pfx_lo, pfx_hi. pose proof (pfx_size_pos p). lia. Qed.

(* a prefix covers another one iff the other's address range lies inside its own *)
Lemma covers_range a b : wf_pfx a -> wf_pfx b -> p_v4 a = p_v4 b ->
  (covers a b = true <-> pfx_lo a <= pfx_lo b /\ pfx_hi b <= pfx_hi a).
Proof.
  intros Wa Wb V. destruct (wf_pfx_inv a Wa) as (La & _ & Ma). destruct (wf_pfx_inv b Wb) as (Lb & _ & Mb).
  unfold covers, pfx_lo, pfx_hi. rewrite V, eqb_reflx. cbn [andb].
  rewrite andb_true_iff, N.leb_le, N.eqb_eq.
  pose proof (pfx_size_pos a) as Pa. pose proof (pfx_size_pos b) as Pb.
  set (S := pfx_size a) in *. set (s := pfx_size b) in *.
  set (A := p_addr a) in *. set (B := p_addr b) in *.
  assert (Sne : S <> 0) by lia. assert (sne : s <> 0) by lia.
  assert (EA : A = S * (A / S)).
  { pose proof (N.div_mod A S Sne) as H. rewrite Ma, N.add_0_r in H. exact H. }
  assert (EB : B = s * (B / s)).
  { pose proof (N.div_mod B s sne) as H. rewrite Mb, N.add_0_r in H. exact H. }
  split.
  - intros [Hl HA].
    assert (HS : S = s * 2 ^ (p_len b - p_len a)).
    { unfold S, s, pfx_size. rewrite V, <- N.pow_add_r. f_equal. rewrite V in La. lia. }
    pose proof (N.div_mod B S Sne) as DB. pose proof (N.mod_lt B S Sne) as MB.
    set (k := 2 ^ (p_len b - p_len a)) in *. set (q := A / S) in *. set (m := B / s) in *.
    set (d := B / S) in *. set (r := B mod S) in *.
    assert (AB : A <= B) by nia.
    split; [exact AB|].
    assert (B < A + S) by nia.
    assert (s * m < s * (k * q + k)) by nia.
    assert (m < k * q + k) by (apply (N.mul_lt_mono_pos_l s); assumption).
    assert (s * (m + 1) <= s * (k * q + k)) by (apply N.mul_le_mono_l; lia).
    nia.
  - intros [AB HI].
    assert (sS : s <= S) by lia.
    assert (Hl : p_len a <= p_len b).
    { unfold s, S, pfx_size in sS. rewrite V in sS. apply N.pow_le_mono_r_iff in sS; [|lia]. rewrite V in La. lia. }
    split; [exact Hl|].
    assert (BS : B < A + S) by lia.
    assert (Q : B / S = A / S).
    { symmetry. apply (N.div_unique B S (A / S) (B - A)); [lia|]. rewrite <- EA. lia. }
    rewrite Q, N.mul_comm. exact EA.
Qed.

(* a prefix overlaps a range iff they share an address *)
Lemma block_range_wf v b : wf_blockb v b = true -> fst (block_range v b) <= snd (block_range v b).
Proof.
  destruct b as [a l|lo hi]; cbn [wf_blockb block_range fst snd].
  - intros _. assert (0 < 2 ^ (width v - l)) by (apply N.neq_0_lt_0, N.pow_nonzero; discriminate). lia.
  - rewrite andb_true_iff, N.leb_le. tauto.
Qed.
