(* C09 / C08 — composition of the served data set.  Executable model, no proofs.

   Transcribed from /repo src/payload/validation.rs
     PubPoint::add_roa                          -> [add_roa]
     PubPointProcessor::process_router_cert /
       process_aspa (feature toggles)           -> [collect]
     RejectedResourcesBuilder::extend_from_cert -> [extend_from_cert]
     RejectedResourcesBuilder::finalize         -> [finalize]
     RejectedResources::keep_prefix             -> [keep_prefix]
     SnapshotBuilder::process_origin            -> [process_origin]
     SnapshotBuilder::process_key               -> [process_key]
     SnapshotBuilder::process_aspa              -> [process_aspa]
     SnapshotBuilder::process_pub_point         -> [process_pub_point]
     SnapshotBuilder::insert_assertions         -> [insert_assertions]
     SnapshotBuilder::into_snapshot             -> [into_snapshot]
     ValidationReport::into_snapshot            -> [run]
   and src/slurm.rs LocalExceptions::drop_origin / drop_router_key.
   External (rpki 0.19.3), modelled here and validated by their own
   correspondence streams:
     slurm.rs PrefixFilter::drop_origin, BgpsecFilter::drop_router_key,
     resources/addr.rs Prefix::covers           -> [pfilter_drop] [kfilter_drop] [covers]
     repository/resources IpBlocksBuilder::finalize + IpBlocks::intersects_block,
     IpBlock::is_slash_zero                     -> [finalize] [keep_prefix] [is_slash_zero]
     repository/roa.rs RouteOriginAttestation::iter_origins -> [roa_origins]
     resources/asn.rs SmallAsnSet::union        -> [sunion]
     rtr/pdu.rs ProviderAsns::try_from_iter     -> [providers_fit]

   Addresses are numbers in the natural width of their family (32 / 128
   bits); the implementation keeps both families left-aligned in a u128 with
   the maximum of an IPv4 block padded with ones, which is an
   order-preserving embedding.  A HashMap is a duplicate-free list (origins,
   router keys) or an association list sorted by key (ASPAs by customer):
   the snapshot sorts, so iteration order is not observable. *)
From Coq Require Import List NArith Bool.
From RV Require Import Base.KMap.
Import ListNotations.
Local Open Scope N_scope.

(* ---- prefixes --------------------------------------------------------- *)
Definition width (v4 : bool) : N := if v4 then 32 else 128.

Record pfx := { p_v4 : bool; p_addr : N; p_len : N }.

Definition pfx_eqb (a b : pfx) : bool :=
  Bool.eqb (p_v4 a) (p_v4 b) && (p_addr a =? p_addr b) && (p_len a =? p_len b).

(* number of addresses, first and last address of a prefix *)
Definition pfx_size (p : pfx) : N := 2 ^ (width (p_v4 p) - p_len p).
Definition pfx_lo (p : pfx) : N := p_addr p.
Definition pfx_hi (p : pfx) : N := p_addr p + pfx_size p - 1.

(* rpki Prefix::covers(self, other): same family, self not longer, and other
   starts with the bits of self (other truncated to self's length is self) *)
Definition covers (self other : pfx) : bool :=
  Bool.eqb (p_v4 self) (p_v4 other)
  && (p_len self <=? p_len other)
  && (p_addr self =? (p_addr other / pfx_size self) * pfx_size self).

(* ---- payload items ---------------------------------------------------- *)
(* RouteOrigin; Eq/Hash use prefix, resolved_max_len and asn, so the
   max-len is kept resolved *)
Record origin := { o_pfx : pfx; o_ml : N; o_asn : N }.
Definition origin_eqb (a b : origin) : bool :=
  pfx_eqb (o_pfx a) (o_pfx b) && (o_ml a =? o_ml b) && (o_asn a =? o_asn b).

(* RouterKey { key_identifier, asn, key_info } (byte strings as numbers) *)
Record rkey := { k_ski : N; k_asn : N; k_info : N }.
Definition rkey_eqb (a b : rkey) : bool :=
  (k_ski a =? k_ski b) && (k_asn a =? k_asn b) && (k_info a =? k_info b).

(* ---- published objects ------------------------------------------------ *)
Record roa_entry := { e_pfx : pfx; e_ml : option N }.
Record roa := { r_asn : N; r_entries : list roa_entry }.

(* one element of iter_origins: Prefix::new fails if the length exceeds the
   family's, MaxLenPrefix::new fails on Overflow / Underflow; failures are
   skipped (filter_map .. .ok()) *)
Definition entry_origin (asn : N) (e : roa_entry) : option origin :=
  let p := e_pfx e in
  let w := width (p_v4 p) in
  if w <? p_len p then None
  else match e_ml e with
       | None => Some {| o_pfx := p; o_ml := p_len p; o_asn := asn |}
       | Some m => if (w <? m) || (m <? p_len p) then None
                   else Some {| o_pfx := p; o_ml := m; o_asn := asn |}
       end.

Fixpoint filter_map {A B} (f : A -> option B) (l : list A) : list B :=
  match l with
  | [] => []
  | x :: t => match f x with Some y => y :: filter_map f t | None => filter_map f t end
  end.

(* iter_origins: the IPv4 addresses, then the IPv6 addresses *)
Definition roa_origins (r : roa) : list origin :=
  filter_map (entry_origin (r_asn r)) (filter (fun e => p_v4 (e_pfx e)) (r_entries r))
  ++ filter_map (entry_origin (r_asn r)) (filter (fun e => negb (p_v4 (e_pfx e))) (r_entries r)).

(* PubPoint::add_roa: `if origin.prefix.prefix().len() > limit { continue }` *)
Definition within_limit (lim4 lim6 : option N) (o : origin) : bool :=
  match (if p_v4 (o_pfx o) then lim4 else lim6) with
  | Some l => negb (l <? p_len (o_pfx o))
  | None => true
  end.
Definition add_roa (lim4 lim6 : option N) (r : roa) : list origin :=
  filter (within_limit lim4 lim6) (roa_origins r).

(* PubRouterKey: the AS blocks of the router certificate, key id, key *)
Record pubkey := { pk_asns : list (N * N); pk_ski : N; pk_info : N }.
(* PubAspa *)
Record pubaspa := { a_cust : N; a_provs : list N }.

(* what a publication point publishes (valid objects) *)
Record pubpoint := { pp_roas : list roa; pp_keys : list pubkey; pp_aspas : list pubaspa }.

Inductive policy := Accept | Warn | Reject.
Record config := {
  cf_policy : policy;            (* unsafe_vrps *)
  cf_lim4 : option N;            (* limit_v4_len *)
  cf_lim6 : option N;            (* limit_v6_len *)
  cf_bgpsec : bool;              (* enable_bgpsec *)
  cf_aspa : bool }.              (* enable_aspa *)

(* PubPoint as pushed to ValidationReport::pub_points: process_roa -> add_roa;
   process_router_cert returns early if !enable_bgpsec; process_aspa returns
   early if !enable_aspa *)
Record point := { pt_origins : list origin; pt_keys : list pubkey; pt_aspas : list pubaspa }.
Definition collect (cf : config) (pp : pubpoint) : point :=
  {| pt_origins := flat_map (add_roa (cf_lim4 cf) (cf_lim6 cf)) (pp_roas pp);
     pt_keys := if cf_bgpsec cf then pp_keys pp else [];
     pt_aspas := if cf_aspa cf then pp_aspas pp else [] |}.

(* ---- rejected resources ----------------------------------------------- *)
(* IpBlock::Prefix / IpBlock::Range within one family *)
Inductive block := BPrefix (addr len : N) | BRange (lo hi : N).
(* the IPv4 and IPv6 resources of a rejected CA certificate *)
Record rcert := { rc_v4 : list block; rc_v6 : list block }.

(* IpBlock::is_slash_zero: self is IpBlock::Prefix(prefix) with prefix.len == 0 *)
Definition is_slash_zero (b : block) : bool :=
  match b with BPrefix _ l => l =? 0 | BRange _ _ => false end.

(* (min, max) of a block *)
Definition block_range (v4 : bool) (b : block) : N * N :=
  match b with
  | BPrefix a l => (a, a + 2 ^ (width v4 - l) - 1)
  | BRange lo hi => (lo, hi)
  end.

(* extend_from_cert: pushes (is_v4, block) for every block that is not /0 *)
Definition extend_from_cert (c : rcert) : list (bool * block) :=
  map (pair true) (filter (fun b => negb (is_slash_zero b)) (rc_v4 c))
  ++ map (pair false) (filter (fun b => negb (is_slash_zero b)) (rc_v6 c)).

(* RejectedResources { v4, v6 }: the union of the pushed blocks per family.
   IpBlocksBuilder::finalize normalises (sorts, merges); only
   intersects_block is ever asked, which cannot tell the difference *)
Record rejected := { rj_v4 : list (N * N); rj_v6 : list (N * N) }.
Definition finalize (q : list (bool * block)) : rejected :=
  {| rj_v4 := map (fun x => block_range true (snd x)) (filter (fun x => fst x) q);
     rj_v6 := map (fun x => block_range false (snd x)) (filter (fun x => negb (fst x)) q) |}.

(* Block::intersects: self.min() <= other.max() && self.max() >= other.min() *)
Definition intersects (a b : N * N) : bool := (fst a <=? snd b) && (fst b <=? snd a).

(* keep_prefix: !self.v4.intersects_block(raw) / !self.v6.intersects_block(raw) *)
Definition keep_prefix (rj : rejected) (p : pfx) : bool :=
  negb (existsb (fun r => intersects r (pfx_lo p, pfx_hi p)) (if p_v4 p then rj_v4 rj else rj_v6 rj)).

(* ---- local exceptions (SLURM) ----------------------------------------- *)
Record pfilter := { pf_pfx : option pfx; pf_asn : option N }.
Record kfilter := { kf_ski : option N; kf_asn : option N }.
Record slurm := {
  sl_pfilters : list pfilter;
  sl_kfilters : list kfilter;
  sl_origins : list origin;      (* prefix assertions *)
  sl_keys : list rkey }.         (* bgpsec assertions *)

(* the `match (drop_x, drop_asn)` of both filter types *)
Definition opt_both (a b : option bool) : bool :=
  match a, b with
  | Some x, Some y => x && y
  | Some x, None => x
  | None, Some y => y
  | None, None => false
  end.

Definition pfilter_drop (f : pfilter) (o : origin) : bool :=
  opt_both (option_map (fun p => covers p (o_pfx o)) (pf_pfx f))
           (option_map (fun a => a =? o_asn o) (pf_asn f)).
Definition kfilter_drop (f : kfilter) (k : rkey) : bool :=
  opt_both (option_map (fun s => s =? k_ski k) (kf_ski f))
           (option_map (fun a => a =? k_asn k) (kf_asn f)).

(* LocalExceptions::drop_origin / drop_router_key: any filter matches *)
Definition drop_origin (s : slurm) (o : origin) : bool := existsb (fun f => pfilter_drop f o) (sl_pfilters s).
Definition drop_key (s : slurm) (k : rkey) : bool := existsb (fun f => kfilter_drop f k) (sl_kfilters s).

(* ---- SnapshotBuilder -------------------------------------------------- *)
(* HashMap::entry: Vacant -> insert, Occupied -> only the info changes *)
Definition set_add {A} (eqb : A -> A -> bool) (x : A) (l : list A) : list A :=
  if existsb (eqb x) l then l else x :: l.

(* SmallAsnSet::union (SmallSetUnion::next): merge of two ordered lists *)
Fixpoint sunion (a : list N) : list N -> list N :=
  match a with
  | [] => fun b => b
  | x :: a' =>
      fix aux (b : list N) : list N :=
        match b with
        | [] => x :: a'
        | y :: b' =>
            match x ?= y with
            | Lt => x :: sunion a' (y :: b')
            | Eq => y :: sunion a' b'
            | Gt => y :: aux b'
            end
        end
  end.

Record builder := { b_origins : list origin; b_keys : list rkey; b_aspas : list (N * list N) }.

Definition is_reject (p : policy) : bool := match p with Reject => true | _ => false end.

Definition process_origin (cf : config) (rj : rejected) (sl : slurm) (b : builder) (o : origin) : builder :=
  let continue :=
    (* Is the origin to be filtered locally? *)
    if drop_origin sl o then b
    else {| b_origins := set_add origin_eqb o (b_origins b); b_keys := b_keys b; b_aspas := b_aspas b |} in
  (* Is the prefix in the rejected resources? *)
  if negb (keep_prefix rj (o_pfx o)) then
    match cf_policy cf with
    | Accept => continue
    | Warn => continue
    | Reject => b             (* return *)
    end
  else continue.

(* AsBlocks::iter_asns *)
Definition nrange (lo hi : N) : list N :=
  map (fun i => lo + N.of_nat i) (seq 0 (N.to_nat (hi + 1 - lo))).
Definition iter_asns (blocks : list (N * N)) : list N :=
  flat_map (fun b => nrange (fst b) (snd b)) blocks.

Definition key_step (sl : slurm) (ski info : N) (ks : list rkey) (asn : N) : list rkey :=
  let k := {| k_ski := ski; k_asn := asn; k_info := info |} in
  if drop_key sl k then ks (* continue *) else set_add rkey_eqb k ks.

Definition process_key (sl : slurm) (b : builder) (pk : pubkey) : builder :=
  {| b_origins := b_origins b;
     b_keys := fold_left (key_step sl (pk_ski pk) (pk_info pk)) (iter_asns (pk_asns pk)) (b_keys b);
     b_aspas := b_aspas b |}.

Definition process_aspa (b : builder) (a : pubaspa) : builder :=
  {| b_origins := b_origins b;
     b_keys := b_keys b;
     b_aspas :=
       match lookup (a_cust a) (b_aspas b) with
       | None => kinsert (a_cust a) (a_provs a) (b_aspas b)
       | Some old => kinsert (a_cust a) (sunion old (a_provs a)) (b_aspas b)
       end |}.

Definition process_pub_point (cf : config) (rj : rejected) (sl : slurm) (b : builder) (pt : point) : builder :=
  let b1 := fold_left (process_origin cf rj sl) (pt_origins pt) b in
  let b2 := fold_left (process_key sl) (pt_keys pt) b1 in
  fold_left process_aspa (pt_aspas pt) b2.

Definition insert_assertions (sl : slurm) (b : builder) : builder :=
  {| b_origins := fold_left (fun l o => set_add origin_eqb o l) (sl_origins sl) (b_origins b);
     b_keys := fold_left (fun l k => set_add rkey_eqb k l) (sl_keys sl) (b_keys b);
     b_aspas := b_aspas b (* XXX ASPA assertions. *) |}.

(* ProviderAsns::MAX_COUNT; try_from_iter fails iff there are more items *)
Definition MAX_COUNT : N := 16380.
Definition providers_fit (ps : list N) : bool := N.of_nat (length ps) <=? MAX_COUNT.

(* PayloadSnapshot: origins, router keys, ASPAs (customer, providers) *)
Record snap := { s_origins : list origin; s_keys : list rkey; s_aspas : list (N * list N) }.

Definition into_snapshot (b : builder) : snap :=
  {| s_origins := b_origins b;
     s_keys := b_keys b;
     s_aspas := filter (fun x => providers_fit (snd x)) (b_aspas b) |}.

Record input := {
  i_cfg : config;
  i_rejected : list rcert;       (* CAs whose publication point was rejected *)
  i_points : list pubpoint;      (* valid publication points *)
  i_slurm : slurm }.

Definition empty_builder : builder := {| b_origins := []; b_keys := []; b_aspas := [] |}.

(* the report's rejected resources *)
Definition rejected_of (i : input) : rejected := finalize (flat_map extend_from_cert (i_rejected i)).

(* ValidationReport::into_snapshot on the report the engine run filled *)
Definition run (i : input) : snap :=
  let cf := i_cfg i in
  let rj := rejected_of i in
  let sl := i_slurm i in
  let b := fold_left (process_pub_point cf rj sl) (map (collect cf) (i_points i)) empty_builder in
  into_snapshot (insert_assertions sl b).
