(* C09: the property as an executable oracle over the served snapshot, the
   declarative composition it is compared with, and the case checkers of the
   correspondence streams.  No proofs here. *)
From Coq Require Import List NArith Bool.
From RV Require Export Base.KMap C09.Model.
Import ListNotations.
Local Open Scope N_scope.

(* ---- finite sets as lists --------------------------------------------- *)
Section Sets.
Context {A : Type}.
Variable eqb : A -> A -> bool.
Definition mem (x : A) (l : list A) : bool := existsb (eqb x) l.
Definition subsetb (a b : list A) : bool := forallb (fun x => mem x b) a.
Fixpoint nodupb (l : list A) : bool :=
  match l with [] => true | x :: t => negb (mem x t) && nodupb t end.
(* the same set, every element listed once *)
Definition same_set_once (obs expected : list A) : bool :=
  nodupb obs && subsetb obs expected && subsetb expected obs.
End Sets.

Fixpoint nlist_eqb (a b : list N) : bool :=
  match a, b with
  | [], [] => true
  | x :: a', y :: b' => (x =? y) && nlist_eqb a' b'
  | _, _ => false
  end.

(* strictly increasing *)
Fixpoint ssortedb (l : list N) : bool :=
  match l with
  | [] => true
  | x :: t => match t with [] => true | y :: _ => (x <? y) && ssortedb t end
  end.

(* ---- the documented composition --------------------------------------- *)
(* every route origin of every valid ROA of every valid publication point *)
Definition validated_origins (i : input) : list origin :=
  flat_map (fun pp => flat_map roa_origins (pp_roas pp)) (i_points i).

(* the address blocks of rejected CAs in the family of [p], except whole-family (/0) blocks *)
Definition rejected_blocks (i : input) (v4 : bool) : list block :=
  filter (fun b => negb (is_slash_zero b))
         (flat_map (fun c => if v4 then rc_v4 c else rc_v6 c) (i_rejected i)).

(* [p] overlaps the resources of a rejected CA *)
Definition unsafe (i : input) (p : pfx) : bool :=
  existsb (fun b => intersects (block_range (p_v4 p) b) (pfx_lo p, pfx_hi p)) (rejected_blocks i (p_v4 p)).

Definition too_long (i : input) (o : origin) : bool :=
  negb (within_limit (cf_lim4 (i_cfg i)) (cf_lim6 (i_cfg i)) o).

(* validated minus too long, minus unsafe under reject, minus SLURM-filtered *)
Definition origin_served (i : input) (o : origin) : bool :=
  negb (too_long i o)
  && negb (is_reject (cf_policy (i_cfg i)) && unsafe i (o_pfx o))
  && negb (drop_origin (i_slurm i) o).

(* ... plus SLURM assertions *)
Definition expected_origins (i : input) : list origin :=
  filter (origin_served i) (validated_origins i) ++ sl_origins (i_slurm i).

(* router keys: one per ASN of each valid router certificate, if enabled *)
Definition keys_of (pk : pubkey) : list rkey :=
  map (fun asn => {| k_ski := pk_ski pk; k_asn := asn; k_info := pk_info pk |}) (iter_asns (pk_asns pk)).
Definition validated_keys (i : input) : list rkey :=
  if cf_bgpsec (i_cfg i) then flat_map (fun pp => flat_map keys_of (pp_keys pp)) (i_points i) else [].
Definition expected_keys (i : input) : list rkey :=
  filter (fun k => negb (drop_key (i_slurm i) k)) (validated_keys i) ++ sl_keys (i_slurm i).

(* ASPAs: all valid ASPA objects, if enabled; per customer the union of the providers *)
Definition aspa_objects (i : input) : list pubaspa :=
  if cf_aspa (i_cfg i) then flat_map pp_aspas (i_points i) else [].
Definition provider_union (i : input) (c : N) : list N :=
  fold_left sunion (map a_provs (filter (fun a => a_cust a =? c) (aspa_objects i))) [].

Definition aspas_ok (i : input) (obs : list (N * list N)) : bool :=
  (* each customer once, in order *)
  ksortedb obs
  (* a served ASPA is the provider union of a customer that has objects, and it fits *)
  && forallb (fun x => mem N.eqb (fst x) (map a_cust (aspa_objects i))
                       && nlist_eqb (snd x) (provider_union i (fst x))
                       && providers_fit (snd x)) obs
  (* a customer is absent exactly if its union is too large to encode *)
  && forallb (fun c => Bool.eqb (mem N.eqb c (map fst obs)) (providers_fit (provider_union i c)))
             (map a_cust (aspa_objects i)).

(* ---- observation and oracle ------------------------------------------- *)
(* what the implementation returned: the snapshot's iterators, whether each
   of them was strictly increasing in the implementation's own order, and
   whether the call panicked *)
Record obs := { ob_snap : snap; ob_sorted : bool; ob_panic : bool }.

Definition model_obs (i : input) : obs := {| ob_snap := run i; ob_sorted := true; ob_panic := false |}.

Definition spec_okb (i : input) (o : obs) : bool :=
  negb (ob_panic o) && ob_sorted o
  && same_set_once origin_eqb (s_origins (ob_snap o)) (expected_origins i)
  && same_set_once rkey_eqb (s_keys (ob_snap o)) (expected_keys i)
  && aspas_ok i (s_aspas (ob_snap o)).

(* ---- well-formed inputs (what the rpki decoders guarantee) ------------- *)
Definition wf_pfxb (p : pfx) : bool :=
  (p_len p <=? width (p_v4 p)) && (p_addr p <? 2 ^ width (p_v4 p)) && (p_addr p mod pfx_size p =? 0).
(* a ROA entry may carry an out-of-range length or max length (it is then skipped) *)
Definition wf_entryb (e : roa_entry) : bool :=
  let p := e_pfx e in
  (p_len p <=? 128) && (p_addr p <? 2 ^ width (p_v4 p))
  && (if p_len p <=? width (p_v4 p) then p_addr p mod pfx_size p =? 0 else true)
  && match e_ml e with Some m => m <? 256 | None => true end.
Definition asnb (a : N) : bool := a <? 2 ^ 32.
Definition wf_originb (o : origin) : bool :=
  wf_pfxb (o_pfx o) && (p_len (o_pfx o) <=? o_ml o) && (o_ml o <=? width (p_v4 (o_pfx o))) && asnb (o_asn o).
Definition wf_blockb (v4 : bool) (b : block) : bool :=
  match b with
  | BPrefix a l => wf_pfxb {| p_v4 := v4; p_addr := a; p_len := l |}
  | BRange lo hi => (lo <=? hi) && (hi <? 2 ^ width v4)
  end.
Definition opt_forall {A} (f : A -> bool) (o : option A) : bool := match o with Some x => f x | None => true end.

Definition wf_pointb (pp : pubpoint) : bool :=
  forallb (fun r => asnb (r_asn r) && forallb wf_entryb (r_entries r)) (pp_roas pp)
  && forallb (fun pk => forallb (fun b => (fst b <=? snd b) && asnb (snd b)) (pk_asns pk)) (pp_keys pp)
  && forallb (fun a => asnb (a_cust a) && ssortedb (a_provs a) && forallb asnb (a_provs a)) (pp_aspas pp).

Definition wf_slurmb (s : slurm) : bool :=
  forallb (fun f => opt_forall wf_pfxb (pf_pfx f) && opt_forall asnb (pf_asn f)) (sl_pfilters s)
  && forallb (fun f => opt_forall asnb (kf_asn f)) (sl_kfilters s)
  && forallb wf_originb (sl_origins s)
  && forallb (fun k => asnb (k_asn k)) (sl_keys s).

Definition wf_inputb (i : input) : bool :=
  forallb (fun c => forallb (wf_blockb true) (rc_v4 c) && forallb (wf_blockb false) (rc_v6 c)) (i_rejected i)
  && forallb wf_pointb (i_points i)
  && wf_slurmb (i_slurm i)
  && opt_forall (fun l => l <? 256) (cf_lim4 (i_cfg i)) && opt_forall (fun l => l <? 256) (cf_lim6 (i_cfg i)).

(* ---- comparison with the model ---------------------------------------- *)
Fixpoint alist_eqb (a b : list (N * list N)) : bool :=
  match a, b with
  | [], [] => true
  | (k, v) :: a', (k', v') :: b' => (k =? k') && nlist_eqb v v' && alist_eqb a' b'
  | _, _ => false
  end.

(* origins and router keys as sets (the implementation's order is its own
   Ord, which is not modelled), ASPAs as ordered lists *)
Definition snap_eqb (m o : snap) : bool :=
  same_set_once origin_eqb (s_origins o) (s_origins m)
  && same_set_once rkey_eqb (s_keys o) (s_keys m)
  && alist_eqb (s_aspas o) (s_aspas m).

Definition obs_eqb (m o : obs) : bool :=
  Bool.eqb (ob_panic m) (ob_panic o) && Bool.eqb (ob_sorted m) (ob_sorted o)
  && snap_eqb (ob_snap m) (ob_snap o).

(* case files write long arithmetic progressions (provider lists) as [nseq from count step] *)
Fixpoint nseq_aux (n : nat) (x step : N) : list N :=
  match n with O => [] | S n' => x :: nseq_aux n' (x + step) step end.
Definition nseq (from count step : N) : list N := nseq_aux (N.to_nat count) from step.

(* One case of the main stream.  Result codes: 0 model = implementation and
   oracle true; 1 oracle true, model differs; 2 oracle false on the
   implementation's output; 9 input outside the model's domain. *)
Record case := { c_in : input; c_impl : obs }.

Definition check_case (c : case) : N :=
  if negb (wf_inputb (c_in c)) then 9
  else if negb (spec_okb (c_in c) (c_impl c)) then 2
  else if obs_eqb (model_obs (c_in c)) (c_impl c) then 0 else 1.

(* ---- streams for the external functions -------------------------------- *)
(* rpki PrefixFilter::drop_origin / BgpsecFilter::drop_router_key through
   LocalExceptions::drop_origin / drop_router_key *)
Record slurm_case := {
  sc_slurm : slurm; sc_origins : list origin; sc_keys : list rkey;
  sc_drop_origins : list bool; sc_drop_keys : list bool }.

Fixpoint blist_eqb (a b : list bool) : bool :=
  match a, b with
  | [], [] => true
  | x :: a', y :: b' => Bool.eqb x y && blist_eqb a' b'
  | _, _ => false
  end.

Definition check_slurm (c : slurm_case) : N :=
  if negb (wf_slurmb (sc_slurm c) && forallb wf_originb (sc_origins c)) then 9
  else if blist_eqb (map (drop_origin (sc_slurm c)) (sc_origins c)) (sc_drop_origins c)
          && blist_eqb (map (drop_key (sc_slurm c)) (sc_keys c)) (sc_drop_keys c) then 0 else 1.

(* extend_from_cert's filter, IpBlocksBuilder::finalize and
   IpBlocks::intersects_block through RejectedResources::keep_prefix *)
Record blocks_case := { bc_certs : list rcert; bc_pfxs : list pfx; bc_keep : list bool }.

Definition check_blocks (c : blocks_case) : N :=
  if negb (forallb (fun r => forallb (wf_blockb true) (rc_v4 r) && forallb (wf_blockb false) (rc_v6 r)) (bc_certs c)
           && forallb wf_pfxb (bc_pfxs c)) then 9
  else if blist_eqb (map (keep_prefix (finalize (flat_map extend_from_cert (bc_certs c)))) (bc_pfxs c)) (bc_keep c)
  then 0 else 1.
