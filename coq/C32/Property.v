(* C32 — Failed runs are retried at most once. *)
From Coq Require Import List NArith Bool Arith.
From RV Require Import C32.Model C32.Proofs C32.Spec C32.SpecProofs.
Import ListNotations.

(* vrps: for EVERY outcome stream and every behaviour of sanitize, at most two runs *)
Theorem C32_vrps_terminates : forall sz st fuel, 2 <= fuel ->
  exists r, r <= 2 /\ (vrps true sz st fuel 0 false = ExitOk r \/ vrps true sz st fuel 0 false = ExitErr r).
Proof. exact vrps_terminates. Qed.

Theorem C32_vrps_ok_only_after_ok_run : forall sz st fuel r,
  vrps true sz st fuel 0 false = ExitOk r -> st (pred r) = Ok.
Proof. exact vrps_result. Qed.

(* validate, update: exactly one run *)
Theorem C32_one_shot : forall st, one_shot st = ExitOk 1 \/ one_shot st = ExitErr 1.
Proof. exact one_shot_one_run. Qed.

(* server: when the validation thread ends, the last run failed and at most three runs failed in total
   (the initial run, one retried run, the one it gives up on); it never ends successfully *)
Theorem C32_server_at_most_two_retries : forall sz st fuel r,
  server sz st fuel 0 true true = ExitErr r -> failures st r <= 3 /\ st (pred r) <> Ok.
Proof. exact server_at_most_two_retries. Qed.

Theorem C32_server_never_exits_ok : forall sz st fuel n i c r, server sz st fuel n i c <> ExitOk r.
Proof. exact server_never_exits_ok. Qed.

Theorem C32_server_all_failing_stops : forall sz st fuel, (forall n, st n <> Ok) -> 3 <= fuel ->
  exists r, r <= 3 /\ server sz st fuel 0 true true = ExitErr r.
Proof. exact server_all_failing_stops. Qed.

(* the loop as it was before the fix never ends on a persistently retryable failure *)
Theorem C32_old_vrps_refuted : forall fuel n once,
  vrps false (fun _ => true) (fun _ => Retry) fuel n once = OutOfFuel.
Proof. exact vrps_old_loops_forever. Qed.

(* the executable oracle accepts what the model reports, for every command and outcome stream, and the
   case checker returns 0 on it *)
Theorem C32_model_satisfies_spec : forall c, model_exit c <> OutOfFuel ->
  spec_okb (model_case c) = true /\ check_case (model_case c) = 0%N.
Proof. exact model_satisfies_spec. Qed.

Example C32_nonvacuous :
  vrps true (fun _ => true) (stream_of [Retry; Ok]) 50 0 false = ExitOk 2 /\
  vrps true (fun _ => true) (stream_of [Retry]) 50 0 false = ExitErr 2 /\
  server (fun _ => true) (stream_of [Ok; Retry; Ok; Retry]) 50 0 true true = ExitErr 4.
Proof. repeat split. Qed.

Check C32_vrps_terminates : forall sz st fuel, 2 <= fuel ->
  exists r, r <= 2 /\ (vrps true sz st fuel 0 false = ExitOk r \/ vrps true sz st fuel 0 false = ExitErr r).
Check C32_model_satisfies_spec : forall c, model_exit c <> OutOfFuel ->
  spec_okb (model_case c) = true /\ check_case (model_case c) = 0%N.
