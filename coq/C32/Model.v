(* C32 model: how each command reacts to the outcome of a validation run
   (src/operation.rs: Vrps::run - after "fix: stop retrying when the restarted run fails again",
   Validate::get_snapshot, Update::run, and the server's validation thread in Server::run).
   An outcome stream is a function from the run index to the outcome of that run; the models
   recurse on explicit fuel and return [OutOfFuel] when it is exhausted. *)
From Coq Require Import List NArith Bool Arith.
Import ListNotations.

Inductive outcome := Ok | Retry | Fatal.
Definition stream := nat -> outcome.

Inductive exit := ExitOk (runs : nat) | ExitErr (runs : nat) | OutOfFuel.

(* Vrps::run: `once` remembers that the single retry has been used.  [sanitize_ok n]: whether
   Engine::sanitize succeeds after run n (it can only fail on I/O errors; then the command gives up). *)
Fixpoint vrps (fixed : bool) (sanitize_ok : nat -> bool) (st : stream) (fuel n : nat) (once : bool) : exit :=
  match fuel with
  | O => OutOfFuel
  | S f =>
      match st n with
      | Ok => ExitOk (S n)
      | Fatal => ExitErr (S n)
      | Retry =>
          if fixed then
            if once then ExitErr (S n)
            else if sanitize_ok n then vrps fixed sanitize_ok st f (S n) true else ExitErr (S n)
          else
            (* before the fix: `if once { log }` fell through to the sanitize-and-continue *)
            if sanitize_ok n then vrps fixed sanitize_ok st f (S n) true else ExitErr (S n)
      end
  end.

(* validate and update run exactly once *)
Definition one_shot (st : stream) : exit := match st 0 with Ok => ExitOk 1 | _ => ExitErr 1 end.

(* Server::run's validation thread. A successful run is followed by the next run (after the refresh
   wait); the thread only ends on failure. State: initial (first run), can_retry. *)
Fixpoint server (sanitize_ok : nat -> bool) (st : stream) (fuel n : nat) (initial can_retry : bool) : exit :=
  match fuel with
  | O => OutOfFuel
  | S f =>
      match st n with
      | Ok => server sanitize_ok st f (S n) false can_retry
      | Fatal => ExitErr (S n)
      | Retry =>
          if initial then server sanitize_ok st f (S n) false can_retry
          else if can_retry then
            if sanitize_ok n then server sanitize_ok st f (S n) false false else ExitErr (S n)
          else ExitErr (S n)
      end
  end.

(* number of failed runs among the first n *)
Fixpoint failures (st : stream) (n : nat) : nat :=
  match n with O => 0 | S m => failures st m + match st m with Ok => 0 | _ => 1 end end.
