(* C32: executable oracle and case checker. *)
From Coq Require Import List NArith Bool Arith.
From RV Require Export C32.Model.
Import ListNotations.

Record case := {
  c_cmd : N;                  (* 0 vrps, 1 validate, 2 update, 3 server *)
  c_outcomes : list outcome;  (* outcome of run 0, 1, ...; the last one repeats for ever *)
  c_sanitize_ok : bool;       (* Engine::sanitize succeeds (false: a truncated RRDP archive was planted in the cache) *)
  i_ended : bool; i_runs : N; i_exit_ok : bool }.

Definition stream_of (l : list outcome) : stream := fun n => nth n l (last l Ok).

Definition is_ok (o : outcome) : bool := match o with Ok => true | _ => false end.

(* the property: one-shot commands end after at most two runs (one retry), succeed only if a run
   succeeded, fail with an error status otherwise; the server thread has ended once three runs have
   failed (initial run, one retry, and the failure it gives up on) and never while runs succeed *)
Definition spec_okb (c : case) : bool :=
  let st := stream_of (c_outcomes c) in
  let runs := N.to_nat (i_runs c) in
  if (c_cmd c <? 3)%N then
    i_ended c && (1 <=? runs) && (runs <=? 2)
    && Bool.eqb (i_exit_ok c) (is_ok (st (pred runs)))
    && (if i_exit_ok c then true else negb (existsb is_ok (map st (seq 0 runs))))
  else
    i_ended c && negb (i_exit_ok c) && (1 <=? runs) && (failures st runs <=? 3)
    && negb (is_ok (st (pred runs))).

Definition model_exit (c : case) : exit :=
  let st := stream_of (c_outcomes c) in
  if (c_cmd c =? 0)%N then vrps true (fun _ => c_sanitize_ok c) st 50 0 false
  else if (c_cmd c <? 3)%N then one_shot st
  else server (fun _ => c_sanitize_ok c) st 50 0 true true.

Definition model_agrees (c : case) : bool :=
  match model_exit c with
  | ExitOk r => i_ended c && i_exit_ok c && (N.of_nat r =? i_runs c)%N
  | ExitErr r => i_ended c && negb (i_exit_ok c) && (N.of_nat r =? i_runs c)%N
  | OutOfFuel => negb (i_ended c)
  end.

Definition check_case (c : case) : N :=
  if negb (spec_okb c) then 2 else if model_agrees c then 0 else 1.
