(* C32: what the model reports for a command and an outcome stream satisfies the executable oracle,
   for every command and every stream (whenever the fuel of the evaluation suffices). *)
From Coq Require Import List NArith Bool Arith Lia.
From RV Require Import C32.Model C32.Proofs C32.Spec.
Import ListNotations.

(* vrps: every run before the last one failed; a failing exit means that every run failed *)
Lemma vrps_runs sz st fuel n once r :
  (vrps true sz st fuel n once = ExitOk r -> n < r /\ r <= n + 2 /\ st (pred r) = Ok) /\
  (vrps true sz st fuel n once = ExitErr r -> n < r /\ r <= n + 2 /\ forall i, n <= i < r -> st i <> Ok).
Proof.
  revert n once; induction fuel as [|f IH]; intros n once; [split; discriminate|].
  cbn [vrps]. destruct (st n) eqn:E.
  - split; intros H; inversion H; subst. cbn [pred]. split; [lia|]. split; [lia|exact E].
  - assert (forall i, n <= i < S n -> st i <> Ok) as One.
    { intros i Hi. assert (i = n) as -> by lia. rewrite E. discriminate. }
    destruct once; [split; intros H; inversion H; subst; split; [lia|]; split; [lia|exact One]|].
    destruct (sz n); [|split; intros H; inversion H; subst; split; [lia|]; split; [lia|exact One]].
    (* the single retry *)
    destruct f as [|f']; [split; discriminate|]. cbn [vrps].
    destruct (st (S n)) eqn:E1.
    + split; intros H; inversion H; subst. cbn [pred]. split; [lia|]. split; [lia|exact E1].
    + split; intros H; inversion H; subst. split; [lia|]. split; [lia|].
      intros i Hi. assert (i = n \/ i = S n) as [-> | ->] by lia; [rewrite E|rewrite E1]; discriminate.
    + split; intros H; inversion H; subst. split; [lia|]. split; [lia|].
      intros i Hi. assert (i = n \/ i = S n) as [-> | ->] by lia; [rewrite E|rewrite E1]; discriminate.
  - split; intros H; inversion H; subst. split; [lia|]. split; [lia|].
    intros i Hi. assert (i = n) as -> by lia. rewrite E. discriminate.
Qed.

Definition model_case (c : case) : case :=
  match model_exit c with
  | ExitOk r => {| c_cmd := c_cmd c; c_outcomes := c_outcomes c; c_sanitize_ok := c_sanitize_ok c; i_ended := true; i_runs := N.of_nat r; i_exit_ok := true |}
  | ExitErr r => {| c_cmd := c_cmd c; c_outcomes := c_outcomes c; c_sanitize_ok := c_sanitize_ok c; i_ended := true; i_runs := N.of_nat r; i_exit_ok := false |}
  | OutOfFuel => {| c_cmd := c_cmd c; c_outcomes := c_outcomes c; c_sanitize_ok := c_sanitize_ok c; i_ended := false; i_runs := 0%N; i_exit_ok := false |}
  end.

Lemma no_ok_in_runs st r : (forall i, 0 <= i < r -> st i <> Ok) -> existsb is_ok (map st (seq 0 r)) = false.
Proof.
  intros H. destruct (existsb is_ok (map st (seq 0 r))) eqn:E; [|reflexivity]. exfalso.
  apply existsb_exists in E as [o [Hin Ho]]. apply in_map_iff in Hin as [i [Ei Hi]]. apply in_seq in Hi.
  apply (H i); [lia|]. rewrite Ei. destruct o; try discriminate. reflexivity.
Qed.

Lemma is_ok_false o : o <> Ok -> is_ok o = false.
Proof. destruct o; [congruence|reflexivity|reflexivity]. Qed.

Theorem model_satisfies_spec c : model_exit c <> OutOfFuel ->
  spec_okb (model_case c) = true /\ check_case (model_case c) = 0%N.
Proof.
  intros NF.
  assert (model_exit (model_case c) = model_exit c) as ME.
  { unfold model_case. destruct (model_exit c) eqn:E; unfold model_exit in *; cbn [c_cmd c_outcomes c_sanitize_ok]; exact E. }
  assert (spec_okb (model_case c) = true) as S.
  { unfold spec_okb. set (st := stream_of (c_outcomes (model_case c))).
    assert (st = stream_of (c_outcomes c)) as Est by (unfold st, model_case; destruct (model_exit c); reflexivity).
    assert (c_cmd (model_case c) = c_cmd c) as Ec by (unfold model_case; destruct (model_exit c); reflexivity).
    rewrite Ec. unfold model_case. unfold model_exit in *. fold st in NF. rewrite <- Est in *.
    destruct (c_cmd c =? 0)%N eqn:C0.
    - (* vrps *)
      assert ((c_cmd c <? 3)%N = true) as -> by (apply N.eqb_eq in C0; apply N.ltb_lt; lia).
      destruct (vrps true (fun _ => c_sanitize_ok c) st 50 0 false) as [r|r|] eqn:V; [| |congruence];
        cbn [i_ended i_runs i_exit_ok]; rewrite Nat2N.id.
      + destruct (proj1 (vrps_runs _ _ _ _ _ r) V) as (L1 & L2 & L3). rewrite L3. cbn [is_ok Bool.eqb andb].
        rewrite !andb_true_r. apply andb_true_iff; split; apply Nat.leb_le; lia.
      + destruct (proj2 (vrps_runs _ _ _ _ _ r) V) as (L1 & L2 & L3).
        rewrite (is_ok_false (st (pred r))) by (apply L3; lia). rewrite (no_ok_in_runs st r L3). cbn [Bool.eqb negb andb].
        rewrite !andb_true_r. apply andb_true_iff; split; apply Nat.leb_le; lia.
    - destruct (c_cmd c <? 3)%N eqn:C3.
      + unfold one_shot in *. destruct (st 0) eqn:E0; cbn [i_ended i_runs i_exit_ok]; rewrite Nat2N.id;
          cbn [pred Nat.leb andb seq map existsb]; rewrite ?E0; reflexivity.
      + destruct (server (fun _ => c_sanitize_ok c) st 50 0 true true) as [r|r|] eqn:V; [exfalso; apply (server_never_exits_ok _ _ _ _ _ _ _ V)| |congruence].
        cbn [i_ended i_runs i_exit_ok]. rewrite Nat2N.id.
        destruct (server_failures _ _ _ _ _ _ _ V) as (L1 & L2 & L3). cbn [failures] in L3.
        rewrite (is_ok_false _ L2). cbn [negb andb]. rewrite andb_true_r.
        apply andb_true_iff; split; apply Nat.leb_le; lia. }
  split; [exact S|]. unfold check_case. rewrite S. cbn [negb]. unfold model_agrees. rewrite ME.
  unfold model_case. destruct (model_exit c) as [r|r|]; [| |congruence]; cbn [i_ended i_runs i_exit_ok negb andb]; rewrite N.eqb_refl; reflexivity.
Qed.
