From Coq Require Import List NArith Bool Arith Lia.
From RV Require Import C32.Model.
Import ListNotations.

(* vrps: at most two runs, whatever the outcomes *)
Lemma vrps_bound_once sz st f n : vrps true sz st (S f) n true <> OutOfFuel /\
  (forall r, vrps true sz st (S f) n true = ExitOk r \/ vrps true sz st (S f) n true = ExitErr r -> r = S n).
Proof.
  cbn [vrps]. destruct (st n); split; try discriminate; intros r [E|E]; inversion E; reflexivity.
Qed.

Theorem vrps_terminates sz st fuel : 2 <= fuel ->
  exists r, r <= 2 /\ (vrps true sz st fuel 0 false = ExitOk r \/ vrps true sz st fuel 0 false = ExitErr r).
Proof.
  intros F. destruct fuel as [|[|f]]; try lia. cbn [vrps].
  destruct (st 0) eqn:E0.
  - exists 1. split; [lia|left; reflexivity].
  - destruct (sz 0).
    + destruct (st 1) eqn:E1.
      * exists 2. split; [lia|left; reflexivity].
      * exists 2. split; [lia|right; reflexivity].
      * exists 2. split; [lia|right; reflexivity].
    + exists 1. split; [lia|right; reflexivity].
  - exists 1. split; [lia|right; reflexivity].
Qed.

(* vrps succeeds only when a run succeeded, and fails on any fatal outcome or on a second retryable one *)
Theorem vrps_result sz st fuel r : vrps true sz st fuel 0 false = ExitOk r -> st (pred r) = Ok.
Proof.
  destruct fuel as [|[|f]]; cbn [vrps]; try discriminate.
  - destruct (st 0) eqn:E0; try discriminate.
    + intros E; inversion E; subst; exact E0.
    + destruct (sz 0); discriminate.
  - destruct (st 0) eqn:E0; try discriminate.
    + intros E; inversion E; subst; exact E0.
    + destruct (sz 0); [|discriminate]. destruct (st 1) eqn:E1; try discriminate.
      intros E; inversion E; subst; exact E1.
Qed.

(* before the fix: a persistently retryable failure never ends the command *)
Theorem vrps_old_loops_forever fuel n once :
  vrps false (fun _ => true) (fun _ => Retry) fuel n once = OutOfFuel.
Proof. revert n once; induction fuel as [|f IH]; intros n once; [reflexivity|]. cbn [vrps]. apply IH. Qed.

(* validate / update: exactly one run *)
Theorem one_shot_one_run st : one_shot st = ExitOk 1 \/ one_shot st = ExitErr 1.
Proof. unfold one_shot. destruct (st 0); [left|right|right]; reflexivity. Qed.

(* server: the thread survives at most two failed runs (one in the initial run, one retry later);
   the run in which it ends is a failed one, and before it at most two runs had failed *)
Lemma server_failures sz st fuel n initial can_retry r :
  server sz st fuel n initial can_retry = ExitErr r ->
  n < r /\ st (pred r) <> Ok /\
  failures st r <= failures st n + 1 + (if initial then 1 else 0) + (if can_retry then 1 else 0).
Proof.
  revert n initial can_retry; induction fuel as [|f IH]; intros n initial can_retry; [discriminate|].
  cbn [server]. destruct (st n) eqn:E.
  - intros H. apply IH in H as (H1 & H2 & H3). split; [lia|]. split; [exact H2|].
    cbn [failures] in H3. rewrite E in H3. destruct initial, can_retry; lia.
  - destruct initial.
    + intros H. apply IH in H as (H1 & H2 & H3). split; [lia|]. split; [exact H2|].
      cbn [failures] in H3. rewrite E in H3. destruct can_retry; lia.
    + destruct can_retry.
      * destruct (sz n).
        -- intros H. apply IH in H as (H1 & H2 & H3). split; [lia|]. split; [exact H2|].
           cbn [failures] in H3. rewrite E in H3. lia.
        -- intros H. inversion H; subst. cbn [pred failures]. rewrite E. split; [lia|]. split; [discriminate|lia].
      * intros H. inversion H; subst. cbn [pred failures]. rewrite E. split; [lia|]. split; [discriminate|lia].
  - intros H. inversion H; subst. cbn [pred failures]. rewrite E. split; [lia|]. split; [discriminate|].
    destruct initial, can_retry; lia.
Qed.

Theorem server_at_most_two_retries sz st fuel r :
  server sz st fuel 0 true true = ExitErr r -> failures st r <= 3 /\ st (pred r) <> Ok.
Proof.
  intros H. apply server_failures in H as (H1 & H2 & H3). cbn [failures] in H3. split; [lia|exact H2].
Qed.

(* the server never stops while runs succeed, and stops at the third failed run at the latest *)
Theorem server_never_exits_ok sz st fuel n i c r : server sz st fuel n i c <> ExitOk r.
Proof.
  revert n i c; induction fuel as [|f IH]; intros n i c; [discriminate|]. cbn [server].
  destruct (st n); try discriminate; try apply IH.
  destruct i; [apply IH|]. destruct c; [|discriminate]. destruct (sz n); [apply IH|discriminate].
Qed.

Lemma server_stops_when_exhausted sz st fuel n :
  st n <> Ok -> 0 < fuel -> server sz st fuel n false false = ExitErr (S n).
Proof. intros H F. destruct fuel; [lia|]. cbn [server]. destruct (st n); [congruence|reflexivity|reflexivity]. Qed.

(* with only failing runs the server is down after at most three runs *)
Theorem server_all_failing_stops sz st fuel : (forall n, st n <> Ok) -> 3 <= fuel ->
  exists r, r <= 3 /\ server sz st fuel 0 true true = ExitErr r.
Proof.
  intros A F. destruct fuel as [|[|[|f]]]; try lia. cbn [server].
  pose proof (A 0) as A0. pose proof (A 1) as A1. pose proof (A 2) as A2.
  destruct (st 0); [congruence| |exists 1; split; [lia|reflexivity]].
  destruct (st 1); [congruence| |exists 2; split; [lia|reflexivity]].
  destruct (sz 1); [|exists 2; split; [lia|reflexivity]].
  destruct (st 2); [congruence|exists 3; split; [lia|reflexivity]|exists 3; split; [lia|reflexivity]].
Qed.
