(* C36 — RTR client metrics stay consistent under concurrent connections.

   Model of /repo/src/metrics.rs `RtrPerAddrMetrics::get` (the per-address
   list behind an `ArcSwap`, inserts serialised by the `write` mutex and
   double-checked) and of connection open/close in /repo/src/rtr.rs
   (`RtrStream::new`: get_client, then inc_current_connections; `Drop for
   RtrStream`: dec_current_connections), as threads of atomic steps over a
   shared state (Base/Sched.v).  Any number of threads, each handling any
   sequence of connections.

   Assumed, not proved (named in the notes): `ArcSwap::load`/`store`, the
   mutex and the atomic counters make exactly these steps atomic, and a
   thread sees the latest stored list (no weaker memory behaviour).
   Executable definitions only. *)
From Coq Require Import List NArith ZArith Bool.
From RV Require Export Base.Sched.
Import ListNotations.
Local Open Scope N_scope.

Definition addr := N.      (* client address, ordered as IpAddr's Ord *)
Definition eid := N.       (* identity of an Arc<RtrMetricsData> allocation *)
Definition alist := list (addr * eid).

(* `addrs.binary_search_by(|x| x.0.cmp(&addr))`: Ok(idx) of the match or
   Err(idx) of the place to insert.  Written as a scan for the first element
   not below [a]; on a sorted slice this is what binary search returns. *)
Inductive found := Found (idx : nat) (e : eid) | Missing (idx : nat).

Fixpoint search (a : addr) (s : alist) : found :=
  match s with
  | [] => Missing 0
  | (b, e) :: t =>
      if a =? b then Found 0 e
      else if a <? b then Missing 0
      else match search a t with
           | Found i e' => Found (S i) e'
           | Missing i => Missing (S i)
           end
  end.

(* new_addrs = addrs[..idx] ++ [(addr, new)] ++ addrs[idx..] *)
Definition insert_at (idx : nat) (x : addr * eid) (s : alist) : alist :=
  firstn idx s ++ x :: skipn idx s.

(* Where a thread is.  One constructor per place between two atomic steps;
   the arguments are the thread's local variables that are live there. *)
Inductive pc :=
| PStart                              (* before `self.addrs.load()` (or finished, if nothing is left to do) *)
| PLoaded (s : alist)                 (* after the first load *)
| PMissed                             (* first search failed; about to `self.write.lock()` *)
| PLocked                             (* holds the mutex; about to re-load *)
| PReloaded (s : alist)               (* after the second load *)
| PMissed2 (s : alist) (idx : nat)    (* second search failed at idx *)
| PBuilt (new : alist) (e : eid)      (* new vector built, entry e allocated *)
| PStored (e : eid)                   (* `self.addrs.store(..)` done; about to return (drops the guard) *)
| PGot (e : eid)                      (* get_client returned e; about to inc_current_connections *)
| POpened (e : eid).                  (* connection counted; about to be dropped *)

Record thread := {
  t_pc : pc;
  t_todo : list addr;                 (* addresses of the connections still to handle; head = current *)
  t_rets : list (addr * eid)          (* what `get` returned so far, newest first *)
}.

Record mem := {
  addrs : alist;                      (* contents of the ArcSwap *)
  lock : option nat;                  (* holder of `write` *)
  cnt : eid -> Z;                     (* current_connections of each entry *)
  global : Z;                         (* current_connections of the global entry *)
  next : eid                          (* allocation counter *)
}.

Definition set_pc (p : pc) (t : thread) : thread := {| t_pc := p; t_todo := t_todo t; t_rets := t_rets t |}.
Definition ret (a : addr) (e : eid) (t : thread) : thread :=
  {| t_pc := PGot e; t_todo := t_todo t; t_rets := (a, e) :: t_rets t |}.

Definition set_addrs (l : alist) (g : mem) : mem :=
  {| addrs := l; lock := lock g; cnt := cnt g; global := global g; next := next g |}.
Definition set_lock (o : option nat) (g : mem) : mem :=
  {| addrs := addrs g; lock := o; cnt := cnt g; global := global g; next := next g |}.
Definition bump (e : eid) (d : Z) (g : mem) : mem :=
  {| addrs := addrs g; lock := lock g;
     cnt := (fun x => if x =? e then (cnt g x + d)%Z else cnt g x);
     global := (global g + d)%Z; next := next g |}.
Definition alloc (g : mem) : mem :=
  {| addrs := addrs g; lock := lock g; cnt := cnt g; global := global g; next := next g + 1 |}.

(* One atomic step of thread [i]. A finished thread and a thread waiting for the mutex stutter. *)
Definition step (i : nat) (g : mem) (t : thread) : mem * thread :=
  match t_todo t with
  | [] => (g, t)
  | a :: rest =>
    match t_pc t with
    | PStart => (g, set_pc (PLoaded (addrs g)) t)                       (* let addrs = self.addrs.load(); *)
    | PLoaded s =>
        match search a s with
        | Found _ e => (g, ret a e t)                                    (* return addrs[idx].1.clone() *)
        | Missing _ => (g, set_pc PMissed t)
        end
    | PMissed =>
        match lock g with
        | None => (set_lock (Some i) g, set_pc PLocked t)               (* let _write = self.write.lock(); *)
        | Some _ => (g, t)
        end
    | PLocked => (g, set_pc (PReloaded (addrs g)) t)                    (* let addrs = self.addrs.load(); *)
    | PReloaded s =>
        match search a s with
        | Found _ e => (set_lock None g, ret a e t)                      (* Ok(idx) => return ..., guard dropped *)
        | Missing idx => (g, set_pc (PMissed2 s idx) t)                  (* Err(idx) => idx *)
        end
    | PMissed2 s idx =>
        (alloc g, set_pc (PBuilt (insert_at idx (a, next g) s) (next g)) t)
                                                                         (* new_addrs..., Default::default() *)
    | PBuilt new e => (set_addrs new g, set_pc (PStored e) t)           (* self.addrs.store(new_addrs.into()); *)
    | PStored e => (set_lock None g, ret a e t)                          (* res, guard dropped *)
    | PGot e => (bump e 1 g, set_pc (POpened e) t)                       (* metrics.update(inc_current_connections) *)
    | POpened e => (bump e (-1) g,                                       (* Drop: dec_current_connections *)
                    {| t_pc := PStart; t_todo := rest; t_rets := t_rets t |})
    end
  end.

Definition cfg := config mem thread.

Definition mem0 : mem := {| addrs := []; lock := None; cnt := fun _ => 0%Z; global := 0%Z; next := 0 |}.
Definition thread0 (todo : list addr) : thread := {| t_pc := PStart; t_todo := todo; t_rets := [] |}.

(* RtrServerMetrics::new(true), and one thread per given list of connections *)
Definition init (todos : list (list addr)) : cfg :=
  {| shared := mem0; locals := map thread0 todos |}.

Definition runs (sched : list nat) (c : cfg) : cfg := run mem thread step sched c.

Definition finished (t : thread) : bool := match t_todo t with [] => true | _ => false end.
Definition all_finished (c : cfg) : bool := forallb finished (locals c).
