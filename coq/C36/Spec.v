(* C36: the property as an executable oracle over what is observed of a
   schedule-controlled run, and the case checker of the correspondence run.
   No proofs here. *)
From Coq Require Import List NArith ZArith Bool.
From RV Require Export C36.Model.
Import ListNotations.
Local Open Scope N_scope.

(* What is observed of one run: [todos] = per thread the client addresses of
   the connections it handles, [sched] = the thread stepped at each moment. *)
Record obs := {
  o_trace : list (N * bool);            (* per schedule entry: where the stepped thread now is ([pc_code]),
                                           and whether the write mutex is held *)
  o_final : list (addr * eid * Z);      (* RtrServerMetrics::clients(): address, entry identity, current_connections *)
  o_global : Z;                         (* global().current_connections() *)
  o_rets : list (list (addr * eid));    (* per thread, oldest first: address asked for, entry get_client returned *)
  o_done : bool                         (* every thread has closed all its connections *)
}.

Definition pc_code (p : pc) : N :=
  match p with
  | PStart => 0 | PLoaded _ => 1 | PMissed => 2 | PLocked => 3 | PReloaded _ => 4
  | PMissed2 _ _ => 5 | PBuilt _ _ => 6 | PStored _ => 7 | PGot _ => 8 | POpened _ => 9
  end.

(* ---- the model's observation ------------------------------------------- *)

Definition held (g : mem) : bool := match lock g with Some _ => true | None => false end.

Fixpoint trace (sched : list nat) (c : cfg) : list (N * bool) :=
  match sched with
  | [] => []
  | i :: rest =>
      let c' := step_thread mem thread step i c in
      (match nth_error (locals c') i with Some t => pc_code (t_pc t) | None => 0 end, held (shared c'))
        :: trace rest c'
  end.

Definition final_of (g : mem) : list (addr * eid * Z) := map (fun x => (fst x, snd x, cnt g (snd x))) (addrs g).

Definition model_obs (todos : list (list addr)) (sched : list nat) : obs :=
  let c := runs sched (init todos) in
  {| o_trace := trace sched (init todos);
     o_final := final_of (shared c);
     o_global := global (shared c);
     o_rets := map (fun t => rev (t_rets t)) (locals c);
     o_done := all_finished c |}.

(* ---- the property, executable ------------------------------------------ *)

Fixpoint sortedb (l : list N) : bool :=
  match l with
  | [] => true
  | a :: t => match t with [] => true | b :: _ => (a <? b) && sortedb t end
  end.

Fixpoint memb (x : N) (l : list N) : bool :=
  match l with [] => false | y :: t => (x =? y) || memb x t end.

Fixpoint nodupb (l : list N) : bool :=
  match l with [] => true | x :: t => negb (memb x t) && nodupb t end.

Definition in_final (a : addr) (e : eid) (f : list (addr * eid * Z)) : bool :=
  existsb (fun x => (fst (fst x) =? a) && (snd (fst x) =? e)) f.

Fixpoint nlist_eqb (a b : list N) : bool :=
  match a, b with
  | [], [] => true
  | x :: a', y :: b' => (x =? y) && nlist_eqb a' b'
  | _, _ => false
  end.

Fixpoint prefixb (a b : list N) : bool :=
  match a, b with
  | [], _ => true
  | x :: a', y :: b' => (x =? y) && prefixb a' b'
  | _, [] => false
  end.

(* each thread asked for the addresses of its connections, in order *)
Fixpoint rets_match (done : bool) (rets : list (list (addr * eid))) (todos : list (list addr)) : bool :=
  match rets, todos with
  | [], [] => true
  | r :: rets', t :: todos' =>
      (if done then nlist_eqb (map fst r) t else prefixb (map fst r) t) && rets_match done rets' todos'
  | _, _ => false
  end.

(* C36: the list is strictly sorted by address (so no address twice), entries
   are distinct objects, every (address, entry) some get_client returned is in
   the list (so: present exactly once, and two calls for one address got the
   same entry), and once every connection is closed all open-connection
   counts are zero. *)
Definition spec_okb (todos : list (list addr)) (sched : list nat) (o : obs) : bool :=
  sortedb (map (fun x => fst (fst x)) (o_final o))
  && nodupb (map (fun x => snd (fst x)) (o_final o))
  && forallb (forallb (fun r => in_final (fst r) (snd r) (o_final o))) (o_rets o)
  && rets_match (o_done o) (o_rets o) todos
  && (if o_done o then forallb (fun x => Z.eqb (snd x) 0) (o_final o) && Z.eqb (o_global o) 0 else true).

(* ---- comparison of two observations (entry identities up to renaming) --- *)

Fixpoint index_of (x : N) (l : list N) (k : N) : N :=
  match l with [] => k | y :: t => if x =? y then k else index_of x t (k + 1) end.
Definition canon (l : list N) : list N := map (fun x => index_of x l 0) l.

Definition id_seq (o : obs) : list N :=
  map snd (concat (o_rets o)) ++ map (fun x => snd (fst x)) (o_final o).

Fixpoint trace_eqb (a b : list (N * bool)) : bool :=
  match a, b with
  | [], [] => true
  | (x, p) :: a', (y, q) :: b' => (x =? y) && Bool.eqb p q && trace_eqb a' b'
  | _, _ => false
  end.

Fixpoint zlist_eqb (a b : list Z) : bool :=
  match a, b with
  | [], [] => true
  | x :: a', y :: b' => Z.eqb x y && zlist_eqb a' b'
  | _, _ => false
  end.

Fixpoint nll_eqb (a b : list (list N)) : bool :=
  match a, b with
  | [], [] => true
  | x :: a', y :: b' => nlist_eqb x y && nll_eqb a' b'
  | _, _ => false
  end.

Definition obs_eqb (a b : obs) : bool :=
  trace_eqb (o_trace a) (o_trace b)
  && nlist_eqb (map (fun x => fst (fst x)) (o_final a)) (map (fun x => fst (fst x)) (o_final b))
  && zlist_eqb (map snd (o_final a)) (map snd (o_final b))
  && Z.eqb (o_global a) (o_global b)
  && nll_eqb (map (map fst) (o_rets a)) (map (map fst) (o_rets b))
  && nlist_eqb (canon (id_seq a)) (canon (id_seq b))
  && Bool.eqb (o_done a) (o_done b).

(* One correspondence case.
   0 model = implementation and the property holds on the implementation's observation;
   1 the property holds on the observation but the model's observation differs;
   2 the property fails on the implementation's observation;
   9 the schedule names a thread that does not exist. *)
Record case := { c_todos : list (list addr); c_sched : list nat; c_impl : obs }.

Definition check_case (c : case) : N :=
  if negb (forallb (fun i => Nat.ltb i (length (c_todos c))) (c_sched c)) then 9
  else if negb (spec_okb (c_todos c) (c_sched c) (c_impl c)) then 2
  else if obs_eqb (model_obs (c_todos c) (c_sched c)) (c_impl c) then 0 else 1.
