(* C36, stream `stress`: real threads open and close many connections at once; only the end state is
   looked at.  Oracle only - there is no model of what happens inside one registry step (that is the
   schedules stream's assumption) and no theorem behind this file: a negative test. *)
From Coq Require Import List NArith Bool.
Import ListNotations.
Local Open Scope N_scope.

Record scase := {
  s_threads : N; s_conns : N; s_addrs : N;
  i_entries : list N;          (* the addresses of the per-client list, in list order *)
  i_open_global : N;           (* the global open-connection count after every connection has closed *)
  i_open_sum : N }.            (* the sum of the per-address counts *)

Fixpoint strictly_sortedb (l : list N) : bool :=
  match l with
  | a :: ((b :: _) as t) => (a <? b) && strictly_sortedb t
  | _ => true
  end.

(* one entry per source address, list sorted, every count back at zero *)
Definition check_scase (c : scase) : N :=
  if strictly_sortedb (i_entries c) && (N.of_nat (length (i_entries c)) =? s_addrs c)
     && (i_open_global c =? 0) && (i_open_sum c =? 0) then 0 else 2.
