(* C36: facts about sorted association lists, search and insert_at, and counting. *)
From Coq Require Import List NArith ZArith Bool Lia Permutation.
From RV Require Import Base.Sched C36.Model.
Import ListNotations.
Local Open Scope N_scope.

Definition keys (s : alist) : list addr := map fst s.
Definition ids (s : alist) : list eid := map snd s.

(* strictly sorted by address *)
Fixpoint asorted (s : alist) : Prop :=
  match s with
  | [] => True
  | (a, _) :: t => (forall b, In b (keys t) -> a < b) /\ asorted t
  end.

Definition sub (s l : alist) : Prop := forall x, In x s -> In x l.

Lemma sub_refl : forall l, sub l l.
Proof. unfold sub; auto. Qed.

Lemma sub_trans : forall a b c, sub a b -> sub b c -> sub a c.
Proof. unfold sub; auto. Qed.

Lemma in_split_at : forall A (y : A) i s, In y s <-> In y (firstn i s) \/ In y (skipn i s).
Proof. intros. rewrite <- in_app_iff, firstn_skipn. tauto. Qed.

Lemma in_insert_at : forall i x y s, In y (insert_at i x s) <-> y = x \/ In y s.
Proof.
  intros. unfold insert_at. rewrite in_app_iff. cbn. rewrite (in_split_at _ y i s).
  intuition congruence.
Qed.

Lemma in_map_insert_at : forall A (f : addr * eid -> A) i x y s,
  In y (map f (insert_at i x s)) <-> y = f x \/ In y (map f s).
Proof.
  intros. unfold insert_at. rewrite map_app. cbn. rewrite in_app_iff. cbn.
  rewrite <- firstn_map, <- skipn_map. rewrite (in_split_at _ y i (map f s)).
  intuition congruence.
Qed.

Lemma sub_insert_at : forall i x s, sub s (insert_at i x s).
Proof. intros i x s y H. apply in_insert_at. auto. Qed.

Lemma insert_at_S : forall i x h s, insert_at (S i) x (h :: s) = h :: insert_at i x s.
Proof. reflexivity. Qed.

Lemma search_found_in : forall a s i e, search a s = Found i e -> In (a, e) s.
Proof.
  induction s as [| [b e0] t IH]; cbn; intros i e H; [discriminate|].
  destruct (N.eqb_spec a b) as [-> | Hne].
  - inversion H; subst. left; reflexivity.
  - destruct (a <? b); [discriminate|].
    destruct (search a t) as [i' e' | i'] eqn:E; inversion H; subst.
    right. eapply IH. reflexivity.
Qed.

Lemma search_missing : forall a s i, asorted s -> search a s = Missing i ->
  ~ In a (keys s) /\ forall e, asorted (insert_at i (a, e) s).
Proof.
  induction s as [| [b e0] t IH]; cbn [search]; intros i Hs H.
  - inversion H; subst. split; [intros []|]. intros e. cbn. split; [intros ? []|exact I].
  - cbn in Hs. destruct Hs as [Hb Ht].
    destruct (N.eqb_spec a b) as [-> | Hne]; [discriminate|].
    destruct (N.ltb_spec a b) as [Hlt | Hge].
    + inversion H; subst. split.
      * cbn. intros [Heq | Hin]; [congruence|]. specialize (Hb _ Hin). lia.
      * intros e. change (insert_at 0 (a, e) ((b, e0) :: t)) with ((a, e) :: (b, e0) :: t).
        cbn. split; [| split; assumption].
        intros b' [<- | Hin]; [exact Hlt|]. specialize (Hb _ Hin). lia.
    + destruct (search a t) as [i' e' | i'] eqn:E; inversion H; subst.
      destruct (IH i' Ht eq_refl) as [Hni Hins]. split.
      * cbn. intros [Heq | Hin]; [congruence | auto].
      * intros e. rewrite insert_at_S. cbn. split; [| apply Hins].
        intros b' Hin. apply (in_map_insert_at _ fst) in Hin. cbn in Hin.
        destruct Hin as [-> | Hin]; [lia | auto].
Qed.

Lemma asorted_keys_nodup : forall s, asorted s -> NoDup (keys s).
Proof.
  induction s as [| [a e] t IH]; cbn; intros H; [constructor|].
  destruct H as [Ha Ht]. constructor; auto.
  intros Hin. specialize (Ha _ Hin). lia.
Qed.

(* in a sorted list an address has one entry *)
Lemma asorted_functional : forall s a e1 e2, asorted s -> In (a, e1) s -> In (a, e2) s -> e1 = e2.
Proof.
  induction s as [| [b e] t IH]; cbn; intros a e1 e2 Hs H1 H2; [contradiction|].
  destruct Hs as [Hb Ht].
  destruct H1 as [H1 | H1], H2 as [H2 | H2].
  - congruence.
  - inversion H1; subst. assert (In a (keys t)) by (apply (in_map fst) in H2; exact H2).
    specialize (Hb _ H). lia.
  - inversion H2; subst. assert (In a (keys t)) by (apply (in_map fst) in H1; exact H1).
    specialize (Hb _ H). lia.
  - eauto.
Qed.

Lemma nodup_ids_insert_at : forall i a e s, NoDup (ids s) -> ~ In e (ids s) -> NoDup (ids (insert_at i (a, e) s)).
Proof.
  intros i a e s Hnd Hni. unfold ids, insert_at. rewrite map_app. cbn.
  eapply Permutation_NoDup; [apply Permutation_middle|].
  constructor.
  - rewrite <- map_app, firstn_skipn. exact Hni.
  - rewrite <- map_app, firstn_skipn. exact Hnd.
Qed.

(* ---- counting threads ---------------------------------------------------- *)

Definition b2z (b : bool) : Z := if b then 1%Z else 0%Z.

Definition count {A} (P : A -> bool) (ls : list A) : Z := Z.of_nat (length (filter P ls)).

Lemma count_cons : forall A (P : A -> bool) x l, count P (x :: l) = (b2z (P x) + count P l)%Z.
Proof. intros. unfold count. cbn. destruct (P x); cbn [length b2z]; lia. Qed.

Lemma count_nil : forall A (P : A -> bool), count P [] = 0%Z.
Proof. reflexivity. Qed.

Lemma count_upd : forall A (P : A -> bool) i x y ls, nth_error ls i = Some x ->
  count P (upd i y ls) = (count P ls - b2z (P x) + b2z (P y))%Z.
Proof.
  intros A P i x y ls. revert i. induction ls as [| h t IH]; intros [| i] H; cbn in H; try discriminate.
  - inversion H; subst. cbn [upd]. rewrite !count_cons. lia.
  - cbn [upd]. rewrite !count_cons. rewrite (IH _ H). lia.
Qed.

Lemma count_nonneg : forall A (P : A -> bool) l, (0 <= count P l)%Z.
Proof. intros. unfold count. lia. Qed.

Lemma count_zero_forall : forall A (P : A -> bool) l, (forall x, In x l -> P x = false) -> count P l = 0%Z.
Proof.
  induction l as [| h t IH]; intros H; [reflexivity|].
  rewrite count_cons. rewrite (H h) by (left; reflexivity). rewrite IH; [reflexivity|].
  intros x Hx. apply H. right. exact Hx.
Qed.
