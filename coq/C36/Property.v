(* C36 — RTR client metrics stay consistent under concurrent connections.
   Only statements, [exact], [Check] pins.

   Everything below is about `runs sched (init todos)`: any number of threads
   ([todos] gives, per thread, the client addresses of the connections it
   handles one after the other), any schedule [sched] (the list of thread
   numbers stepped), each step being one of the atomic steps of
   RtrPerAddrMetrics::get / connection open / connection close (C36/Model.v).
   That these steps are atomic in the real code (ArcSwap, Mutex, atomics) is
   the assumption this model rests on; it is not proved here. *)
From Coq Require Import List NArith ZArith Bool.
From RV Require Import Base.Sched C36.Model C36.Lemmas C36.Proofs C36.Spec C36.Final.
Import ListNotations.
Local Open Scope N_scope.

(* the invariant, after every schedule *)
Theorem C36_invariant : forall todos sched,
  Inv (shared (runs sched (init todos))) (locals (runs sched (init todos))).
Proof. exact run_inv. Qed.

(* the list stays strictly sorted by address ... *)
Theorem C36_sorted : forall todos sched, asorted (addrs (shared (runs sched (init todos)))).
Proof. exact sorted_always. Qed.

(* ... so no address appears twice, and entries are distinct objects *)
Theorem C36_no_duplicate_address : forall todos sched, NoDup (keys (addrs (shared (runs sched (init todos))))).
Proof. exact keys_nodup_always. Qed.
Theorem C36_entries_distinct : forall todos sched, NoDup (ids (addrs (shared (runs sched (init todos))))).
Proof. exact entries_distinct_always. Qed.

(* every (address, entry) some get has returned is in the list: no address is lost *)
Theorem C36_returned_present : forall todos sched j t a e,
  nth_error (locals (runs sched (init todos))) j = Some t -> In (a, e) (t_rets t) ->
  In (a, e) (addrs (shared (runs sched (init todos)))).
Proof. exact returned_present. Qed.

(* ... exactly once *)
Theorem C36_returned_present_once : forall todos sched j t a e,
  nth_error (locals (runs sched (init todos))) j = Some t -> In (a, e) (t_rets t) ->
  count_occ N.eq_dec (keys (addrs (shared (runs sched (init todos))))) a = 1%nat.
Proof. exact returned_present_once. Qed.

(* two gets for the same address return the same entry *)
Theorem C36_same_entry : forall todos sched j1 t1 j2 t2 a e1 e2,
  nth_error (locals (runs sched (init todos))) j1 = Some t1 ->
  nth_error (locals (runs sched (init todos))) j2 = Some t2 ->
  In (a, e1) (t_rets t1) -> In (a, e2) (t_rets t2) -> e1 = e2.
Proof. exact same_entry. Qed.

(* an entry's counter is the number of connections open on it right now *)
Theorem C36_counts_exact : forall todos sched e,
  cnt (shared (runs sched (init todos))) e = count (opened_at e) (locals (runs sched (init todos))).
Proof. exact counts_exact. Qed.

(* after all connections have closed every open-connection count is 0 *)
Theorem C36_counts_zero : forall todos sched,
  all_finished (runs sched (init todos)) = true ->
  (forall e, cnt (shared (runs sched (init todos))) e = 0%Z) /\ global (shared (runs sched (init todos))) = 0%Z.
Proof. exact counts_zero. Qed.

(* at most one thread is between lock and unlock *)
Theorem C36_mutual_exclusion : forall todos sched j1 t1 j2 t2,
  nth_error (locals (runs sched (init todos))) j1 = Some t1 ->
  nth_error (locals (runs sched (init todos))) j2 = Some t2 ->
  critical (t_pc t1) = true -> critical (t_pc t2) = true -> j1 = j2.
Proof. exact mutual_exclusion. Qed.

(* the executable oracle used on the implementation's observation holds of the model, for every input *)
Theorem C36_model_satisfies_spec : forall todos sched, spec_okb todos sched (model_obs todos sched) = true.
Proof. exact model_satisfies_spec. Qed.

(* non-vacuity: three threads, two of them racing to insert address 7, one inserting 3;
   thread 1 waits for the mutex while thread 0 is between its re-load and its store. *)
Example C36_nonvacuous :
  let todos := [[7]; [7; 3]; [3]] in
  let sched := [0; 1; 0; 1; 0; 1; 0; 0; 0; 1; 0; 0; 1; 1; 1; 2; 2; 1; 1; 1; 2; 2; 2; 2; 2; 2; 1; 1; 1; 1; 1; 2; 2; 0; 0; 1; 1]%nat in
  let o := model_obs todos sched in
  map (fun x => fst (fst x)) (o_final o) = [3; 7] /\
  o_rets o = [[(7, 0)]; [(7, 0); (3, 1)]; [(3, 1)]] /\
  o_done o = true /\ o_global o = 0%Z /\
  spec_okb todos sched o = true /\
  (* an observation with a lost entry is rejected *)
  spec_okb todos sched {| o_trace := []; o_final := [(7, 0, 0%Z)]; o_global := 0%Z;
                          o_rets := [[(7, 0)]; [(7, 0); (3, 1)]; [(3, 1)]]; o_done := true |} = false.
Proof. vm_compute. repeat split; reflexivity. Qed.

Check C36_sorted : forall todos sched, asorted (addrs (shared (runs sched (init todos)))).
Check C36_returned_present : forall todos sched j t a e,
  nth_error (locals (runs sched (init todos))) j = Some t -> In (a, e) (t_rets t) ->
  In (a, e) (addrs (shared (runs sched (init todos)))).
Check C36_same_entry : forall todos sched j1 t1 j2 t2 a e1 e2,
  nth_error (locals (runs sched (init todos))) j1 = Some t1 ->
  nth_error (locals (runs sched (init todos))) j2 = Some t2 ->
  In (a, e1) (t_rets t1) -> In (a, e2) (t_rets t2) -> e1 = e2.
Check C36_counts_zero : forall todos sched,
  all_finished (runs sched (init todos)) = true ->
  (forall e, cnt (shared (runs sched (init todos))) e = 0%Z) /\ global (shared (runs sched (init todos))) = 0%Z.
Check C36_model_satisfies_spec : forall todos sched, spec_okb todos sched (model_obs todos sched) = true.
