(* C36: the invariant of the metrics registry and its preservation by every
   atomic step of every thread; consequences for every schedule. *)
From Coq Require Import List NArith ZArith Bool Lia Permutation.
From RV Require Import Base.Sched C36.Model C36.Lemmas.
Import ListNotations.
Local Open Scope N_scope.

(* the thread holds the write mutex *)
Definition critical (p : pc) : bool :=
  match p with
  | PLocked | PReloaded _ | PMissed2 _ _ | PBuilt _ _ | PStored _ => true
  | _ => false
  end.

(* what a thread at [p], working on address [a], knows, relative to the current list [l] and counter [n] *)
Definition pc_ok (l : alist) (n : eid) (a : addr) (p : pc) : Prop :=
  match p with
  | PStart | PMissed | PLocked => True
  | PLoaded s => sub s l                       (* entries are never removed or replaced *)
  | PReloaded s => s = l                       (* nobody else stores while we hold the mutex *)
  | PMissed2 s idx => s = l /\ search a l = Missing idx
  | PBuilt new e =>
      (exists idx, search a l = Missing idx /\ new = insert_at idx (a, e) l) /\ e < n /\ ~ In e (ids l)
  | PStored e | PGot e | POpened e => In (a, e) l
  end.

Record T_ok (l : alist) (n : eid) (t : thread) : Prop := {
  tk_rets : sub (t_rets t) l;                  (* everything get returned is in the list *)
  tk_pc : match t_todo t with
          | [] => t_pc t = PStart
          | a :: _ => pc_ok l n a (t_pc t)
          end
}.

Definition opened_at (e : eid) (t : thread) : bool :=
  match t_pc t with POpened e' => e' =? e | _ => false end.
Definition opened (t : thread) : bool :=
  match t_pc t with POpened _ => true | _ => false end.

Record Inv (g : mem) (ls : list thread) : Prop := {
  i_sorted : asorted (addrs g);
  i_ids_lt : forall x, In x (ids (addrs g)) -> x < next g;
  i_ids_nodup : NoDup (ids (addrs g));
  i_lock : forall j t, nth_error ls j = Some t -> (critical (t_pc t) = true <-> lock g = Some j);
  i_threads : forall j t, nth_error ls j = Some t -> T_ok (addrs g) (next g) t;
  i_cnt : forall e, cnt g e = count (opened_at e) ls;
  i_global : global g = count opened ls
}.

(* ---- frame lemmas -------------------------------------------------------- *)

Lemma T_ok_mono : forall l n l' n' t, T_ok l n t -> sub l l' ->
  (critical (t_pc t) = true -> l' = l /\ n' = n) -> T_ok l' n' t.
Proof.
  intros l n l' n' t [Hr Hp] Hsub Hc. split.
  - eapply sub_trans; eauto.
  - destruct (t_todo t) as [| a rest]; auto.
    destruct (t_pc t) as [| s | | | s | s idx | new e | e | e | e]; cbn in *; auto.
    + eapply sub_trans; eauto.
    + destruct (Hc eq_refl) as [-> ->]. exact Hp.
    + destruct (Hc eq_refl) as [-> ->]. exact Hp.
    + destruct (Hc eq_refl) as [-> ->]. exact Hp.
Qed.

(* the other threads keep their invariant when thread [i] steps *)
Lemma threads_frame : forall g ls i t t' l' n',
  Inv g ls -> nth_error ls i = Some t ->
  sub (addrs g) l' ->
  ((l' = addrs g /\ n' = next g) \/ critical (t_pc t) = true) ->
  T_ok l' n' t' ->
  forall j tj, nth_error (upd i t' ls) j = Some tj -> T_ok l' n' tj.
Proof.
  intros g ls i t t' l' n' HI Hi Hsub Hch Ht' j tj Hj.
  apply nth_error_upd in Hj. destruct Hj as [(<- & -> & _) | (Hne & Hj)]; auto.
  eapply T_ok_mono; [eapply i_threads; eauto | exact Hsub |].
  intros Hcj. destruct Hch as [? | Hci]; auto.
  exfalso. apply Hne.
  pose proof (proj1 (i_lock g ls HI i t Hi) Hci) as H1.
  pose proof (proj1 (i_lock g ls HI j tj Hj) Hcj) as H2. congruence.
Qed.

Lemma lock_frame_same : forall g ls i t t' lk',
  Inv g ls -> nth_error ls i = Some t ->
  lk' = lock g -> critical (t_pc t') = critical (t_pc t) ->
  forall j tj, nth_error (upd i t' ls) j = Some tj -> (critical (t_pc tj) = true <-> lk' = Some j).
Proof.
  intros g ls i t t' lk' HI Hi -> Hc j tj Hj.
  apply nth_error_upd in Hj. destruct Hj as [(<- & -> & _) | (Hne & Hj)].
  - rewrite Hc. eapply i_lock; eauto.
  - eapply i_lock; eauto.
Qed.

Lemma lock_frame_acquire : forall g ls i t t',
  Inv g ls -> nth_error ls i = Some t ->
  lock g = None -> critical (t_pc t') = true ->
  forall j tj, nth_error (upd i t' ls) j = Some tj -> (critical (t_pc tj) = true <-> Some i = Some j).
Proof.
  intros g ls i t t' HI Hi Hl Hc j tj Hj.
  apply nth_error_upd in Hj. destruct Hj as [(<- & -> & _) | (Hne & Hj)].
  - tauto.
  - pose proof (i_lock g ls HI j tj Hj) as H. rewrite Hl in H. split.
    + intros Hcj. apply H in Hcj. discriminate.
    + intros Heq. inversion Heq. contradiction.
Qed.

Lemma lock_frame_release : forall g ls i t t',
  Inv g ls -> nth_error ls i = Some t ->
  critical (t_pc t) = true -> critical (t_pc t') = false ->
  forall j tj, nth_error (upd i t' ls) j = Some tj -> (critical (t_pc tj) = true <-> @None nat = Some j).
Proof.
  intros g ls i t t' HI Hi Hc Hc' j tj Hj.
  pose proof (proj1 (i_lock g ls HI i t Hi) Hc) as Hl.
  apply nth_error_upd in Hj. destruct Hj as [(<- & -> & _) | (Hne & Hj)].
  - rewrite Hc'. split; discriminate.
  - pose proof (i_lock g ls HI j tj Hj) as H. rewrite Hl in H. split.
    + intros Hcj. apply H in Hcj. inversion Hcj. congruence.
    + discriminate.
Qed.

Lemma count_frame_same : forall (P : thread -> bool) ls i t t',
  nth_error ls i = Some t -> P t' = P t -> count P (upd i t' ls) = count P ls.
Proof. intros. rewrite (count_upd _ P i t t' ls) by assumption. rewrite H0. lia. Qed.

(* ---- the step ------------------------------------------------------------ *)

Ltac inv_step H := injection H as <- <-.

Lemma opened_at_set_pc : forall e p t, opened_at e (set_pc p t) = match p with POpened e' => e' =? e | _ => false end.
Proof. reflexivity. Qed.

(* every atomic step of every thread preserves the invariant *)
Lemma step_inv : forall i g ls t g' t',
  Inv g ls -> nth_error ls i = Some t -> step i g t = (g', t') -> Inv g' (upd i t' ls).
Proof.
  intros i g ls t g' t' HI Hi Hst.
  pose proof (i_threads g ls HI i t Hi) as [Hrets Hpc].
  unfold step in Hst.
  destruct (t_todo t) as [| a rest] eqn:Htodo.
  { (* finished: stutter *)
    inv_step Hst. rewrite upd_same by assumption. exact HI. }
  destruct (t_pc t) as [| s | | | s | s idx | new e | e | e | e] eqn:Hpceq; cbn in Hpc.
  - (* PStart: first load *)
    inv_step Hst.
    assert (Ht' : T_ok (addrs g) (next g) (set_pc (PLoaded (addrs g)) t)).
    { split; cbn; auto. rewrite Htodo. cbn. apply sub_refl. }
    split; try apply HI.
    + eapply lock_frame_same; eauto. cbn. rewrite Hpceq. reflexivity.
    + eapply threads_frame; eauto using sub_refl.
    + intros e0. rewrite (i_cnt g ls HI). symmetry. apply count_frame_same with t; auto.
      unfold opened_at. cbn. rewrite Hpceq. reflexivity.
    + rewrite (i_global g ls HI). symmetry. apply count_frame_same with t; auto.
      unfold opened. cbn. rewrite Hpceq. reflexivity.
  - (* PLoaded: first search *)
    destruct (search a s) as [ix e | ix] eqn:Es; inv_step Hst.
    + (* found: return *)
      assert (Hin : In (a, e) (addrs g)) by (apply Hpc; eapply search_found_in; eauto).
      assert (Ht' : T_ok (addrs g) (next g) (ret a e t)).
      { split; cbn.
        - intros x [<- | Hx]; auto.
        - rewrite Htodo. cbn. exact Hin. }
      split; try apply HI.
      * eapply lock_frame_same; eauto. cbn. rewrite Hpceq. reflexivity.
      * eapply threads_frame; eauto using sub_refl.
      * intros e0. rewrite (i_cnt g ls HI). symmetry. apply count_frame_same with t; auto.
        unfold opened_at. cbn. rewrite Hpceq. reflexivity.
      * rewrite (i_global g ls HI). symmetry. apply count_frame_same with t; auto.
        unfold opened. cbn. rewrite Hpceq. reflexivity.
    + assert (Ht' : T_ok (addrs g) (next g) (set_pc PMissed t)).
      { split; cbn; auto. rewrite Htodo. cbn. exact I. }
      split; try apply HI.
      * eapply lock_frame_same; eauto. cbn. rewrite Hpceq. reflexivity.
      * eapply threads_frame; eauto using sub_refl.
      * intros e0. rewrite (i_cnt g ls HI). symmetry. apply count_frame_same with t; auto.
        unfold opened_at. cbn. rewrite Hpceq. reflexivity.
      * rewrite (i_global g ls HI). symmetry. apply count_frame_same with t; auto.
        unfold opened. cbn. rewrite Hpceq. reflexivity.
  - (* PMissed: lock *)
    destruct (lock g) as [h |] eqn:Hl; inv_step Hst.
    { rewrite upd_same by assumption. exact HI. }
    assert (Ht' : T_ok (addrs g) (next g) (set_pc PLocked t)).
    { split; cbn; auto. rewrite Htodo. cbn. exact I. }
    split; cbn; try apply HI.
    + eapply lock_frame_acquire; eauto.
    + eapply threads_frame; eauto using sub_refl.
    + intros e0. rewrite (i_cnt g ls HI). symmetry. apply count_frame_same with t; auto.
      unfold opened_at. cbn. rewrite Hpceq. reflexivity.
    + rewrite (i_global g ls HI). symmetry. apply count_frame_same with t; auto.
      unfold opened. cbn. rewrite Hpceq. reflexivity.
  - (* PLocked: second load *)
    inv_step Hst.
    assert (Ht' : T_ok (addrs g) (next g) (set_pc (PReloaded (addrs g)) t)).
    { split; cbn; auto. rewrite Htodo. cbn. reflexivity. }
    split; try apply HI.
    + eapply lock_frame_same; eauto. cbn. rewrite Hpceq. reflexivity.
    + eapply threads_frame; eauto using sub_refl.
    + intros e0. rewrite (i_cnt g ls HI). symmetry. apply count_frame_same with t; auto.
      unfold opened_at. cbn. rewrite Hpceq. reflexivity.
    + rewrite (i_global g ls HI). symmetry. apply count_frame_same with t; auto.
      unfold opened. cbn. rewrite Hpceq. reflexivity.
  - (* PReloaded: second search *)
    subst s.
    destruct (search a (addrs g)) as [ix e | ix] eqn:Es; inv_step Hst.
    + (* found: return and unlock *)
      assert (Hin : In (a, e) (addrs g)) by (eapply search_found_in; eauto).
      assert (Ht' : T_ok (addrs g) (next g) (ret a e t)).
      { split; cbn.
        - intros x [<- | Hx]; auto.
        - rewrite Htodo. cbn. exact Hin. }
      split; cbn; try apply HI.
      * eapply lock_frame_release; eauto. rewrite Hpceq. reflexivity.
      * eapply threads_frame; eauto using sub_refl.
      * intros e0. rewrite (i_cnt g ls HI). symmetry. apply count_frame_same with t; auto.
        unfold opened_at. cbn. rewrite Hpceq. reflexivity.
      * rewrite (i_global g ls HI). symmetry. apply count_frame_same with t; auto.
        unfold opened. cbn. rewrite Hpceq. reflexivity.
    + assert (Ht' : T_ok (addrs g) (next g) (set_pc (PMissed2 (addrs g) ix) t)).
      { split; cbn; auto. rewrite Htodo. cbn. auto. }
      split; try apply HI.
      * eapply lock_frame_same; eauto. cbn. rewrite Hpceq. reflexivity.
      * eapply threads_frame; eauto using sub_refl.
      * intros e0. rewrite (i_cnt g ls HI). symmetry. apply count_frame_same with t; auto.
        unfold opened_at. cbn. rewrite Hpceq. reflexivity.
      * rewrite (i_global g ls HI). symmetry. apply count_frame_same with t; auto.
        unfold opened. cbn. rewrite Hpceq. reflexivity.
  - (* PMissed2: build the new vector, allocate the entry *)
    destruct Hpc as [-> Hs]. inv_step Hst.
    assert (Ht' : T_ok (addrs g) (next g + 1)
                    (set_pc (PBuilt (insert_at idx (a, next g) (addrs g)) (next g)) t)).
    { split; cbn; auto. rewrite Htodo. cbn. split; [eauto | split; [lia |]].
      intros Hin. apply (i_ids_lt g ls HI) in Hin. lia. }
    split; cbn; try apply HI.
    + intros x Hx. apply (i_ids_lt g ls HI) in Hx. lia.
    + eapply lock_frame_same; eauto. cbn. rewrite Hpceq. reflexivity.
    + eapply threads_frame; eauto using sub_refl. right. rewrite Hpceq. reflexivity.
    + intros e0. rewrite (i_cnt g ls HI). symmetry. apply count_frame_same with t; auto.
      unfold opened_at. cbn. rewrite Hpceq. reflexivity.
    + rewrite (i_global g ls HI). symmetry. apply count_frame_same with t; auto.
      unfold opened. cbn. rewrite Hpceq. reflexivity.
  - (* PBuilt: store *)
    destruct Hpc as [(ix & Hs & ->) [Hlt Hfresh]]. inv_step Hst.
    destruct (search_missing a (addrs g) ix (i_sorted g ls HI) Hs) as [Hnk Hsorted].
    assert (Ht' : T_ok (insert_at ix (a, e) (addrs g)) (next g) (set_pc (PStored e) t)).
    { split; cbn.
      - eapply sub_trans; [exact Hrets | apply sub_insert_at].
      - rewrite Htodo. cbn. apply in_insert_at. auto. }
    split; cbn.
    + apply Hsorted.
    + intros x Hx. apply (in_map_insert_at _ snd) in Hx. cbn in Hx.
      destruct Hx as [-> | Hx]; auto. apply (i_ids_lt g ls HI). exact Hx.
    + apply nodup_ids_insert_at; auto. apply HI.
    + eapply lock_frame_same; eauto. cbn. rewrite Hpceq. reflexivity.
    + eapply threads_frame; eauto using sub_insert_at. right. rewrite Hpceq. reflexivity.
    + intros e0. rewrite (i_cnt g ls HI). symmetry. apply count_frame_same with t; auto.
      unfold opened_at. cbn. rewrite Hpceq. reflexivity.
    + rewrite (i_global g ls HI). symmetry. apply count_frame_same with t; auto.
      unfold opened. cbn. rewrite Hpceq. reflexivity.
  - (* PStored: return and unlock *)
    inv_step Hst.
    assert (Ht' : T_ok (addrs g) (next g) (ret a e t)).
    { split; cbn.
      - intros x [<- | Hx]; auto.
      - rewrite Htodo. cbn. exact Hpc. }
    split; cbn; try apply HI.
    + eapply lock_frame_release; eauto. rewrite Hpceq. reflexivity.
    + eapply threads_frame; eauto using sub_refl.
    + intros e0. rewrite (i_cnt g ls HI). symmetry. apply count_frame_same with t; auto.
      unfold opened_at. cbn. rewrite Hpceq. reflexivity.
    + rewrite (i_global g ls HI). symmetry. apply count_frame_same with t; auto.
      unfold opened. cbn. rewrite Hpceq. reflexivity.
  - (* PGot: count the connection *)
    inv_step Hst.
    assert (Ht' : T_ok (addrs g) (next g) (set_pc (POpened e) t)).
    { split; cbn; auto. rewrite Htodo. cbn. exact Hpc. }
    split; cbn; try apply HI.
    + eapply lock_frame_same; eauto. cbn. rewrite Hpceq. reflexivity.
    + eapply threads_frame; eauto using sub_refl.
    + intros e0. rewrite (count_upd _ (opened_at e0) i t _ ls Hi).
      rewrite (i_cnt g ls HI).
      assert (E1 : opened_at e0 t = false) by (unfold opened_at; rewrite Hpceq; reflexivity).
      assert (E2 : opened_at e0 (set_pc (POpened e) t) = (e =? e0)) by reflexivity.
      rewrite E1, E2. rewrite (N.eqb_sym e0 e). destruct (e =? e0); cbn; lia.
    + rewrite (count_upd _ opened i t _ ls Hi). rewrite (i_global g ls HI).
      assert (E1 : opened t = false) by (unfold opened; rewrite Hpceq; reflexivity).
      assert (E2 : opened (set_pc (POpened e) t) = true) by reflexivity.
      rewrite E1, E2. cbn. lia.
  - (* POpened: close the connection *)
    inv_step Hst.
    assert (Ht' : T_ok (addrs g) (next g) {| t_pc := PStart; t_todo := rest; t_rets := t_rets t |}).
    { split; cbn; auto. destruct rest; cbn; auto. }
    split; cbn; try apply HI.
    + eapply lock_frame_same; eauto. cbn. rewrite Hpceq. reflexivity.
    + eapply threads_frame; eauto using sub_refl.
    + intros e0. rewrite (count_upd _ (opened_at e0) i t _ ls Hi).
      rewrite (i_cnt g ls HI).
      assert (E1 : opened_at e0 t = (e =? e0)) by (unfold opened_at; rewrite Hpceq; reflexivity).
      assert (E2 : opened_at e0 {| t_pc := PStart; t_todo := rest; t_rets := t_rets t |} = false) by reflexivity.
      rewrite E1, E2. rewrite (N.eqb_sym e0 e). destruct (e =? e0); cbn; lia.
    + rewrite (count_upd _ opened i t _ ls Hi). rewrite (i_global g ls HI).
      assert (E1 : opened t = true) by (unfold opened; rewrite Hpceq; reflexivity).
      assert (E2 : opened {| t_pc := PStart; t_todo := rest; t_rets := t_rets t |} = false) by reflexivity.
      rewrite E1, E2. cbn. lia.
Qed.
