(* C36: consequences of the invariant for every schedule and any number of
   threads; the executable oracle holds of the model. *)
From Coq Require Import List NArith ZArith Bool Lia Permutation.
From RV Require Import Base.Sched C36.Model C36.Lemmas C36.Proofs C36.Spec.
Import ListNotations.
Local Open Scope N_scope.

Lemma init_inv : forall todos, Inv mem0 (map thread0 todos).
Proof.
  intros todos. split; cbn.
  - exact I.
  - intros x [].
  - constructor.
  - intros j t H. apply nth_error_In in H. apply in_map_iff in H. destruct H as (td & <- & _).
    cbn. split; discriminate.
  - intros j t H. apply nth_error_In in H. apply in_map_iff in H. destruct H as (td & <- & _).
    split; cbn.
    + intros x [].
    + destruct td; cbn; auto.
  - intros e. symmetry. apply count_zero_forall. intros t H.
    apply in_map_iff in H. destruct H as (td & <- & _). reflexivity.
  - symmetry. apply count_zero_forall. intros t H.
    apply in_map_iff in H. destruct H as (td & <- & _). reflexivity.
Qed.

(* The invariant holds after every schedule (Base/Sched.v: induction on the schedule). *)
Theorem run_inv : forall todos sched,
  Inv (shared (runs sched (init todos))) (locals (runs sched (init todos))).
Proof.
  intros todos sched.
  apply (run_invariant_steps mem thread step Inv).
  - intros i g ls l g' l' HI Hn Hs. eapply step_inv; eauto.
  - apply init_inv.
Qed.

Section Consequences.
Variables (todos : list (list addr)) (sched : list nat).
Let c := runs sched (init todos).

Theorem sorted_always : asorted (addrs (shared c)).
Proof. apply (i_sorted _ _ (run_inv todos sched)). Qed.

Theorem keys_nodup_always : NoDup (keys (addrs (shared c))).
Proof. apply asorted_keys_nodup. apply sorted_always. Qed.

Theorem entries_distinct_always : NoDup (ids (addrs (shared c))).
Proof. apply (i_ids_nodup _ _ (run_inv todos sched)). Qed.

Theorem returned_present : forall j t a e,
  nth_error (locals c) j = Some t -> In (a, e) (t_rets t) -> In (a, e) (addrs (shared c)).
Proof.
  intros j t a e Hj Hin.
  apply (tk_rets _ _ _ (i_threads _ _ (run_inv todos sched) j t Hj)). exact Hin.
Qed.

(* present exactly once *)
Theorem returned_present_once : forall j t a e,
  nth_error (locals c) j = Some t -> In (a, e) (t_rets t) ->
  count_occ N.eq_dec (keys (addrs (shared c))) a = 1%nat.
Proof.
  intros j t a e Hj Hin.
  pose proof (returned_present j t a e Hj Hin) as H.
  apply (in_map fst) in H. cbn in H.
  pose proof keys_nodup_always as Hnd.
  rewrite (NoDup_count_occ N.eq_dec) in Hnd. specialize (Hnd a).
  apply (count_occ_In N.eq_dec) in H. unfold keys in *. lia.
Qed.

(* two calls for one address got the same entry, whichever threads made them *)
Theorem same_entry : forall j1 t1 j2 t2 a e1 e2,
  nth_error (locals c) j1 = Some t1 -> nth_error (locals c) j2 = Some t2 ->
  In (a, e1) (t_rets t1) -> In (a, e2) (t_rets t2) -> e1 = e2.
Proof.
  intros j1 t1 j2 t2 a e1 e2 H1 H2 I1 I2.
  eapply asorted_functional; [apply sorted_always | exact (returned_present j1 t1 a e1 H1 I1) | exact (returned_present j2 t2 a e2 H2 I2)].
Qed.

(* the counter of an entry is the number of connections currently open on it *)
Theorem counts_exact : forall e, cnt (shared c) e = count (opened_at e) (locals c).
Proof. apply (i_cnt _ _ (run_inv todos sched)). Qed.

Theorem mutual_exclusion : forall j1 t1 j2 t2,
  nth_error (locals c) j1 = Some t1 -> nth_error (locals c) j2 = Some t2 ->
  critical (t_pc t1) = true -> critical (t_pc t2) = true -> j1 = j2.
Proof.
  intros j1 t1 j2 t2 H1 H2 C1 C2.
  pose proof (proj1 (i_lock _ _ (run_inv todos sched) j1 t1 H1) C1) as L1.
  pose proof (proj1 (i_lock _ _ (run_inv todos sched) j2 t2 H2) C2) as L2. congruence.
Qed.

Lemma finished_not_opened : forall t, In t (locals c) -> finished t = true -> t_pc t = PStart.
Proof.
  intros t Hin Hf. apply In_nth_error in Hin. destruct Hin as [j Hj].
  pose proof (tk_pc _ _ _ (i_threads _ _ (run_inv todos sched) j t Hj)) as H.
  unfold finished in Hf. destruct (t_todo t); [exact H | discriminate].
Qed.

(* once every connection has been closed, every open-connection count is zero *)
Theorem counts_zero : all_finished c = true ->
  (forall e, cnt (shared c) e = 0%Z) /\ global (shared c) = 0%Z.
Proof.
  intros Hall. unfold all_finished in Hall. rewrite forallb_forall in Hall.
  split.
  - intros e. rewrite counts_exact. apply count_zero_forall. intros t Hin.
    unfold opened_at. rewrite (finished_not_opened t Hin (Hall t Hin)). reflexivity.
  - unfold c. rewrite (i_global _ _ (run_inv todos sched)). apply count_zero_forall. intros t Hin.
    unfold opened. rewrite (finished_not_opened t Hin (Hall t Hin)). reflexivity.
Qed.

End Consequences.

(* ---- each thread asks for its addresses in order -------------------------- *)

Definition hist (orig : list addr) (t : thread) : Prop :=
  match t_pc t with
  | PGot _ | POpened _ => orig = map fst (rev (t_rets t)) ++ tl (t_todo t)
  | _ => orig = map fst (rev (t_rets t)) ++ t_todo t
  end.

Lemma Forall2_upd : forall A B (R : A -> B -> Prop) la lb i y,
  Forall2 R la lb -> (forall x b, nth_error la i = Some x -> nth_error lb i = Some b -> R x y) ->
  Forall2 R la (upd i y lb).
Proof.
  intros A B R la lb i y H. revert i. induction H as [| a b la lb Hab H IH]; intros i Hy.
  - destruct i; constructor.
  - destruct i as [| i]; cbn.
    + constructor; auto. eapply Hy; reflexivity.
    + constructor; auto.
Qed.

Lemma step_hist : forall i g t g' t' orig, step i g t = (g', t') -> hist orig t -> hist orig t'.
Proof.
  intros i g t g' t' orig Hst Hh. unfold step in Hst.
  destruct (t_todo t) as [| a rest] eqn:Htodo; [injection Hst as <- <-; exact Hh|].
  unfold hist in *.
  destruct (t_pc t) eqn:Hpc;
    repeat match type of Hst with
    | context [match search ?a ?s with _ => _ end] => destruct (search a s)
    | context [match lock ?g with _ => _ end] => destruct (lock g)
    end;
    injection Hst as <- <-; cbn; rewrite ?Htodo, ?Hpc in *; cbn in *; auto;
    try (rewrite map_app, <- app_assoc; cbn; exact Hh).
Qed.

Theorem hist_always : forall todos sched, Forall2 hist todos (locals (runs sched (init todos))).
Proof.
  intros todos sched.
  apply (run_invariant_steps mem thread step (fun _ ls => Forall2 hist todos ls)).
  - intros i g ls l g' l' H Hn Hs. apply Forall2_upd; auto.
    intros x b Hx Hb. assert (b = l) by congruence. subst b.
    eapply step_hist; eauto.
    clear - H Hx Hn. revert i Hx Hn. induction H as [| o t os ts Hot H IH]; intros [| i] Hx Hn; cbn in *; try discriminate.
    + congruence.
    + eauto.
  - cbn. induction todos as [| o os IH]; cbn; constructor; auto.
    unfold hist. reflexivity.
Qed.

(* ---- the executable oracle holds of the model ----------------------------- *)

Lemma asorted_sortedb : forall s, asorted s -> sortedb (keys s) = true.
Proof.
  induction s as [| [a e] t IH]; cbn; intros H; auto.
  destruct H as [Ha Ht]. specialize (IH Ht).
  destruct t as [| [b e'] t']; cbn in *; auto.
  rewrite IH. rewrite andb_true_r. apply N.ltb_lt. apply Ha. left; reflexivity.
Qed.

Lemma memb_in : forall x l, memb x l = true <-> In x l.
Proof.
  induction l as [| y t IH]; cbn; [split; [discriminate | tauto]|].
  rewrite orb_true_iff, IH, N.eqb_eq. split; intros [H | H]; auto.
Qed.

Lemma nodup_nodupb : forall l, NoDup l -> nodupb l = true.
Proof.
  induction 1 as [| x l Hni Hnd IH]; cbn; auto.
  rewrite IH, andb_true_r. apply negb_true_iff. destruct (memb x l) eqn:E; auto.
  apply memb_in in E. contradiction.
Qed.

Lemma nlist_eqb_refl : forall l, nlist_eqb l l = true.
Proof. induction l; cbn; auto. rewrite N.eqb_refl. exact IHl. Qed.

Lemma prefixb_app : forall a b, prefixb a (a ++ b) = true.
Proof. induction a; cbn; auto. intros. rewrite N.eqb_refl. apply IHa. Qed.

Lemma in_final_of : forall g a e, In (a, e) (addrs g) -> in_final a e (final_of g) = true.
Proof.
  intros g a e H. unfold in_final, final_of. apply existsb_exists.
  exists (a, e, cnt g e). split.
  - apply in_map_iff. exists (a, e). auto.
  - cbn. rewrite !N.eqb_refl. reflexivity.
Qed.

Lemma rets_match_ok : forall d os ls, Forall2 hist os ls ->
  (forall t, In t ls -> finished t = true -> t_pc t = PStart) ->
  (d = true -> forall t, In t ls -> finished t = true) ->
  rets_match d (map (fun t => rev (t_rets t)) ls) os = true.
Proof.
  intros d os ls H. induction H as [| o t os ts Hot Hh IH]; intros Hfin Hd; [reflexivity|].
  cbn [map rets_match]. apply andb_true_iff. split.
  - destruct d.
    + pose proof (Hd eq_refl t (or_introl eq_refl)) as Ft.
      pose proof (Hfin t (or_introl eq_refl) Ft) as Hpc. unfold hist in Hot. rewrite Hpc in Hot.
      unfold finished in Ft. destruct (t_todo t) eqn:Etd; [|discriminate].
      rewrite app_nil_r in Hot. rewrite <- Hot. apply nlist_eqb_refl.
    + unfold hist in Hot. destruct (t_pc t); rewrite Hot; apply prefixb_app.
  - apply IH.
    + intros t' Hin. apply Hfin. right. exact Hin.
    + intros Hdt t' Hin. apply Hd; auto. right. exact Hin.
Qed.

Theorem model_satisfies_spec : forall todos sched, spec_okb todos sched (model_obs todos sched) = true.
Proof.
  intros todos sched. unfold spec_okb, model_obs. cbn [o_final o_rets o_done o_global].
  set (c := runs sched (init todos)).
  pose proof (run_inv todos sched) as HI. fold c in HI.
  repeat (apply andb_true_iff; split).
  - unfold final_of. rewrite map_map. cbn. apply (asorted_sortedb (addrs (shared c))). apply HI.
  - unfold final_of. rewrite map_map. cbn. apply nodup_nodupb. apply (i_ids_nodup _ _ HI).
  - apply forallb_forall. intros r Hr. apply in_map_iff in Hr. destruct Hr as (t & <- & Ht).
    apply forallb_forall. intros [a e] Hae. cbn. apply in_final_of.
    apply In_nth_error in Ht. destruct Ht as [j Hj].
    apply (tk_rets _ _ _ (i_threads _ _ HI j t Hj)). apply in_rev. exact Hae.
  - apply rets_match_ok.
    + apply hist_always.
    + apply finished_not_opened.
    + unfold all_finished. intros Hd. apply forallb_forall. exact Hd.
  - destruct (all_finished c) eqn:Hall; auto.
    destruct (counts_zero todos sched Hall) as [Hc Hg]. fold c in Hc, Hg.
    apply andb_true_iff. split.
    + apply forallb_forall. intros x Hx. unfold final_of in Hx. apply in_map_iff in Hx.
      destruct Hx as ([a e] & <- & _). cbn. rewrite Hc. reflexivity.
    + rewrite Hg. reflexivity.
Qed.
