(* C41: the property as an executable oracle over the payloads of two runs of the same world (one with faults
   confined to repository r, one without), and the case checker.  No proofs here. *)
From Coq Require Import List NArith Bool.
From RV Require Export C41.Model.
Import ListNotations.
Local Open Scope N_scope.

(* ---- decidable equalities (used to check that the two runs differ only inside r) ---- *)
Definition range_eqb (a b : range) : bool :=
  Bool.eqb (rg_v4 a) (rg_v4 b) && (rg_lo a =? rg_lo b) && (rg_hi a =? rg_hi b).

Section ListEq.
Context {A : Type}.
Variable eqb : A -> A -> bool.
Fixpoint list_eqb (a b : list A) : bool :=
  match a, b with
  | [], [] => true
  | x :: a', y :: b' => eqb x y && list_eqb a' b'
  | _, _ => false
  end.
End ListEq.

Definition item_eqb (a b : item) : bool :=
  match a, b with
  | IOrigin t p, IOrigin t' p' => (t =? t') && range_eqb p p'
  | IOther t, IOther t' => t =? t'
  | _, _ => false
  end.

Definition child_eqb (a b : child) : bool :=
  (ch_id a =? ch_id b) && Bool.eqb (ch_ok a) (ch_ok b) && list_eqb range_eqb (ch_res a) (ch_res b).

Definition version_eqb (a b : version) : bool :=
  list_eqb item_eqb (v_items a) (v_items b) && list_eqb child_eqb (v_children a) (v_children b).

Definition collected_eqb (a b : collected) : bool :=
  Bool.eqb (co_same a) (co_same b) && Bool.eqb (co_mft_ok a) (co_mft_ok b) && Bool.eqb (co_newer a) (co_newer b)
  && Bool.eqb (co_files_ok a) (co_files_ok b) && version_eqb (co_ver a) (co_ver b).

Definition view_eqb (a b : view) : bool :=
  match vw_collected a, vw_collected b with
  | None, None => true
  | Some x, Some y => collected_eqb x y
  | _, _ => false
  end &&
  match vw_stored a, vw_stored b with
  | None, None => true
  | Some (x, v), Some (y, w) => Bool.eqb x y && version_eqb v w
  | _, _ => false
  end.

(* ---- one correspondence case ----------------------------------------------- *)
Record case := {
  c_r : N;                                  (* the repository (rsync module) that is broken in the second run *)
  c_reject : bool;                          (* unsafe-vrps = reject *)
  c_fuel : N;                               (* max-ca-depth *)
  c_repo : list (N * N);                    (* CA -> repository it is published in *)
  c_tals : list (list ta_uri);
  c_base : dyn;                             (* the fault-free run *)
  c_fault : dyn;                            (* the run with the faults *)
  c_layout : list (N * list N * list range);          (* every CA position: TAL, path (itself first), cert resources *)
  c_tags : list (N * (N * list N * option range));    (* item tag -> TAL, path of the publishing CA, prefix of a VRP *)
  c_obs_base : list N;                      (* implementation: tags of the payload of the fault-free run *)
  c_obs_fault : list N }.                   (* implementation: tags of the payload of the faulty run *)

Fixpoint lookup_n {A} (l : list (N * A)) (k : N) : option A :=
  match l with
  | [] => None
  | (k', v) :: t => if k' =? k then Some v else lookup_n t k
  end.

Definition repo_of (c : case) (id : N) : N := match lookup_n (c_repo c) id with Some r => r | None => 0 end.

(* the TAL has a certificate URI inside r *)
Definition tal_bad (c : case) (ti : N) : bool :=
  existsb (fun u => tu_repo u =? c_r c) (nth (N.to_nat ti) (c_tals c) []).

(* some CA on the path is published in r *)
Definition path_bad (c : case) (p : list N) : bool := existsb (fun x => repo_of c x =? c_r c) p.

(* a CA position / an item's origin is affected: published in r, or below a CA published in r, or reached
   through a trust anchor certificate fetched from r *)
Definition touches (c : case) (ti : N) (p : list N) : bool := tal_bad c ti || path_bad c p.

(* the (non-/0) resources of all affected CAs *)
Definition affres (c : case) : list range :=
  flat_map (fun x => match x with (ti, p, res) =>
                       if touches c ti p then filter (fun r => negb (full_range r)) res else [] end) (c_layout c).

(* a difference in this item between the two runs is allowed *)
Definition tag_excused (c : case) (t : N) : bool :=
  match lookup_n (c_tags c) t with
  | None => false
  | Some (ti, p, opfx) =>
      touches c ti p
      || (c_reject c && match opfx with Some pf => existsb (overlaps pf) (affres c) | None => false end)
  end.

Definition memn (x : N) (l : list N) : bool := existsb (N.eqb x) l.

(* The property: every item that is in one run's payload but not in the other's is published by an affected CA,
   or (under reject) is a VRP overlapping the resources of an affected CA. *)
Definition spec_okb (c : case) (ob of : list N) : bool :=
  forallb (fun t => memn t of || tag_excused c t) ob && forallb (fun t => memn t ob || tag_excused c t) of.

(* ---- are the two runs the same outside r? ------------------------------------ *)
Fixpoint agree_tals (bad : N -> bool) (ti : N) (tals : list (list ta_uri)) (oa ob : list (list bool)) : bool :=
  match tals, oa, ob with
  | [], _, _ => true
  | _ :: _, [], [] => true
  | _ :: ts, a :: oa', b :: ob' => (bad ti || list_eqb Bool.eqb a b) && agree_tals bad (ti + 1) ts oa' ob'
  | _, _, _ => false
  end.

Definition agree (c : case) : bool :=
  forallb (fun id => (repo_of c id =? c_r c)
                     || view_eqb (lookup_view (d_views (c_base c)) id) (lookup_view (d_views (c_fault c)) id))
          (map fst (d_views (c_base c)) ++ map fst (d_views (c_fault c)))
  && agree_tals (tal_bad c) 0 (c_tals c) (d_ta_ok (c_base c)) (d_ta_ok (c_fault c)).

(* ---- the model's events are consistent with the static attribution tables ----- *)
Definition orange_eqb (a b : option range) : bool :=
  match a, b with Some x, Some y => range_eqb x y | None, None => true | _, _ => false end.

Definition item_pfx (i : item) : option range := match i with IOrigin _ p => Some p | IOther _ => None end.

Definition ev_consistent (c : case) (e : event) : bool :=
  match e with
  | EPush t p its =>
      forallb (fun i => match lookup_n (c_tags c) (item_tag i) with
                        | Some (t', p', o) => (t =? t') && list_eqb N.eqb p p' && orange_eqb (item_pfx i) o
                        | None => false
                        end) its
  | EReject t p res =>
      existsb (fun x => match x with (t', p', res') =>
                          (t =? t') && list_eqb N.eqb p p' && list_eqb range_eqb res res' end) (c_layout c)
  end.

Definition events (c : case) (d : dyn) : list event := run (c_tals c) (N.to_nat (c_fuel c)) d.

Definition tags_of (s : list (N * list N * item)) : list N := map (fun x => item_tag (snd x)) s.

(* the model's payload tags of both runs; None if the events contradict the static tables *)
Definition model_obs (c : case) : option (list N * list N) :=
  let eb := events c (c_base c) in
  let ef := events c (c_fault c) in
  if forallb (ev_consistent c) eb && forallb (ev_consistent c) ef
  then Some (tags_of (snapshot (c_reject c) eb), tags_of (snapshot (c_reject c) ef))
  else None.

Definition same_set (a b : list N) : bool := forallb (fun x => memn x b) a && forallb (fun x => memn x a) b.

(* Result codes: 0 oracle true on the implementation's payloads and model = implementation (as sets) for both
   runs; 1 oracle true, model differs; 2 oracle false on the implementation's payloads; 9 precondition: the two
   runs differ outside r, or the model's events contradict the static attribution tables. *)
Definition check_case (c : case) : N :=
  if negb (agree c) then 9
  else match model_obs c with
       | None => 9
       | Some (mb, mf) =>
           if negb (spec_okb c (c_obs_base c) (c_obs_fault c)) then 2
           else if same_set mb (c_obs_base c) && same_set mf (c_obs_fault c) then 0 else 1
       end.
