(* C41 model: which publication point's data reaches the payload, and what a run depends on.
   A self-contained slice of the validation engine (NOT the whole-tree model of coq/Engine):
     /repo/src/engine.rs   Run::process_tal_task (first usable TAL URI), process_ca_task (a point, then the
                           child CA tasks it returned), PubPoint::process (collected update, else stored version,
                           else reject), process_collected (same as stored / manifest+CRL invalid / not newer /
                           a listed file missing or with a wrong hash -> fall back to the store),
                           process_stored, process_ca_cer (validation verdict, CaCert::check_loop, CaCert::chain
                           depth limit), accept_point -> commit, reject_point -> cancel
     /repo/src/collector/base.rs  Run::repository / load_ta: per repository, never failing the run for rsync
     /repo/src/payload/validation.rs  PubPointProcessor::commit (pushed iff not empty), cancel
                           (RejectedResourcesBuilder::extend_from_cert: blocks except /0), ValidationReport::
                           into_snapshot / SnapshotBuilder::process_origin (unsafe-vrps = reject drops an origin whose
                           prefix overlaps a rejected block; router keys and ASPAs are never filtered)
   Per publication point the verdicts of the rpki crate and of the file/hash checks are inputs ("views").
   CA identity = its key (what check_loop compares); the world may be a graph (fuel = max-ca-depth).
   No proofs here. *)
From Coq Require Import List NArith Bool.
Import ListNotations.
Local Open Scope N_scope.

(* an address range of one family; a prefix is the range it covers *)
Record range := { rg_v4 : bool; rg_lo : N; rg_hi : N }.

(* a payload item with a tag that identifies it (the harness numbers the distinct items of a world) *)
Inductive item :=
| IOrigin (tag : N) (pfx : range)     (* a VRP *)
| IOther (tag : N).                   (* a router key or an ASPA *)

Definition item_tag (i : item) : N := match i with IOrigin t _ => t | IOther t => t end.

(* a CA certificate found in a publication point *)
Record child := {
  ch_id : N;                (* the CA (key) it certifies *)
  ch_ok : bool;             (* decodes, validate_ca ok, not revoked / CRL URI ok (everything but loop and depth) *)
  ch_res : list range }.    (* its IP resources (what cancel() would mark as rejected) *)

(* one version of a publication point, as far as it is valid *)
Record version := {
  v_items : list item;          (* payload of its valid objects (after the length limits and type switches) *)
  v_children : list child }.

(* what the collector's copy of the repository shows for the point *)
Record collected := {
  co_same : bool;       (* manifest bytes and caRepository equal to the stored ones *)
  co_mft_ok : bool;     (* validate_collected_manifest incl. CRL succeeds *)
  co_newer : bool;      (* check_collected_is_newer *)
  co_files_ok : bool;   (* every listed file present with the listed hash (store.update did not abort) *)
  co_ver : version }.

Record view := {
  vw_collected : option collected;       (* None: no collector / no manifest file in its copy *)
  vw_stored : option (bool * version) }. (* stored manifest present; (validate_stored_manifest ok, content) *)

(* PubPoint::process_stored *)
Definition stored_path (v : view) : option version :=
  match vw_stored v with
  | Some (true, ver) => Some ver
  | _ => None
  end.

(* PubPoint::process: Some = accept_point with that version, None = reject_point *)
Definition decide (v : view) : option version :=
  match vw_collected v with
  | None => stored_path v
  | Some co =>
      if co_same co then stored_path v
      else if negb (co_mft_ok co) then stored_path v
      else if negb (co_newer co) then stored_path v
      else if co_files_ok co then Some (co_ver co)
      else stored_path v
  end.

Inductive event :=
| EPush (tal : N) (path : list N) (items : list item)      (* commit: the point's payload goes to the report *)
| EReject (tal : N) (path : list N) (res : list range).     (* cancel: the CA's resources are marked rejected *)

Section Run.
Variable views : N -> view.

(* process_ca_task for the CA [id] reached along [path] (its ancestors, nearest first) with a certificate
   holding [res]; [fuel] = how many more levels max-ca-depth allows below this CA *)
Fixpoint run_ca (fuel : nat) (tal : N) (path : list N) (id : N) (res : list range) {struct fuel} : list event :=
  match decide (views id) with
  | None => [EReject tal (id :: path) res]
  | Some ver =>
      (match v_items ver with [] => [] | _ => [EPush tal (id :: path) (v_items ver)] end)
      ++ match fuel with
         | O => []                                   (* CaCert::chain: depth overrun, certificate invalid *)
         | S f =>
             flat_map (fun ch =>
                         if ch_ok ch && negb (existsb (N.eqb (ch_id ch)) (id :: path))   (* check_loop *)
                         then run_ca f tal (id :: path) (ch_id ch) (ch_res ch)
                         else []) (v_children ver)
         end
  end.
End Run.

(* a TAL: its URIs in order, each with the repository the certificate is fetched from, the CA it is for and its
   resources *)
Record ta_uri := { tu_repo : N; tu_root : N; tu_res : list range }.

(* what one run finds: per TAL and URI whether a usable TA certificate is obtained (download or stored copy
   decodes, key equals the TAL's, validate_ta ok), and the view of every publication point *)
Record dyn := { d_ta_ok : list (list bool); d_views : list (N * view) }.

Definition empty_view : view := {| vw_collected := None; vw_stored := None |}.
Fixpoint lookup_view (l : list (N * view)) (id : N) : view :=
  match l with
  | [] => empty_view
  | (k, v) :: t => if k =? id then v else lookup_view t id
  end.

(* process_tal_task: the first URI with a usable certificate *)
Fixpoint run_tal (d : dyn) (fuel : nat) (ti : N) (uris : list ta_uri) (oks : list bool) : list event :=
  match uris, oks with
  | u :: us, ok :: oks' =>
      if ok then run_ca (lookup_view (d_views d)) fuel ti [] (tu_root u) (tu_res u)
      else run_tal d fuel ti us oks'
  | _, _ => []
  end.

Fixpoint run_tals (d : dyn) (fuel : nat) (ti : N) (tals : list (list ta_uri)) (oks : list (list bool)) : list event :=
  match tals, oks with
  | t :: ts, o :: os => run_tal d fuel ti t o ++ run_tals d fuel (ti + 1) ts os
  | _, _ => []
  end.

Definition run (tals : list (list ta_uri)) (fuel : nat) (d : dyn) : list event := run_tals d fuel 0 tals (d_ta_ok d).

(* ---- into_snapshot ------------------------------------------------------- *)
(* IpBlock::is_slash_zero *)
Definition full_range (r : range) : bool :=
  (rg_lo r =? 0) && (rg_hi r =? (if rg_v4 r then 4294967295 else 340282366920938463463374607431768211455)).

(* RejectedResourcesBuilder::extend_from_cert over all cancelled CAs *)
Definition rejected_of (evs : list event) : list range :=
  flat_map (fun e => match e with
                     | EReject _ _ res => filter (fun r => negb (full_range r)) res
                     | EPush _ _ _ => []
                     end) evs.

Definition overlaps (a b : range) : bool :=
  Bool.eqb (rg_v4 a) (rg_v4 b) && (rg_lo a <=? rg_hi b) && (rg_lo b <=? rg_hi a).

(* RejectedResources::keep_prefix *)
Definition keep (rej : list range) (i : item) : bool :=
  match i with
  | IOrigin _ p => negb (existsb (overlaps p) rej)
  | IOther _ => true
  end.

(* the payload with its origin: (TAL, path of the publishing CA, item) *)
Definition snapshot (reject : bool) (evs : list event) : list (N * list N * item) :=
  let rej := rejected_of evs in
  flat_map (fun e => match e with
                     | EPush t p its => map (fun i => (t, p, i)) (if reject then filter (keep rej) its else its)
                     | EReject _ _ _ => []
                     end) evs.
