(* C41 proofs: non-interference of the engine's traversal. *)
From Coq Require Import List NArith Bool Lia.
From RV Require Import C41.Model C41.Spec.
Import ListNotations.
Local Open Scope N_scope.

(* ---- decidable equalities are equalities --------------------------------------- *)
Lemma list_eqb_eq : forall {A} (eqb : A -> A -> bool), (forall x y, eqb x y = true -> x = y) ->
  forall a b, list_eqb eqb a b = true -> a = b.
Proof.
  intros A eqb H. induction a as [|x a IH]; intros [|y b] E; cbn [list_eqb] in E; try discriminate; [reflexivity|].
  apply andb_true_iff in E. destruct E as [E1 E2]. f_equal; [now apply H | now apply IH].
Qed.

Lemma beqb_eq : forall a b, Bool.eqb a b = true -> a = b.
Proof. intros a b H. now apply eqb_prop. Qed.

Lemma range_eqb_eq : forall a b, range_eqb a b = true -> a = b.
Proof.
  intros [a1 a2 a3] [b1 b2 b3] H. unfold range_eqb in H. cbn in H.
  apply andb_true_iff in H. destruct H as [H H3]. apply andb_true_iff in H. destruct H as [H1 H2].
  apply beqb_eq in H1. apply N.eqb_eq in H2. apply N.eqb_eq in H3. now subst.
Qed.

Lemma item_eqb_eq : forall a b, item_eqb a b = true -> a = b.
Proof.
  intros [t p|t] [t' p'|t'] H; cbn in H; try discriminate.
  - apply andb_true_iff in H. destruct H as [H1 H2]. apply N.eqb_eq in H1. apply range_eqb_eq in H2. now subst.
  - apply N.eqb_eq in H. now subst.
Qed.

Lemma child_eqb_eq : forall a b, child_eqb a b = true -> a = b.
Proof.
  intros [a1 a2 a3] [b1 b2 b3] H. unfold child_eqb in H. cbn in H.
  apply andb_true_iff in H. destruct H as [H H3]. apply andb_true_iff in H. destruct H as [H1 H2].
  apply N.eqb_eq in H1. apply beqb_eq in H2. apply (list_eqb_eq _ range_eqb_eq) in H3. now subst.
Qed.

Lemma version_eqb_eq : forall a b, version_eqb a b = true -> a = b.
Proof.
  intros [a1 a2] [b1 b2] H. unfold version_eqb in H. cbn in H. apply andb_true_iff in H. destruct H as [H1 H2].
  apply (list_eqb_eq _ item_eqb_eq) in H1. apply (list_eqb_eq _ child_eqb_eq) in H2. now subst.
Qed.

Lemma collected_eqb_eq : forall a b, collected_eqb a b = true -> a = b.
Proof.
  intros [a1 a2 a3 a4 a5] [b1 b2 b3 b4 b5] H. unfold collected_eqb in H. cbn in H.
  repeat (apply andb_true_iff in H; let H' := fresh "H" in destruct H as [H H']).
  repeat match goal with X : Bool.eqb _ _ = true |- _ => apply beqb_eq in X end.
  match goal with X : version_eqb _ _ = true |- _ => apply version_eqb_eq in X end. now subst.
Qed.

Lemma view_eqb_eq : forall a b, view_eqb a b = true -> a = b.
Proof.
  intros [ac as_] [bc bs] H. unfold view_eqb in H. cbn in H. apply andb_true_iff in H. destruct H as [H1 H2].
  assert (ac = bc).
  { destruct ac, bc; try discriminate; [|reflexivity]. f_equal. now apply collected_eqb_eq. }
  assert (as_ = bs).
  { destruct as_ as [[x v]|], bs as [[y w]|]; try discriminate; [|reflexivity].
    apply andb_true_iff in H2. destruct H2 as [H2 H3]. apply beqb_eq in H2. apply version_eqb_eq in H3. now subst. }
  now subst.
Qed.

(* ---- generic list facts ------------------------------------------------------------ *)
Lemma filter_none : forall {A} (f : A -> bool) l, (forall x, In x l -> f x = false) -> filter f l = [].
Proof.
  intros A f. induction l as [|x l IH]; intros H; [reflexivity|]. cbn [filter].
  rewrite (H x (or_introl eq_refl)). apply IH. intros y Hy. apply H. now right.
Qed.

Lemma existsb_app_r : forall {A} (f : A -> bool) l x t, f x = true -> existsb f (l ++ x :: t) = true.
Proof. intros A f l x t H. rewrite existsb_app. cbn [existsb]. rewrite H. now rewrite orb_true_r. Qed.

(* ---- non-interference of the traversal ---------------------------------------------- *)
Definition ev_tal (e : event) : N := match e with EPush t _ _ => t | EReject t _ _ => t end.
Definition ev_path (e : event) : list N := match e with EPush _ p _ => p | EReject _ p _ => p end.

Section NI.
Variable repo : N -> N.       (* CA -> repository *)
Variable r : N.               (* the broken repository *)
Variable talbad : N -> bool.  (* the TAL has a certificate URI in r *)

Definition pbad (p : list N) : bool := existsb (fun x => repo x =? r) p.
Definition unaff_tp (t : N) (p : list N) : bool := negb (talbad t || pbad p).
Definition unaff (e : event) : bool := unaff_tp (ev_tal e) (ev_path e).

Lemma run_ca_shape : forall views fuel tal path id res e, In e (run_ca views fuel tal path id res) ->
  ev_tal e = tal /\ exists l, ev_path e = l ++ id :: path.
Proof.
  intros views. induction fuel as [|f IH]; intros tal path id res e He; cbn [run_ca] in He;
    destruct (decide (views id)) as [ver|].
  - apply in_app_or in He. destruct He as [He|[]].
    destruct (v_items ver); [destruct He|]. destruct He as [<-|[]]. split; [reflexivity | now exists []].
  - destruct He as [<-|[]]. split; [reflexivity | now exists []].
  - apply in_app_or in He. destruct He as [He|He].
    + destruct (v_items ver); [destruct He|]. destruct He as [<-|[]]. split; [reflexivity | now exists []].
    + apply in_flat_map in He. destruct He as (ch & _ & He).
      destruct (ch_ok ch && negb (existsb (N.eqb (ch_id ch)) (id :: path))); [|destruct He].
      destruct (IH _ _ _ _ _ He) as (Ht & l & Hl). split; [exact Ht|].
      exists (l ++ [ch_id ch]). rewrite Hl, <- app_assoc. reflexivity.
  - destruct He as [<-|[]]. split; [reflexivity | now exists []].
Qed.

Lemma run_ca_in_r : forall views fuel tal path id res, repo id = r ->
  filter unaff (run_ca views fuel tal path id res) = [].
Proof.
  intros views fuel tal path id res Hr. apply filter_none. intros e He.
  destruct (run_ca_shape _ _ _ _ _ _ _ He) as (_ & l & Hl). unfold unaff, unaff_tp. rewrite Hl.
  unfold pbad. rewrite existsb_app_r; [now rewrite orb_true_r | now apply N.eqb_eq].
Qed.

Section Views.
Variables va vb : N -> view.
Hypothesis Hagree : forall x, repo x <> r -> va x = vb x.

Lemma ni_ca : forall fuel tal path id res,
  filter unaff (run_ca va fuel tal path id res) = filter unaff (run_ca vb fuel tal path id res).
Proof.
  induction fuel as [|f IH]; intros tal path id res.
  - destruct (N.eq_dec (repo id) r) as [Hr|Hr]; [now rewrite !run_ca_in_r|].
    cbn [run_ca]. rewrite (Hagree id Hr). reflexivity.
  - destruct (N.eq_dec (repo id) r) as [Hr|Hr]; [now rewrite !run_ca_in_r|].
    cbn [run_ca]. rewrite (Hagree id Hr). destruct (decide (vb id)) as [ver|]; [|reflexivity].
    rewrite !filter_app. f_equal.
    induction (v_children ver) as [|ch l IHl]; [reflexivity|]. cbn [flat_map]. rewrite !filter_app. f_equal; [|exact IHl].
    destruct (ch_ok ch && negb (existsb (N.eqb (ch_id ch)) (id :: path))); [apply IH | reflexivity].
Qed.
End Views.

Section Tals.
Variables da db : dyn.
Hypothesis Hagree : forall x, repo x <> r -> lookup_view (d_views da) x = lookup_view (d_views db) x.

Lemma run_tal_tal : forall d fuel ti uris oks e, In e (run_tal d fuel ti uris oks) -> ev_tal e = ti.
Proof.
  intros d fuel ti. induction uris as [|u us IH]; intros [|ok oks] e He; cbn [run_tal] in He; try destruct He.
  destruct ok; [|now apply (IH oks)]. now destruct (run_ca_shape _ _ _ _ _ _ _ He).
Qed.

Lemma ni_tal : forall fuel ti uris oks,
  filter unaff (run_tal da fuel ti uris oks) = filter unaff (run_tal db fuel ti uris oks).
Proof.
  intros fuel ti. induction uris as [|u us IH]; intros [|ok oks]; cbn [run_tal]; try reflexivity.
  destruct ok; [|apply IH]. now apply ni_ca.
Qed.

Lemma ni_tal_bad : forall d fuel ti uris oks, talbad ti = true -> filter unaff (run_tal d fuel ti uris oks) = [].
Proof.
  intros d fuel ti uris oks Hb. apply filter_none. intros e He. unfold unaff, unaff_tp.
  rewrite (run_tal_tal _ _ _ _ _ _ He), Hb. reflexivity.
Qed.

Lemma ni_tals : forall fuel tals ti oa ob, agree_tals talbad ti tals oa ob = true ->
  filter unaff (run_tals da fuel ti tals oa) = filter unaff (run_tals db fuel ti tals ob).
Proof.
  intros fuel. induction tals as [|t ts IH]; intros ti oa ob H; [reflexivity|].
  destruct oa as [|a oa], ob as [|b ob]; cbn [agree_tals] in H; try discriminate; [reflexivity|].
  apply andb_true_iff in H. destruct H as [H1 H2]. cbn [run_tals]. rewrite !filter_app. f_equal; [|now apply IH].
  apply orb_true_iff in H1. destruct H1 as [Hb|He].
  - now rewrite !ni_tal_bad.
  - apply (list_eqb_eq _ beqb_eq) in He. subst b. apply ni_tal.
Qed.

(* Outside r and its descendants the two runs produce the same events, in the same order. *)
Theorem ni_run : forall tals fuel, agree_tals talbad 0 tals (d_ta_ok da) (d_ta_ok db) = true ->
  filter unaff (run tals fuel da) = filter unaff (run tals fuel db).
Proof. intros tals fuel H. unfold run. now apply ni_tals. Qed.
End Tals.

(* ---- from events to the payload ------------------------------------------------------- *)
Lemma in_snapshot : forall rej evs t p i, In (t, p, i) (snapshot rej evs) <->
  exists its, In (EPush t p its) evs /\ In i its /\ (rej = true -> keep (rejected_of evs) i = true).
Proof.
  intros rej evs t p i. unfold snapshot. rewrite in_flat_map. split.
  - intros (e & He & Hi). destruct e as [t' p' its|]; [|destruct Hi].
    apply in_map_iff in Hi. destruct Hi as (j & Ej & Hj). injection Ej as -> -> ->. exists its.
    destruct rej.
    + apply filter_In in Hj. destruct Hj as [Hj Hk]. repeat split; auto.
    + repeat split; auto. discriminate.
  - intros (its & He & Hi & Hk). exists (EPush t p its). split; [exact He|]. apply in_map_iff. exists i.
    split; [reflexivity|]. destruct rej; [|exact Hi]. apply filter_In. split; [exact Hi | now apply Hk].
Qed.

Lemma keep_false : forall rej i, keep rej i = false ->
  exists tg pf rg, i = IOrigin tg pf /\ In rg rej /\ overlaps pf rg = true.
Proof.
  intros rej [tg pf|tg] H; cbn [keep] in H; [|discriminate]. apply negb_false_iff in H.
  apply existsb_exists in H. destruct H as (rg & Hin & Ho). now exists tg, pf, rg.
Qed.

Lemma in_rejected_of : forall evs rg, In rg (rejected_of evs) <->
  exists t p res, In (EReject t p res) evs /\ In rg res /\ full_range rg = false.
Proof.
  intros evs rg. unfold rejected_of. rewrite in_flat_map. split.
  - intros (e & He & Hi). destruct e as [|t p res]; [destruct Hi|]. apply filter_In in Hi. destruct Hi as [Hi Hf].
    exists t, p, res. repeat split; auto. now apply negb_true_iff.
  - intros (t & p & res & He & Hi & Hf). exists (EReject t p res). split; [exact He|]. apply filter_In.
    split; [exact Hi | now apply negb_true_iff].
Qed.

Lemma filter_eq_in : forall (ea eb : list event) e, filter unaff ea = filter unaff eb ->
  unaff e = true -> In e ea -> In e eb.
Proof.
  intros ea eb e H Hu Hi. assert (In e (filter unaff ea)) by (apply filter_In; now split).
  rewrite H in H0. now apply filter_In in H0.
Qed.

(* An item published by an unaffected CA that is in the payload of one run is in the payload of the other run,
   unless (policy reject) it is a VRP that overlaps a resource rejected, in that other run, at an affected CA. *)
Theorem isolation_events : forall rej ea eb, filter unaff ea = filter unaff eb ->
  forall t p i, unaff_tp t p = true -> In (t, p, i) (snapshot rej ea) ->
  In (t, p, i) (snapshot rej eb)
  \/ (rej = true /\ exists tg pf t' q res rg, i = IOrigin tg pf /\ In (EReject t' q res) eb /\ unaff_tp t' q = false
                                       /\ In rg res /\ full_range rg = false /\ overlaps pf rg = true).
Proof.
  intros rej ea eb Hf t p i Hu Hi. apply in_snapshot in Hi. destruct Hi as (its & He & Hin & Hk).
  assert (Hb : In (EPush t p its) eb) by (apply (filter_eq_in ea eb); auto).
  destruct rej.
  - destruct (keep (rejected_of eb) i) eqn:Ek.
    + left. apply in_snapshot. exists its. repeat split; auto.
    + right. split; [reflexivity|]. apply keep_false in Ek. destruct Ek as (tg & pf & rg & -> & Hrg & Ho).
      apply in_rejected_of in Hrg. destruct Hrg as (t' & q & res & Hr & Hir & Hfull).
      exists tg, pf, t', q, res, rg. repeat split; auto.
      destruct (unaff_tp t' q) eqn:Eu; [|reflexivity]. exfalso.
      (* an unaffected rejection happened in the first run too, so the item was not kept there *)
      assert (Ha : In (EReject t' q res) ea) by (apply (filter_eq_in eb ea); auto).
      specialize (Hk eq_refl). cbn [keep] in Hk. apply negb_true_iff in Hk.
      assert (existsb (overlaps pf) (rejected_of ea) = true); [|congruence].
      apply existsb_exists. exists rg. split; [|exact Ho]. apply in_rejected_of. now exists t', q, res.
  - left. apply in_snapshot. exists its. repeat split; auto. discriminate.
Qed.
End NI.

(* ---- the oracle holds of the model ------------------------------------------------------ *)
Lemma lookup_view_notin : forall l x, ~ In x (map fst l) -> lookup_view l x = empty_view.
Proof.
  induction l as [|[k v] l IH]; intros x H; [reflexivity|]. cbn [lookup_view]. cbn [map fst In] in H.
  destruct (N.eqb_spec k x) as [->|Hn]; [exfalso; apply H; now left|]. apply IH. intros Hc. apply H. now right.
Qed.

Lemma agree_views : forall c, agree c = true -> forall x, repo_of c x <> c_r c ->
  lookup_view (d_views (c_base c)) x = lookup_view (d_views (c_fault c)) x.
Proof.
  intros c H x Hx. unfold agree in H. apply andb_true_iff in H. destruct H as [H _]. rewrite forallb_forall in H.
  destruct (in_dec N.eq_dec x (map fst (d_views (c_base c)) ++ map fst (d_views (c_fault c)))) as [Hi|Hn].
  - specialize (H x Hi). apply orb_true_iff in H. destruct H as [H|H]; [apply N.eqb_eq in H; contradiction|].
    now apply view_eqb_eq.
  - rewrite !lookup_view_notin; [reflexivity| |]; intros Hc; apply Hn; apply in_or_app; [now right | now left].
Qed.

Lemma list_beqb_refl : forall a, list_eqb Bool.eqb a a = true.
Proof. induction a as [|x a IH]; [reflexivity|]. cbn [list_eqb]. rewrite IH. now destruct x. Qed.

Lemma agree_tals_sym : forall bad tals ti oa ob, agree_tals bad ti tals oa ob = true -> agree_tals bad ti tals ob oa = true.
Proof.
  intros bad. induction tals as [|t ts IH]; intros ti oa ob H; [reflexivity|].
  destruct oa as [|a oa], ob as [|b ob]; cbn [agree_tals] in *; try discriminate; [reflexivity|].
  apply andb_true_iff in H. destruct H as [H1 H2]. apply andb_true_iff. split; [|now apply IH].
  apply orb_true_iff in H1. apply orb_true_iff. destruct H1 as [H1|H1]; [now left|right].
  apply (list_eqb_eq _ beqb_eq) in H1. rewrite H1. apply list_beqb_refl.
Qed.

Lemma touches_unaff : forall c t p, touches c t p = negb (unaff_tp (repo_of c) (c_r c) (tal_bad c) t p).
Proof. intros c t p. unfold touches, unaff_tp, path_bad, pbad. now rewrite negb_involutive. Qed.

Lemma ni_case : forall c, agree c = true ->
  filter (unaff (repo_of c) (c_r c) (tal_bad c)) (events c (c_base c))
  = filter (unaff (repo_of c) (c_r c) (tal_bad c)) (events c (c_fault c)).
Proof.
  intros c H. unfold events. apply ni_run; [now apply agree_views|].
  unfold agree in H. apply andb_true_iff in H. now destruct H.
Qed.

(* one direction of the oracle *)
Lemma half_spec : forall c ea eb,
  filter (unaff (repo_of c) (c_r c) (tal_bad c)) ea = filter (unaff (repo_of c) (c_r c) (tal_bad c)) eb ->
  forallb (ev_consistent c) ea = true -> forallb (ev_consistent c) eb = true ->
  forallb (fun t => memn t (tags_of (snapshot (c_reject c) eb)) || tag_excused c t)
          (tags_of (snapshot (c_reject c) ea)) = true.
Proof.
  intros c ea eb Hf Ca Cb. apply forallb_forall. intros tg Htg. unfold tags_of in Htg. apply in_map_iff in Htg.
  destruct Htg as ([[t p] i] & <- & Hi). cbn [snd].
  (* where the static tables put this item *)
  pose proof Hi as Hi'. apply in_snapshot in Hi'. destruct Hi' as (its & He & Hin & _).
  rewrite forallb_forall in Ca. pose proof (Ca _ He) as Hc. cbn [ev_consistent] in Hc. rewrite forallb_forall in Hc.
  specialize (Hc i Hin). destruct (lookup_n (c_tags c) (item_tag i)) as [[[t' p'] o]|] eqn:El; [|discriminate].
  apply andb_true_iff in Hc. destruct Hc as [Hc Ho]. apply andb_true_iff in Hc. destruct Hc as [Ht Hp].
  apply N.eqb_eq in Ht. apply (list_eqb_eq _ (fun x y => proj1 (N.eqb_eq x y))) in Hp. subst t' p'.
  unfold tag_excused. rewrite El. rewrite touches_unaff.
  destruct (unaff_tp (repo_of c) (c_r c) (tal_bad c) t p) eqn:Eu; [|cbn; now rewrite orb_true_r].
  destruct (isolation_events (repo_of c) (c_r c) (tal_bad c) (c_reject c) ea eb Hf t p i Eu Hi)
    as [Hb|(Hrej & tg & pf & t' & q & res & rg & -> & Hr & Hq & Hrg & Hfull & Hov)].
  - apply orb_true_iff. left. apply existsb_exists. exists (item_tag i). split; [|apply N.eqb_refl].
    unfold tags_of. apply in_map_iff. now exists (t, p, i).
  - apply orb_true_iff. right. cbn [negb orb]. rewrite Hrej. cbn [andb].
    cbn [item_pfx] in Ho. destruct o as [pf'|]; [|discriminate]. cbn [orange_eqb] in Ho. apply range_eqb_eq in Ho.
    subst pf'. apply existsb_exists. exists rg. split; [|exact Hov].
    (* the rejected CA is in the static layout, and it is affected *)
    rewrite forallb_forall in Cb. pose proof (Cb _ Hr) as Hc. cbn [ev_consistent] in Hc.
    apply existsb_exists in Hc. destruct Hc as ([[t2 q2] res2] & Hl & Hc).
    apply andb_true_iff in Hc. destruct Hc as [Hc Hres]. apply andb_true_iff in Hc. destruct Hc as [Ht2 Hq2].
    apply N.eqb_eq in Ht2. apply (list_eqb_eq _ (fun x y => proj1 (N.eqb_eq x y))) in Hq2.
    apply (list_eqb_eq _ range_eqb_eq) in Hres. subst t2 q2 res2.
    unfold affres. apply in_flat_map. exists (t', q, res). split; [exact Hl|].
    rewrite touches_unaff, Hq. cbn [negb]. apply filter_In. split; [exact Hrg | now rewrite Hfull].
Qed.

Theorem model_satisfies_spec : forall c mb mf, agree c = true -> model_obs c = Some (mb, mf) ->
  spec_okb c mb mf = true.
Proof.
  intros c mb mf Ha Hm. unfold model_obs in Hm.
  destruct (forallb (ev_consistent c) (events c (c_base c)) && forallb (ev_consistent c) (events c (c_fault c))) eqn:Ec;
    [|discriminate].
  injection Hm as <- <-. apply andb_true_iff in Ec. destruct Ec as [Cb Cf].
  pose proof (ni_case c Ha) as Hf. unfold spec_okb. apply andb_true_iff. split.
  - now apply half_spec.
  - apply half_spec; auto.
Qed.
