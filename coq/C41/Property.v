(* C41 — A broken repository affects only its own subtree.
   Only statements, [exact], an [Example] of non-vacuity and [Check] pins. *)
From Coq Require Import List NArith Bool.
From RV Require Import C41.Model C41.Spec C41.Proofs.
Import ListNotations.
Local Open Scope N_scope.

(* Traversal: for ANY assignment of CAs to repositories [repo], any repository [r], any set [talbad] of TALs that
   have a certificate URI in r, any TALs, any max-ca-depth and any two runs [da], [db] (views of all publication
   points, usable TA certificates) that are equal for every CA not published in r and every TAL outside
   [talbad]: the events (payload pushed / CA rejected) at positions that are not in r, not below a CA in r and not
   under a TAL in [talbad] are the same, in the same order.  The world may be a graph (cycles, shared
   sub-trees); every way in which r can be broken is covered because the views inside r are arbitrary. *)
Theorem C41_traversal_isolation : forall (repo : N -> N) (r : N) (talbad : N -> bool) (da db : dyn),
  (forall x, repo x <> r -> lookup_view (d_views da) x = lookup_view (d_views db) x) ->
  forall tals fuel, agree_tals talbad 0 tals (d_ta_ok da) (d_ta_ok db) = true ->
  filter (unaff repo r talbad) (run tals fuel da) = filter (unaff repo r talbad) (run tals fuel db).
Proof. exact ni_run. Qed.

(* Payload: an item published at an unaffected position that is in one run's payload is in the other run's, unless
   the policy is reject and it is a VRP overlapping a (non-/0) resource of a CA that was rejected in the other run
   at an AFFECTED position.  (Instantiate with the two runs in either order.) *)
Theorem C41_payload_isolation : forall (repo : N -> N) (r : N) (talbad : N -> bool) rej ea eb,
  filter (unaff repo r talbad) ea = filter (unaff repo r talbad) eb ->
  forall t p i, unaff_tp repo r talbad t p = true -> In (t, p, i) (snapshot rej ea) ->
  In (t, p, i) (snapshot rej eb)
  \/ (rej = true /\ exists tg pf t' q res rg, i = IOrigin tg pf /\ In (EReject t' q res) eb
                                       /\ unaff_tp repo r talbad t' q = false
                                       /\ In rg res /\ full_range rg = false /\ overlaps pf rg = true).
Proof. exact isolation_events. Qed.

(* the executable oracle evaluated on the implementation's two payloads holds of the model whenever the two runs
   agree outside r and the model's events fit the static attribution tables of the case *)
Theorem C41_model_satisfies_spec : forall c mb mf, agree c = true -> model_obs c = Some (mb, mf) ->
  spec_okb c mb mf = true.
Proof. exact model_satisfies_spec. Qed.

(* non-vacuity: TAL 0 (certificate in repository 1) -> CA 10 (repo 1) -> CA 11 (repo 2) -> CA 13 (repo 3), and
   CA 10 -> CA 12 (repo 3); TAL 1 has its certificate in repository 2 and CA 20 in repo 3.  Repository 2 is broken:
   CA 11 has no usable manifest and the TA certificate of TAL 1 cannot be used.  Policy reject.
   Items 2, 6 (CA 11), 4 (CA 13, below 11) and 5 (TAL 1) disappear - all affected; item 3 of the unaffected CA 12
   disappears too because it overlaps the resources of the rejected CA 11; items 1 and 7 stay.  The oracle accepts
   that, and rejects a run in which the unaffected, non-overlapping item 7 is lost as well. *)
Definition rg (a b : N) : range := {| rg_v4 := true; rg_lo := a; rg_hi := b |}.
Definition ok_view (its : list item) (ch : list child) : view :=
  {| vw_collected := Some {| co_same := false; co_mft_ok := true; co_newer := true; co_files_ok := true;
                             co_ver := {| v_items := its; v_children := ch |} |};
     vw_stored := None |}.
Definition example_case : case :=
  let r8 := rg 167772160 184549375 in let r11 := rg 167837696 167903231 in let r12 := rg 167838208 167969000 in
  let r13 := rg 167837696 167837951 in let r20 := rg 2886729728 2887778303 in
  let v10 := ok_view [IOrigin 1 (rg 167772160 167772415)]
               [{| ch_id := 11; ch_ok := true; ch_res := [r11] |}; {| ch_id := 12; ch_ok := true; ch_res := [r12] |}] in
  let v11 := ok_view [IOrigin 2 (rg 167837696 167903231); IOther 6] [{| ch_id := 13; ch_ok := true; ch_res := [r13] |}] in
  let v12 := ok_view [IOrigin 3 (rg 167838208 167838463); IOrigin 7 (rg 167903232 167968767)] [] in
  let v13 := ok_view [IOrigin 4 (rg 167837696 167837951)] [] in
  let v20 := ok_view [IOther 5] [] in
  {| c_r := 2; c_reject := true; c_fuel := 32;
     c_repo := [(10, 1); (11, 2); (12, 3); (13, 3); (20, 3)];
     c_tals := [[{| tu_repo := 1; tu_root := 10; tu_res := [r8] |}]; [{| tu_repo := 2; tu_root := 20; tu_res := [r20] |}]];
     c_base := {| d_ta_ok := [[true]; [true]]; d_views := [(10, v10); (11, v11); (12, v12); (13, v13); (20, v20)] |};
     c_fault := {| d_ta_ok := [[true]; [false]];
                   d_views := [(10, v10); (11, empty_view); (12, v12); (13, v13); (20, v20)] |};
     c_layout := [(0, [10], [r8]); (0, [11; 10], [r11]); (0, [12; 10], [r12]); (0, [13; 11; 10], [r13]); (1, [20], [r20])];
     c_tags := [(1, (0, [10], Some (rg 167772160 167772415))); (2, (0, [11; 10], Some (rg 167837696 167903231)));
                (3, (0, [12; 10], Some (rg 167838208 167838463))); (4, (0, [13; 11; 10], Some (rg 167837696 167837951)));
                (5, (1, [20], None)); (6, (0, [11; 10], None)); (7, (0, [12; 10], Some (rg 167903232 167968767)))];
     c_obs_base := [1; 2; 3; 4; 5; 6; 7]; c_obs_fault := [1; 7] |}.

Example C41_nonvacuous :
  agree example_case = true /\
  model_obs example_case = Some ([1; 2; 6; 4; 3; 7; 5], [1; 7]) /\
  check_case example_case = 0 /\
  spec_okb example_case [1; 2; 3; 4; 5; 6; 7] [1] = false /\
  spec_okb {| c_r := 2; c_reject := false; c_fuel := 32; c_repo := c_repo example_case; c_tals := c_tals example_case;
              c_base := c_base example_case; c_fault := c_fault example_case; c_layout := c_layout example_case;
              c_tags := c_tags example_case; c_obs_base := []; c_obs_fault := [] |} [1; 2; 3; 4; 5; 6; 7] [1; 7] = false.
Proof. vm_compute. repeat split. Qed.

Check C41_traversal_isolation : forall (repo : N -> N) (r : N) (talbad : N -> bool) (da db : dyn),
  (forall x, repo x <> r -> lookup_view (d_views da) x = lookup_view (d_views db) x) ->
  forall tals fuel, agree_tals talbad 0 tals (d_ta_ok da) (d_ta_ok db) = true ->
  filter (unaff repo r talbad) (run tals fuel da) = filter (unaff repo r talbad) (run tals fuel db).
Check C41_model_satisfies_spec : forall c mb mf, agree c = true -> model_obs c = Some (mb, mf) ->
  spec_okb c mb mf = true.
