(* C05 — the model is the single-publication-point model shared with C03 and C04
   (coq/C03/Model.v: check_collected_is_newer against the cached fields of StoredManifest,
   the reject() of an inconsistent stored copy, histories of runs). *)
From RV Require Export C03.Model.
