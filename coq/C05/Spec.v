(* C05 — oracle [spec05_okb] (defined next to the shared case type in C03/Spec.v): whenever the
   stored point changes and the previous copy was consistent, manifest number and thisUpdate both
   grew strictly (a stored manifest never disappears and is never displaced by an older one). *)
From Coq Require Import List NArith Bool.
From RV Require Export C05.Model C03.Spec.
Local Open Scope N_scope.

Definition spec_okb (runs : list run_in) (os : list obs) : bool := spec05_okb runs os.
Definition check_case (c : case) : N := check_case05 c.
