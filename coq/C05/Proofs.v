(* C05 — lemmas: monotonicity between any two points of a history; the inconsistent-copy branch. *)
From Coq Require Import List NArith Bool Lia Permutation.
From RV Require Import C03.Model C03.Spec C03.Proofs C03.SpecProofs.
Import ListNotations.
Local Open Scope N_scope.

Lemma wf_runs_app : forall a b, wf_runs (a ++ b) -> wf_runs a /\ wf_runs b.
Proof. intros a b H. unfold wf_runs in *. apply Forall_app. assumption. Qed.
Lemma no_tamper_app : forall a b, no_tamper (a ++ b) -> no_tamper a /\ no_tamper b.
Proof. intros a b H. unfold no_tamper in *. apply Forall_app. assumption. Qed.

(* between any two points of a history the stored manifest number and thisUpdate do not decrease *)
Lemma any_two_points : forall fixed h1 h2 st0 s1,
  wf_runs (h1 ++ h2) -> no_tamper (h1 ++ h2) -> consistent st0 ->
  final_state fixed st0 h1 = Some s1 ->
  exists s2, final_state fixed st0 (h1 ++ h2) = Some s2
             /\ s_number s1 <= s_number s2 /\ s_this s1 <= s_this s2.
Proof.
  intros fixed h1 h2 st0 s1 Hwf Hnt Hc E.
  destruct (wf_runs_app _ _ Hwf) as [Hw1 Hw2]. destruct (no_tamper_app _ _ Hnt) as [Hn1 Hn2].
  pose proof (c05_history_consistent fixed h1 st0 Hw1 Hn1 Hc) as Hc1. rewrite E in Hc1.
  rewrite final_state_app, E.
  destruct (c05_history_monotone fixed h2 s1 Hw2 Hn2 Hc1) as [s2 [E2 [_ [Hn Ht]]]].
  exists s2. auto.
Qed.

(* The exception: a stored copy whose cached number / thisUpdate disagree with its own manifest is
   discarded when a different, valid manifest arrives that is not strictly newer than the cached
   fields; the fetched manifest then replaces it if complete, else nothing is stored. *)
Lemma inconsistent_discarded : forall fixed p s v perm,
  Permutation (pick (v_files v) perm) (v_files v) ->
  consistentb (Some s) = false -> same_manifest (Some s) v = false ->
  validate_collected p v = true -> strictly_newer v s = false ->
  fst (process fixed p (Some s) (Collected v perm)) =
    if complete v then Some (store_of v (pick (v_files v) perm)) else None.
Proof.
  intros fixed p s v perm Hp Hc Hs Hv Hn. rewrite process_spec by assumption.
  unfold accepts, fallback_store. rewrite Hs, Hv, newer_spec, Hn, Hc. cbn [negb andb fst snd].
  destruct (complete v); reflexivity.
Qed.
