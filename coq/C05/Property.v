(* C05 — Fetched manifests never roll back stored data.
   Only statements, [exact], [Check] pins. *)
From Coq Require Import List NArith Bool Permutation.
From RV Require Import C03.Model C03.Spec C03.Proofs C03.SpecProofs C05.Spec C05.Proofs.
Import ListNotations.
Local Open Scope N_scope.

(* One run on a consistent stored copy (cached number / thisUpdate = the manifest's own): the copy
   stays, or it is replaced by a consistent copy whose manifest number AND thisUpdate are both
   strictly greater.  It never disappears. *)
Theorem C05_replace_only_if_newer : forall fixed p s f, wf_fetch f -> consistent (Some s) ->
  let st' := fst (process fixed p (Some s) f) in
  st' = Some s
  \/ exists s', st' = Some s' /\ consistent st' /\ s_number s < s_number s' /\ s_this s < s_this s'.
Proof. exact c05_step. Qed.

(* A replayed or reordered manifest that is not strictly newer in BOTH fields (however valid and
   complete) displaces neither the stored data nor its payload. *)
Theorem C05_replay : forall p s v perm, Permutation (pick (v_files v) perm) (v_files v) ->
  consistent (Some s) -> (v_number v <= s_number s \/ v_this v <= s_this s) ->
  process true p (Some s) (Collected v perm) = (Some s, stored_payload p (Some s)).
Proof. exact c05_replay. Qed.

(* Consistency is an invariant of histories that start from an empty or consistent store: the
   "inconsistent stored copy" branch (StoredPoint::reject) is never taken in them. *)
Theorem C05_history_consistent : forall fixed runs st,
  wf_runs runs -> no_tamper runs -> consistent st -> consistent (final_state fixed st runs).
Proof. exact c05_history_consistent. Qed.

(* By induction over histories of any length (numbers and times increasing, equal, decreasing, mixed,
   replays, faults, unreachable repository): between any two points of a history the stored manifest
   number and thisUpdate never decrease, and a stored manifest never disappears. *)
Theorem C05_history_monotone : forall fixed h1 h2 st0 s1,
  wf_runs (h1 ++ h2) -> no_tamper (h1 ++ h2) -> consistent st0 ->
  final_state fixed st0 h1 = Some s1 ->
  exists s2, final_state fixed st0 (h1 ++ h2) = Some s2
             /\ s_number s1 <= s_number s2 /\ s_this s1 <= s_this s2.
Proof. exact any_two_points. Qed.

(* final_state is the last stored point of run_history *)
Theorem C05_final_state_is_last : forall fixed runs st,
  final_state fixed st runs = last (map fst (run_history fixed st runs)) st.
Proof. exact final_state_history. Qed.

(* the exception named in the property text, exactly *)
Theorem C05_inconsistent_discarded : forall fixed p s v perm,
  Permutation (pick (v_files v) perm) (v_files v) ->
  consistentb (Some s) = false -> same_manifest (Some s) v = false ->
  validate_collected p v = true -> strictly_newer v s = false ->
  fst (process fixed p (Some s) (Collected v perm)) =
    if complete v then Some (store_of v (pick (v_files v) perm)) else None.
Proof. exact inconsistent_discarded. Qed.

Theorem C05_model_satisfies_spec : forall base runs, wf_runsb runs = true ->
  spec_okb runs (model_obs base runs) = true.
Proof. exact model_satisfies_spec05. Qed.

(* non-vacuity: stored (5,500); served in turn (5,600) (6,500) (4,400) (6,600) (6,600 again): only (6,600) replaces *)
Example C05_nonvacuous :
  let mk id n t := mkv id true true false false true true false n t [mkf 1 true true []; mkf 2 true true [id]] in
  let runs := map (fun v => mkr Reject None (Collected v [1; 0]))
                  [mk 1 5 500; mk 2 5 600; mk 3 6 500; mk 4 4 400; mk 5 6 600; mk 5 6 600; mk 1 5 500] in
  wf_runsb runs = true /\
  map o_store (model_obs [] runs) =
    [Some (5, 500, 1, [1; 2]); Some (5, 500, 1, [1; 2]); Some (5, 500, 1, [1; 2]); Some (5, 500, 1, [1; 2]);
     Some (6, 600, 5, [1; 2]); Some (6, 600, 5, [1; 2]); Some (6, 600, 5, [1; 2])] /\
  map o_payload (model_obs [] runs) = [[1]; [1]; [1]; [1]; [5]; [5]; [5]].
Proof. split; [|split]; vm_compute; reflexivity. Qed.

Check C05_replace_only_if_newer : forall fixed p s f, wf_fetch f -> consistent (Some s) ->
  let st' := fst (process fixed p (Some s) f) in
  st' = Some s
  \/ exists s', st' = Some s' /\ consistent st' /\ s_number s < s_number s' /\ s_this s < s_this s'.
Check C05_history_monotone : forall fixed h1 h2 st0 s1,
  wf_runs (h1 ++ h2) -> no_tamper (h1 ++ h2) -> consistent st0 ->
  final_state fixed st0 h1 = Some s1 ->
  exists s2, final_state fixed st0 (h1 ++ h2) = Some s2
             /\ s_number s1 <= s_number s2 /\ s_this s1 <= s_this s2.
Check C05_model_satisfies_spec : forall base runs, wf_runsb runs = true ->
  spec_okb runs (model_obs base runs) = true.
