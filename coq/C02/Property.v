(* C02 -- Valid payload is never silently dropped.
   Only statements, [exact], [Check] pins.  Engine model: Engine/Model.v; declarative reading:
   Engine/Spec.v (Published, Chosen). *)
From Coq Require Import List NArith ZArith Bool.
From RV Require Import Engine.Model Engine.Spec Engine.Proofs Engine.Oracle Engine.OracleProofs Engine.Example
                       C02.Spec C02.Proofs.
Import ListNotations.
Local Open Scope N_scope.

(* Every item of an object that passes all checks (entry_items is non-empty only then, and already
   has the prefix-length limits and the BGPsec/ASPA switches applied), in the version the engine is
   documented to use for its CA (Chosen: the fetched version if it is valid, complete and strictly
   newer than the stored one, else the valid stored one), under a chain of good CA certificates each
   published in the chosen version of its issuer, up to a TAL-matching trust anchor, is in the
   payload unless the unsafe-VRP reject filter removes it.  The hypotheses mention no other entry:
   a fault in a sibling object cannot remove it.  For every graph, store, configuration, walk order. *)
Theorem C02_complete : forall perm, perm_ok perm -> forall cf w tals fuel r,
  run fuel cf perm w tals = Ok r ->
  forall p chain depth v es e it,
    Published cf w tals p chain depth -> Chosen cf w p v es -> In e es ->
    In it (entry_items cf p (pkey_of w p) v e) ->
    keep_unsafe cf (r_rejected r) it = true ->
    In it (r_payload r).
Proof. exact run_complete. Qed.

(* with the checker's fuel the run always completes *)
Theorem C02_total : forall perm, perm_ok perm -> forall cf w tals, exists r, run (fuel_for cf) cf perm w tals = Ok r.
Proof. exact run_fuel. Qed.

(* The executable oracle is the property: it holds of a payload iff every required item that the
   unsafe filter keeps is in it *)
Theorem C02_oracle_is_property : forall cf w tals payload,
  spec_okb cf w tals payload = true <->
  exists ch, run_gen (chosen_point cf w) (fuel_for cf) w tals = Ok ch /\
    forall it, Required cf w tals it -> keep_unsafe cf (o_rejected ch) it = true -> In it payload.
Proof. exact spec_okb_iff. Qed.

Theorem C02_model_satisfies_spec : forall cf perm w tals, perm_ok perm ->
  spec_okb cf w tals (model_obs cf perm w tals) = true.
Proof. exact model_satisfies_spec. Qed.

(* Non-vacuity: the good ROA and ASPA of the example world are required; an observation lacking
   the ASPA (a valid sibling of a broken ROA) is rejected by the oracle. *)
Example C02_nonvacuous :
  model_obs ex_cfg perm_id ex_world [ex_tal] = [vrp1; aspa1] /\
  spec_okb ex_cfg ex_world [ex_tal] [vrp1; aspa1] = true /\
  spec_okb ex_cfg ex_world [ex_tal] [vrp1] = false.
Proof. split; [|split]; vm_compute; reflexivity. Qed.

Check C02_complete : forall perm, perm_ok perm -> forall cf w tals fuel r,
  run fuel cf perm w tals = Ok r ->
  forall p chain depth v es e it,
    Published cf w tals p chain depth -> Chosen cf w p v es -> In e es ->
    In it (entry_items cf p (pkey_of w p) v e) ->
    keep_unsafe cf (r_rejected r) it = true ->
    In it (r_payload r).
Check C02_model_satisfies_spec : forall cf perm w tals, perm_ok perm ->
  spec_okb cf w tals (model_obs cf perm w tals) = true.
