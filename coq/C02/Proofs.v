(* C02 -- the oracle of C02/Spec.v is exactly "carried by the published chain in the chosen
   versions and kept by the unsafe filter", and the model satisfies it. *)
From Coq Require Import List NArith ZArith Bool.
From RV Require Import Engine.Model Engine.Spec Engine.Proofs Engine.Oracle Engine.OracleProofs C02.Spec.
Import ListNotations.
Local Open Scope N_scope.

Definition perm_ok (perm : N -> list entry -> list entry) : Prop := forall id l x, In x (perm id l) <-> In x l.

(* carried by a published chain in the version chosen for the issuing CA *)
Definition Required (cf : cfg) (w : world) (tals : list tal) (it : item) : Prop :=
  exists p chain depth v es e,
    Published cf w tals p chain depth /\ Chosen cf w p v es /\ In e es /\
    In it (entry_items cf p (pkey_of w p) v e).

Lemma required_carriedR : forall cf w tals it, CarriedR cf w tals (Chosen cf w) it <-> Required cf w tals it.
Proof.
  intros. unfold CarriedR, Required. split; intros [p [chain [depth [v [es [e [H1 H2]]]]]]];
    exists p, chain, depth, v, es, e; (split; [apply reach_chosen; exact H1 | exact H2]).
Qed.

Lemma chosen_exact : forall cf w tals ch,
  run_gen (chosen_point cf w) (fuel_for cf) w tals = Ok ch ->
  forall it, In it (o_items ch) <-> Required cf w tals it.
Proof.
  intros cf w tals ch H it. split.
  - intro Hin. apply required_carriedR. eapply gen_run_sound; [apply chosen_sound | exact H | exact Hin].
  - intro Hc. eapply gen_run_complete; [apply chosen_complete | exact H | apply required_carriedR; exact Hc].
Qed.

Lemma chosen_total : forall cf w tals, exists ch, run_gen (chosen_point cf w) (fuel_for cf) w tals = Ok ch.
Proof. intros. apply gen_run_fuel. apply chosen_depth. Qed.

(* the oracle holds of an observation iff every required item that the unsafe filter keeps is observed *)
Lemma spec_okb_iff : forall cf w tals payload,
  spec_okb cf w tals payload = true <->
  exists ch, run_gen (chosen_point cf w) (fuel_for cf) w tals = Ok ch /\
    forall it, Required cf w tals it -> keep_unsafe cf (o_rejected ch) it = true -> In it payload.
Proof.
  intros cf w tals payload. unfold spec_okb. destruct (chosen_total cf w tals) as [ch Hch]. rewrite Hch.
  rewrite inclb_spec. split.
  - intro H. exists ch. split; [reflexivity|]. intros it Hr Hk. apply H. apply filter_In. split; [|exact Hk].
    apply (chosen_exact _ _ _ _ Hch). exact Hr.
  - intros [ch' [Heq H]] it Hin. inversion Heq. subst. apply filter_In in Hin. destruct Hin as [Hin Hk].
    apply H; [apply (chosen_exact _ _ _ _ Hch); exact Hin | exact Hk].
Qed.

Lemma model_satisfies_spec : forall cf perm w tals, perm_ok perm ->
  spec_okb cf w tals (model_obs cf perm w tals) = true.
Proof.
  intros cf perm w tals Hp. unfold spec_okb, model_obs.
  destruct (chosen_total cf w tals) as [ch Hch]. rewrite Hch.
  destruct (run_fuel perm Hp cf w tals) as [r Hr]. rewrite Hr.
  apply inclb_spec. eapply model_contains_chosen; eassumption.
Qed.
