(* C02 -- valid payload is never silently dropped: the executable oracle and the case checker.
   The oracle: every item of a good object in the version the engine is documented to use for a CA
   on a published chain ([chosen_point], the executable form of Engine.Spec.Published / Chosen) is
   served unless the unsafe-VRP reject filter removes it (prefix-length limits and disabled
   BGPsec/ASPA are applied inside entry_items).  No proofs here. *)
From Coq Require Import List NArith ZArith Bool.
From RV Require Export Engine.Check.
Import ListNotations.
Local Open Scope N_scope.

Definition oracle_c02 (sr : step_res) (o : run_obs) : bool := inclb (sr_lower sr) (ob_payload o).

Definition check_case (c : case) : N := check_with oracle_c02 c.

Definition spec_okb (cf : cfg) (w : world) (tals : list tal) (payload : list item) : bool :=
  match run_gen (chosen_point cf w) (fuel_for cf) w tals with
  | Ok ch => inclb (filter (keep_unsafe cf (o_rejected ch)) (o_items ch)) payload
  | OutOfFuel => false
  end.

Definition model_obs (cf : cfg) (perm : N -> list entry -> list entry) (w : world) (tals : list tal) : list item :=
  match run (fuel_for cf) cf perm w tals with Ok r => r_payload r | OutOfFuel => [] end.
