(* C24: following a list of deltas from a copy that may carry the traces of an interrupted update.
   [dirty_ok g s k m c a]: the content [c] agrees with the server's content [a] at serial k except possibly at
   URIs that some delta of session s with a serial in (k, m] touches.  This is what a killed (or failed) delta
   update leaves behind; following the honest server's deltas from such a copy either fails or ends exactly at
   the server's content ([chain_exact]). *)
From Coq Require Import List NArith Bool Lia.
From RV Require Import Base.KMap C25.Model C25.Spec C25.Proofs C24.Model C24.Spec C24.Elems.
Import ListNotations.
Local Open Scope N_scope.

(* ---- the history ---- *)

Lemma ksortedb_all_In g s n c els : ksortedb_all g = true -> In (s, n, c, els) g -> ksorted c.
Proof.
  induction g as [|[[[s' n'] c'] els'] t IH]; cbn [ksortedb_all]; intros H Hin; [destruct Hin|].
  apply andb_prop in H as [H1 H2]. destruct Hin as [E|Hin].
  - inversion E; subst. apply ksortedb_spec. exact H1.
  - apply IH; assumption.
Qed.

Lemma truth_In g s n c : truth (world_of g) s n = Some c -> exists els, In (s, n, c, els) g.
Proof.
  induction g as [|[[[s' n'] c'] els'] t IH]; cbn [world_of map truth]; intros H; [discriminate|].
  destruct ((s =? s') && (n =? n')) eqn:E.
  - apply andb_prop in E as [E1 E2]. apply N.eqb_eq in E1, E2. inversion H; subst. exists els'. left. reflexivity.
  - destruct (IH H) as [els Hin]. exists els. right. exact Hin.
Qed.

(* [gdelta] and [truth] find the same entry *)
Lemma gdelta_In g s n els : gdelta g s n = Some els ->
  exists c, In (s, n, c, els) g /\ truth (world_of g) s n = Some c.
Proof.
  induction g as [|[[[s' n'] c'] els'] t IH]; cbn [gdelta world_of map truth]; intros H; [discriminate|].
  destruct ((s =? s') && (n =? n')) eqn:E.
  - apply andb_prop in E as [E1 E2]. apply N.eqb_eq in E1, E2. inversion H; subst.
    exists c'. split; [left; reflexivity | reflexivity].
  - destruct (IH H) as (c & Hin & Ht). exists c. split; [right; exact Hin | exact Ht].
Qed.

Lemma truth_sorted g s n c : world_ok g = true -> truth (world_of g) s n = Some c -> ksorted c.
Proof.
  intros Hw Ht. apply andb_prop in Hw as [Hs _]. destruct (truth_In _ _ _ _ Ht) as [els Hin].
  eapply ksortedb_all_In; eassumption.
Qed.

(* the delta of serial n leads from the content at n - 1 to the content at n *)
Lemma gdelta_leads g s n els a : world_ok g = true -> gdelta g s n = Some els -> n <> 0 ->
  truth (world_of g) s (n - 1) = Some a ->
  exists c, truth (world_of g) s n = Some c /\ delta_els els [] a = (c, true).
Proof.
  intros Hw Hg Hn Ha. apply andb_prop in Hw as [_ Hl].
  destruct (gdelta_In _ _ _ _ Hg) as (c & Hin & Ht).
  rewrite forallb_forall in Hl. specialize (Hl _ Hin). cbn [delta_leads] in Hl.
  destruct (N.eqb_spec n 0); [contradiction|]. rewrite Ha in Hl.
  destruct (delta_els els [] a) as [c' ok]. apply andb_prop in Hl as [Hok Hc].
  apply content_eqb_eq in Hc. subst. exists c. split; [exact Ht | reflexivity].
Qed.

(* ---- what an honest server serves as a delta ---- *)

Lemma file_honest_delta g f s n els b : file_honest g f = true -> f_doc f = DDelta s n els b ->
  exists gels, gdelta g s n = Some gels /\ (exists r, gels = els ++ r) /\ (b = false -> els = gels).
Proof.
  unfold file_honest. intros H Hd. rewrite Hd in H.
  destruct (gdelta g s n) as [gels|]; [|discriminate]. exists gels. split; [reflexivity|].
  destruct b.
  - split; [apply prefixb_app; exact H | discriminate].
  - apply els_eqb_eq in H. subst. split; [exists []; rewrite app_nil_r; reflexivity | reflexivity].
Qed.

Definition files_honest (g : gworld) (fs : list file) : Prop := forall f, In f fs -> file_honest g f = true.

Lemma find_file_In r fs f : find_file r fs = Some f -> In f fs.
Proof. unfold find_file. intros Hf. apply find_some in Hf. exact (proj1 Hf). Qed.

(* ---- dirty copies ---- *)

Definition dirty_ok (g : gworld) (s k m : N) (c a : content) : Prop :=
  forall u, lookup u c = lookup u a \/
            exists j gels, k < j /\ j <= m /\ gdelta g s j = Some gels /\ last_post u gels <> None.

Lemma dirty_ok_refl g s k m a : dirty_ok g s k m a a.
Proof. intros u. left. reflexivity. Qed.

Lemma dirty_ok_widen g s k m m' c a : m <= m' -> dirty_ok g s k m c a -> dirty_ok g s k m' c a.
Proof.
  intros Hm H u. destruct (H u) as [E|(j & gels & H1 & H2 & H3 & H4)]; [left; exact E|].
  right. exists j, gels. repeat split; try assumption. lia.
Qed.

Lemma dirty_ok_clean g s k c a : ksorted c -> ksorted a -> dirty_ok g s k k c a -> c = a.
Proof.
  intros Hc Ha H. apply ksorted_ext; try assumption. intros u.
  destruct (H u) as [E|(j & gels & H1 & H2 & _)]; [exact E | lia].
Qed.

(* ---- one delta, with its kill points ---- *)

(* every copy on disk at a kill point: the old state record with a sorted content that is dirty within (k, m] *)
Definition kp_dirty (g : gworld) (l : lstate) (k m : N) (a : content) (ps : list kp) : Prop :=
  forall lab st, In (lab, st) ps ->
    exists ci, st = Some (with_content l ci) /\ ksorted ci /\ dirty_ok g (l_session l) k m ci a.

Lemma delta_one_dirty g l fs d k m c a ps c' ok :
  files_honest g fs -> ksorted c -> dirty_ok g (l_session l) k m c a ->
  k < di_serial d -> di_serial d <= m ->
  delta_one_kp l (l_session l) d fs c = (ps, c', ok) ->
  delta_one (l_session l) d fs c = (c', ok) /\ ksorted c' /\ dirty_ok g (l_session l) k m c' a /\
  kp_dirty g l k m a ps /\
  (ok = true -> exists gels, gdelta g (l_session l) (di_serial d) = Some gels /\ delta_els gels [] c = (c', true)).
Proof.
  intros Hh Hs Hd Hk Hm H. unfold delta_one_kp, delta_one in *.
  assert (Hnone : ([] : list kp, c, false) = (ps, c', ok) ->
            (c, false) = (c', ok) /\ ksorted c' /\ dirty_ok g (l_session l) k m c' a /\ kp_dirty g l k m a ps /\
            (ok = true -> exists gels, gdelta g (l_session l) (di_serial d) = Some gels /\ delta_els gels [] c = (c', true))).
  { intros E; inversion E; subst. repeat split; try assumption; try (intros ? ? []); discriminate. }
  destruct (find_file (di_ref d) fs) as [f|] eqn:Hf; [|apply Hnone; exact H].
  destruct (f_ok f); cbn [negb] in *; [|apply Hnone; exact H].
  destruct (f_doc f) as [|s n els b] eqn:Hdoc; [apply Hnone; exact H|].
  destruct (N.eqb_spec s (l_session l)) as [->|]; cbn [negb] in *; [|apply Hnone; exact H].
  destruct (N.eqb_spec n (di_serial d)) as [->|]; cbn [negb] in *; [|apply Hnone; exact H].
  destruct (file_honest_delta _ _ _ _ _ _ (Hh f (find_file_In _ _ _ Hf)) Hdoc) as (gels & Hg & [r Hr] & Hfull).
  destruct (delta_els_kp l els [] c) as [[ps0 c0] ok0] eqn:Ek.
  destruct (delta_els_kp_spec _ _ _ _ _ _ _ Hs Ek) as [He Hp].
  rewrite He.
  destruct (delta_els_untouched _ _ _ _ _ Hs He) as [Hs0 Hu0].
  (* a URI untouched by the elements served keeps its value; one that the genuine delta touches may differ *)
  assert (Hdirty : forall ci, (forall u, last_post u els = None -> lookup u ci = lookup u c) ->
            dirty_ok g (l_session l) k m ci a).
  { intros ci Hci u. destruct (last_post u gels) as [p|] eqn:Ep.
    - right. exists (di_serial d), gels. repeat split; try assumption. congruence.
    - rewrite Hr in Ep. apply last_post_prefix_none in Ep. rewrite (Hci u Ep). apply Hd. }
  assert (Hres : ps = ps0 /\ c' = c0 /\ (ok = true -> ok0 = true /\ b = false)).
  { destruct ok0; cbn [negb] in H.
    - destruct b; inversion H; subst; repeat split; auto; discriminate.
    - inversion H; subst. repeat split; auto. discriminate. }
  destruct Hres as (-> & -> & Hok).
  split.
  { destruct ok0; cbn [negb] in *; [destruct b|]; inversion H; reflexivity. }
  split; [exact Hs0|]. split; [apply Hdirty; exact Hu0|]. split.
  - intros lab st Hin. destruct (Hp lab st Hin) as (ci & E1 & E2 & E3). exists ci. repeat split; auto.
  - intros Ho. destruct (Hok Ho) as [-> ->]. exists gels. split; [exact Hg|]. rewrite <- (Hfull eq_refl). exact He.
Qed.

(* ---- the list of deltas to follow ---- *)

Lemma follows_tail' k d t : follows k (d :: t) -> di_serial d = k + 1 /\ follows (k + 1) t.
Proof. apply follows_tail. Qed.

Lemma delta_chain_dirty g l fs a k m : forall fl k' c ps c' ok,
  files_honest g fs -> follows k' fl -> k <= k' -> k' + N.of_nat (length fl) <= m ->
  ksorted c -> dirty_ok g (l_session l) k m c a ->
  delta_chain_kp l (l_session l) fl fs c = (ps, c', ok) ->
  (exists rq, delta_chain (l_session l) fl fs c = (c', ok, rq)) /\
  ksorted c' /\ dirty_ok g (l_session l) k m c' a /\ kp_dirty g l k m a ps.
Proof.
  induction fl as [|d t IH]; intros k' c ps c' ok Hh Hf Hk Hm Hs Hd H; cbn [delta_chain_kp delta_chain] in *.
  - inversion H; subst. split; [exists []; reflexivity|]. repeat split; try assumption. intros ? ? [].
  - destruct (follows_tail' _ _ _ Hf) as [Hd1 Hft].
    destruct (delta_one_kp l (l_session l) d fs c) as [[ps1 c1] ok1] eqn:E1.
    assert (Hlen : k' + 1 + N.of_nat (length t) <= m) by (cbn [length] in Hm; lia).
    destruct (delta_one_dirty g l fs d k m c a ps1 c1 ok1 Hh Hs Hd) as (He1 & Hs1 & Hd1' & Hp1 & _); [lia | lia | exact E1 |].
    rewrite He1. destruct ok1.
    + destruct (delta_chain_kp l (l_session l) t fs c1) as [[ps2 c2] ok2] eqn:E2.
      inversion H; subst ps c2 ok2.
      destruct (IH (k' + 1) c1 ps2 c' ok Hh Hft) as ([rq Hrq] & Hs2 & Hd2 & Hp2); try assumption; [lia|].
      rewrite Hrq. split; [eexists; reflexivity|]. repeat split; try assumption.
      intros lab st Hin. apply in_app_or in Hin as [Hin|Hin]; [exact (Hp1 lab st Hin) | exact (Hp2 lab st Hin)].
    + inversion H; subst. split; [eexists; reflexivity|]. repeat split; assumption.
Qed.

(* Following the deltas from a dirty copy: if every delta applies, the result is the server's content at the
   serial reached.  (For each URI: either no delta in the list touches it, then the copy was clean there; or the
   last element touching it decides its value, as it does when the same deltas are applied to the clean content.) *)
Lemma delta_chain_exact g s fs : forall fl k c a c' rq,
  world_ok g = true -> files_honest g fs -> follows k fl ->
  ksorted c -> truth (world_of g) s k = Some a ->
  dirty_ok g s k (k + N.of_nat (length fl)) c a ->
  delta_chain s fl fs c = (c', true, rq) ->
  truth (world_of g) s (k + N.of_nat (length fl)) = Some c'.
Proof.
  induction fl as [|d t IH]; intros k c a c' rq Hw Hh Hf Hs Ha Hd H; cbn [delta_chain] in H.
  - inversion H; subst. cbn [length] in *. replace (k + N.of_nat 0) with k in * by lia.
    rewrite (dirty_ok_clean g s k c' a Hs (truth_sorted _ _ _ _ Hw Ha) Hd). exact Ha.
  - destruct (follows_tail' _ _ _ Hf) as [Hd1 Hft].
    destruct (delta_one s d fs c) as [c1 ok1] eqn:E1. destruct ok1; [|discriminate].
    destruct (delta_chain s t fs c1) as [[c2 ok2] rq2] eqn:E2. inversion H; subst c2 ok2 rq.
    (* the delta that was applied is the history's delta for serial k + 1 *)
    assert (Hgen : exists gels, gdelta g s (k + 1) = Some gels /\ delta_els gels [] c = (c1, true)).
    { unfold delta_one in E1.
      destruct (find_file (di_ref d) fs) as [f|] eqn:Hff; [|discriminate].
      destruct (f_ok f); cbn [negb] in E1; [|discriminate].
      destruct (f_doc f) as [|s' n els b] eqn:Hdoc; [discriminate|].
      destruct (N.eqb_spec s' s) as [->|]; cbn [negb] in E1; [|discriminate].
      destruct (N.eqb_spec n (di_serial d)) as [->|]; cbn [negb] in E1; [|discriminate].
      destruct (delta_els els [] c) as [c0 ok0] eqn:Ee. destruct ok0; cbn [negb] in E1; [|discriminate].
      destruct b; [discriminate|]. injection E1 as Ec _. subst c0.
      destruct (file_honest_delta _ _ _ _ _ _ (Hh f (find_file_In _ _ _ Hff)) Hdoc) as (gels & Hg & _ & Hfull).
      exists gels. rewrite <- Hd1. split; [exact Hg|]. rewrite <- (Hfull eq_refl). exact Ee. }
    destruct Hgen as (gels & Hg & He).
    destruct (gdelta_leads g s (k + 1) gels a Hw Hg) as (a1 & Ha1 & Hea); [lia | replace (k + 1 - 1) with k by lia; exact Ha |].
    destruct (delta_els_lookup _ _ _ _ Hs He) as [Hs1 Hl1].
    destruct (delta_els_lookup _ _ _ _ (truth_sorted _ _ _ _ Hw Ha) Hea) as [_ Hla1].
    replace (k + N.of_nat (length (d :: t))) with (k + 1 + N.of_nat (length t)) in * by (cbn [length]; lia).
    apply (IH (k + 1) c1 a1 c' rq2 Hw Hh Hft Hs1 Ha1); [|exact E2].
    intros u. rewrite Hl1, Hla1. destruct (last_post u gels) as [p|] eqn:Ep; [left; reflexivity|].
    destruct (Hd u) as [E|(j & gels' & H1 & H2 & H3 & H4)]; [left; exact E|].
    destruct (N.eq_dec j (k + 1)) as [->|Hne].
    + rewrite Hg in H3. inversion H3; subst gels'. contradiction.
    + right. exists j, gels'. repeat split; try assumption. lia.
Qed.
