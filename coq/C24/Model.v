(* C24 — A crash never leaves an RRDP copy that is silently wrong.
   On top of the C25 model (coq/C25/Model.v: one validation run's update of one RRDP repository) this file
   enumerates the kill points of a run — the places right before an operation on the repository's archive, the
   hooks `crate::verif::kill_point` in src/collector/rrdp/base.rs (not_modified, snapshot_update, delta_update,
   remove_tainted) and src/collector/rrdp/update.rs (SnapshotUpdate::{try_update, publish},
   DeltaUpdate::{publish, withdraw}) — each with the local copy that is on disk if the process dies there.
   Granularity: one archive operation (publish / update / delete of one object, update of the state object,
   remove / rename of the archive file) is atomic; kills inside an archive operation, between its storage writes,
   belong to the archive model (C26) and are not covered here.

   The server of C24 answers conditional requests: a notification is served with the entity tag of its session and
   serial, and a client whose stored state carries that tag gets 304 ([resolve]).  No proofs here. *)
From Coq Require Import List NArith Bool.
From RV Require Export Base.KMap C25.Model.
Import ListNotations.
Local Open Scope N_scope.

(* kill point labels, numbered as the harness numbers them *)
Definition KP_delta_publish := 1.      (* rrdp.delta.publish      before archive.publish_object *)
Definition KP_delta_update := 2.       (* rrdp.delta.update       before archive.update_object *)
Definition KP_delta_withdraw := 3.     (* rrdp.delta.withdraw     before archive.delete_object *)
Definition KP_delta_state := 4.        (* rrdp.delta.state        before archive.update_state in delta_update *)
Definition KP_snap_begin := 5.         (* rrdp.snapshot.begin     before the temporary archive is created *)
Definition KP_snap_publish := 6.       (* rrdp.snapshot.publish   before publish_object into the temporary archive *)
Definition KP_snap_state := 7.         (* rrdp.snapshot.state     before publish_state into the temporary archive *)
Definition KP_snap_remove := 8.        (* rrdp.snapshot.remove    before the old archive is removed *)
Definition KP_snap_rename := 9.        (* rrdp.snapshot.rename    before the temporary archive is moved in place *)
Definition KP_snap_renamed := 10.      (* rrdp.snapshot.renamed   after that *)
Definition KP_tainted_remove := 11.    (* rrdp.tainted.remove     before the copy left by a failed delta update is removed *)
Definition KP_nm_state := 12.          (* rrdp.not_modified.state before archive.update_state in not_modified *)

(* a kill point: its label and the local copy on disk at that moment *)
Definition kp := (N * option lstate)%type.

Definition with_content (l : lstate) (c : content) : lstate :=
  {| l_session := l_session l; l_serial := l_serial l; l_dstate := l_dstate l; l_content := c |}.

Definition elem_label (e : delem) : N :=
  match e with EPub _ _ => KP_delta_publish | EUpd _ _ _ => KP_delta_update | EWdr _ _ => KP_delta_withdraw end.

(* DeltaUpdate::publish / withdraw: the `seen` check comes first, then the kill point, then the archive operation *)
Fixpoint delta_els_kp (l : lstate) (els : list delem) (seen : list N) (c : content) : list kp * content * bool :=
  match els with
  | [] => ([], c, true)
  | e :: t =>
      if existsb (N.eqb (elem_uri e)) seen then ([], c, false)
      else
        let here := (elem_label e, Some (with_content l c)) in
        let step (c' : content) :=
          let '(ps, c'', ok) := delta_els_kp l t (elem_uri e :: seen) c' in (here :: ps, c'', ok) in
        match e with
        | EPub u d => match lookup u c with
                      | Some _ => ([here], c, false)
                      | None => step (kinsert u d c)
                      end
        | EUpd u old d => match lookup u c with
                          | None => ([here], c, false)
                          | Some x => if x =? old then step (kinsert u d c) else ([here], c, false)
                          end
        | EWdr u old => match lookup u c with
                        | None => ([here], c, false)
                        | Some x => if x =? old then step (kremove u c) else ([here], c, false)
                        end
        end
  end.

Definition delta_one_kp (l : lstate) (session : N) (di : dinfo) (fs : list file) (c : content)
  : list kp * content * bool :=
  match find_file (di_ref di) fs with
  | None => ([], c, false)
  | Some f =>
      if negb (f_ok f) then ([], c, false) else
      match f_doc f with
      | DSnap _ _ _ _ => ([], c, false)
      | DDelta s n els broken =>
          if negb (s =? session) then ([], c, false)
          else if negb (n =? di_serial di) then ([], c, false)
          else let '(ps, c', ok) := delta_els_kp l els [] c in
               if negb ok then (ps, c', false)
               else if broken then (ps, c', false)
               else (ps, c', f_dig f =? di_dig di)
      end
  end.

Fixpoint delta_chain_kp (l : lstate) (session : N) (ds : list dinfo) (fs : list file) (c : content)
  : list kp * content * bool :=
  match ds with
  | [] => ([], c, true)
  | d :: t =>
      let '(ps, c', ok) := delta_one_kp l session d fs c in
      if ok then let '(ps', c'', ok') := delta_chain_kp l session t fs c' in (ps ++ ps', c'', ok')
      else (ps, c', false)
  end.

(* delta_update: the kill points, the content afterwards, and None = done / Some reason = snapshot *)
Definition delta_update_kp (fx : fixes) (cfg : config) (nf : notif) (fs : list file) (l : lstate)
  : list kp * content * option N :=
  if oversized cfg nf then ([], l_content l, Some R_large_delta_set)
  else
    let ds := deltas_of cfg nf in
    if negb (check_deltas ds l) then ([], l_content l, Some R_delta_mutation)
    else match calc_deltas fx cfg nf ds l with
         | inr reason => ([], l_content l, Some reason)
         | inl follow =>
             let '(ps, c, ok) := delta_chain_kp l (nf_session nf) follow fs (l_content l) in
             if ok then (ps ++ [(KP_delta_state, Some (with_content l c))], c, None)
             else (ps, c, Some R_conflicting_delta)
         end.

(* SnapshotUpdate::publish for each element: the kill point comes before the archive operation that may find a
   duplicate *)
Fixpoint snap_pubs_kp (keep : option lstate) (els : list (N * N)) (acc : content) : list kp * bool :=
  match els with
  | [] => ([], true)
  | (u, d) :: t =>
      match lookup u acc with
      | Some _ => ([(KP_snap_publish, keep)], false)
      | None => let '(ps, ok) := snap_pubs_kp keep t (kinsert u d acc) in ((KP_snap_publish, keep) :: ps, ok)
      end
  end.

(* snapshot_update with [keep] on disk: the kill points and whether it succeeded *)
Definition snapshot_kp (cfg : config) (nf : notif) (fs : list file) (keep : option lstate) : list kp * bool :=
  let begin := (KP_snap_begin, keep) in
  match find_file (nf_snap_ref nf) fs with
  | None => ([begin], false)
  | Some f =>
      if negb (f_ok f) then ([begin], false) else
      match f_doc f with
      | DDelta _ _ _ _ => ([begin], false)
      | DSnap s n els broken =>
          if negb (s =? nf_session nf) then ([begin], false)
          else if negb (n =? nf_serial nf) then ([begin], false)
          else let '(ps, ok) := snap_pubs_kp keep els [] in
               if negb ok then (begin :: ps, false)
               else if broken then (begin :: ps, false)
               else if negb (f_dig f =? nf_snap_dig nf) then (begin :: ps, false)
               else match snap_pubs els [] with
                    | None => (begin :: ps, false)
                    | Some c => (begin :: ps ++ [(KP_snap_state, keep); (KP_snap_remove, keep); (KP_snap_rename, None);
                                                 (KP_snap_renamed, Some (state_of cfg nf c))], true)
                    end
      end
  end.

(* all kill points of one run, in the order they are passed *)
Definition run_kp (fx : fixes) (cfg : config) (local : option lstate) (st : step) : list kp :=
  match s_notify st with
  | NErr | NBad => []
  | N304 => match local with Some l => [(KP_nm_state, Some l)] | None => [] end
  | NOk nf =>
      match local with
      | None => fst (snapshot_kp cfg nf (s_files st) None)
      | Some l =>
          match delta_update_kp fx cfg nf (s_files st) l with
          | (ps, _, None) => ps
          | (ps, c, Some reason) =>
              let keep := Some (with_content l c) in
              let '(ps', ok) := snapshot_kp cfg nf (s_files st) keep in
              let tainted := reason =? R_conflicting_delta in
              ps ++ ps' ++ (if tainted && fix_taint fx && negb ok then [(KP_tainted_remove, keep)] else [])
          end
      end
  end.

(* ---- the conditional request ---- *)

(* the client sends the entity tag stored with its state; the server answers 304 if that is the tag of the
   notification it would send *)
Definition resolve (local : option lstate) (st : step) : step :=
  match s_notify st, local with
  | NOk nf, Some l =>
      if (l_session l =? nf_session nf) && (l_serial l =? nf_serial nf)
      then {| s_notify := N304; s_files := s_files st |} else st
  | _, _ => st
  end.

(* ---- runs, one of which may be killed ---- *)

Definition RES_killed := 7.

Record cobs := { co_obs : sobs; co_killed : bool; co_points : list N }.

(* [kill] = Some n: the process dies at its n-th kill point (n >= 1) if the run has that many *)
Definition crun (cfg : config) (local : option lstate) (st : step) (kill : option N) : cobs :=
  let st' := resolve local st in
  let pts := run_kp all_fixes cfg local st' in
  let full := run_step all_fixes cfg local st' in
  match kill with
  | None => {| co_obs := full; co_killed := false; co_points := [] |}
  | Some n =>
      if (1 <=? n) && (n <=? N.of_nat (length pts)) then
        let passed := firstn (N.to_nat n) pts in
        {| co_obs := {| o_result := RES_killed; o_reason := 0; o_reqs := [];
                        o_local := match rev passed with (_, l) :: _ => l | [] => local end;
                        o_probe_ok := true |};
           co_killed := true; co_points := map fst passed |}
      else {| co_obs := full; co_killed := false; co_points := map fst pts |}
  end.

(* [crash] = Some (t, n): run number t (from 0) is made by a process that dies at its n-th kill point *)
Fixpoint crun_steps (cfg : config) (local : option lstate) (sts : list step) (crash : option (N * N)) : list cobs :=
  match sts with
  | [] => []
  | st :: t =>
      let here := match crash with Some (c, n) => if c =? 0 then Some n else None | None => None end in
      let later := match crash with Some (c, n) => if c =? 0 then None else Some (c - 1, n) | None => None end in
      let o := crun cfg local st here in
      o :: crun_steps cfg (o_local (co_obs o)) t later
  end.
