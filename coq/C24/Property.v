(* C24 — A crash never leaves an RRDP copy that is silently wrong.
   Only statements, [exact], examples and [Check] pins.

   Setting (C24.Model, C24.Spec): the runs of C25 with one run made by a process that is killed at its n-th kill
   point (before any archive operation of the update: every object published / updated / withdrawn by a delta,
   the state update, the steps of the snapshot update incl. remove and rename, the removal of a copy left by a
   failed delta update, the state update of "not modified").  [honest g steps] is the premise: the server's
   history [g] is consistent, hash integrity as in C25, what is served may fail (errors, cut documents, wrong
   hashes announced) but a delta document never carries anything but the history's elements for its serial,
   notifications name versions of the history and never go back within a session; a 304 is only given in answer
   to the entity tag of the current notification. *)
From Coq Require Import List NArith Bool.
From RV Require Import Base.KMap C25.Model C25.Spec C25.Proofs C24.Model C24.Spec C24.Elems C24.Chain C24.Proofs.
Import ListNotations.
Local Open Scope N_scope.

(* Main statement: after any sequence of runs of which any one was killed at any kill point, a later run that
   completes and is reported as updated leaves exactly the server's snapshot at the notified serial. *)
Theorem C24_updated_after_kill_exact : forall g cfg pre st crash,
  honest g (pre ++ [st]) = true ->
  let local := clocal_after cfg None pre crash in
  let o := run_step all_fixes cfg local (resolve local st) in
  o_result o = RES_updated ->
  exists l nf, s_notify st = NOk nf /\ o_local o = Some l /\
    l_session l = nf_session nf /\ l_serial l = nf_serial nf /\
    truth (world_of g) (nf_session nf) (nf_serial nf) = Some (l_content l).
Proof. exact updated_after_kill_exact. Qed.

(* What a kill (or a failed delta update) can leave on disk: the old state record with a content that differs from
   the server's content at the stored serial only at objects touched by deltas the server has announced since. *)
Theorem C24_copy_on_disk : forall g cfg, world_ok g = true -> forall sts hw local crash,
  genuine (world_of g) sts = true -> forallb (step_honest g) sts = true -> monotone hw sts = true ->
  inv24 g hw local -> inv24 g (hw_fold hw sts) (clocal_after cfg local sts crash).
Proof. exact clocal_after_inv. Qed.

(* The reason it is harmless: following the server's deltas from such a copy either fails (-> snapshot) or ends
   exactly at the server's content, because the last element touching an object decides its value. *)
Theorem C24_deltas_from_dirty_copy_exact : forall g s fs fl k c a c' rq,
  world_ok g = true -> files_honest g fs -> follows k fl ->
  ksorted c -> truth (world_of g) s k = Some a ->
  dirty_ok g s k (k + N.of_nat (length fl)) c a ->
  delta_chain s fl fs c = (c', true, rq) ->
  truth (world_of g) s (k + N.of_nat (length fl)) = Some c'.
Proof. exact delta_chain_exact. Qed.

(* the executable oracle evaluated on the implementation's output holds of the model on every input *)
Theorem C24_model_satisfies_spec : forall cfg g sts crash, cspec_okb g sts (cmodel_obs cfg sts crash) = true.
Proof. exact cmodel_satisfies_spec. Qed.

(* ---- examples ---- *)

Definition g0 : gworld :=
  [(1, 5, [(0, 0)], []); (1, 6, [(0, 0); (1, 0)], [EPub 1 0]); (1, 7, [(0, 1); (1, 0)], [EUpd 0 0 1]);
   (1, 8, [(0, 1); (1, 0); (2, 0)], [EPub 2 0])].
Definition cfg0 := {| c_max_list := 10; c_max_count := 10; c_expire := false |}.
Definition run5 : step :=
  {| s_notify := NOk {| nf_session := 1; nf_serial := 5; nf_snap_ref := 1; nf_snap_dig := 1; nf_deltas := [] |};
     s_files := [{| f_ref := 1; f_ok := true; f_doc := DSnap 1 5 [(0, 0)] false; f_dig := 1 |}] |}.
Definition files8 : list file :=
  [{| f_ref := 1; f_ok := true; f_doc := DSnap 1 8 [(0, 1); (1, 0); (2, 0)] false; f_dig := 20 |};
   {| f_ref := 11; f_ok := true; f_doc := DDelta 1 6 [EPub 1 0] false; f_dig := 3 |};
   {| f_ref := 12; f_ok := true; f_doc := DDelta 1 7 [EUpd 0 0 1] false; f_dig := 4 |};
   {| f_ref := 13; f_ok := true; f_doc := DDelta 1 8 [EPub 2 0] false; f_dig := 5 |}].
Definition run8 : step :=
  {| s_notify := NOk {| nf_session := 1; nf_serial := 8; nf_snap_ref := 1; nf_snap_dig := 20;
                        nf_deltas := [{| di_serial := 6; di_ref := 11; di_dig := 3 |};
                                      {| di_serial := 7; di_ref := 12; di_dig := 4 |};
                                      {| di_serial := 8; di_ref := 13; di_dig := 5 |}] |};
     s_files := files8 |}.
(* only the newest delta is listed: the list does not reach back to serial 6 *)
Definition run8_short : step :=
  {| s_notify := NOk {| nf_session := 1; nf_serial := 8; nf_snap_ref := 1; nf_snap_dig := 20;
                        nf_deltas := [{| di_serial := 8; di_ref := 13; di_dig := 5 |}] |};
     s_files := files8 |}.

Definition view (o : cobs) :=
  (o_result (co_obs o), o_reason (co_obs o), co_points o,
   option_map l_serial (o_local (co_obs o)), option_map l_content (o_local (co_obs o))).

(* non-vacuity: killed in the middle of three deltas (delta 6 applied, delta 7 not yet): the copy has serial 5 and
   the content of serial 6; the next run finds the conflict, takes the snapshot and is exact; then 304 *)
Example C24_nonvacuous :
  honest g0 [run5; run8; run8; run8] = true /\
  map view (cmodel_obs cfg0 [run5; run8; run8; run8] (Some (1, 2)))
  = [(RES_updated, R_new_repository, [], Some 5, Some [(0, 0)]);
     (RES_killed, 0, [KP_delta_publish; KP_delta_update], Some 5, Some [(0, 0); (1, 0)]);
     (RES_updated, R_conflicting_delta, [], Some 8, Some [(0, 1); (1, 0); (2, 0)]);
     (RES_updated, R_none, [], Some 8, Some [(0, 1); (1, 0); (2, 0)])]
  /\ truth (world_of g0) 1 8 = Some [(0, 1); (1, 0); (2, 0)].
Proof. vm_compute. repeat split. Qed.

(* all kill points of an uninterrupted three-delta run and of a snapshot over an existing copy *)
Example C24_kill_points :
  map fst (run_kp all_fixes cfg0 (Some (state_of cfg0 {| nf_session := 1; nf_serial := 5; nf_snap_ref := 1;
                                                          nf_snap_dig := 1; nf_deltas := [] |} [(0, 0)])) run8)
  = [KP_delta_publish; KP_delta_update; KP_delta_publish; KP_delta_state]
  /\ map fst (run_kp all_fixes cfg0 (Some (state_of cfg0 {| nf_session := 1; nf_serial := 5; nf_snap_ref := 1;
                                                             nf_snap_dig := 1; nf_deltas := [] |} [(0, 0)])) run8_short)
  = [KP_snap_begin; KP_snap_publish; KP_snap_publish; KP_snap_publish; KP_snap_state; KP_snap_remove;
     KP_snap_rename; KP_snap_renamed].
Proof. vm_compute. split; reflexivity. Qed.

(* a kill between the removal of the old archive and the renaming of the new one loses the copy (it is not wrong:
   the next run starts from scratch) *)
Example C24_kill_between_remove_and_rename :
  map view (cmodel_obs cfg0 [run5; run8_short; run8] (Some (1, 7)))
  = [(RES_updated, R_new_repository, [], Some 5, Some [(0, 0)]);
     (RES_killed, 0, [KP_snap_begin; KP_snap_publish; KP_snap_publish; KP_snap_publish; KP_snap_state;
                      KP_snap_remove; KP_snap_rename], None, None);
     (RES_updated, R_new_repository, [], Some 8, Some [(0, 1); (1, 0); (2, 0)])].
Proof. vm_compute. reflexivity. Qed.

(* The premise about the served delta documents is needed: with hash integrity alone (the premise of C25) a kill
   can make a later update silently wrong.  Run 2 is served a delta 6 file with other content than announced (its
   hash would not have matched, but the hash is checked after the elements have been applied) and is killed
   after that element; the honest delta 6 of run 3 then applies on top.  (F21, not corrected: see notes/C24.md.) *)
Definition run6_wrong_file : step :=
  {| s_notify := NOk {| nf_session := 1; nf_serial := 6; nf_snap_ref := 1; nf_snap_dig := 2;
                        nf_deltas := [{| di_serial := 6; di_ref := 11; di_dig := 4 |}] |};
     s_files := [{| f_ref := 1; f_ok := true; f_doc := DSnap 1 6 [(0, 0); (1, 0)] false; f_dig := 2 |};
                 {| f_ref := 11; f_ok := true; f_doc := DDelta 1 6 [EPub 2 0] false; f_dig := 3 |}] |}.
Definition run6 : step :=
  {| s_notify := NOk {| nf_session := 1; nf_serial := 6; nf_snap_ref := 1; nf_snap_dig := 2;
                        nf_deltas := [{| di_serial := 6; di_ref := 11; di_dig := 4 |}] |};
     s_files := [{| f_ref := 1; f_ok := true; f_doc := DSnap 1 6 [(0, 0); (1, 0)] false; f_dig := 2 |};
                 {| f_ref := 11; f_ok := true; f_doc := DDelta 1 6 [EPub 1 0] false; f_dig := 4 |}] |}.

Example C24_needs_honest_files :
  genuine (world_of g0) [run5; run6_wrong_file; run6] = true /\
  honest g0 [run5; run6_wrong_file; run6] = false /\
  honest_weak g0 [run5; run6_wrong_file; run6] (Some (1, 2)) = true /\
  map view (cmodel_obs cfg0 [run5; run6_wrong_file; run6] (Some (1, 2)))
  = [(RES_updated, R_new_repository, [], Some 5, Some [(0, 0)]);
     (RES_killed, 0, [KP_delta_publish; KP_snap_begin], Some 5, Some [(0, 0); (2, 0)]);
     (RES_updated, R_none, [], Some 6, Some [(0, 0); (1, 0); (2, 0)])]       (* the server at 6: [(0,0); (1,0)] *)
  /\ csteps_okb (world_of g0) None [run5; run6_wrong_file; run6]
       (cmodel_obs cfg0 [run5; run6_wrong_file; run6] (Some (1, 2))) = false.
Proof. vm_compute. repeat split. Qed.

(* the statement without the premise about the files served to the killed run is refuted (class F21) *)
Theorem C24_refuted : exists g cfg sts crash,
  honest_weak g sts crash = true /\ csteps_okb (world_of g) None sts (cmodel_obs cfg sts crash) = false.
Proof. exists g0, cfg0, [run5; run6_wrong_file; run6], (Some (1, 2)). vm_compute. split; reflexivity. Qed.

Check C24_updated_after_kill_exact : forall g cfg pre st crash,
  honest g (pre ++ [st]) = true ->
  let local := clocal_after cfg None pre crash in
  let o := run_step all_fixes cfg local (resolve local st) in
  o_result o = RES_updated ->
  exists l nf, s_notify st = NOk nf /\ o_local o = Some l /\
    l_session l = nf_session nf /\ l_serial l = nf_serial nf /\
    truth (world_of g) (nf_session nf) (nf_serial nf) = Some (l_content l).
Check C24_model_satisfies_spec : forall cfg g sts crash, cspec_okb g sts (cmodel_obs cfg sts crash) = true.
