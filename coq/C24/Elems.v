(* C24: what applying delta elements does to the archive, URI by URI.
   Every element is a constant partial function on the value of its URI (it needs one particular old value and
   leaves one particular new value), so after a successful application the value of a touched URI does not depend
   on where the application started; and an application — successful or not — only changes URIs it touches. *)
From Coq Require Import List NArith Bool Lia.
From RV Require Import Base.KMap C25.Model C25.Spec C25.Proofs C24.Model C24.Spec.
Import ListNotations.
Local Open Scope N_scope.

(* the value an element leaves at its URI *)
Definition post (e : delem) : option N :=
  match e with EPub _ d => Some d | EUpd _ _ d => Some d | EWdr _ _ => None end.

(* the value the last element touching [u] leaves there; None = no element touches [u] *)
Fixpoint last_post (u : N) (els : list delem) : option (option N) :=
  match els with
  | [] => None
  | e :: t => match last_post u t with
              | Some p => Some p
              | None => if elem_uri e =? u then Some (post e) else None
              end
  end.

Lemma last_post_app u a b :
  last_post u (a ++ b) = match last_post u b with Some p => Some p | None => last_post u a end.
Proof.
  induction a as [|e a IH]; cbn [app last_post].
  - destruct (last_post u b); reflexivity.
  - rewrite IH. destruct (last_post u b); reflexivity.
Qed.

Lemma last_post_prefix_none u a b : last_post u (a ++ b) = None -> last_post u a = None.
Proof. rewrite last_post_app. destruct (last_post u b); [discriminate | auto]. Qed.

(* one successful element *)
Lemma kinsert_lookup' (c : content) u d u' : ksorted c ->
  lookup u' (kinsert u d c) = if u' =? u then Some d else lookup u' c.
Proof. intros H. apply kinsert_lookup. exact H. Qed.

(* successful application: sortedness is kept and every URI has the value the last element touching it leaves,
   or its old value if none does *)
Lemma delta_els_lookup : forall els seen c c',
  ksorted c -> delta_els els seen c = (c', true) ->
  ksorted c' /\ forall u, lookup u c' = match last_post u els with Some p => p | None => lookup u c end.
Proof.
  induction els as [|e t IH]; intros seen c c' Hs H; cbn [delta_els] in H.
  - inversion H; subst. split; [exact Hs | intros u; reflexivity].
  - destruct (existsb (N.eqb (elem_uri e)) seen); [discriminate|].
    assert (Hstep : forall c1, ksorted c1 ->
              (forall u, lookup u c1 = if u =? elem_uri e then post e else lookup u c) ->
              delta_els t (elem_uri e :: seen) c1 = (c', true) ->
              ksorted c' /\ forall u, lookup u c' = match last_post u (e :: t) with Some p => p | None => lookup u c end).
    { intros c1 Hs1 Hl1 H1. destruct (IH _ _ _ Hs1 H1) as [Hs' Hl']. split; [exact Hs'|].
      intros u. rewrite Hl'. cbn [last_post]. destruct (last_post u t) as [p|]; [reflexivity|].
      rewrite Hl1. rewrite (N.eqb_sym (elem_uri e) u). destruct (u =? elem_uri e); reflexivity. }
    destruct e as [u d|u old d|u old]; cbn [elem_uri post] in *.
    + destruct (lookup u c) eqn:El; [discriminate|].
      apply (Hstep (kinsert u d c)); [apply kinsert_sorted; exact Hs | | exact H].
      intros u'. apply kinsert_lookup'. exact Hs.
    + destruct (lookup u c) as [x|] eqn:El; [|discriminate].
      destruct (x =? old); [|discriminate].
      apply (Hstep (kinsert u d c)); [apply kinsert_sorted; exact Hs | | exact H].
      intros u'. apply kinsert_lookup'. exact Hs.
    + destruct (lookup u c) as [x|] eqn:El; [|discriminate].
      destruct (x =? old); [|discriminate].
      apply (Hstep (kremove u c)); [apply kremove_sorted; exact Hs | | exact H].
      intros u'. apply kremove_lookup.
Qed.

(* any application, successful or not: sortedness is kept and untouched URIs keep their value *)
Lemma delta_els_untouched : forall els seen c c' ok,
  ksorted c -> delta_els els seen c = (c', ok) ->
  ksorted c' /\ forall u, last_post u els = None -> lookup u c' = lookup u c.
Proof.
  induction els as [|e t IH]; intros seen c c' ok Hs H; cbn [delta_els] in H.
  - inversion H; subst. split; [exact Hs | intros; reflexivity].
  - assert (Hstop : (c, false) = (c', ok) -> ksorted c' /\ forall u, last_post u (e :: t) = None -> lookup u c' = lookup u c).
    { intros E; inversion E; subst. split; [exact Hs | intros; reflexivity]. }
    destruct (existsb (N.eqb (elem_uri e)) seen); [apply Hstop; exact H|].
    assert (Hstep : forall c1, ksorted c1 ->
              (forall u, u <> elem_uri e -> lookup u c1 = lookup u c) ->
              delta_els t (elem_uri e :: seen) c1 = (c', ok) ->
              ksorted c' /\ forall u, last_post u (e :: t) = None -> lookup u c' = lookup u c).
    { intros c1 Hs1 Hl1 H1. destruct (IH _ _ _ _ Hs1 H1) as [Hs' Hl']. split; [exact Hs'|].
      intros u Hu. cbn [last_post] in Hu. destruct (last_post u t) eqn:Et; [discriminate|].
      destruct (N.eqb_spec (elem_uri e) u) as [|Hne]; [discriminate|].
      rewrite (Hl' u Et). apply Hl1. congruence. }
    destruct e as [u d|u old d|u old]; cbn [elem_uri] in *.
    + destruct (lookup u c) eqn:El; [apply Hstop; exact H|].
      apply (Hstep (kinsert u d c)); [apply kinsert_sorted; exact Hs | | exact H].
      intros u' Hne. rewrite kinsert_lookup' by exact Hs. destruct (N.eqb_spec u' u); [contradiction | reflexivity].
    + destruct (lookup u c) as [x|] eqn:El; [|apply Hstop; exact H].
      destruct (x =? old); [|apply Hstop; exact H].
      apply (Hstep (kinsert u d c)); [apply kinsert_sorted; exact Hs | | exact H].
      intros u' Hne. rewrite kinsert_lookup' by exact Hs. destruct (N.eqb_spec u' u); [contradiction | reflexivity].
    + destruct (lookup u c) as [x|] eqn:El; [|apply Hstop; exact H].
      destruct (x =? old); [|apply Hstop; exact H].
      apply (Hstep (kremove u c)); [apply kremove_sorted; exact Hs | | exact H].
      intros u' Hne. rewrite kremove_lookup. destruct (N.eqb_spec u' u); [contradiction | reflexivity].
Qed.

(* ---- the version with kill points computes the same thing, and every content on disk at a kill point is
        sorted and differs from the start only at touched URIs ---- *)

Lemma delta_els_kp_spec : forall l els seen c ps c' ok,
  ksorted c -> delta_els_kp l els seen c = (ps, c', ok) ->
  delta_els els seen c = (c', ok) /\
  forall lab st, In (lab, st) ps ->
    exists ci, st = Some (with_content l ci) /\ ksorted ci /\
               forall u, last_post u els = None -> lookup u ci = lookup u c.
Proof.
  induction els as [|e t IH]; intros seen c ps c' ok Hs H; cbn [delta_els_kp delta_els] in *.
  - inversion H; subst. split; [reflexivity | intros ? ? []].
  - destruct (existsb (N.eqb (elem_uri e)) seen).
    { inversion H; subst. split; [reflexivity | intros ? ? []]. }
    assert (Hhere : forall lab st, (elem_label e, Some (with_content l c)) = (lab, st) ->
              exists ci, st = Some (with_content l ci) /\ ksorted ci /\
                         forall u, last_post u (e :: t) = None -> lookup u ci = lookup u c).
    { intros lab st E; inversion E; subst. exists c. repeat split; auto. }
    assert (Hstop : ([(elem_label e, Some (with_content l c))], c, false) = (ps, c', ok) ->
              (c, false) = (c', ok) /\
              forall lab st, In (lab, st) ps ->
                exists ci, st = Some (with_content l ci) /\ ksorted ci /\
                           forall u, last_post u (e :: t) = None -> lookup u ci = lookup u c).
    { intros E; inversion E; subst. split; [reflexivity|]. intros lab st [Hin|[]]. exact (Hhere lab st Hin). }
    assert (Hstep : forall c1, ksorted c1 ->
              (forall u, u <> elem_uri e -> lookup u c1 = lookup u c) ->
              (let '(ps0, c'', ok0) := delta_els_kp l t (elem_uri e :: seen) c1 in
               ((elem_label e, Some (with_content l c)) :: ps0, c'', ok0)) = (ps, c', ok) ->
              delta_els t (elem_uri e :: seen) c1 = (c', ok) /\
              forall lab st, In (lab, st) ps ->
                exists ci, st = Some (with_content l ci) /\ ksorted ci /\
                           forall u, last_post u (e :: t) = None -> lookup u ci = lookup u c).
    { intros c1 Hs1 Hl1 H1.
      destruct (delta_els_kp l t (elem_uri e :: seen) c1) as [[ps0 c0] ok0] eqn:E0.
      inversion H1; subst ps c0 ok0.
      destruct (IH _ _ _ _ _ Hs1 E0) as [He Hp]. split; [exact He|].
      intros lab st [Hin|Hin]; [exact (Hhere lab st Hin)|].
      destruct (Hp lab st Hin) as (ci & Hst & Hsi & Hli). exists ci. repeat split; auto.
      intros u Hu. cbn [last_post] in Hu. destruct (last_post u t) eqn:Et; [discriminate|].
      destruct (N.eqb_spec (elem_uri e) u) as [|Hne]; [discriminate|].
      rewrite (Hli u Et). apply Hl1. congruence. }
    destruct e as [u d|u old d|u old]; cbn [elem_uri] in *.
    + destruct (lookup u c) eqn:El; [apply Hstop; exact H|].
      apply (Hstep (kinsert u d c)); [apply kinsert_sorted; exact Hs | | exact H].
      intros u' Hne. rewrite kinsert_lookup' by exact Hs. destruct (N.eqb_spec u' u); [contradiction | reflexivity].
    + destruct (lookup u c) as [x|] eqn:El; [|apply Hstop; exact H].
      destruct (x =? old); [|apply Hstop; exact H].
      apply (Hstep (kinsert u d c)); [apply kinsert_sorted; exact Hs | | exact H].
      intros u' Hne. rewrite kinsert_lookup' by exact Hs. destruct (N.eqb_spec u' u); [contradiction | reflexivity].
    + destruct (lookup u c) as [x|] eqn:El; [|apply Hstop; exact H].
      destruct (x =? old); [|apply Hstop; exact H].
      apply (Hstep (kremove u c)); [apply kremove_sorted; exact Hs | | exact H].
      intros u' Hne. rewrite kremove_lookup. destruct (N.eqb_spec u' u); [contradiction | reflexivity].
Qed.

(* ---- comparisons on elements ---- *)

Lemma delem_eqb_eq a b : delem_eqb a b = true -> a = b.
Proof.
  destruct a, b; cbn [delem_eqb]; intros H; try discriminate;
    repeat (apply andb_prop in H; destruct H as [H ?]);
    repeat match goal with E : (_ =? _) = true |- _ => apply N.eqb_eq in E end; subst; reflexivity.
Qed.

Lemma els_eqb_eq a b : els_eqb a b = true -> a = b.
Proof.
  revert b. induction a as [|x a IH]; intros [|y b]; cbn [els_eqb]; intros H; try discriminate; [reflexivity|].
  apply andb_prop in H as [H1 H2]. apply delem_eqb_eq in H1. apply IH in H2. subst. reflexivity.
Qed.

Lemma prefixb_app a b : prefixb a b = true -> exists r, b = a ++ r.
Proof.
  revert b. induction a as [|x a IH]; intros b H; cbn [prefixb] in H.
  - exists b. reflexivity.
  - destruct b as [|y b]; [discriminate|]. apply andb_prop in H as [H1 H2].
    apply delem_eqb_eq in H1. destruct (IH _ H2) as [r Hr]. subst. exists r. reflexivity.
Qed.
