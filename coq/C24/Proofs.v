(* C24: proofs.  The invariant [inv24] describes every copy that can be on disk — after completed runs, failed
   runs and after a kill at any kill point: the old state record with a sorted content that agrees with the
   server's content at the stored serial except at URIs touched by deltas the server has already announced.
   From such a copy a completed run that is reported as updated ends at the server's content at the notified
   serial ([crun_correct], [crun_steps_okb]).  Induction over the list of runs, the list of deltas and the list
   of elements; no bound on anything. *)
From Coq Require Import List NArith Bool Lia.
From RV Require Import Base.KMap C25.Model C25.Spec C25.Proofs C24.Model C24.Spec C24.Elems C24.Chain.
Import ListNotations.
Local Open Scope N_scope.

(* ---- the snapshot ---- *)

Lemma snap_pubs_sorted : forall els acc c, ksorted acc -> snap_pubs els acc = Some c -> ksorted c.
Proof.
  induction els as [|[u d] t IH]; intros acc c Hs H; cbn [snap_pubs] in H.
  - inversion H; subst. exact Hs.
  - destruct (lookup u acc); [discriminate|]. eapply IH; [|exact H]. apply kinsert_sorted. exact Hs.
Qed.

Lemma snapshot_fetch_sorted nf fs c : snapshot_fetch nf fs = Some c -> ksorted c.
Proof.
  unfold snapshot_fetch. intros H.
  destruct (find_file (nf_snap_ref nf) fs) as [f|]; [|discriminate].
  destruct (f_ok f); cbn [negb] in H; [|discriminate].
  destruct (f_doc f) as [s n els b|]; [|discriminate].
  destruct (s =? nf_session nf); cbn [negb] in H; [|discriminate].
  destruct (n =? nf_serial nf); cbn [negb] in H; [|discriminate].
  destruct (snap_pubs els []) as [c0|] eqn:E; [|discriminate].
  destruct b; [discriminate|]. destruct (f_dig f =? nf_snap_dig nf); [|discriminate].
  inversion H; subst. eapply snap_pubs_sorted; [|exact E]. exact I.
Qed.

Lemma snap_pubs_kp_states keep : forall els acc ps ok,
  snap_pubs_kp keep els acc = (ps, ok) -> forall lab st, In (lab, st) ps -> st = keep.
Proof.
  induction els as [|[u d] t IH]; intros acc ps ok H lab st Hin; cbn [snap_pubs_kp] in H.
  - inversion H; subst. destruct Hin.
  - destruct (lookup u acc).
    + inversion H; subst. destruct Hin as [E|[]]. inversion E; reflexivity.
    + destruct (snap_pubs_kp keep t (kinsert u d acc)) as [ps0 ok0] eqn:E0. inversion H; subst.
      destruct Hin as [E|Hin]; [inversion E; reflexivity | eapply IH; eassumption].
Qed.

(* what can be on disk at the kill points of a snapshot update: the copy that was there, nothing (between remove
   and rename), or the complete new copy *)
Lemma snapshot_kp_states cfg nf fs keep ps ok :
  snapshot_kp cfg nf fs keep = (ps, ok) ->
  forall lab st, In (lab, st) ps ->
    st = keep \/ st = None \/ exists c, snapshot_fetch nf fs = Some c /\ st = Some (state_of cfg nf c).
Proof.
  unfold snapshot_kp, snapshot_fetch. intros H lab st Hin.
  assert (Hb : forall (ps0 : list kp), (forall lab st, In (lab, st) ps0 -> st = keep) ->
            ((KP_snap_begin, keep) :: ps0, false) = (ps, ok) -> st = keep).
  { intros ps0 H0 E. inversion E; subst. destruct Hin as [E'|Hin]; [inversion E'; reflexivity | eapply H0; exact Hin]. }
  destruct (find_file (nf_snap_ref nf) fs) as [f|]; [|left; apply (Hb []); [intros ? ? []|exact H]].
  destruct (f_ok f); cbn [negb] in *; [|left; apply (Hb []); [intros ? ? []|exact H]].
  destruct (f_doc f) as [s n els b|]; [|left; apply (Hb []); [intros ? ? []|exact H]].
  destruct (s =? nf_session nf); cbn [negb] in *; [|left; apply (Hb []); [intros ? ? []|exact H]].
  destruct (n =? nf_serial nf); cbn [negb] in *; [|left; apply (Hb []); [intros ? ? []|exact H]].
  destruct (snap_pubs_kp keep els []) as [ps0 ok0] eqn:E0.
  pose proof (snap_pubs_kp_states keep els [] ps0 ok0 E0) as Hk.
  destruct ok0; cbn [negb] in *; [|left; apply (Hb ps0); assumption].
  destruct b; [left; apply (Hb ps0); assumption|].
  destruct (f_dig f =? nf_snap_dig nf); cbn [negb] in *; [|left; apply (Hb ps0); assumption].
  destruct (snap_pubs els []) as [c|]; [|left; apply (Hb ps0); assumption].
  inversion H; subst ps ok. destruct Hin as [E|Hin]; [left; inversion E; reflexivity|].
  apply in_app_or in Hin as [Hin|Hin]; [left; eapply Hk; exact Hin|].
  cbn [In] in Hin. destruct Hin as [E|[E|[E|[E|[]]]]]; inversion E; subst.
  - left; reflexivity.
  - left; reflexivity.
  - right; left; reflexivity.
  - right; right. exists c. split; reflexivity.
Qed.

(* ---- the invariant ---- *)

Definition inv24 (g : gworld) (hw : list (N * N)) (local : option lstate) : Prop :=
  match local with
  | None => True
  | Some l =>
      exists a m, truth (world_of g) (l_session l) (l_serial l) = Some a /\ ksorted (l_content l) /\
        l_serial l <= m /\
        (m = l_serial l \/ exists mm, hw_lookup hw (l_session l) = Some mm /\ m <= mm) /\
        dirty_ok g (l_session l) (l_serial l) m (l_content l) a
  end.

(* a clean copy *)
Lemma inv24_clean g hw l c :
  truth (world_of g) (l_session l) (l_serial l) = Some c -> l_content l = c -> world_ok g = true ->
  inv24 g hw (Some l).
Proof.
  intros Ht Hc Hw. exists c, (l_serial l). rewrite Hc. repeat split.
  - exact Ht.
  - eapply truth_sorted; eassumption.
  - lia.
  - left; reflexivity.
  - apply dirty_ok_refl.
Qed.

(* the serial notified in this run, added to the record of notified serials *)
Definition hw_after (hw : list (N * N)) (st : step) : list (N * N) :=
  match s_notify st with NOk nf => (nf_session nf, nf_serial nf) :: hw | _ => hw end.

Definition mono_here (hw : list (N * N)) (st : step) : Prop :=
  match s_notify st with
  | NOk nf => forall mm, hw_lookup hw (nf_session nf) = Some mm -> mm <= nf_serial nf
  | _ => True
  end.

Lemma inv24_hw_after g hw st local : mono_here hw st -> inv24 g hw local -> inv24 g (hw_after hw st) local.
Proof.
  intros Hm Hi. destruct local as [l|]; [|exact I].
  destruct Hi as (a & m & Ht & Hs & Hk & Hb & Hd). exists a, m. repeat split; try assumption.
  destruct Hb as [E|(mm & Hl & Hle)]; [left; exact E|]. right.
  unfold hw_after, mono_here in *. destruct (s_notify st) as [| | |nf]; try (exists mm; split; assumption).
  cbn [hw_lookup]. destruct (N.eqb_spec (l_session l) (nf_session nf)) as [E|].
  - exists (nf_serial nf). split; [reflexivity|]. rewrite E in Hl. specialize (Hm _ Hl). lia.
  - exists mm. split; assumption.
Qed.

(* a dirty copy of session s whose notified serial has not gone back is dirty at most up to that serial *)
Lemma inv24_bound g hw l nf :
  inv24 g hw (Some l) -> nf_session nf = l_session l ->
  (forall mm, hw_lookup hw (nf_session nf) = Some mm -> mm <= nf_serial nf) ->
  l_serial l <= nf_serial nf ->
  exists a, truth (world_of g) (l_session l) (l_serial l) = Some a /\ ksorted (l_content l) /\
            dirty_ok g (l_session l) (l_serial l) (nf_serial nf) (l_content l) a.
Proof.
  intros (a & m & Ht & Hs & Hk & Hb & Hd) Hse Hm Hle. exists a. repeat split; try assumption.
  apply (dirty_ok_widen g _ _ m); [|exact Hd].
  destruct Hb as [->|(mm & Hl & Hmm)]; [exact Hle|]. rewrite <- Hse in Hl. specialize (Hm _ Hl). lia.
Qed.

(* ---- delta_update from a possibly dirty copy ---- *)

Lemma delta_update_kp_spec g cfg nf fs l a m ps c r :
  files_honest g fs -> ksorted (l_content l) ->
  dirty_ok g (l_session l) (l_serial l) m (l_content l) a ->
  delta_update_kp all_fixes cfg nf fs l = (ps, c, r) ->
  let M := N.max m (nf_serial nf) in
  (exists rq, delta_update all_fixes cfg nf fs l = (r, c, rq)) /\ ksorted c /\
  dirty_ok g (l_session l) (l_serial l) M c a /\
  (forall lab st, In (lab, st) ps ->
     exists ci, st = Some (with_content l ci) /\ ksorted ci /\ dirty_ok g (l_session l) (l_serial l) M ci a) /\
  (r <> None -> r <> Some R_conflicting_delta -> c = l_content l).
Proof.
  intros Hh Hs Hd H M. unfold delta_update_kp, delta_update in *.
  assert (HdM : dirty_ok g (l_session l) (l_serial l) M (l_content l) a).
  { eapply dirty_ok_widen; [|exact Hd]. unfold M. lia. }
  assert (Hsame : forall reason, ([] : list kp, l_content l, Some reason) = (ps, c, r) ->
            (exists rq, (Some reason, l_content l, [] : list N) = (r, c, rq)) /\ ksorted c /\
            dirty_ok g (l_session l) (l_serial l) M c a /\
            (forall lab st, In (lab, st) ps ->
               exists ci, st = Some (with_content l ci) /\ ksorted ci /\ dirty_ok g (l_session l) (l_serial l) M ci a) /\
            (r <> None -> r <> Some R_conflicting_delta -> c = l_content l)).
  { intros reason E. inversion E; subst. split; [exists []; reflexivity|]. repeat split; try assumption. intros ? ? []. }
  destruct (oversized cfg nf); [apply Hsame; exact H|].
  destruct (check_deltas (deltas_of cfg nf) l); cbn [negb] in *; [|apply Hsame; exact H].
  destruct (calc_deltas all_fixes cfg nf (deltas_of cfg nf) l) as [fl|reason] eqn:Hc; [|apply Hsame; exact H].
  destruct (calc_deltas_inl _ _ _ _ _ Hc) as (Hse & Hf & _ & Hn).
  destruct (delta_chain_kp l (nf_session nf) fl fs (l_content l)) as [[ps0 c0] ok0] eqn:Ek.
  rewrite Hse in Ek.
  destruct (delta_chain_dirty g l fs a (l_serial l) M fl (l_serial l) (l_content l) ps0 c0 ok0 Hh Hf) as ([rq Hrq] & Hs0 & Hd0 & Hp0);
    try assumption; [lia | unfold M; lia |].
  rewrite Hse, Hrq. destruct ok0; inversion H; subst ps c r.
  - split; [exists rq; reflexivity|]. repeat split; try assumption.
    + intros lab st Hin. apply in_app_or in Hin as [Hin|[E|[]]]; [exact (Hp0 lab st Hin)|].
      inversion E; subst. exists c0. repeat split; assumption.
    + intros Hnn. contradiction.
  - split; [exists rq; reflexivity|]. repeat split; try assumption. intros _ Hnc. contradiction.
Qed.

(* the delta update completed: the copy is exactly the server's content at the notified serial *)
Lemma delta_update_none24 g cfg nf fs l a c rq :
  world_ok g = true -> files_honest g fs -> ksorted (l_content l) ->
  truth (world_of g) (l_session l) (l_serial l) = Some a ->
  dirty_ok g (l_session l) (l_serial l) (nf_serial nf) (l_content l) a ->
  delta_update all_fixes cfg nf fs l = (None, c, rq) ->
  truth (world_of g) (nf_session nf) (nf_serial nf) = Some c.
Proof.
  intros Hw Hh Hs Ha Hd H. unfold delta_update in H.
  destruct (oversized cfg nf); [discriminate|].
  destruct (check_deltas (deltas_of cfg nf) l); cbn [negb] in H; [|discriminate].
  destruct (calc_deltas all_fixes cfg nf (deltas_of cfg nf) l) as [fl|reason] eqn:Hc; [|discriminate].
  destruct (calc_deltas_inl _ _ _ _ _ Hc) as (Hse & Hf & _ & Hn).
  destruct (delta_chain (nf_session nf) fl fs (l_content l)) as [[c0 ok0] rq0] eqn:Ech.
  destruct ok0; inversion H; subst c0 rq0.
  rewrite Hse in *. rewrite Hn in *.
  eapply delta_chain_exact; eassumption.
Qed.

(* ---- one run from a copy that satisfies the invariant ---- *)

Section Run.
Variable g : gworld.
Variable cfg : config.
Variable hw : list (N * N).
Hypothesis Hw : world_ok g = true.

Let w := world_of g.

(* the premises about the step *)
Definition step_facts (st : step) : Prop :=
  step_genuine w st = true /\ files_honest g (s_files st) /\ mono_here hw st /\
  match s_notify st with
  | NOk nf => exists c, truth w (nf_session nf) (nf_serial nf) = Some c
  | N304 => False
  | _ => True
  end.

Lemma step_okb_failed prev st' res reason rq keep :
  res <= RES_updated -> res <> RES_updated ->
  step_okb w prev st' (mk_obs res reason rq keep) = true.
Proof.
  intros Hle Hne. unfold step_okb, mk_obs. cbn [o_result].
  apply andb_true_intro. split; [apply N.leb_le; exact Hle|].
  destruct (N.eqb_spec res RES_updated); [contradiction | reflexivity].
Qed.

Lemma step_okb_updated_nf prev st' nf reason rq c :
  s_notify st' = NOk nf -> truth w (nf_session nf) (nf_serial nf) = Some c ->
  step_okb w prev st' (mk_obs RES_updated reason rq (Some (state_of cfg nf c))) = true.
Proof.
  intros Hn Ht. unfold step_okb, mk_obs. cbn [o_result o_probe_ok o_local]. rewrite Hn.
  cbn [state_of l_session l_serial l_content]. rewrite !N.eqb_refl. cbn [andb].
  replace (RES_updated <=? RES_updated) with true by reflexivity. cbn [andb].
  apply is_truth_spec. exact Ht.
Qed.

(* the copy on disk after the snapshot part, and the judgement of the run *)
Lemma snapshot_part prev st nf had reason rq keep :
  s_notify st = NOk nf -> snap_genuine w nf (s_files st) = true -> inv24 g (hw_after hw st) keep ->
  let o := match snapshot_fetch nf (s_files st) with
           | Some c => mk_obs RES_updated reason (0 :: rq ++ [nf_snap_ref nf]) (Some (state_of cfg nf c))
           | None => mk_obs (failed_result cfg had) reason (0 :: rq ++ [nf_snap_ref nf]) keep
           end in
  step_okb w prev st o = true /\ inv24 g (hw_after hw st) (o_local o).
Proof.
  intros Hn Hg Hk. cbv zeta. destruct (snapshot_fetch nf (s_files st)) as [c|] eqn:Hf.
  - pose proof (snapshot_fetch_truth _ _ _ _ Hg Hf) as Ht. split.
    + eapply step_okb_updated_nf; eassumption.
    + cbn [mk_obs o_local]. apply (inv24_clean g _ (state_of cfg nf c) c); [exact Ht | reflexivity | exact Hw].
  - split; [apply step_okb_failed; [apply failed_result_le | apply failed_result_ne] | exact Hk].
Qed.

Lemma run_step_correct24 local st :
  step_facts st -> inv24 g hw local ->
  let st' := resolve local st in
  let o := run_step all_fixes cfg local st' in
  step_okb w local st' o = true /\ inv24 g (hw_after hw st) (o_local o) /\
  forall lab stt, In (lab, stt) (run_kp all_fixes cfg local st') -> inv24 g (hw_after hw st) stt.
Proof.
  intros (Hg & Hh & Hm & Hn) Hinv. cbv zeta.
  pose proof (inv24_hw_after g hw st local Hm Hinv) as Hinv'.
  unfold resolve.
  destruct (s_notify st) as [| | |nf] eqn:En; try contradiction.
  - (* NErr *)
    replace (match local with Some _ => st | None => st end) with st by (destruct local; reflexivity).
    unfold run_step, run_kp. rewrite En. split; [|split].
    + apply step_okb_failed; [apply failed_result_le | apply failed_result_ne].
    + exact Hinv'.
    + intros ? ? [].
  - (* NBad *)
    replace (match local with Some _ => st | None => st end) with st by (destruct local; reflexivity).
    unfold run_step, run_kp. rewrite En. split; [|split].
    + apply step_okb_failed; [apply failed_result_le | apply failed_result_ne].
    + exact Hinv'.
    + intros ? ? [].
  - (* NOk *)
    destruct Hn as [cn Hcn].
    unfold step_genuine in Hg. rewrite En in Hg. apply andb_prop in Hg as [Hgs Hgd].
    unfold mono_here in Hm. rewrite En in Hm.
    destruct local as [l|].
    + destruct ((l_session l =? nf_session nf) && (l_serial l =? nf_serial nf)) eqn:Ematch.
      * (* the client's entity tag is the current one: 304; the copy must be clean *)
        apply andb_prop in Ematch as [E1 E2]. apply N.eqb_eq in E1, E2.
        destruct (inv24_bound g hw l nf Hinv (eq_sym E1) Hm) as (a & Ha & Hs & Hd); [lia|].
        rewrite <- E2 in Hd.
        pose proof (dirty_ok_clean g _ _ _ _ Hs (truth_sorted _ _ _ _ Hw Ha) Hd) as Hclean.
        unfold run_step, run_kp. cbn [s_notify s_files]. split; [|split].
        -- unfold step_okb, mk_obs. cbn [o_result o_probe_ok o_local s_notify].
           replace (RES_updated <=? RES_updated) with true by reflexivity. rewrite N.eqb_refl. cbn [andb].
           apply andb_true_intro. split.
           ++ unfold lstate_same. rewrite !N.eqb_refl. cbn [andb]. apply content_eqb_eq. reflexivity.
           ++ apply is_truth_spec. rewrite Hclean. exact Ha.
        -- exact Hinv'.
        -- intros lab stt [E|[]]. inversion E; subst. exact Hinv'.
      * (* a new notification *)
        unfold run_step, run_kp. rewrite En.
        destruct Hinv as (a & m & Ha & Hs & Hk & Hb & Hd).
        destruct (delta_update_kp all_fixes cfg nf (s_files st) l) as [[ps c] r] eqn:Ekp.
        destruct (delta_update_kp_spec g cfg nf (s_files st) l a m ps c r Hh Hs Hd Ekp) as ([rq Hrq] & Hsc & Hdc & Hpc & Hcc).
        rewrite Hrq.
        (* a copy with the old state record and a content that is dirty up to M satisfies the invariant afterwards,
           if the session is the notified one; otherwise it is the untouched copy *)
        assert (Hkeep : forall ci, ksorted ci ->
                  dirty_ok g (l_session l) (l_serial l) (N.max m (nf_serial nf)) ci a ->
                  (nf_session nf = l_session l \/ ci = l_content l) ->
                  inv24 g (hw_after hw st) (Some (with_content l ci))).
        { intros ci Hsi Hdi [Hse| ->].
          - exists a, (N.max m (nf_serial nf)). cbn [with_content l_session l_serial l_content].
            repeat split; try assumption; [lia|].
            assert (Hnew : hw_lookup (hw_after hw st) (l_session l) = Some (nf_serial nf)).
            { unfold hw_after. rewrite En. cbn [hw_lookup]. rewrite Hse, N.eqb_refl. reflexivity. }
            destruct Hb as [Em|(mm & Hl & Hmm)].
            + destruct (N.le_gt_cases (nf_serial nf) (l_serial l)) as [Hle|Hgt].
              * left. lia.
              * right. exists (nf_serial nf). split; [exact Hnew | lia].
            + right. exists (nf_serial nf). split; [exact Hnew|].
              rewrite <- Hse in Hl. specialize (Hm _ Hl). lia.
          - destruct l; exact Hinv'. }
        destruct r as [reason|].
        -- (* snapshot *)
           assert (Hsess : nf_session nf = l_session l \/ c = l_content l).
           { destruct (N.eq_dec reason R_conflicting_delta) as [->|Hnc].
             - left. unfold delta_update in Hrq.
               destruct (oversized cfg nf); [discriminate|].
               destruct (check_deltas (deltas_of cfg nf) l); cbn [negb] in Hrq; [|discriminate].
               destruct (calc_deltas all_fixes cfg nf (deltas_of cfg nf) l) as [fl|rr] eqn:Hc.
               + exact (proj1 (calc_deltas_inl _ _ _ _ _ Hc)).
               + unfold calc_deltas in Hc.
                 destruct (N.eqb_spec (nf_session nf) (l_session l)) as [E|]; [exact E|].
                 cbn [negb] in Hc. inversion Hc; subst rr. inversion Hrq.
             - right. apply Hcc; [discriminate | congruence]. }
           pose proof (Hkeep c Hsc Hdc Hsess) as Hkc.
           cbn [fix_taint all_fixes].
           set (keep := if (reason =? R_conflicting_delta) && true then None
                        else Some {| l_session := l_session l; l_serial := l_serial l;
                                     l_dstate := l_dstate l; l_content := c |}).
           assert (Hkk : inv24 g (hw_after hw st) keep).
           { unfold keep. destruct ((reason =? R_conflicting_delta) && true); [exact I | exact Hkc]. }
           destruct (snapshot_part (Some l) st nf true reason rq keep En Hgs Hkk) as [Hok Hi].
           split; [exact Hok|]. split; [exact Hi|].
           intros lab stt Hin.
           destruct (snapshot_kp cfg nf (s_files st) (Some (with_content l c))) as [ps' ok'] eqn:Esk.
           apply in_app_or in Hin as [Hin|Hin].
           ++ destruct (Hpc lab stt Hin) as (ci & Est & Hsi & Hdi). subst stt. apply Hkeep; try assumption.
              (* kill points of the delta part only exist when deltas were followed *)
              destruct Hsess as [E|E]; [left; exact E|].
              left. unfold delta_update_kp in Ekp.
              destruct (oversized cfg nf); [inversion Ekp; subst; destruct Hin|].
              destruct (check_deltas (deltas_of cfg nf) l); cbn [negb] in Ekp; [|inversion Ekp; subst; destruct Hin].
              destruct (calc_deltas all_fixes cfg nf (deltas_of cfg nf) l) as [fl|rr] eqn:Hc;
                [exact (proj1 (calc_deltas_inl _ _ _ _ _ Hc)) | inversion Ekp; subst; destruct Hin].
           ++ apply in_app_or in Hin as [Hin|Hin].
              ** destruct (snapshot_kp_states _ _ _ _ _ _ Esk lab stt Hin) as [Est|[Est|(c2 & Hf2 & Est)]]; subst stt.
                 --- exact Hkc.
                 --- exact I.
                 --- apply (inv24_clean g _ (state_of cfg nf c2) c2); [|reflexivity|exact Hw].
                     exact (snapshot_fetch_truth _ _ _ _ Hgs Hf2).
              ** destruct ((reason =? R_conflicting_delta) && true && negb ok'); [|destruct Hin].
                 destruct Hin as [E|[]]. inversion E; subst. exact Hkc.
        -- (* up to date through deltas *)
           assert (Hse : nf_session nf = l_session l /\ l_serial l <= nf_serial nf).
           { unfold delta_update in Hrq.
             destruct (oversized cfg nf); [discriminate|].
             destruct (check_deltas (deltas_of cfg nf) l); cbn [negb] in Hrq; [|discriminate].
             destruct (calc_deltas all_fixes cfg nf (deltas_of cfg nf) l) as [fl|rr] eqn:Hc; [|discriminate].
             destruct (calc_deltas_inl _ _ _ _ _ Hc) as (E1 & _ & _ & E2). split; [exact E1 | lia]. }
           destruct Hse as [Hse Hle].
           assert (Hdn : dirty_ok g (l_session l) (l_serial l) (nf_serial nf) (l_content l) a).
           { apply (dirty_ok_widen g _ _ m); [|exact Hd].
             destruct Hb as [->|(mm & Hl & Hmm)]; [exact Hle|]. rewrite <- Hse in Hl. specialize (Hm _ Hl). lia. }
           pose proof (delta_update_none24 g cfg nf (s_files st) l a c rq Hw Hh Hs Ha Hdn Hrq) as Ht.
           split; [eapply step_okb_updated_nf; eassumption|]. split.
           ++ cbn [mk_obs o_local]. apply (inv24_clean g _ (state_of cfg nf c) c); [exact Ht | reflexivity | exact Hw].
           ++ intros lab stt Hin. destruct (Hpc lab stt Hin) as (ci & Est & Hsi & Hdi). subst stt.
              apply Hkeep; try assumption. left. exact Hse.
    + (* no copy: snapshot *)
      unfold run_step, run_kp. rewrite En.
      destruct (snapshot_part None st nf false R_new_repository [] None En Hgs I) as [Hok Hi].
      split; [exact Hok|]. split; [exact Hi|].
      intros lab stt Hin.
      destruct (snapshot_kp cfg nf (s_files st) None) as [ps' ok'] eqn:Esk. cbn [fst] in Hin.
      destruct (snapshot_kp_states _ _ _ _ _ _ Esk lab stt Hin) as [Est|[Est|(c2 & Hf2 & Est)]]; subst stt; try exact I.
      apply (inv24_clean g _ (state_of cfg nf c2) c2); [|reflexivity|exact Hw].
      exact (snapshot_fetch_truth _ _ _ _ Hgs Hf2).
Qed.

(* one run, possibly killed *)
Lemma firstn_In' {A} (x : A) : forall n l, In x (firstn n l) -> In x l.
Proof.
  induction n as [|n IH]; intros [|y l] H; cbn [firstn] in H; try destruct H.
  - left; assumption.
  - right; apply IH; assumption.
Qed.

Lemma crun_correct local st kill :
  step_facts st -> inv24 g hw local ->
  let o := crun cfg local st kill in
  cstep_okb w local st o = true /\ inv24 g (hw_after hw st) (o_local (co_obs o)).
Proof.
  intros Hf Hinv. cbv zeta.
  destruct (run_step_correct24 local st Hf Hinv) as (Hok & Hi & Hkp).
  unfold crun, cstep_okb. cbv zeta. destruct kill as [n|].
  - remember ((1 <=? n) && (n <=? N.of_nat (length (run_kp all_fixes cfg local (resolve local st))))) as b eqn:Eb.
    destruct b.
    + cbn [co_killed co_obs o_local]. split; [reflexivity|].
      remember (firstn (N.to_nat n) (run_kp all_fixes cfg local (resolve local st))) as passed eqn:Ep.
      match goal with |- context [match ?r with _ => _ end] => destruct r as [|[lab stt] r'] eqn:Er end.
      * apply inv24_hw_after; [exact (proj1 (proj2 (proj2 Hf))) | exact Hinv].
      * apply (Hkp lab stt).
        assert (Hin : In (lab, stt) passed).
        { apply in_rev.
          assert (Hx : In (lab, stt) ((lab, stt) :: r')) by (left; reflexivity).
          exact (eq_ind_r (fun z => In (lab, stt) z) Hx Er). }
        rewrite Ep in Hin. eapply firstn_In'. exact Hin.
    + cbn [co_killed co_obs]. split; assumption.
  - cbn [co_killed co_obs]. split; assumption.
Qed.

End Run.

(* ---- sequences of runs ---- *)

Lemma monotone_here hw st t : monotone hw (st :: t) = true -> mono_here hw st /\ monotone (hw_after hw st) t = true.
Proof.
  cbn [monotone]. unfold mono_here, hw_after. destruct (s_notify st) as [| | |nf]; try (intros H; split; [exact I | exact H]).
  destruct (hw_lookup hw (nf_session nf)) as [m|].
  - intros H. apply andb_prop in H as [H1 H2]. apply N.leb_le in H1. split; [|exact H2].
    intros mm E. inversion E; subst. exact H1.
  - intros H. split; [intros mm E; discriminate | exact H].
Qed.

Lemma step_honest_facts g hw st :
  step_genuine (world_of g) st = true -> step_honest g st = true -> mono_here hw st -> step_facts g hw st.
Proof.
  intros Hg Hh Hm. unfold step_honest in Hh. apply andb_prop in Hh as [Hf Hn].
  repeat split; try assumption.
  - intros f Hin. rewrite forallb_forall in Hf. apply Hf. exact Hin.
  - destruct (s_notify st) as [| | |nf]; try exact I; [discriminate|].
    destruct (truth (world_of g) (nf_session nf) (nf_serial nf)) as [c|]; [exists c; reflexivity | discriminate].
Qed.

Lemma crun_steps_okb g cfg : world_ok g = true -> forall sts hw local crash,
  genuine (world_of g) sts = true -> forallb (step_honest g) sts = true -> monotone hw sts = true ->
  inv24 g hw local ->
  csteps_okb (world_of g) local sts (crun_steps cfg local sts crash) = true.
Proof.
  intros Hw. induction sts as [|st t IH]; intros hw local crash Hg Hh Hm Hinv; [reflexivity|].
  cbn [genuine forallb] in Hg, Hh. apply andb_prop in Hg as [Hg1 Hg2]. apply andb_prop in Hh as [Hh1 Hh2].
  destruct (monotone_here _ _ _ Hm) as [Hm1 Hm2].
  cbn [crun_steps csteps_okb].
  set (here := match crash with Some (c, n) => if c =? 0 then Some n else None | None => None end).
  set (later := match crash with Some (c, n) => if c =? 0 then None else Some (c - 1, n) | None => None end).
  destruct (crun_correct g cfg hw Hw local st here (step_honest_facts g hw st Hg1 Hh1 Hm1) Hinv) as [Hok Hi].
  apply andb_true_intro. split; [exact Hok|].
  apply (IH (hw_after hw st)); assumption.
Qed.

Theorem cmodel_satisfies_spec cfg g sts crash : cspec_okb g sts (cmodel_obs cfg sts crash) = true.
Proof.
  unfold cspec_okb, cmodel_obs. destruct (honest g sts) eqn:Hh; [|reflexivity].
  unfold honest in Hh. apply andb_prop in Hh as [Hh Hm]. apply andb_prop in Hh as [Hh Hs].
  apply andb_prop in Hh as [Hw Hg].
  apply (crun_steps_okb g cfg Hw sts [] None crash); try assumption. exact I.
Qed.

(* ---- the copy on disk after a sequence of runs, one of which may have been killed ---- *)

Fixpoint clocal_after (cfg : config) (local : option lstate) (sts : list step) (crash : option (N * N))
  : option lstate :=
  match sts with
  | [] => local
  | st :: t =>
      let here := match crash with Some (c, n) => if c =? 0 then Some n else None | None => None end in
      let later := match crash with Some (c, n) => if c =? 0 then None else Some (c - 1, n) | None => None end in
      clocal_after cfg (o_local (co_obs (crun cfg local st here))) t later
  end.

Fixpoint hw_fold (hw : list (N * N)) (sts : list step) : list (N * N) :=
  match sts with [] => hw | st :: t => hw_fold (hw_after hw st) t end.

Lemma monotone_app hw a b : monotone hw (a ++ b) = true -> monotone hw a = true /\ monotone (hw_fold hw a) b = true.
Proof.
  revert hw. induction a as [|st t IH]; intros hw H; cbn [app hw_fold] in *; [split; [reflexivity | exact H]|].
  destruct (monotone_here _ _ _ H) as [H1 H2]. destruct (IH _ H2) as [H3 H4]. split; [|exact H4].
  cbn [monotone]. unfold mono_here, hw_after in *. destruct (s_notify st) as [| | |nf]; try exact H3.
  destruct (hw_lookup hw (nf_session nf)) as [m|]; [|exact H3].
  apply andb_true_intro. split; [apply N.leb_le; apply H1; reflexivity | exact H3].
Qed.

Lemma clocal_after_inv g cfg : world_ok g = true -> forall sts hw local crash,
  genuine (world_of g) sts = true -> forallb (step_honest g) sts = true -> monotone hw sts = true ->
  inv24 g hw local -> inv24 g (hw_fold hw sts) (clocal_after cfg local sts crash).
Proof.
  intros Hw. induction sts as [|st t IH]; intros hw local crash Hg Hh Hm Hinv; [exact Hinv|].
  cbn [genuine forallb] in Hg, Hh. apply andb_prop in Hg as [Hg1 Hg2]. apply andb_prop in Hh as [Hh1 Hh2].
  destruct (monotone_here _ _ _ Hm) as [Hm1 Hm2].
  cbn [clocal_after hw_fold].
  set (here := match crash with Some (c, n) => if c =? 0 then Some n else None | None => None end).
  destruct (crun_correct g cfg hw Hw local st here (step_honest_facts g hw st Hg1 Hh1 Hm1) Hinv) as [_ Hi].
  apply IH; assumption.
Qed.

(* The statement of the property: whatever run of an earlier sequence was killed at whatever kill point, a later
   run that completes and is reported as updated leaves exactly the server's snapshot at the notified serial. *)
Theorem updated_after_kill_exact g cfg pre st crash :
  honest g (pre ++ [st]) = true ->
  let local := clocal_after cfg None pre crash in
  let o := run_step all_fixes cfg local (resolve local st) in
  o_result o = RES_updated ->
  exists l nf, s_notify st = NOk nf /\ o_local o = Some l /\
    l_session l = nf_session nf /\ l_serial l = nf_serial nf /\
    truth (world_of g) (nf_session nf) (nf_serial nf) = Some (l_content l).
Proof.
  intros Hh local o Hr. unfold honest in Hh.
  apply andb_prop in Hh as [Hh Hm]. apply andb_prop in Hh as [Hh Hs]. apply andb_prop in Hh as [Hw Hg].
  rewrite genuine_app in Hg. apply andb_prop in Hg as [Hg1 Hg2].
  rewrite forallb_app in Hs. apply andb_prop in Hs as [Hs1 Hs2].
  destruct (monotone_app _ _ _ Hm) as [Hm1 Hm2].
  pose proof (clocal_after_inv g cfg Hw pre [] None crash Hg1 Hs1 Hm1 I) as Hinv. fold local in Hinv.
  cbn [genuine forallb] in Hg2, Hs2. rewrite andb_true_r in Hg2, Hs2.
  destruct (monotone_here _ _ _ Hm2) as [Hm3 _].
  pose proof (step_honest_facts g _ st Hg2 Hs2 Hm3) as Hf.
  destruct (run_step_correct24 g cfg _ Hw local st Hf Hinv) as (Hok & _ & _). fold o in Hok.
  unfold step_okb in Hok. apply andb_prop in Hok as [_ Hok]. rewrite Hr in Hok.
  replace (RES_updated =? RES_updated) with true in Hok by reflexivity.
  apply andb_prop in Hok as [_ Hok].
  destruct (o_local o) as [l|] eqn:El; [|discriminate].
  destruct Hf as (_ & _ & _ & Hn).
  assert (Hres : s_notify (resolve local st) = s_notify st \/
                 exists p nf, local = Some p /\ s_notify st = NOk nf /\ s_notify (resolve local st) = N304 /\
                              l_session p = nf_session nf /\ l_serial p = nf_serial nf).
  { unfold resolve. destruct (s_notify st) as [| | |nf] eqn:En; try (left; destruct local; exact En).
    destruct local as [p|]; [|left; exact En].
    destruct ((l_session p =? nf_session nf) && (l_serial p =? nf_serial nf)) eqn:Em; [|left; exact En].
    apply andb_prop in Em as [E1 E2]. apply N.eqb_eq in E1, E2.
    right. exists p, nf. repeat split; assumption. }
  destruct Hres as [Hres|(p & nf & Hl & En & Hres & E1 & E2)]; rewrite Hres in Hok.
  - destruct (s_notify st) as [| | |nf] eqn:En; try contradiction; try discriminate.
    exists l, nf. apply andb_prop in Hok as [Hok Ht]. apply andb_prop in Hok as [H1 H2].
    apply N.eqb_eq in H1, H2. apply is_truth_spec in Ht. repeat split; assumption.
  - exists l, nf. rewrite Hl in Hok. apply andb_prop in Hok as [Hsame Ht].
    unfold lstate_same in Hsame. apply andb_prop in Hsame as [Hsame _]. apply andb_prop in Hsame as [H1 H2].
    apply N.eqb_eq in H1, H2. apply is_truth_spec in Ht.
    repeat split; try congruence.
Qed.
