(* C24: the property as an executable oracle, the "honest server" premise as an executable predicate, and the case
   checker of the correspondence run.  No proofs here. *)
From Coq Require Import List NArith Bool.
From RV Require Export Base.KMap C25.Model C25.Spec C24.Model.
Import ListNotations.
Local Open Scope N_scope.

(* The server's history with its deltas: (session, serial, content at that serial, the elements of the delta that
   leads to it from serial - 1). *)
Definition gworld := list (N * N * content * list delem).

Definition world_of (g : gworld) : world := map (fun x => let '(s, n, c, _) := x in (s, n, c)) g.

Fixpoint gdelta (g : gworld) (s n : N) : option (list delem) :=
  match g with
  | [] => None
  | (s', n', _, els) :: t => if (s =? s') && (n =? n') then Some els else gdelta t s n
  end.

Definition delem_eqb (a b : delem) : bool :=
  match a, b with
  | EPub u d, EPub u' d' => (u =? u') && (d =? d')
  | EUpd u o d, EUpd u' o' d' => (u =? u') && (o =? o') && (d =? d')
  | EWdr u o, EWdr u' o' => (u =? u') && (o =? o')
  | _, _ => false
  end.

(* [a] is a prefix of [b] *)
Fixpoint prefixb (a b : list delem) : bool :=
  match a, b with
  | [], _ => true
  | x :: a', y :: b' => delem_eqb x y && prefixb a' b'
  | _ :: _, [] => false
  end.

Fixpoint els_eqb (a b : list delem) : bool :=
  match a, b with
  | [], [] => true
  | x :: a', y :: b' => delem_eqb x y && els_eqb a' b'
  | _, _ => false
  end.

(* ---- the premise: an honest server ----
   (1) the history is consistent: contents are sorted maps and the delta of a serial leads from the content of
       the serial before to its content;
   (2) hash integrity as in C25 ([genuine]);
   (3) what the server serves may fail but is never wrong: a delta document that is served for a session and
       serial carries the elements of the history's delta for it, all of them or (if the document is cut) a
       prefix; a notification names a version of the history;
   (4) the serial a session is notified at never goes back. *)

Fixpoint ksortedb_all (g : gworld) : bool :=
  match g with
  | [] => true
  | (_, _, c, _) :: t => ksortedb c && ksortedb_all t
  end.

Definition delta_leads (g : gworld) (x : N * N * content * list delem) : bool :=
  let '(s, n, c, els) := x in
  if n =? 0 then true else
  match truth (world_of g) s (n - 1) with
  | None => true
  | Some a => let '(c', ok) := delta_els els [] a in ok && content_eqb c' c
  end.

Definition world_ok (g : gworld) : bool := ksortedb_all g && forallb (delta_leads g) g.

Definition file_honest (g : gworld) (f : file) : bool :=
  match f_doc f with
  | DDelta s n els broken =>
      match gdelta g s n with
      | Some gels => if broken then prefixb els gels else els_eqb els gels
      | None => false
      end
  | DSnap _ _ _ _ => true
  end.

Definition step_honest (g : gworld) (st : step) : bool :=
  forallb (file_honest g) (s_files st) &&
  match s_notify st with
  | NOk nf => match truth (world_of g) (nf_session nf) (nf_serial nf) with Some _ => true | None => false end
  | N304 => false            (* 304 is only given as the answer to a matching entity tag, see [resolve] *)
  | _ => true
  end.

(* serials notified so far, per session: the highest *)
Fixpoint hw_lookup (hw : list (N * N)) (s : N) : option N :=
  match hw with
  | [] => None
  | (s', n) :: t => if s =? s' then Some n else hw_lookup t s
  end.

Fixpoint monotone (hw : list (N * N)) (sts : list step) : bool :=
  match sts with
  | [] => true
  | st :: t =>
      match s_notify st with
      | NOk nf =>
          match hw_lookup hw (nf_session nf) with
          | Some m => (m <=? nf_serial nf) && monotone ((nf_session nf, nf_serial nf) :: hw) t
          | None => monotone ((nf_session nf, nf_serial nf) :: hw) t
          end
      | _ => monotone hw t
      end
  end.

Definition honest (g : gworld) (sts : list step) : bool :=
  world_ok g && genuine (world_of g) sts && forallb (step_honest g) sts && monotone [] sts.

(* The known-finding class F21: everything as above except that the files served to the run that is killed are
   only bound by hash integrity — a delta document with other elements than the history's (and therefore with a
   hash that does not match) may be among them.  Its elements are applied before its hash is checked, so a kill
   can leave them in the archive under the old serial. *)
Definition step_truthful (g : gworld) (st : step) : bool :=
  match s_notify st with
  | NOk nf => match truth (world_of g) (nf_session nf) (nf_serial nf) with Some _ => true | None => false end
  | N304 => false
  | _ => true
  end.

Fixpoint honest_but (g : gworld) (sts : list step) (t : N) : bool :=
  match sts with
  | [] => true
  | st :: sts' => (if t =? 0 then step_truthful g st else step_honest g st) &&
                  honest_but g sts' (if t =? 0 then N.of_nat (length sts) + 1 else t - 1)
  end.

Definition honest_weak (g : gworld) (sts : list step) (crash : option (N * N)) : bool :=
  match crash with
  | Some (t, _) => world_ok g && genuine (world_of g) sts && honest_but g sts t && monotone [] sts
  | None => false
  end.

(* ---- the property: every run that completes is judged as in C25 (a run reported as updated leaves exactly the
   server's snapshot at the notified serial), whatever happened to earlier runs; the killed run itself reports
   nothing ---- *)

Definition cstep_okb (w : world) (prev : option lstate) (st : step) (o : cobs) : bool :=
  if co_killed o then true else step_okb w prev (resolve prev st) (co_obs o).

Fixpoint csteps_okb (w : world) (prev : option lstate) (sts : list step) (os : list cobs) : bool :=
  match sts, os with
  | [], [] => true
  | st :: sts', o :: os' => cstep_okb w prev st o && csteps_okb w (o_local (co_obs o)) sts' os'
  | _, _ => false
  end.

Definition cspec_okb (g : gworld) (sts : list step) (os : list cobs) : bool :=
  if honest g sts then csteps_okb (world_of g) None sts os else true.

Definition cmodel_obs (cfg : config) (sts : list step) (crash : option (N * N)) : list cobs :=
  crun_steps cfg None sts crash.

(* ---- comparison ---- *)

Definition cobs_eqb (a b : cobs) : bool :=
  sobs_eqb (co_obs a) (co_obs b) && Bool.eqb (co_killed a) (co_killed b) && nlist_eqb (co_points a) (co_points b).

Fixpoint cobss_eqb (a b : list cobs) : bool :=
  match a, b with
  | [], [] => true
  | x :: a', y :: b' => cobs_eqb x y && cobss_eqb a' b'
  | _, _ => false
  end.

(* Result codes: 0 the model's runs (kill points passed, copy on disk after the kill, every later run) equal the
   implementation's and the property holds on the implementation's output; 1 the property holds on the
   implementation's output but the model differs; 2 the property fails on the implementation's output; 3 the
   property fails on the implementation's output and the case is in the known-finding class F21 (the killed run
   was served a delta document that is not the server's). *)
Record case := { k_cfg : config; k_world : gworld; k_steps : list step; k_crash : option (N * N);
                 k_impl : list cobs }.

Definition check_case (c : case) : N :=
  if negb (cspec_okb (k_world c) (k_steps c) (k_impl c)) then 2
  else if negb (honest (k_world c) (k_steps c)) && honest_weak (k_world c) (k_steps c) (k_crash c)
          && negb (csteps_okb (world_of (k_world c)) None (k_steps c) (k_impl c)) then 3
  else if cobss_eqb (cmodel_obs (k_cfg c) (k_steps c) (k_crash c)) (k_impl c) then 0 else 1.
