(* C19 — RTR listener keeps accepting after a failed connection setup.
   Only statements, [exact], [Check] pins. *)
From Coq Require Import List NArith Bool.
From RV Require Import C19.Model C19.Spec C19.Proofs.
Import ListNotations.
Local Open Scope N_scope.

(* The fair-executor contract: in every state reachable by any sequence of
   arrivals (any subset failing setup), accept errors, timer expiries and
   polls, the listener task is either scheduled to be polled, or its waker is
   registered with the back-off timer, or it is registered with the listening
   socket (and then nothing is queued).  A Pending answer never leaves it
   asleep without a wake-up source. *)
Theorem C19_never_asleep : forall evs, live (run true evs init).
Proof. exact never_asleep. Qed.

Theorem C19_invariant : forall evs, Inv (run true evs init).
Proof. exact (fun evs => run_inv evs init init_inv). Qed.

(* Liveness: after any script, a fair executor (polls the task while it is
   woken, lets the back-off time pass) reaches, within |queue|+4 steps, a state
   with an empty accept queue in which exactly the connections whose setup
   succeeds have been handed out, each once, in arrival order. *)
Theorem C19_eventually_all : forall evs,
  out (finish true (run true evs init)) = ok_ids evs /\ queue (finish true (run true evs init)) = [].
Proof. exact eventually_all. Qed.

(* ... in particular a good connection arriving after anything else *)
Theorem C19_later_arrival_served : forall evs1 evs2,
  In (n_arrivals evs1) (out (finish true (run true (evs1 ++ EArrive KOk :: evs2) init))).
Proof. exact later_arrival_served. Qed.

(* from any state satisfying the invariant (not only after a complete script) *)
Theorem C19_finish_delivers : forall s, Inv s ->
  let s' := finish true s in
  quiet s' /\ queue s' = [] /\ out s' = all_ok s /\ all_ok s' = all_ok s.
Proof. exact finish_delivers. Qed.

(* the executable oracle used on the implementation's observation holds of the model on every script *)
Theorem C19_model_satisfies_spec : forall evs, spec_okb evs (model_obs evs) = true.
Proof. exact model_satisfies_spec. Qed.

(* The code before the fix (poll_next answering Pending after a Ready accept
   without waking itself) violates the property: witnesses by computation. *)
Theorem C19_original_refuted :
  exists evs, let s := finish false (run false evs init) in
    woken s = false /\ io_reg s = false /\ timer_reg s = false /\
    queue s <> [] /\ out s <> ok_ids evs.
Proof. exact original_refuted. Qed.

Theorem C19_original_refuted_accept_error :
  exists evs, let s := finish false (run false evs init) in
    woken s = false /\ io_reg s = false /\ timer_reg s = false /\ out s <> ok_ids evs.
Proof. exact original_refuted_accept_error. Qed.

(* non-vacuity: a script with failing setups, an accept error and a back-off; the
   good connections 1, 3 and 4 come out, the listener ends waiting on the socket *)
Example C19_nonvacuous :
  let evs := [EArrive KFail; EPoll false; EArrive KOk; EArrive KFail; EPoll true; EArrive KOk; ETick; EArrive KOk] in
  let s := finish true (run true evs init) in
  out s = [1; 3; 4] /\ dropped s = [0; 2] /\ io_reg s = true /\ woken s = false /\
  spec_okb evs (model_obs evs) = true /\
  spec_okb evs {| o_polls := [(None, false, false, false)]; o_out := [] |} = false.
Proof. vm_compute. repeat split; reflexivity. Qed.

Check C19_never_asleep : forall evs, live (run true evs init).
Check C19_eventually_all : forall evs,
  out (finish true (run true evs init)) = ok_ids evs /\ queue (finish true (run true evs init)) = [].
Check C19_later_arrival_served : forall evs1 evs2,
  In (n_arrivals evs1) (out (finish true (run true (evs1 ++ EArrive KOk :: evs2) init))).
Check C19_model_satisfies_spec : forall evs, spec_okb evs (model_obs evs) = true.
