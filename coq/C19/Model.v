(* C19 — RTR listener keeps accepting after a failed connection setup.

   Model of /repo/src/rtr.rs, `impl Stream for RtrListener { fn poll_next }`
   together with the contract it lives under (the `Stream::poll_next` /
   `Future::poll` contract): a task is polled again only when a waker that
   was registered during an earlier poll is woken (or when the poll itself
   woke it, `wake_by_ref`).

   What is modelled of tokio and the kernel (trusted, not verified):
     * the kernel accept queue is a FIFO of connections;
     * `TcpListener::poll_accept` tries accept(2) only while the socket's
       readiness flag is set; it returns `Ready(Ok conn)` (dequeuing) when the
       queue is non-empty, `Ready(Err _)` without dequeuing when the system
       call fails for lack of descriptors (EMFILE, decided before the queue is
       looked at), and otherwise (flag clear, or queue empty which clears the
       flag) registers the waker with the socket and returns `Pending`; a
       `Ready` answer registers nothing;
     * a connection arriving while a waker is registered with the socket
       wakes it (and un-registers it);
     * `Sleep::poll` registers the waker with the timer until the deadline
       has passed; when the deadline passes a registered waker is woken.
   Executable definitions only. *)
From Coq Require Import List NArith Bool.
Import ListNotations.
Local Open Scope N_scope.

(* per-connection setup (`RtrStream::new`: keepalive socket options) succeeds or fails *)
Inductive kind := KOk | KFail.

Definition kind_eqb (a b : kind) : bool :=
  match a, b with KOk, KOk | KFail, KFail => true | _, _ => false end.

(* what the environment and the executor do *)
Inductive event :=
| EArrive (k : kind)        (* a client connects *)
| ETick                     (* at least the back-off time (100 ms) passes *)
| EPoll (emfile : bool).    (* the executor looks at the task; [emfile]: an accept call
                               made during this poll fails (descriptor exhaustion) *)

Record st := {
  queue : list (N * kind);         (* kernel accept queue: arrival number, kind *)
  arrived : N;                     (* number of arrivals so far *)
  all_ok : list N;                 (* ghost: arrival numbers of the [KOk] arrivals so far *)
  io_reg : bool;                   (* a waker is registered with the listening socket *)
  rdy : bool;                      (* tokio's readiness flag of the socket: set by an arrival, cleared when
                                      accept finds nothing (WouldBlock) *)
  backoff : option (bool * bool);  (* RtrListener.backoff: Some (deadline passed, waker registered with the timer) *)
  woken : bool;                    (* the task is scheduled to be polled *)
  out : list N;                    (* connections handed out as Ready(Some(Ok(stream))), in order *)
  dropped : list N;                (* accepted connections dropped because setup failed *)
  polls : list (option N * bool * bool * bool)
                                   (* log, newest first: per poll that took place
                                      (Ready id | Pending, woken after, some waker registered after, back-off set after) *)
}.

Definition set_queue q s := {| queue := q; arrived := arrived s; all_ok := all_ok s; io_reg := io_reg s; rdy := rdy s;
  backoff := backoff s; woken := woken s; out := out s; dropped := dropped s; polls := polls s |}.
Definition set_io b s := {| queue := queue s; arrived := arrived s; all_ok := all_ok s; io_reg := b; rdy := rdy s;
  backoff := backoff s; woken := woken s; out := out s; dropped := dropped s; polls := polls s |}.
Definition set_rdy b s := {| queue := queue s; arrived := arrived s; all_ok := all_ok s; io_reg := io_reg s; rdy := b;
  backoff := backoff s; woken := woken s; out := out s; dropped := dropped s; polls := polls s |}.
Definition set_backoff b s := {| queue := queue s; arrived := arrived s; all_ok := all_ok s; io_reg := io_reg s; rdy := rdy s;
  backoff := b; woken := woken s; out := out s; dropped := dropped s; polls := polls s |}.
Definition set_woken b s := {| queue := queue s; arrived := arrived s; all_ok := all_ok s; io_reg := io_reg s; rdy := rdy s;
  backoff := backoff s; woken := b; out := out s; dropped := dropped s; polls := polls s |}.
Definition push_out i s := {| queue := queue s; arrived := arrived s; all_ok := all_ok s; io_reg := io_reg s; rdy := rdy s;
  backoff := backoff s; woken := woken s; out := out s ++ [i]; dropped := dropped s; polls := polls s |}.
Definition push_dropped i s := {| queue := queue s; arrived := arrived s; all_ok := all_ok s; io_reg := io_reg s; rdy := rdy s;
  backoff := backoff s; woken := woken s; out := out s; dropped := dropped s ++ [i]; polls := polls s |}.
Definition push_poll p s := {| queue := queue s; arrived := arrived s; all_ok := all_ok s; io_reg := io_reg s; rdy := rdy s;
  backoff := backoff s; woken := woken s; out := out s; dropped := dropped s; polls := p :: polls s |}.

(* tokio::net::TcpListener::poll_accept *)
Inductive accepted := AcOk (id : N) (k : kind) | AcErr | AcPending.

Definition poll_accept (emfile : bool) (s : st) : accepted * st :=
  if negb (rdy s) then (AcPending, set_io true s)          (* not ready: register the waker *)
  else if emfile then (AcErr, s)                            (* accept(2) fails before looking at the queue *)
  else match queue s with
  | [] => (AcPending, set_io true (set_rdy false s))       (* WouldBlock: clear readiness, register the waker *)
  | (id, k) :: q => (AcOk id k, set_queue q s)
  end.

(* the first lines of poll_next:
     if let Some(backoff) = this.backoff.as_mut() {
         if matches!(backoff.as_mut().poll(ctx), Poll::Pending) { return Poll::Pending; }
         *this.backoff = None;
     }
   returns false when poll_next returns Pending here *)
Definition poll_backoff (s : st) : bool * st :=
  match backoff s with
  | None => (true, s)
  | Some (true, _) => (true, set_backoff None s)
  | Some (false, _) => (false, set_backoff (Some (false, true)) s)
  end.

(* RtrListener::poll_next.  [fixed = true] is the code as it is now
   (`ctx.waker().wake_by_ref()` before the two `Poll::Pending` answers that
   follow a `Ready` from poll_accept); [fixed = false] is the code before the
   fix, kept to state what was wrong.  Returns Some id for
   Ready(Some(Ok(stream))) and None for Pending. *)
Definition poll_next (fixed emfile : bool) (s : st) : option N * st :=
  let (go, s1) := poll_backoff s in
  if negb go then (None, s1) else
  match poll_accept emfile s1 with
  | (AcOk id KOk, s2) => (Some id, push_out id s2)
      (* Ok(stream) => Poll::Ready(Some(Ok(stream))) *)
  | (AcOk id KFail, s2) => (None, set_woken (fixed || woken s2) (push_dropped id s2))
      (* Err(_) => { ctx.waker().wake_by_ref(); Poll::Pending } *)
  | (AcErr, s2) => (None, set_woken (fixed || woken s2) (set_backoff (Some (false, false)) s2))
      (* Poll::Ready(Err(err)) => { *this.backoff = Some(sleep(100ms)); ctx.waker().wake_by_ref(); Poll::Pending } *)
  | (AcPending, s2) => (None, s2)
  end.

Definition timer_reg (s : st) : bool :=
  match backoff s with Some (_, r) => r | None => false end.
Definition has_backoff (s : st) : bool :=
  match backoff s with Some _ => true | None => false end.

(* One event.  The executor polls only a task that has been woken; after a
   Ready(Some(_)) the consumer (`while let Some(sock) = listener.next().await`
   in rpki's Server::run) asks for the next item at once, i.e. polls again. *)
Definition exec (fixed : bool) (e : event) (s : st) : st :=
  match e with
  | EArrive k =>
      let s1 := {| queue := queue s ++ [(arrived s, k)]; arrived := arrived s + 1;
                   all_ok := (if kind_eqb k KOk then all_ok s ++ [arrived s] else all_ok s);
                   io_reg := io_reg s; rdy := true; backoff := backoff s; woken := woken s; out := out s;
                   dropped := dropped s; polls := polls s |} in
      if io_reg s then set_woken true (set_io false s1) else s1
  | ETick =>
      match backoff s with
      | Some (_, r) => set_woken (r || woken s) (set_backoff (Some (true, false)) s)
      | None => s
      end
  | EPoll emfile =>
      if woken s then
        let (r, s1) := poll_next fixed emfile (set_woken false s) in
        let s2 := match r with Some _ => set_woken true s1 | None => s1 end in
        push_poll (r, woken s2, io_reg s2 || timer_reg s2, has_backoff s2) s2
      else s
  end.

Definition run (fixed : bool) (evs : list event) (s : st) : st := fold_left (fun s e => exec fixed e s) evs s.

(* The listener task after its first poll (Server::run polls it when it
   starts; nothing has connected yet): waiting for the socket. *)
Definition init : st :=
  {| queue := []; arrived := 0; all_ok := []; io_reg := true; rdy := false; backoff := None; woken := false;
     out := []; dropped := []; polls := [] |}.

(* A fair executor left alone: polls while woken, lets time pass while a timer is pending. *)
Definition fair_step (fixed : bool) (s : st) : st :=
  if woken s then exec fixed (EPoll false) s
  else if timer_reg s then exec fixed ETick s
  else s.

Fixpoint iter {A} (n : nat) (f : A -> A) (x : A) : A :=
  match n with O => x | S n' => iter n' f (f x) end.

Definition finish_bound (s : st) : nat := length (queue s) + 4.
Definition finish (fixed : bool) (s : st) : st := iter (finish_bound s) (fair_step fixed) s.
