(* C19: proofs about the model of RtrListener::poll_next (fixed code) under the poll contract. *)
From Coq Require Import List NArith Bool Lia.
From RV Require Import C19.Model C19.Spec.
Import ListNotations.
Local Open Scope N_scope.

(* ---- the invariant ---------------------------------------------------- *)

Definition okq (q : list (N * kind)) : list N :=
  map fst (filter (fun x => kind_eqb (snd x) KOk) q).

(* "not asleep without a wake-up source": the fair-executor contract *)
Definition live (s : st) : Prop := woken s = true \/ timer_reg s = true \/ io_reg s = true.

Record Inv (s : st) : Prop := {
  inv_live : live s;
  inv_io : io_reg s = true -> queue s = [];          (* waiting for the socket only while nothing is queued *)
  inv_rdy : rdy s = false -> queue s = [];           (* a queued connection has set the readiness flag *)
  inv_ok : out s ++ okq (queue s) = all_ok s;        (* handed out + still queued = every good arrival, in order *)
  inv_polls : forallb poll_okb (polls s) = true      (* every Pending answer so far left a wake-up source *)
}.

Lemma okq_app : forall a b, okq (a ++ b) = okq a ++ okq b.
Proof. intros. unfold okq. rewrite filter_app, map_app. reflexivity. Qed.

Lemma init_inv : Inv init.
Proof. split; cbn; auto. right; right; reflexivity. Qed.

Ltac t_live := unfold live, timer_reg in *; cbn in *; intuition (subst; cbn; auto using orb_true_r).
Ltac t_io Hio := cbn; let X := fresh in intros X; try discriminate X;
  try (specialize (Hio X); discriminate Hio); auto.
Ltac t_ok Hok := cbn in *; unfold okq in *; cbn in *; rewrite ?filter_app, ?map_app; cbn;
  rewrite ?app_nil_r in *; rewrite ?app_assoc; try rewrite Hok; auto; rewrite <- ?app_assoc; cbn; auto;
  try (subst; reflexivity).
Ltac t_polls Hp := cbn; rewrite ?Hp, ?orb_true_r; auto.
Ltac t_inv Hl Hio Hrd Hok Hp := split; [t_live | t_io Hio | t_io Hrd | t_ok Hok | t_polls Hp].

Lemma exec_inv : forall e s, Inv s -> Inv (exec true e s).
Proof.
  intros e s [Hl Hio Hrd Hok Hp].
  destruct s as [q ar ao io rd bo wk ou dr pl]. cbn in Hio, Hrd, Hok, Hp.
  destruct e as [k | | emfile].
  - (* arrival *)
    cbn. destruct io.
    + rewrite (Hio eq_refl) in *. destruct k; t_inv Hl Hio Hrd Hok Hp.
    + destruct k; t_inv Hl Hio Hrd Hok Hp.
  - (* tick *)
    cbn. destruct bo as [[el r] |]; t_inv Hl Hio Hrd Hok Hp.
  - (* poll *)
    cbn. destruct wk; [| t_inv Hl Hio Hrd Hok Hp].
    unfold poll_next, poll_backoff, poll_accept; cbn.
    destruct bo as [[[|] r] |]; cbn;
      try (destruct rd; cbn; [destruct emfile; cbn; [| destruct q as [| [id k] q]; cbn; [| destruct k; cbn]] |]);
      t_inv Hl Hio Hrd Hok Hp.
Qed.

Lemma run_inv : forall evs s, Inv s -> Inv (run true evs s).
Proof.
  induction evs as [| e evs IH]; intros s H; cbn; auto.
  apply IH. apply exec_inv. exact H.
Qed.

Lemma fair_step_inv : forall s, Inv s -> Inv (fair_step true s).
Proof.
  intros s H. unfold fair_step. destruct (woken s).
  - apply exec_inv; exact H.
  - destruct (timer_reg s); [apply exec_inv|]; exact H.
Qed.

Lemma iter_inv : forall n s, Inv s -> Inv (iter n (fair_step true) s).
Proof. induction n; intros s H; cbn; auto. apply IHn. apply fair_step_inv. exact H. Qed.

(* ---- liveness: a fair executor hands out everything that is queued ------ *)

Lemma iter_plus : forall A (f : A -> A) a b x, iter (a + b) f x = iter b f (iter a f x).
Proof. induction a; intros; cbn; auto. Qed.

Lemma iter_fix : forall A (f : A -> A) n x, f x = x -> iter n f x = x.
Proof. induction n; intros x H; cbn; auto. rewrite H. apply IHn. exact H. Qed.

(* nothing more can happen: not woken, no timer pending *)
Definition quiet (s : st) : Prop := woken s = false /\ timer_reg s = false.

Lemma quiet_fix : forall s, quiet s -> fair_step true s = s.
Proof. intros s [H1 H2]. unfold fair_step. rewrite H1, H2. reflexivity. Qed.

(* the back-off, if any, lets the next poll through *)
Definition passable (s : st) : Prop :=
  backoff s = None \/ exists r, backoff s = Some (true, r).

(* woken, no (pending) back-off: |queue|+1 polls empty the queue *)
Lemma drain : forall q s, queue s = q -> woken s = true -> passable s -> (rdy s = false -> q = []) ->
  let s' := iter (length q + 1) (fair_step true) s in
  quiet s' /\ queue s' = [] /\ out s' = out s ++ okq q /\ all_ok s' = all_ok s.
Proof.
  induction q as [| [id k] q IH]; intros s Hq Hw Hp Hr.
  - cbn [length Nat.add iter]. unfold fair_step. rewrite Hw.
    destruct s as [q' ar ao io rd bo wk ou dr pl]. cbn in Hq, Hw. subst.
    unfold quiet, timer_reg.
    destruct Hp as [Hp | [r Hp]]; cbn in Hp; subst; destruct rd; cbn; rewrite app_nil_r; auto.
  - cbn [length Nat.add iter].
    set (s1 := fair_step true s).
    assert (Hrd : rdy s = true) by (destruct (rdy s); auto; discriminate (Hr eq_refl)).
    assert (H1 : queue s1 = q /\ woken s1 = true /\ backoff s1 = None /\ rdy s1 = true /\
                 out s1 ++ okq q = out s ++ okq ((id, k) :: q) /\ all_ok s1 = all_ok s).
    { subst s1. unfold fair_step. rewrite Hw.
      destruct s as [q' ar ao io rd bo wk ou dr pl]. cbn in Hq, Hw, Hrd. subst.
      destruct Hp as [Hp | [r Hp]]; cbn in Hp; subst; destruct k; cbn; unfold okq; cbn;
        rewrite <- ?app_assoc; auto 7. }
    destruct H1 as (Hq1 & Hw1 & Hb1 & Hr1 & Ho1 & Ha1).
    assert (Hr1' : rdy s1 = false -> q = []) by (rewrite Hr1; discriminate).
    specialize (IH s1 Hq1 Hw1 (or_introl Hb1) Hr1'). cbn zeta in IH.
    destruct IH as (Hquiet & Hqe & Hout & Hall).
    repeat split; try apply Hquiet; auto.
    + rewrite Hout. exact Ho1.
    + rewrite Hall. exact Ha1.
Qed.

(* from any state satisfying the invariant, at most |queue|+3 fair steps reach a quiet state
   in which the queue is empty and every queued good connection has been handed out *)
Lemma reach_quiet : forall s, Inv s ->
  exists m, (m <= length (queue s) + 3)%nat /\
    let s' := iter m (fair_step true) s in
    quiet s' /\ queue s' = [] /\ out s' = out s ++ okq (queue s) /\ all_ok s' = all_ok s.
Proof.
  intros s HI.
  destruct (woken s) eqn:Hw.
  - destruct (backoff s) as [[[|] r] |] eqn:Hb.
    + exists (length (queue s) + 1)%nat. split; [lia|].
      apply drain; auto. right. eauto. apply HI.
    + (* pending back-off: poll registers the timer, tick fires it, then drain *)
      exists (2 + (length (queue s) + 1))%nat. split; [lia|].
      rewrite iter_plus.
      set (s2 := iter 2 (fair_step true) s).
      assert (H2 : queue s2 = queue s /\ woken s2 = true /\ backoff s2 = Some (true, false) /\
                   out s2 = out s /\ all_ok s2 = all_ok s /\ rdy s2 = rdy s).
      { subst s2. cbn [iter]. unfold fair_step at 2. rewrite Hw.
        destruct s as [q' ar ao io rd bo wk ou dr pl]. cbn in Hw, Hb. subst. cbn. auto 7. }
      destruct H2 as (Hq2 & Hw2 & Hb2 & Ho2 & Ha2 & Hr2).
      assert (Hr : rdy s2 = false -> queue s2 = []) by (rewrite Hr2, Hq2; apply HI).
      pose proof (drain (queue s2) s2 eq_refl Hw2 (or_intror (ex_intro _ false Hb2)) Hr) as D.
      cbn zeta in D. rewrite Hq2 in D at 1. rewrite Ho2, Ha2, Hq2 in D. exact D.
    + exists (length (queue s) + 1)%nat. split; [lia|].
      apply drain; auto. left. auto. apply HI.
  - destruct (timer_reg s) eqn:Ht.
    + (* timer pending: tick, then drain *)
      exists (1 + (length (queue s) + 1))%nat. split; [lia|].
      rewrite iter_plus.
      set (s1 := iter 1 (fair_step true) s).
      assert (H1 : queue s1 = queue s /\ woken s1 = true /\ backoff s1 = Some (true, false) /\
                   out s1 = out s /\ all_ok s1 = all_ok s /\ rdy s1 = rdy s).
      { subst s1. cbn [iter]. unfold fair_step. rewrite Hw, Ht.
        destruct s as [q' ar ao io rd bo wk ou dr pl]. unfold timer_reg in Ht. cbn in Hw, Ht. subst.
        destruct bo as [[el r] |]; [|discriminate]. cbn in Ht. subst. cbn. auto 7. }
      destruct H1 as (Hq1 & Hw1 & Hb1 & Ho1 & Ha1 & Hr1).
      assert (Hr : rdy s1 = false -> queue s1 = []) by (rewrite Hr1, Hq1; apply HI).
      pose proof (drain (queue s1) s1 eq_refl Hw1 (or_intror (ex_intro _ false Hb1)) Hr) as D.
      cbn zeta in D. rewrite Hq1 in D at 1. rewrite Ho1, Ha1, Hq1 in D. exact D.
    + (* asleep on the socket: by the invariant nothing is queued *)
      exists 0%nat. split; [lia|]. cbn [iter].
      destruct HI as [Hl Hio _ _ _].
      destruct Hl as [H | [H | H]]; try congruence.
      rewrite (Hio H). cbn. rewrite app_nil_r. unfold quiet. auto.
Qed.

Lemma finish_delivers : forall s, Inv s ->
  let s' := finish true s in
  quiet s' /\ queue s' = [] /\ out s' = all_ok s /\ all_ok s' = all_ok s.
Proof.
  intros s HI. destruct (reach_quiet s HI) as (m & Hm & Hq & Hqe & Ho & Ha).
  unfold finish, finish_bound.
  replace (length (queue s) + 4)%nat with (m + (length (queue s) + 4 - m))%nat by lia.
  cbn zeta. rewrite iter_plus. rewrite iter_fix by (apply quiet_fix; exact Hq).
  repeat split; try apply Hq; auto.
  rewrite Ho. apply HI.
Qed.

(* ---- relation to the script -------------------------------------------- *)

Lemma exec_all_ok : forall fx e s,
  all_ok (exec fx e s) = all_ok s ++ ok_ids_from (arrived s) [e] /\
  arrived (exec fx e s) = match e with EArrive _ => arrived s + 1 | _ => arrived s end.
Proof.
  intros fx e s. destruct s as [q ar ao io rd bo wk ou dr pl]. destruct e as [k | | em]; cbn.
  - destruct io, k; cbn; rewrite ?app_nil_r; auto.
  - destruct bo as [[el r] |]; cbn; rewrite app_nil_r; auto.
  - destruct wk; cbn; rewrite ?app_nil_r; auto.
    unfold poll_next, poll_backoff, poll_accept; cbn.
    destruct bo as [[[|] r] |]; cbn; auto;
      destruct rd; cbn; auto; destruct em; cbn; auto;
      destruct q as [| [id k] q]; cbn; auto; destruct k; cbn; auto.
Qed.

Lemma run_all_ok : forall fx evs s,
  all_ok (run fx evs s) = all_ok s ++ ok_ids_from (arrived s) evs.
Proof.
  induction evs as [| e evs IH]; intros s; cbn [run fold_left].
  - cbn. rewrite app_nil_r. reflexivity.
  - change (fold_left (fun s e => exec fx e s) evs (exec fx e s)) with (run fx evs (exec fx e s)).
    rewrite IH. destruct (exec_all_ok fx e s) as [H1 H2]. rewrite H1, H2.
    rewrite <- app_assoc. f_equal.
    destruct e as [[|] | | em]; cbn; reflexivity.
Qed.

Lemma nlist_eqb_refl : forall l, nlist_eqb l l = true.
Proof. induction l; cbn; auto. rewrite N.eqb_refl. exact IHl. Qed.

Lemma nlist_eqb_eq : forall a b, nlist_eqb a b = true -> a = b.
Proof.
  induction a as [| x a IH]; destruct b as [| y b]; cbn; intros H; try discriminate; auto.
  apply andb_true_iff in H. destruct H as [H1 H2]. apply N.eqb_eq in H1. subst. f_equal. auto.
Qed.

Lemma forallb_rev : forall A (f : A -> bool) l, forallb f (rev l) = forallb f l.
Proof.
  intros. induction l; cbn; auto. rewrite forallb_app. cbn. rewrite IHl. rewrite andb_true_r. apply andb_comm.
Qed.

(* every good arrival of the script is handed out, in order, nothing else *)
Lemma eventually_all : forall evs,
  out (finish true (run true evs init)) = ok_ids evs /\ queue (finish true (run true evs init)) = [].
Proof.
  intros evs. pose proof (run_inv evs init init_inv) as HI.
  destruct (finish_delivers _ HI) as (_ & Hq & Ho & _).
  split; auto. rewrite Ho. rewrite run_all_ok. reflexivity.
Qed.

Lemma model_satisfies_spec : forall evs, spec_okb evs (model_obs evs) = true.
Proof.
  intros evs. unfold spec_okb, model_obs. cbn [o_polls o_out].
  apply andb_true_iff. split.
  - rewrite forallb_rev.
    pose proof (run_inv evs init init_inv) as HI.
    apply (iter_inv (finish_bound (run true evs init))) in HI. apply HI.
  - destruct (eventually_all evs) as [H _]. rewrite H. apply nlist_eqb_refl.
Qed.

(* the contract, stated on reachable states *)
Lemma never_asleep : forall evs, live (run true evs init).
Proof. intros. apply run_inv. apply init_inv. Qed.

(* later good arrivals are served whatever failed before *)
Definition is_arrival (e : event) : bool := match e with EArrive _ => true | _ => false end.
Definition n_arrivals (evs : list event) : N := N.of_nat (length (filter is_arrival evs)).

Lemma ok_ids_from_mid : forall evs1 evs2 n,
  In (n + n_arrivals evs1) (ok_ids_from n (evs1 ++ EArrive KOk :: evs2)).
Proof.
  unfold n_arrivals.
  induction evs1 as [| e evs1 IH]; intros evs2 n.
  - cbn. left. lia.
  - destruct e as [[|] | | em]; cbn [app ok_ids_from filter is_arrival length].
    + right. replace (n + N.of_nat (S (length (filter is_arrival evs1))))
        with ((n + 1) + N.of_nat (length (filter is_arrival evs1))) by lia. apply IH.
    + replace (n + N.of_nat (S (length (filter is_arrival evs1))))
        with ((n + 1) + N.of_nat (length (filter is_arrival evs1))) by lia. apply IH.
    + apply IH.
    + apply IH.
Qed.

Lemma later_arrival_served : forall evs1 evs2,
  In (n_arrivals evs1) (out (finish true (run true (evs1 ++ EArrive KOk :: evs2) init))).
Proof.
  intros evs1 evs2.
  destruct (eventually_all (evs1 ++ EArrive KOk :: evs2)) as [H _]. rewrite H.
  apply (ok_ids_from_mid evs1 evs2 0).
Qed.

(* what was wrong before the fix: after a failed setup the task sleeps with no wake-up
   source and a later good connection is never handed out *)
Lemma original_refuted :
  exists evs, let s := finish false (run false evs init) in
    woken s = false /\ io_reg s = false /\ timer_reg s = false /\
    queue s <> [] /\ out s <> ok_ids evs.
Proof.
  exists [EArrive KFail; EPoll false; EArrive KOk]. vm_compute.
  repeat split; discriminate.
Qed.

Lemma original_refuted_accept_error :
  exists evs, let s := finish false (run false evs init) in
    woken s = false /\ io_reg s = false /\ timer_reg s = false /\ out s <> ok_ids evs.
Proof.
  exists [EArrive KOk; EPoll true]. vm_compute.
  repeat split; discriminate.
Qed.
