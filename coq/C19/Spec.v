(* C19: the property as an executable oracle over what a hand-driven executor
   observes of the listener, and the case checker of the correspondence run.
   No proofs here. *)
From Coq Require Import List NArith Bool.
From RV Require Export C19.Model.
Import ListNotations.
Local Open Scope N_scope.

(* What is observed of one run: a script of events, after which the executor is
   left alone until nothing can happen any more (`finish`).  One record per
   poll that took place, oldest first:
     (Ready(Some(Ok(stream))) of arrival id | Pending,
      the task has been woken when the poll returns,
      some clone of the task's waker is held by the socket or the timer when the poll returns,
      the listener has a back-off timer set),
   and the arrival numbers of the connections handed out, in order. *)
Record obs := { o_polls : list (option N * bool * bool * bool); o_out : list N }.

(* arrival numbers of the connections whose setup succeeds *)
Fixpoint ok_ids_from (n : N) (evs : list event) : list N :=
  match evs with
  | [] => []
  | EArrive KOk :: t => n :: ok_ids_from (n + 1) t
  | EArrive KFail :: t => ok_ids_from (n + 1) t
  | _ :: t => ok_ids_from n t
  end.
Definition ok_ids (evs : list event) : list N := ok_ids_from 0 evs.

Fixpoint nlist_eqb (a b : list N) : bool :=
  match a, b with
  | [], [] => true
  | x :: a', y :: b' => (x =? y) && nlist_eqb a' b'
  | _, _ => false
  end.

(* a Pending answer must leave the task either woken or with its waker registered somewhere *)
Definition poll_okb (p : option N * bool * bool * bool) : bool :=
  match p with
  | (None, w, r, _) => w || r
  | (Some _, _, _, _) => true
  end.

(* The property, executable: the listener never goes to sleep without a wake-up
   source, and every connection whose setup succeeds is handed out (exactly
   once, in arrival order, and nothing else), whatever failed before it. *)
Definition spec_okb (evs : list event) (o : obs) : bool :=
  forallb poll_okb (o_polls o) && nlist_eqb (o_out o) (ok_ids evs).

Definition model_obs (evs : list event) : obs :=
  let s := finish true (run true evs init) in
  {| o_polls := rev (polls s); o_out := out s |}.

Definition oN_eqb (a b : option N) : bool :=
  match a, b with Some x, Some y => x =? y | None, None => true | _, _ => false end.
Fixpoint polls_eqb (a b : list (option N * bool * bool * bool)) : bool :=
  match a, b with
  | [], [] => true
  | (r, w, g, k) :: a', (r', w', g', k') :: b' =>
      oN_eqb r r' && Bool.eqb w w' && Bool.eqb g g' && Bool.eqb k k' && polls_eqb a' b'
  | _, _ => false
  end.
Definition obs_eqb (a b : obs) : bool := polls_eqb (o_polls a) (o_polls b) && nlist_eqb (o_out a) (o_out b).

(* One correspondence case: the script the harness played against the real
   RtrListener and what it observed.
   0 model = implementation and the property holds on the implementation's observation;
   1 the property holds on the observation but the model's observation differs;
   2 the property fails on the implementation's observation. *)
Record case := { c_script : list event; c_impl : obs }.

Definition check_case (c : case) : N :=
  if negb (spec_okb (c_script c) (c_impl c)) then 2
  else if obs_eqb (model_obs (c_script c)) (c_impl c) then 0 else 1.
