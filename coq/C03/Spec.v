(* C03 (and the shared part of C04 / C05): observations, the three executable oracles, the case
   checker.  No proofs here. *)
From Coq Require Import List NArith Bool.
From RV Require Export C03.Model.
Import ListNotations.
Local Open Scope N_scope.

(* What is observed of one run on the implementation:
   o_ok      ValidationReport::process returned Ok
   o_payload the snapshot's payload, every item replaced by its index, strictly increasing
   o_store   the stored point read back with StoredPoint::load_quietly:
             (cached manifest number, cached thisUpdate, identity of the manifest bytes,
              names of the stored objects strictly increasing); None = no stored manifest *)
Definition store_obs : Type := option (N * N * N * list N).
Record obs := mko { o_ok : bool; o_payload : list N; o_store : store_obs }.

(* c_base: payload of the rest of the world (the constant parent CA); c_runs; c_impl *)
Record case := mkc { c_base : list N; c_runs : list run_in; c_impl : list obs }.

Definition obs_of_store (st : option stored) : store_obs :=
  match st with
  | None => None
  | Some s => Some (s_number s, s_this s, v_id (s_mft s), canon (map f_name (s_objs s)))
  end.

Definition model_obs (base : list N) (runs : list run_in) : list obs :=
  map (fun r => mko true (canon (base ++ snd r)) (obs_of_store (fst r))) (run_history true None runs).

(* ---- equality tests ---- *)
Fixpoint nl_eqb (a b : list N) : bool :=
  match a, b with
  | [], [] => true
  | x :: a', y :: b' => (x =? y) && nl_eqb a' b'
  | _, _ => false
  end.
Definition so_eqb (a b : store_obs) : bool :=
  match a, b with
  | None, None => true
  | Some (n, t, i, l), Some (n', t', i', l') => (n =? n') && (t =? t') && (i =? i') && nl_eqb l l'
  | _, _ => false
  end.
Definition obs_eqb (a b : obs) : bool :=
  Bool.eqb (o_ok a) (o_ok b) && nl_eqb (o_payload a) (o_payload b) && so_eqb (o_store a) (o_store b).
Fixpoint obsl_eqb (a b : list obs) : bool :=
  match a, b with
  | [], [] => true
  | x :: a', y :: b' => obs_eqb x y && obsl_eqb a' b'
  | _, _ => false
  end.

(* ---- the oracles: what the property texts say, on the observed sequence ---- *)

(* every manifest version that occurs in the history, to look up what a stored manifest lists *)
Definition versions_of (runs : list run_in) : list version :=
  flat_map (fun r => match r_fetch r with Collected v _ => [v] | _ => [] end) runs.
Definition find_version (runs : list run_in) (id : N) : option version :=
  find (fun v => v_id v =? id) (versions_of runs).

(* all listed files were retrieved and match their hashes *)
Definition complete (v : version) : bool := forallb (fun f => f_present f && f_hash_ok f) (v_files v).

(* the payload of one object set: the items of the listed files *)
Definition set_payload (v : version) : list N := flat_map f_items (v_files v).

(* the observed stored point is exactly manifest [v] with exactly its listed files *)
Definition store_is (v : version) (so : store_obs) : bool :=
  so_eqb so (Some (v_number v, v_this v, v_id v, canon (map f_name (v_files v)))).

(* cached number / thisUpdate of the observed stored point agree with its own manifest *)
Definition consistent_obs (runs : list run_in) (so : store_obs) : bool :=
  match so with
  | None => true
  | Some (n, t, i, _) => match find_version runs i with
                         | Some v => v_decodes v && (v_number v =? n) && (v_this v =? t)
                         | None => false
                         end
  end.

(* the observed stored point after the tampering of this run *)
Definition tampered (t : option (N * N)) (so : store_obs) : store_obs :=
  match t, so with
  | Some (n, tu), Some (_, _, i, l) => Some (n, tu, i, l)
  | _, _ => so
  end.

(* C03: the payload is the rest of the world plus the payload of ONE object set: nothing, or the
   stored version's (prev), or the fetched version's when it validated and is complete. *)
Definition spec03_step (base : list N) (runs : list run_in) (prev : store_obs) (r : run_in) (o : obs) : bool :=
  let from_set (s : list N) := nl_eqb (o_payload o) (canon (base ++ s)) in
  from_set []
  || match prev with
     | Some (_, _, i, _) => match find_version runs i with Some v => from_set (set_payload v) | None => false end
     | None => false
     end
  || match r_fetch r with
     | Collected v _ => validate_collected (r_policy r) v && complete v && from_set (set_payload v)
     | _ => false
     end.

(* C04: the stored point is unchanged, or it is replaced by a manifest that validated together
   with exactly the files it lists, each matching its hash; the one exception: an internally
   inconsistent stored copy may be discarded. *)
Definition spec04_step (runs : list run_in) (prev : store_obs) (r : run_in) (o : obs) : bool :=
  let prev' := tampered (r_tamper r) prev in
  so_eqb (o_store o) prev'
  || match r_fetch r with
     | Collected v _ => validate_collected (r_policy r) v && complete v && store_is v (o_store o)
     | _ => false
     end
  || (negb (consistent_obs runs prev') && match o_store o with None => true | _ => false end).

(* C05: if the stored point changed and the previous copy was consistent, number and thisUpdate
   both grew strictly; in particular a stored manifest is never displaced by an older one. *)
Definition spec05_step (runs : list run_in) (prev : store_obs) (r : run_in) (o : obs) : bool :=
  let prev' := tampered (r_tamper r) prev in
  so_eqb (o_store o) prev'
  || negb (consistent_obs runs prev')
  || match prev', o_store o with
     | None, _ => true
     | Some (n, t, _, _), Some (n', t', _, _) => (n <? n') && (t <? t')
     | Some _, None => false
     end.

(* C04, "usable for validation": when the run leaves the stored point as it was (and the copy is
   consistent) and its manifest still validates as a stored manifest under the run's policy, the whole
   object set of that stored version is contributed *)
Definition stored_valid (p : policy) (v : version) : bool :=
  v_decodes v && v_valid v && stale_ok p (v_stale v) && v_crl_inner v && stale_ok p (v_crl_stale v).
Definition sub_nl (a b : list N) : bool := forallb (fun x => existsb (N.eqb x) b) a.
Definition usable04_step (runs : list run_in) (prev : store_obs) (r : run_in) (o : obs) : bool :=
  let prev' := tampered (r_tamper r) prev in
  if so_eqb (o_store o) prev' && consistent_obs runs prev' then
    match prev' with
    | Some (_, _, i, _) => match find_version runs i with
                           | Some v => if stored_valid (r_policy r) v then sub_nl (set_payload v) (o_payload o) else true
                           | None => true
                           end
    | None => true
    end
  else true.

Fixpoint spec_hist (stepb : store_obs -> run_in -> obs -> bool) (prev : store_obs)
         (runs : list run_in) (os : list obs) : bool :=
  match runs, os with
  | [], [] => true
  | r :: runs', o :: os' => o_ok o && stepb prev r o && spec_hist stepb (o_store o) runs' os'
  | _, _ => false
  end.

Definition spec03_okb (base : list N) (runs : list run_in) (os : list obs) : bool :=
  spec_hist (spec03_step base runs) None runs os.
Definition spec04_okb (runs : list run_in) (os : list obs) : bool :=
  spec_hist (spec04_step runs) None runs os.
Definition spec05_okb (runs : list run_in) (os : list obs) : bool :=
  spec_hist (spec05_step runs) None runs os.
Definition usable04_okb (runs : list run_in) (os : list obs) : bool :=
  spec_hist (usable04_step runs) None runs os.

(* ---- well-formed inputs ---- *)
Fixpoint nodupb (l : list N) : bool :=
  match l with [] => true | x :: t => negb (existsb (N.eqb x) t) && nodupb t end.

Definition file_eqb (a b : file) : bool :=
  (f_name a =? f_name b) && Bool.eqb (f_present a) (f_present b) && Bool.eqb (f_hash_ok a) (f_hash_ok b)
  && nl_eqb (f_items a) (f_items b).
Fixpoint filel_eqb (a b : list file) : bool :=
  match a, b with
  | [], [] => true
  | x :: a', y :: b' => file_eqb x y && filel_eqb a' b'
  | _, _ => false
  end.
Definition version_eqb (a b : version) : bool :=
  (v_id a =? v_id b) && Bool.eqb (v_decodes a) (v_decodes b) && Bool.eqb (v_valid a) (v_valid b)
  && Bool.eqb (v_premature a) (v_premature b) && Bool.eqb (v_stale a) (v_stale b)
  && Bool.eqb (v_crl_loc a) (v_crl_loc b) && Bool.eqb (v_crl_inner a) (v_crl_inner b)
  && Bool.eqb (v_crl_stale a) (v_crl_stale b) && (v_number a =? v_number b) && (v_this a =? v_this b)
  && filel_eqb (v_files a) (v_files b).

(* perm is a permutation of the positions 0 .. length files - 1 *)
Definition perm_okb (n : nat) (perm : list N) : bool :=
  Nat.eqb (length perm) n && nodupb perm && forallb (fun i => i <? N.of_nat n) perm.

(* file names are distinct within a manifest; the manifest identity determines the manifest *)
Definition wf_runsb (runs : list run_in) : bool :=
  forallb (fun r => match r_fetch r with
                    | Collected v perm => perm_okb (length (v_files v)) perm && nodupb (map f_name (v_files v))
                    | _ => true end) runs
  && forallb (fun v => forallb (fun w => negb (v_id v =? v_id w) || version_eqb v w) (versions_of runs)) (versions_of runs).

(* Result codes: 0 model = implementation and the oracle holds on the implementation's output;
   1 oracle holds but model and implementation differ; 2 oracle false; 9 ill-formed input. *)
Definition check_with (okb : bool) (c : case) : N :=
  if negb (wf_runsb (c_runs c) && Nat.eqb (length (c_runs c)) (length (c_impl c))) then 9
  else if negb okb then 2
  else if obsl_eqb (model_obs (c_base c) (c_runs c)) (c_impl c) then 0 else 1.

Definition check_case (c : case) : N := check_with (spec03_okb (c_base c) (c_runs c) (c_impl c)) c.
Definition check_case04 (c : case) : N :=
  check_with (spec04_okb (c_runs c) (c_impl c) && usable04_okb (c_runs c) (c_impl c)) c.
Definition check_case05 (c : case) : N := check_with (spec05_okb (c_runs c) (c_impl c)) c.
