(* C03 / C04 / C05 — the model satisfies the three executable oracles on every well-formed history. *)
From Coq Require Import List NArith Bool Lia Permutation Arith.
From RV Require Import C03.Model C03.Spec C03.Proofs.
Import ListNotations.
Local Open Scope N_scope.

(* ------------------------------------------------------------------ *)
(* the model satisfies the three oracles on every well-formed history   *)

Lemma wf_runsb_fetch : forall runs, wf_runsb runs = true -> wf_runs runs.
Proof.
  intros runs H. unfold wf_runsb in H. apply andb_true_iff in H. destruct H as [H _].
  rewrite forallb_forall in H. apply Forall_forall. intros r Hr. specialize (H r Hr).
  destruct (r_fetch r) as [| |v perm]; cbn [wf_fetch]; auto.
  apply andb_true_iff in H. destruct H as [H _]. apply perm_ok_Permutation. assumption.
Qed.

Lemma in_versions_of : forall runs r v perm, In r runs -> r_fetch r = Collected v perm -> In v (versions_of runs).
Proof.
  intros runs r v perm Hin Hf. unfold versions_of. apply in_flat_map. exists r. split; auto.
  rewrite Hf. left. reflexivity.
Qed.

Lemma find_version_in : forall runs v, wf_runsb runs = true -> In v (versions_of runs) ->
  find_version runs (v_id v) = Some v.
Proof.
  intros runs v H Hin. unfold wf_runsb in H. apply andb_true_iff in H. destruct H as [_ H].
  rewrite forallb_forall in H. unfold find_version.
  destruct (find (fun w => v_id w =? v_id v) (versions_of runs)) as [w|] eqn:E.
  - apply find_some in E. destruct E as [Hw Hid].
    specialize (H w Hw). rewrite forallb_forall in H. specialize (H v Hin).
    rewrite Hid in H. cbn [negb orb] in H. apply version_eqb_eq in H. subst. reflexivity.
  - pose proof (find_none _ _ E v Hin) as C. cbn beta in C. rewrite N.eqb_refl in C. discriminate.
Qed.

(* invariant of the stored point along a history *)
Definition Inv (runs : list run_in) (st : option stored) : Prop :=
  match st with
  | None => True
  | Some s => In (s_mft s) (versions_of runs) /\ Permutation (s_objs s) (v_files (s_mft s))
  end.

Lemma Inv_tamper : forall runs t st, Inv runs st -> Inv runs (apply_tamper t st).
Proof. intros runs [[n tu]|] [s|]; cbn; auto. Qed.

Lemma obs_tamper : forall t st, obs_of_store (apply_tamper t st) = tampered t (obs_of_store st).
Proof. intros [[n tu]|] [s|]; reflexivity. Qed.

Lemma consistent_obs_spec : forall runs st, wf_runsb runs = true -> Inv runs st ->
  consistent_obs runs (obs_of_store st) = consistentb st.
Proof.
  intros runs [s|] Hwf HI; cbn [obs_of_store consistent_obs consistentb]; auto.
  destruct HI as [Hin _]. rewrite (find_version_in _ _ Hwf Hin). reflexivity.
Qed.

Lemma names_perm : forall a b, Permutation a b -> canon (map f_name a) = canon (map f_name b).
Proof. intros. apply canon_perm, Permutation_map. assumption. Qed.

(* payload of the stored fallback is accepted by the C03 oracle *)
Lemma spec03_stored : forall base runs st0 t p, wf_runsb runs = true -> Inv runs st0 ->
  let pay := canon (base ++ stored_payload p (apply_tamper t st0)) in
  nl_eqb pay (canon (base ++ []))
  || match obs_of_store st0 with
     | Some (_, _, i, _) => match find_version runs i with
                            | Some v => nl_eqb pay (canon (base ++ set_payload v))
                            | None => false end
     | None => false
     end = true.
Proof.
  intros base runs st0 t p Hwf HI. cbv zeta.
  destruct (stored_payload_cases p (apply_tamper t st0)) as [E|[s [E1 [E2 E3]]]].
  - rewrite E, nl_eqb_refl. reflexivity.
  - rewrite E3. apply orb_true_iff. right.
    destruct st0 as [s0|]; [|destruct t as [[? ?]|]; discriminate E1].
    assert (Hs : s_mft s = s_mft s0 /\ s_objs s = s_objs s0).
    { destruct t as [[n tu]|]; cbn [apply_tamper] in E1; inversion E1; subst; auto. }
    destruct Hs as [Hm Ho]. cbn [obs_of_store]. destruct HI as [Hin Hperm].
    rewrite (find_version_in _ _ Hwf Hin), Ho.
    unfold set_payload. rewrite (canon_app_perm base _ _ (flat_map_perm _ _ f_items _ _ Hperm)).
    apply nl_eqb_refl.
Qed.

Lemma step_satisfies : forall base runs r st0, wf_runsb runs = true -> In r runs -> Inv runs st0 ->
  let res := step true st0 r in
  let o := mko true (canon (base ++ snd res)) (obs_of_store (fst res)) in
  Inv runs (fst res)
  /\ spec03_step base runs (obs_of_store st0) r o = true
  /\ spec04_step runs (obs_of_store st0) r o = true
  /\ spec05_step runs (obs_of_store st0) r o = true.
Proof.
  intros base runs r st0 Hwf Hin HI0. cbv zeta.
  pose proof (wf_runsb_fetch _ Hwf) as Hwff. unfold wf_runs in Hwff. rewrite Forall_forall in Hwff. specialize (Hwff r Hin).
  unfold step. set (st := apply_tamper (r_tamper r) st0).
  assert (HI : Inv runs st) by (apply Inv_tamper; assumption).
  assert (Hprev : tampered (r_tamper r) (obs_of_store st0) = obs_of_store st) by (symmetry; apply obs_tamper).
  unfold spec03_step, spec04_step, spec05_step. cbn [o_payload o_store]. rewrite Hprev.
  rewrite (consistent_obs_spec _ _ Hwf HI).
  assert (Hstored : forall st', st' = st \/ (st' = None /\ consistentb st = false) ->
    Inv runs st' /\
    nl_eqb (canon (base ++ stored_payload (r_policy r) st')) (canon (base ++ []))
      || match obs_of_store st0 with
         | Some (_, _, i, _) => match find_version runs i with
                                | Some v => nl_eqb (canon (base ++ stored_payload (r_policy r) st')) (canon (base ++ set_payload v))
                                | None => false end
         | None => false end = true /\
    (so_eqb (obs_of_store st') (obs_of_store st) || false
       || negb (consistentb st) && match obs_of_store st' with None => true | Some _ => false end) = true /\
    (so_eqb (obs_of_store st') (obs_of_store st) || negb (consistentb st)
       || match obs_of_store st, obs_of_store st' with
          | None, _ => true
          | Some (n, t, _, _), Some (n', t', _, _) => (n <? n') && (t <? t')
          | Some _, None => false end) = true).
  { intros st' [E|[E Hc]]; subst st'.
    - split; [assumption|]. split; [apply (spec03_stored base runs st0 (r_tamper r) (r_policy r) Hwf HI0)|].
      rewrite so_eqb_refl. split; reflexivity.
    - split; [exact I|]. cbn [stored_payload process_stored obs_of_store]. unfold stored_payload. cbn [process_stored].
      rewrite nl_eqb_refl, Hc. cbn [negb orb andb]. rewrite !orb_true_r. repeat split; reflexivity. }
  destruct (r_fetch r) as [| |v perm] eqn:Hf; cbn [wf_fetch] in Hwff.
  - cbn [process fst snd]. fold (stored_payload (r_policy r) st).
    destruct (Hstored st (or_introl eq_refl)) as [H1 [H2 [H3 H4]]].
    split; [assumption|]. split; [rewrite orb_false_r; assumption|]. split; [rewrite orb_false_r in H3 |- *; assumption|assumption].
  - cbn [process fst snd]. fold (stored_payload (r_policy r) st).
    destruct (Hstored st (or_introl eq_refl)) as [H1 [H2 [H3 H4]]].
    split; [assumption|]. split; [rewrite orb_false_r; assumption|]. split; [rewrite orb_false_r in H3 |- *; assumption|assumption].
  - rewrite c03_exact by assumption.
    destruct (accepts (r_policy r) st v) eqn:Ha; cbn [fst snd].
    + destruct (accepts_valid _ _ _ Ha) as [Hv Hc]. rewrite Hv, Hc. cbn [andb].
      split; [|split; [|split]].
      * cbn [Inv store_of s_mft s_objs]. split; [eapply in_versions_of; eassumption|assumption].
      * apply orb_true_iff. right. unfold set_payload.
        rewrite (canon_app_perm base _ _ (flat_map_perm _ _ f_items _ _ Hwff)). apply nl_eqb_refl.
      * apply orb_true_iff. left. apply orb_true_iff. right. unfold store_is.
        cbn [obs_of_store store_of s_number s_this s_mft s_objs].
        rewrite (names_perm _ _ Hwff). apply so_eqb_refl.
      * destruct st as [s|] eqn:Hst; [|cbn [obs_of_store]; rewrite !orb_true_r; reflexivity].
        destruct (consistentb (Some s)) eqn:Hcons; [|cbn [negb]; rewrite orb_true_r; reflexivity].
        apply consistentb_spec in Hcons. destruct (accepts_newer _ _ _ Ha Hcons) as [Hn Ht].
        cbn [obs_of_store store_of s_number s_this s_mft s_objs].
        apply N.ltb_lt in Hn. apply N.ltb_lt in Ht. rewrite Hn, Ht. rewrite !orb_true_r. reflexivity.
    + destruct (Hstored (fallback_store (r_policy r) st v) (fallback_store_cases _ _ _)) as [H1 [H2 [H3 H4]]].
      split; [assumption|]. split; [|split; [|assumption]].
      * apply orb_true_iff. left. assumption.
      * rewrite orb_false_r in H3. apply orb_true_iff in H3. destruct H3 as [H3|H3].
        -- rewrite H3. reflexivity.
        -- rewrite H3. rewrite orb_true_r. reflexivity.
Qed.

Lemma hist_satisfies : forall base runs, wf_runsb runs = true ->
  forall suffix st0, incl suffix runs -> Inv runs st0 ->
  let os := map (fun r => mko true (canon (base ++ snd r)) (obs_of_store (fst r))) (run_history true st0 suffix) in
  spec_hist (spec03_step base runs) (obs_of_store st0) suffix os = true
  /\ spec_hist (spec04_step runs) (obs_of_store st0) suffix os = true
  /\ spec_hist (spec05_step runs) (obs_of_store st0) suffix os = true.
Proof.
  intros base runs Hwf. induction suffix as [|r rest IH]; intros st0 Hincl HI; cbv zeta.
  - cbn. auto.
  - cbn [run_history map spec_hist o_ok o_store andb].
    assert (Hin : In r runs) by (apply Hincl; left; reflexivity).
    destruct (step_satisfies base runs r st0 Hwf Hin HI) as [HI' [H3 [H4 H5]]].
    destruct (IH (fst (step true st0 r)) (fun x Hx => Hincl x (or_intror Hx)) HI') as [G3 [G4 G5]].
    cbv zeta in G3, G4, G5. rewrite H3, H4, H5. cbn [andb]. auto.
Qed.

Lemma model_satisfies_spec03 : forall base runs, wf_runsb runs = true ->
  spec03_okb base runs (model_obs base runs) = true.
Proof. intros. apply (hist_satisfies base runs H runs None (incl_refl _) I). Qed.
Lemma model_satisfies_spec04 : forall base runs, wf_runsb runs = true ->
  spec04_okb runs (model_obs base runs) = true.
Proof. intros. apply (hist_satisfies base runs H runs None (incl_refl _) I). Qed.
Lemma model_satisfies_spec05 : forall base runs, wf_runsb runs = true ->
  spec05_okb runs (model_obs base runs) = true.
Proof. intros. apply (hist_satisfies base runs H runs None (incl_refl _) I). Qed.

(* ------------------------------------------------------------------ *)
(* the observation does not depend on the iteration orders of a history *)

(* same stored manifest, same cached fields, the same objects in some order *)
Definition st_equiv (a b : option stored) : Prop :=
  match a, b with
  | None, None => True
  | Some s, Some s' => s_number s = s_number s' /\ s_this s = s_this s' /\ s_mft s = s_mft s'
                       /\ Permutation (s_objs s) (s_objs s')
  | _, _ => False
  end.

(* two runs that differ at most in the iteration order *)
Definition run_equiv (r r' : run_in) : Prop :=
  r_policy r = r_policy r' /\ r_tamper r = r_tamper r' /\
  match r_fetch r, r_fetch r' with
  | NoCollector, NoCollector => True
  | NoManifest, NoManifest => True
  | Collected v p1, Collected v' p2 =>
      v = v' /\ Permutation (pick (v_files v) p1) (v_files v) /\ Permutation (pick (v_files v) p2) (v_files v)
  | _, _ => False
  end.

Lemma st_equiv_refl : forall a, st_equiv a a.
Proof. intros [s|]; cbn; auto. Qed.

Lemma st_equiv_tamper : forall t a b, st_equiv a b -> st_equiv (apply_tamper t a) (apply_tamper t b).
Proof.
  intros [[n tu]|] [s|] [s'|]; cbn; auto. intros [_ [_ [Hm Ho]]]. auto.
Qed.

Lemma st_equiv_obs : forall a b, st_equiv a b -> obs_of_store a = obs_of_store b.
Proof.
  intros [s|] [s'|]; cbn; try tauto. intros [Hn [Ht [Hm Ho]]].
  rewrite Hn, Ht, Hm, (names_perm _ _ Ho). reflexivity.
Qed.

Lemma st_equiv_same : forall a b v, st_equiv a b -> same_manifest a v = same_manifest b v.
Proof. intros [s|] [s'|] v; cbn; try tauto. intros [_ [_ [Hm _]]]. rewrite Hm. reflexivity. Qed.

Lemma st_equiv_consistentb : forall a b, st_equiv a b -> consistentb a = consistentb b.
Proof. intros [s|] [s'|]; cbn; try tauto. intros [Hn [Ht [Hm _]]]. rewrite Hn, Ht, Hm. reflexivity. Qed.

Lemma st_equiv_newer : forall a b v, st_equiv a b ->
  fst (check_collected_is_newer v a) = fst (check_collected_is_newer v b)
  /\ st_equiv (snd (check_collected_is_newer v a)) (snd (check_collected_is_newer v b)).
Proof.
  intros a b v H. rewrite !newer_spec. pose proof (st_equiv_consistentb _ _ H) as Hc.
  destruct a as [s|], b as [s'|]; cbn in H; try tauto; try (cbn; auto; fail).
  destruct H as [Hn [Ht [Hm Ho]]]. unfold strictly_newer. rewrite Hn, Ht.
  destruct ((s_number s' <? v_number v) && (s_this s' <? v_this v)); cbn [fst snd].
  - split; auto. cbn. auto.
  - rewrite Hc. destruct (consistentb (Some s')); cbn [fst snd]; (split; [reflexivity|]); cbn; auto.
Qed.

Lemma st_equiv_accepts : forall p a b v, st_equiv a b -> accepts p a v = accepts p b v.
Proof.
  intros p a b v H. unfold accepts. rewrite (st_equiv_same _ _ v H).
  destruct (st_equiv_newer _ _ v H) as [E _]. rewrite E. reflexivity.
Qed.

Lemma st_equiv_fallback : forall p a b v, st_equiv a b -> st_equiv (fallback_store p a v) (fallback_store p b v).
Proof.
  intros p a b v H. unfold fallback_store. rewrite (st_equiv_same _ _ v H).
  destruct (negb (same_manifest b v) && validate_collected p v); auto.
  apply st_equiv_newer. assumption.
Qed.

Lemma st_equiv_stored_payload : forall p a b, st_equiv a b ->
  Permutation (stored_payload p a) (stored_payload p b).
Proof.
  intros p [s|] [s'|] H; cbn in H; try tauto; [|apply Permutation_refl].
  destruct H as [Hn [Ht [Hm Ho]]]. unfold stored_payload. cbn [process_stored].
  unfold validate_stored. rewrite Hm.
  match goal with |- context [if ?c then _ else _] => destruct c end; [|apply Permutation_refl].
  cbn [app]. apply flat_map_perm. assumption.
Qed.

Lemma step_equiv : forall a b r r', st_equiv a b -> run_equiv r r' ->
  st_equiv (fst (step true a r)) (fst (step true b r'))
  /\ Permutation (snd (step true a r)) (snd (step true b r')).
Proof.
  intros a b r r' Hst [Hp [Ht Hf]]. unfold step. rewrite <- Hp, <- Ht.
  pose proof (st_equiv_tamper (r_tamper r) _ _ Hst) as Hst'.
  set (a' := apply_tamper (r_tamper r) a) in *. set (b' := apply_tamper (r_tamper r) b) in *.
  destruct (r_fetch r) as [| |v p1], (r_fetch r') as [| |v' p2]; try tauto.
  - cbn [process fst snd]. split; auto. apply (st_equiv_stored_payload _ _ _ Hst').
  - cbn [process fst snd]. split; auto. apply (st_equiv_stored_payload _ _ _ Hst').
  - destruct Hf as [Ev [H1 H2]]. subst v'. rewrite !c03_exact by assumption.
    rewrite (st_equiv_accepts (r_policy r) _ _ v Hst').
    destruct (accepts (r_policy r) b' v); cbn [fst snd].
    + split.
      * cbn. repeat split; auto. eapply Permutation_trans; [eassumption|apply Permutation_sym; assumption].
      * apply flat_map_perm. eapply Permutation_trans; [eassumption|apply Permutation_sym; assumption].
    + split; [apply st_equiv_fallback; assumption|].
      apply st_equiv_stored_payload, st_equiv_fallback. assumption.
Qed.

Lemma history_equiv : forall base runs runs', Forall2 run_equiv runs runs' ->
  forall a b, st_equiv a b ->
  map (fun r => mko true (canon (base ++ snd r)) (obs_of_store (fst r))) (run_history true a runs) =
  map (fun r => mko true (canon (base ++ snd r)) (obs_of_store (fst r))) (run_history true b runs').
Proof.
  intros base runs runs' H. induction H as [|r r' rest rest' Hr _ IH]; intros a b Hst; auto.
  cbn [run_history map]. destruct (step_equiv a b r r' Hst Hr) as [H1 H2].
  rewrite (canon_app_perm base _ _ H2), (st_equiv_obs _ _ H1). f_equal. apply IH. assumption.
Qed.

(* Histories that differ only in the orders in which the manifest entries are walked give the same
   observations (payload sets and stored points): the engine's shuffle cannot be observed. *)
Lemma order_invariant : forall base runs runs', Forall2 run_equiv runs runs' ->
  model_obs base runs = model_obs base runs'.
Proof. intros. unfold model_obs. apply history_equiv; auto. exact I. Qed.
