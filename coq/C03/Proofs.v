(* C03 / C04 / C05 — lemmas about the single-point model (shared by the three properties). *)
From Coq Require Import List NArith Bool Lia Permutation Arith.
From RV Require Import C03.Model C03.Spec.
Import ListNotations.
Local Open Scope N_scope.

(* ------------------------------------------------------------------ *)
(* canonical form                                                       *)

Ltac cmp_all :=
  repeat match goal with
  | |- context [N.ltb ?a ?b] => destruct (N.ltb_spec a b)
  | |- context [N.eqb ?a ?b] => destruct (N.eqb_spec a b); subst
  | _ => progress cbn [ninsert]
  end.

Lemma ninsert_comm : forall x y l, ninsert x (ninsert y l) = ninsert y (ninsert x l).
Proof.
  intros x y l. induction l as [|h t IH]; cbn [ninsert]; cmp_all;
    try reflexivity; try lia; try (f_equal; assumption);
    try (assert (x = y) by lia; subst; reflexivity).
Qed.

Lemma canon_perm : forall a b, Permutation a b -> canon a = canon b.
Proof.
  unfold canon. induction 1; cbn [fold_right]; try congruence.
  apply ninsert_comm.
Qed.

Lemma canon_app_perm : forall base a b, Permutation a b -> canon (base ++ a) = canon (base ++ b).
Proof. intros. apply canon_perm, Permutation_app_head; assumption. Qed.

Lemma nl_eqb_refl : forall l, nl_eqb l l = true.
Proof. induction l; cbn [nl_eqb]; auto. rewrite N.eqb_refl. assumption. Qed.

Lemma nl_eqb_eq : forall a b, nl_eqb a b = true -> a = b.
Proof.
  induction a as [|x a IH]; destruct b as [|y b]; cbn [nl_eqb]; intros H; try discriminate; auto.
  apply andb_true_iff in H. destruct H as [H1 H2]. apply N.eqb_eq in H1. subst. f_equal. auto.
Qed.

Lemma so_eqb_refl : forall s, so_eqb s s = true.
Proof.
  destruct s as [[[[n t] i] l]|]; cbn [so_eqb]; auto.
  rewrite !N.eqb_refl, nl_eqb_refl. reflexivity.
Qed.

Lemma so_eqb_eq : forall a b, so_eqb a b = true -> a = b.
Proof.
  intros [[[[n t] i] l]|] [[[[n' t'] i'] l']|]; cbn [so_eqb]; intros H; try discriminate; auto.
  repeat (apply andb_true_iff in H; destruct H as [H ?]).
  apply N.eqb_eq in H. apply N.eqb_eq in H2. apply N.eqb_eq in H1. apply nl_eqb_eq in H0. subst. reflexivity.
Qed.

(* ------------------------------------------------------------------ *)
(* structural equality tests reflect equality                            *)

Lemma file_eqb_eq : forall a b, file_eqb a b = true -> a = b.
Proof.
  intros [n p h i] [n' p' h' i']. unfold file_eqb. cbn. intros H.
  repeat (apply andb_true_iff in H; destruct H as [H ?]).
  apply N.eqb_eq in H. apply eqb_prop in H2. apply eqb_prop in H1. apply nl_eqb_eq in H0. subst. reflexivity.
Qed.

Lemma filel_eqb_eq : forall a b, filel_eqb a b = true -> a = b.
Proof.
  induction a as [|x a IH]; destruct b as [|y b]; cbn [filel_eqb]; intros H; try discriminate; auto.
  apply andb_true_iff in H. destruct H as [H1 H2]. apply file_eqb_eq in H1. subst. f_equal. auto.
Qed.

Lemma version_eqb_eq : forall a b, version_eqb a b = true -> a = b.
Proof.
  intros [] []. unfold version_eqb. cbn. intros H.
  repeat (apply andb_true_iff in H; destruct H as [H ?]).
  repeat match goal with
  | H : N.eqb _ _ = true |- _ => apply N.eqb_eq in H
  | H : Bool.eqb _ _ = true |- _ => apply eqb_prop in H
  | H : filel_eqb _ _ = true |- _ => apply filel_eqb_eq in H
  end. subst. reflexivity.
Qed.

(* ------------------------------------------------------------------ *)
(* a checked position list picks a permutation of the files             *)

Lemma nodupb_NoDup : forall l, nodupb l = true -> NoDup l.
Proof.
  induction l as [|x t IH]; cbn [nodupb]; intros H; constructor.
  - apply andb_true_iff in H. destruct H as [H _]. apply negb_true_iff in H.
    intros Hin. assert (existsb (N.eqb x) t = true); [|congruence].
    apply existsb_exists. exists x. split; auto. apply N.eqb_refl.
  - apply andb_true_iff in H. destruct H as [_ H]. auto.
Qed.

Lemma map_nth_seq : forall (A : Type) (l : list A) (d : A),
  map (fun i => nth i l d) (seq 0 (length l)) = l.
Proof.
  induction l as [|x t IH]; intros d; cbn [length seq map nth]; auto.
  f_equal. rewrite <- seq_shift, map_map. cbn [nth]. apply IH.
Qed.

Lemma perm_ok_Permutation : forall files perm, perm_okb (length files) perm = true ->
  Permutation (pick files perm) files.
Proof.
  intros files perm H. unfold perm_okb in H.
  apply andb_true_iff in H. destruct H as [H Hlt]. apply andb_true_iff in H. destruct H as [Hlen Hnd].
  apply Nat.eqb_eq in Hlen. apply nodupb_NoDup in Hnd.
  assert (Hp : Permutation (map N.to_nat perm) (seq 0 (length files))).
  { apply NoDup_Permutation_bis.
    - apply FinFun.Injective_map_NoDup; auto. intros a b Hab. apply N2Nat.inj. assumption.
    - rewrite seq_length, map_length. lia.
    - intros i Hi. apply in_map_iff in Hi. destruct Hi as [k [Hk Hin]]. subst.
      apply in_seq. rewrite forallb_forall in Hlt. specialize (Hlt _ Hin).
      apply N.ltb_lt in Hlt. lia. }
  unfold pick.
  assert (E : map (fun i => nth (N.to_nat i) files dummy_file) perm
              = map (fun i => nth i files dummy_file) (map N.to_nat perm)) by (rewrite map_map; reflexivity).
  rewrite E. eapply Permutation_trans; [apply Permutation_map, Hp|].
  rewrite map_nth_seq. apply Permutation_refl.
Qed.

(* ------------------------------------------------------------------ *)
(* the update loop                                                       *)

Definition good (f : file) : bool := f_present f && f_hash_ok f.

(* the entries processed before the first missing / mismatching one *)
Fixpoint take_good (items : list file) : list file :=
  match items with
  | [] => []
  | f :: rest => if good f then f :: take_good rest else []
  end.

Lemma update_loop_spec : forall items acc objs,
  update_loop items acc objs =
    (forallb good items, acc ++ flat_map f_items (take_good items), objs ++ take_good items).
Proof.
  induction items as [|f rest IH]; intros acc objs; cbn [update_loop forallb take_good flat_map].
  - rewrite !app_nil_r. reflexivity.
  - assert (Hg : good f = f_present f && f_hash_ok f) by reflexivity.
    destruct (f_present f); cbn [negb andb] in *.
    + destruct (f_hash_ok f); cbn [negb] in *; rewrite Hg; cbn [andb].
      * rewrite IH. cbn [flat_map]. rewrite <- !app_assoc. reflexivity.
      * cbn [flat_map]. rewrite !app_nil_r. reflexivity.
    + rewrite Hg. cbn [andb flat_map]. rewrite !app_nil_r. reflexivity.
Qed.

Lemma take_good_all : forall items, forallb good items = true -> take_good items = items.
Proof.
  induction items as [|f rest IH]; cbn [forallb take_good]; auto.
  intros H. apply andb_true_iff in H. destruct H as [H1 H2]. rewrite H1. f_equal. auto.
Qed.

Lemma forallb_perm : forall (A : Type) (p : A -> bool) a b, Permutation a b -> forallb p a = forallb p b.
Proof.
  induction 1; cbn [forallb]; try congruence.
  - destruct (p y), (p x); reflexivity.
Qed.

Lemma flat_map_perm : forall (A B : Type) (g : A -> list B) a b,
  Permutation a b -> Permutation (flat_map g a) (flat_map g b).
Proof.
  induction 1; cbn [flat_map]; auto.
  - apply Permutation_app_head. assumption.
  - rewrite !app_assoc. apply Permutation_app_tail. apply Permutation_app_comm.
  - eapply Permutation_trans; eassumption.
Qed.

Lemma complete_good : forall v, complete v = forallb good (v_files v).
Proof. reflexivity. Qed.

(* ------------------------------------------------------------------ *)
(* the newer check                                                       *)

Definition consistent (st : option stored) : Prop :=
  match st with
  | None => True
  | Some s => v_decodes (s_mft s) = true /\ v_number (s_mft s) = s_number s /\ v_this (s_mft s) = s_this s
  end.

Definition consistentb (st : option stored) : bool :=
  match st with
  | None => true
  | Some s => v_decodes (s_mft s) && (v_number (s_mft s) =? s_number s) && (v_this (s_mft s) =? s_this s)
  end.

Lemma consistentb_spec : forall st, consistentb st = true <-> consistent st.
Proof.
  destruct st as [s|]; cbn [consistentb consistent]; [|tauto].
  rewrite !andb_true_iff, !N.eqb_eq. tauto.
Qed.

(* the stored copy is strictly older in both fields *)
Definition strictly_newer (v : version) (s : stored) : bool :=
  (s_number s <? v_number v) && (s_this s <? v_this v).

Lemma newer_spec : forall v st,
  check_collected_is_newer v st =
    match st with
    | None => (true, None)
    | Some s => if strictly_newer v s then (true, st)
                else if consistentb st then (false, st) else (true, None)
    end.
Proof.
  intros v [s|]; cbn [check_collected_is_newer consistentb]; auto.
  unfold strictly_newer.
  destruct (N.ltb_spec (s_number s) (v_number v)), (N.ltb_spec (s_this s) (v_this v)); cbn [andb]; auto;
    destruct (v_decodes (s_mft s) && (v_number (s_mft s) =? s_number s) && (v_this (s_mft s) =? s_this s)); auto;
    destruct (N.leb_spec (v_number v) (s_number s)); auto;
    destruct (N.leb_spec (v_this v) (s_this s)); auto; lia.
Qed.

(* ------------------------------------------------------------------ *)
(* PubPoint::process, characterised                                      *)

(* the fetched version replaces the stored one *)
Definition accepts (p : policy) (st : option stored) (v : version) : bool :=
  negb (same_manifest st v) && validate_collected p v && fst (check_collected_is_newer v st) && complete v.

(* the stored point the fallback works on *)
Definition fallback_store (p : policy) (st : option stored) (v : version) : option stored :=
  if negb (same_manifest st v) && validate_collected p v then snd (check_collected_is_newer v st) else st.

(* what the processor holds when the update is abandoned *)
Definition leftover (p : policy) (st : option stored) (v : version) (items : list file) : list N :=
  if negb (same_manifest st v) && validate_collected p v && fst (check_collected_is_newer v st)
  then flat_map f_items (take_good items) else [].

Lemma process_collected_spec : forall p st v items, Permutation items (v_files v) ->
  process_collected p st v items =
    if accepts p st v then PcDone (Some (store_of v items)) (flat_map f_items items)
    else PcFallback (fallback_store p st v) (leftover p st v items).
Proof.
  intros p st v items Hperm.
  unfold process_collected, accepts, fallback_store, leftover.
  destruct (same_manifest st v); cbn [negb andb]; auto.
  destruct (validate_collected p v); cbn [negb andb]; auto.
  destruct (check_collected_is_newer v st) as [newer st1]. cbn [fst snd].
  destruct newer; cbn [negb andb]; auto.
  rewrite update_loop_spec. cbn [app].
  rewrite complete_good, <- (forallb_perm _ good _ _ Hperm).
  destruct (forallb good items) eqn:Hg; auto.
  rewrite take_good_all by assumption. reflexivity.
Qed.

Lemma process_spec : forall fixed p st v perm, Permutation (pick (v_files v) perm) (v_files v) ->
  process fixed p st (Collected v perm) =
    if accepts p st v
    then (Some (store_of v (pick (v_files v) perm)), flat_map f_items (pick (v_files v) perm))
    else (fallback_store p st v,
          process_stored p (fallback_store p st v)
            (if fixed then [] else leftover p st v (pick (v_files v) perm))).
Proof.
  intros. cbn [process]. rewrite process_collected_spec by assumption.
  destruct (accepts p st v); reflexivity.
Qed.

(* the fallback store is the old one, or nothing when the old one was inconsistent *)
Lemma fallback_store_cases : forall p st v,
  fallback_store p st v = st \/ (fallback_store p st v = None /\ consistentb st = false).
Proof.
  intros p st v. unfold fallback_store.
  destruct (negb (same_manifest st v) && validate_collected p v); auto.
  rewrite newer_spec. destruct st as [s|]; cbn [snd]; auto.
  destruct (strictly_newer v s); cbn [snd]; auto.
  destruct (consistentb (Some s)) eqn:Hc; cbn [snd]; auto.
Qed.

Lemma fallback_store_consistent : forall p st v, consistent st -> fallback_store p st v = st.
Proof.
  intros p st v Hc. destruct (fallback_store_cases p st v) as [H|[_ H]]; auto.
  apply consistentb_spec in Hc. congruence.
Qed.

Lemma accepts_newer : forall p s v, accepts p (Some s) v = true -> consistent (Some s) ->
  s_number s < v_number v /\ s_this s < v_this v.
Proof.
  intros p s v H Hc. unfold accepts in H.
  repeat (apply andb_true_iff in H; destruct H as [H ?]).
  rewrite newer_spec in H1. apply consistentb_spec in Hc.
  unfold strictly_newer in H1.
  destruct (N.ltb_spec (s_number s) (v_number v)), (N.ltb_spec (s_this s) (v_this v)); cbn [andb] in H1;
    try (split; assumption); rewrite Hc in H1; discriminate.
Qed.

Lemma accepts_valid : forall p st v, accepts p st v = true ->
  validate_collected p v = true /\ complete v = true.
Proof.
  intros p st v H. unfold accepts in H.
  repeat (apply andb_true_iff in H; destruct H as [H ?]). auto.
Qed.

Lemma validate_collected_stored : forall p v objs, validate_collected p v = true ->
  validate_stored p (store_of v objs) = true.
Proof.
  intros p v objs H. unfold validate_collected in H. unfold validate_stored, store_of. cbn [s_mft].
  repeat (apply andb_true_iff in H; destruct H as [H ?]).
  repeat (apply andb_true_iff; split); assumption.
Qed.

(* ------------------------------------------------------------------ *)
(* C03: one object set                                                   *)

(* the payload process_stored yields with a fresh (restarted) processor *)
Definition stored_payload (p : policy) (st : option stored) : list N := process_stored p st [].

Lemma no_collector_spec : forall fixed p st,
  process fixed p st NoCollector = (st, stored_payload p st) /\
  process fixed p st NoManifest = (st, stored_payload p st).
Proof. intros. split; reflexivity. Qed.

Lemma stored_payload_cases : forall p st,
  stored_payload p st = [] \/
  exists s, st = Some s /\ validate_stored p s = true /\ stored_payload p st = flat_map f_items (s_objs s).
Proof.
  intros p [s|]; unfold stored_payload; cbn [process_stored]; auto.
  destruct (validate_stored p s) eqn:E; auto. right. exists s. auto.
Qed.

(* exact description of the fixed code on a fetched manifest, for every iteration order *)
Lemma c03_exact : forall p st v perm, Permutation (pick (v_files v) perm) (v_files v) ->
  process true p st (Collected v perm) =
    if accepts p st v
    then (Some (store_of v (pick (v_files v) perm)), flat_map f_items (pick (v_files v) perm))
    else (fallback_store p st v, stored_payload p (fallback_store p st v)).
Proof. intros. rewrite process_spec by assumption. reflexivity. Qed.

Definition wf_fetch (f : fetch) : Prop :=
  match f with Collected v perm => Permutation (pick (v_files v) perm) (v_files v) | _ => True end.

(* The payload a CA contributes in a run is nothing, or exactly the stored version's object set
   (the store is then untouched), or exactly the fetched version's object set, which then
   validated, is complete, and is what the store holds afterwards. *)
Lemma c03_one_object_set : forall p st f, wf_fetch f ->
  let st' := fst (process true p st f) in
  let pay := snd (process true p st f) in
  pay = []
  \/ (exists s, st = Some s /\ st' = st /\ validate_stored p s = true /\ pay = flat_map f_items (s_objs s))
  \/ (exists v perm, f = Collected v perm /\ validate_collected p v = true /\ complete v = true
        /\ st' = Some (store_of v (pick (v_files v) perm)) /\ Permutation pay (set_payload v)).
Proof.
  intros p st f Hwf. destruct f as [| |v perm]; cbn [wf_fetch] in Hwf.
  - cbn [process fst snd]. fold (stored_payload p st).
    destruct (stored_payload_cases p st) as [H|[s [H1 [H2 H3]]]]; auto.
    right. left. exists s. auto.
  - cbn [process fst snd]. fold (stored_payload p st).
    destruct (stored_payload_cases p st) as [H|[s [H1 [H2 H3]]]]; auto.
    right. left. exists s. auto.
  - rewrite c03_exact by assumption.
    destruct (accepts p st v) eqn:Ha; cbn [fst snd].
    + right. right. exists v, perm. destruct (accepts_valid _ _ _ Ha) as [Hv Hc].
      repeat split; auto. unfold set_payload. apply flat_map_perm. assumption.
    + destruct (fallback_store_cases p st v) as [E|[E _]]; rewrite E.
      * destruct (stored_payload_cases p st) as [H|[s [H1 [H2 H3]]]]; auto.
        right. left. exists s. auto.
      * left. reflexivity.
Qed.

(* the payload does not depend on the iteration order (as a multiset), nor does the decision *)
Lemma c03_order_irrelevant : forall p st v perm1 perm2,
  Permutation (pick (v_files v) perm1) (v_files v) -> Permutation (pick (v_files v) perm2) (v_files v) ->
  Permutation (snd (process true p st (Collected v perm1))) (snd (process true p st (Collected v perm2))).
Proof.
  intros p st v p1 p2 H1 H2. rewrite !c03_exact by assumption.
  destruct (accepts p st v); cbn [snd]; [|apply Permutation_refl].
  apply flat_map_perm. eapply Permutation_trans; [eassumption|apply Permutation_sym; assumption].
Qed.

(* The code as found (fixed = false): witness of a mixture.  Stored: manifest 1 = {crl, a, b};
   fetched: manifest 2 = {crl, a, c, m} with m missing, walked in the order crl a c m. *)
Definition w_v1 : version :=
  mkv 1 true true false false true true false 1 100 [mkf 1 true true []; mkf 2 true true [2]; mkf 3 true true [3]].
Definition w_v2 : version :=
  mkv 2 true true false false true true false 2 200
      [mkf 1 true true []; mkf 2 true true [2]; mkf 4 true true [4]; mkf 5 false true [5]].
Definition w_st : option stored := Some (store_of w_v1 (v_files w_v1)).
Definition w_perm : list N := [0; 1; 2; 3].

Lemma c03_unfixed_refuted :
  exists p st v perm,
    consistent st /\ Permutation (pick (v_files v) perm) (v_files v) /\
    let pay := snd (process false p st (Collected v perm)) in
    fst (process false p st (Collected v perm)) = st /\
    (exists x, In x pay /\ ~ In x (stored_payload p st)) /\     (* from the abandoned fetched set only *)
    (exists y, In y pay /\ ~ In y (set_payload v)).             (* from the stored set only *)
Proof.
  exists Reject, w_st, w_v2, w_perm. split; [|split].
  - cbn. auto.
  - apply perm_ok_Permutation. reflexivity.
  - vm_compute. split; [reflexivity|split].
    + exists 4. split; [tauto|]. intros [H|[H|H]]; try discriminate H; exact H.
    + exists 3. split; [tauto|]. intros [H|[H|[H|H]]]; try discriminate H; exact H.
Qed.

(* the oracle rejects what the unfixed code does on that history *)
Lemma c03_unfixed_oracle_false :
  let runs := [mkr Reject None (Collected w_v1 [0; 1; 2]); mkr Reject None (Collected w_v2 w_perm)] in
  spec03_okb [1] runs
    (map (fun r => mko true (canon ([1] ++ snd r)) (obs_of_store (fst r))) (run_history false None runs)) = false
  /\ spec03_okb [1] runs (model_obs [1] runs) = true.
Proof. split; vm_compute; reflexivity. Qed.

(* ------------------------------------------------------------------ *)
(* C04: the store changes only for a complete, verified fetch            *)

Lemma c04_step : forall fixed p st f, wf_fetch f ->
  let st' := fst (process fixed p st f) in
  st' = st
  \/ (exists v perm, f = Collected v perm /\ validate_collected p v = true /\ complete v = true
        /\ st' = Some (store_of v (pick (v_files v) perm))
        /\ Permutation (s_objs (store_of v (pick (v_files v) perm))) (v_files v))
  \/ (st' = None /\ ~ consistent st).
Proof.
  intros fixed p st f Hwf. destruct f as [| |v perm]; cbn [wf_fetch] in Hwf; try (left; reflexivity).
  rewrite process_spec by assumption.
  destruct (accepts p st v) eqn:Ha; cbn [fst].
  - right. left. exists v, perm. destruct (accepts_valid _ _ _ Ha). repeat split; auto.
  - destruct (fallback_store_cases p st v) as [E|[E Hc]]; auto.
    right. right. split; auto. intros C. apply consistentb_spec in C. congruence.
Qed.

(* a run that leaves the store unchanged leaves it usable: the next run without collector
   yields the stored version's payload as before *)
Lemma c04_unchanged_usable : forall fixed p st f p',
  fst (process fixed p st f) = st ->
  process fixed p' (fst (process fixed p st f)) NoCollector = process fixed p' st NoCollector.
Proof. intros. rewrite H. reflexivity. Qed.

(* ------------------------------------------------------------------ *)
(* C05: no rollback                                                      *)

Lemma c05_step : forall fixed p s f, wf_fetch f -> consistent (Some s) ->
  let st' := fst (process fixed p (Some s) f) in
  st' = Some s
  \/ exists s', st' = Some s' /\ consistent st' /\ s_number s < s_number s' /\ s_this s < s_this s'.
Proof.
  intros fixed p s f Hwf Hc. destruct f as [| |v perm]; cbn [wf_fetch] in Hwf; try (left; reflexivity).
  rewrite process_spec by assumption.
  destruct (accepts p (Some s) v) eqn:Ha; cbn [fst].
  - right. exists (store_of v (pick (v_files v) perm)). split; auto.
    destruct (accepts_newer _ _ _ Ha Hc). destruct (accepts_valid _ _ _ Ha) as [Hv _].
    unfold validate_collected in Hv. repeat (apply andb_true_iff in Hv; destruct Hv as [Hv ?]).
    cbn. auto.
  - left. apply fallback_store_consistent. assumption.
Qed.

Lemma c05_step_none : forall fixed p f, wf_fetch f -> consistent (fst (process fixed p None f)).
Proof.
  intros fixed p f Hwf. destruct f as [| |v perm]; cbn [wf_fetch] in Hwf; try exact I.
  rewrite process_spec by assumption.
  destruct (accepts p None v) eqn:Ha; cbn [fst].
  - destruct (accepts_valid _ _ _ Ha) as [Hv _].
    unfold validate_collected in Hv. repeat (apply andb_true_iff in Hv; destruct Hv as [Hv ?]).
    cbn. auto.
  - rewrite fallback_store_consistent; exact I.
Qed.

(* a replayed / reordered older manifest changes nothing: store and payload are the stored version's *)
Lemma c05_replay : forall p s v perm, Permutation (pick (v_files v) perm) (v_files v) ->
  consistent (Some s) -> (v_number v <= s_number s \/ v_this v <= s_this s) ->
  process true p (Some s) (Collected v perm) = (Some s, stored_payload p (Some s)).
Proof.
  intros p s v perm Hp Hc Hold. rewrite c03_exact by assumption.
  destruct (accepts p (Some s) v) eqn:Ha.
  - destruct (accepts_newer _ _ _ Ha Hc). lia.
  - rewrite fallback_store_consistent by assumption. reflexivity.
Qed.

(* histories *)
Definition no_tamper (runs : list run_in) : Prop := Forall (fun r => r_tamper r = None) runs.
Definition wf_runs (runs : list run_in) : Prop := Forall (fun r => wf_fetch (r_fetch r)) runs.

Fixpoint final_state (fixed : bool) (st : option stored) (runs : list run_in) : option stored :=
  match runs with
  | [] => st
  | r :: rest => final_state fixed (fst (step fixed st r)) rest
  end.

Lemma final_state_app : forall fixed a b st,
  final_state fixed st (a ++ b) = final_state fixed (final_state fixed st a) b.
Proof. induction a as [|r a IH]; intros; cbn [app final_state]; auto. Qed.

Lemma last_cons_default : forall (A : Type) (l : list A) (a d : A), last (a :: l) d = last l a.
Proof.
  induction l as [|b l IH]; intros a d; auto.
  change (last (a :: b :: l) d) with (last (b :: l) d). rewrite !IH. reflexivity.
Qed.

Lemma final_state_history : forall fixed runs st,
  final_state fixed st runs = last (map fst (run_history fixed st runs)) st.
Proof.
  induction runs as [|r rest IH]; intros st; auto.
  cbn [final_state run_history map]. rewrite last_cons_default. apply IH.
Qed.

Lemma c05_history_consistent : forall fixed runs st,
  wf_runs runs -> no_tamper runs -> consistent st -> consistent (final_state fixed st runs).
Proof.
  induction runs as [|r rest IH]; intros st Hwf Hnt Hc; cbn [final_state]; auto.
  inversion Hwf; subst. inversion Hnt; subst.
  apply IH; auto. unfold step. rewrite H3. cbn [apply_tamper].
  destruct st as [s|].
  - destruct (c05_step fixed (r_policy r) s (r_fetch r) H1 Hc) as [E|[s' [E [Hc' _]]]]; rewrite E; auto.
    rewrite <- E. assumption.
  - apply c05_step_none. assumption.
Qed.

(* from a stored manifest on, every later stored manifest has a number and a thisUpdate that are
   at least as large: the stored data never goes back, whatever the repository serves *)
Lemma c05_history_monotone : forall fixed runs s,
  wf_runs runs -> no_tamper runs -> consistent (Some s) ->
  exists s', final_state fixed (Some s) runs = Some s' /\ consistent (Some s')
             /\ s_number s <= s_number s' /\ s_this s <= s_this s'.
Proof.
  induction runs as [|r rest IH]; intros s Hwf Hnt Hc; cbn [final_state].
  - exists s. split; [reflexivity|split; [assumption|split; lia]].
  - inversion Hwf; subst. inversion Hnt; subst.
    unfold step. rewrite H3. cbn [apply_tamper].
    destruct (c05_step fixed (r_policy r) s (r_fetch r) H1 Hc) as [E|[s1 [E [Hc1 [Hn Ht]]]]]; rewrite E.
    + apply IH; auto.
    + rewrite E in Hc1. destruct (IH s1 H2 H4 Hc1) as [s' [E' [Hc' [Hn' Ht']]]].
      exists s'. split; [assumption|split; [assumption|split; lia]].
Qed.

