(* C03 / C04 / C05 — model of ONE publication point across a history of validation runs.
   Executable definitions only; transcribed from
     /repo/src/engine.rs   PubPoint::process, process_collected, validate_collected_manifest,
                           validate_collected_crl, check_collected_is_newer, process_stored,
                           validate_stored_manifest, process_object, accept_point, reject_point
     /repo/src/store.rs    StoredPoint::update / _update / reject, StoredManifest::new
     /repo/src/payload/validation.rs   PubPointProcessor: process_roa/aspa/router_cert (accumulate),
                           restart, commit, cancel.
   What the rpki crate decides about bytes is represented by verdict bits; what the engine itself
   compares (manifest number, thisUpdate, file present, hash) is data.  The random manifest order
   ([items_random.shuffle]) is an explicit input: any list of positions. *)
From Coq Require Import List NArith Bool.
Import ListNotations.
Local Open Scope N_scope.

(* config.stale (FilterPolicy) *)
Inductive policy := Reject | Warn | Accept.

(* One manifest entry as the collector holds it.
   f_items: the payload items PubPointProcessor accumulates when process_object is called on the
   file (process_roa -> add_roa, process_aspa, process_router_cert; a CA certificate stands for
   the payload of the constant sub-tree below it).  It is [] for objects the engine drops
   (undecodable, bad signature, expired, revoked, wrong CRL URI, over-claiming), for GBRs, the
   manifest's CRL, stray CRLs and unknown types: process_object then only counts a metric. *)
Record file := mkf { f_name : N; f_present : bool; f_hash_ok : bool; f_items : list N }.

(* A manifest as found at the manifest URI in the collector's copy, with the verdict bits:
   v_id        identity of the manifest bytes ([mft.manifest == collected] compares bytes)
   v_decodes   Manifest::decode succeeds
   v_valid     Manifest::validate succeeds (EE certificate signed by the CA, inside its validity,
               resources, signature over the content)
   v_premature content.this_update() > Time::now()
   v_stale     content.is_stale()
   v_crl_loc   validate_collected_crl finds the CRL: EE's CRL URI ends in .crl and lies in the CA
               directory, one manifest entry has that name, the file loads, its hash matches
   v_crl_inner Crl::decode + verify_signature succeed and the CRL does not list the manifest's EE
   v_crl_stale crl.is_stale()
   v_number, v_this   manifest number and thisUpdate
   v_files     the entries (the model keeps them sorted by name; the iteration order is separate) *)
Record version := mkv {
  v_id : N; v_decodes : bool; v_valid : bool; v_premature : bool; v_stale : bool;
  v_crl_loc : bool; v_crl_inner : bool; v_crl_stale : bool;
  v_number : N; v_this : N; v_files : list file }.

(* store.rs StoredPoint with a manifest: the cached fields of StoredManifest (manifest_number,
   this_update), the manifest itself (its bytes, represented by the version with its bits), and
   the StoredObjects in the order they were written. *)
Record stored := mks { s_number : N; s_this : N; s_mft : version; s_objs : list file }.

(* What the collector offers for the point in one run. *)
Inductive fetch :=
| NoCollector                       (* run.collector is None (Engine::new(config, false)) *)
| NoManifest                        (* collector.load_object(rpki_manifest) = None *)
| Collected (v : version) (perm : list N).   (* perm: positions of v_files in iteration order *)

(* One run: stale policy; optional overwrite of the cached fields of the stored manifest before
   the run (external corruption of the store file; None in every real history); the fetch. *)
Record run_in := mkr { r_policy : policy; r_tamper : option (N * N); r_fetch : fetch }.

Definition stale_ok (p : policy) (stale : bool) : bool :=
  match p with Reject => negb stale | _ => true end.

(* validate_collected_manifest (+ validate_collected_crl): Some(..) iff all of these *)
Definition validate_collected (p : policy) (v : version) : bool :=
  v_decodes v && v_valid v && negb (v_premature v) && stale_ok p (v_stale v)
  && v_crl_loc v && v_crl_inner v && stale_ok p (v_crl_stale v).

(* validate_stored_manifest: no premature check, the CRL is taken from the stored manifest *)
Definition validate_stored (p : policy) (s : stored) : bool :=
  let v := s_mft s in
  v_decodes v && v_valid v && stale_ok p (v_stale v) && v_crl_inner v && stale_ok p (v_crl_stale v).

(* process_collected: [same] *)
Definition same_manifest (st : option stored) (v : version) : bool :=
  match st with Some s => v_id (s_mft s) =? v_id v | None => false end.

(* check_collected_is_newer: returns (is newer, stored point afterwards) *)
Definition check_collected_is_newer (v : version) (st : option stored) : bool * option stored :=
  match st with
  | None => (true, st)
  | Some s =>
      if (s_number s <? v_number v) && (s_this s <? v_this v) then (true, st)
      else
        if v_decodes (s_mft s) && (v_number (s_mft s) =? s_number s) && (v_this (s_mft s) =? s_this s)
        then
          if v_number v <=? s_number s then (false, st)
          else if v_this v <=? s_this s then (false, st)
          else (true, None)                    (* falls through to stored.reject() *)
        else (true, None)                      (* stored.reject() *)
  end.

(* The closure given to StoredPoint::update, iterated by _update's while-let:
   returns (completed?, payload accumulated by the processor, objects written to the temp file). *)
Fixpoint update_loop (items : list file) (acc : list N) (objs : list file) : bool * list N * list file :=
  match items with
  | [] => (true, acc, objs)
  | f :: rest =>
      if negb (f_present f) then (false, acc, objs)          (* "failed to load." -> Abort *)
      else if negb (f_hash_ok f) then (false, acc, objs)     (* "wrong manifest hash." -> Abort *)
      else update_loop rest (acc ++ f_items f) (objs ++ [f]) (* process_object; Ok(Some(StoredObject)) *)
  end.

(* StoredManifest::new(ee_cert, content, ..) + the objects written *)
Definition store_of (v : version) (objs : list file) : stored :=
  mks (v_number v) (v_this v) v objs.

Inductive pc_result :=
| PcDone (st : option stored) (payload : list N)     (* Ok(Ok(ca_tasks)): accept_point -> commit *)
| PcFallback (st : option stored) (acc : list N).    (* Ok(Err(self)): the processor keeps [acc] *)

Definition process_collected (p : policy) (st : option stored) (v : version) (items : list file) : pc_result :=
  if same_manifest st v then PcFallback st []
  else if negb (validate_collected p v) then PcFallback st []
  else
    let '(newer, st1) := check_collected_is_newer v st in
    if negb newer then PcFallback st1 []
    else
      match update_loop items [] [] with
      | (true, acc, objs) => PcDone (Some (store_of v objs)) acc
      | (false, acc, _) => PcFallback st1 acc         (* UpdateError::Abort: tmp file dropped *)
      end.

(* process_stored with a processor that already holds [acc]:
   no manifest / validate_stored_manifest fails -> reject_point -> cancel (nothing contributed);
   otherwise every stored object goes through process_object and accept_point commits. *)
Definition process_stored (p : policy) (st : option stored) (acc : list N) : list N :=
  match st with
  | None => []
  | Some s => if validate_stored p s then acc ++ flat_map f_items (s_objs s) else []
  end.

Definition dummy_file : file := mkf 0 false false [].
Definition pick (files : list file) (perm : list N) : list file :=
  map (fun i => nth (N.to_nat i) files dummy_file) perm.

(* PubPoint::process.  [fixed] = true: the repaired code (this.processor.restart() before the
   fallback); false: the code as found (the processor keeps what the aborted update gave it). *)
Definition process (fixed : bool) (p : policy) (st : option stored) (f : fetch) : option stored * list N :=
  match f with
  | NoCollector => (st, process_stored p st [])
  | NoManifest => (st, process_stored p st [])
  | Collected v perm =>
      match process_collected p st v (pick (v_files v) perm) with
      | PcDone st' pay => (st', pay)
      | PcFallback st' acc => (st', process_stored p st' (if fixed then [] else acc))
      end
  end.

Definition apply_tamper (t : option (N * N)) (st : option stored) : option stored :=
  match t, st with
  | Some (n, tu), Some s => Some (mks n tu (s_mft s) (s_objs s))
  | _, _ => st
  end.

Definition step (fixed : bool) (st : option stored) (r : run_in) : option stored * list N :=
  process fixed (r_policy r) (apply_tamper (r_tamper r) st) (r_fetch r).

(* A history of runs threads the stored point; result: (stored point after, payload) per run. *)
Fixpoint run_history (fixed : bool) (st : option stored) (runs : list run_in) : list (option stored * list N) :=
  match runs with
  | [] => []
  | r :: rest => let res := step fixed st r in res :: run_history fixed (fst res) rest
  end.

(* ---- canonical form of payload sets and name sets: strictly increasing list ---- *)
Fixpoint ninsert (x : N) (l : list N) : list N :=
  match l with
  | [] => [x]
  | h :: t => if x <? h then x :: l else if x =? h then l else h :: ninsert x t
  end.
Definition canon (l : list N) : list N := fold_right ninsert [] l.
