(* C03 — A publication point contributes one consistent object set.
   Only statements, [exact], [Check] pins. The model (C03/Model.v) is the REPAIRED code
   ([process true]: PubPoint::process calls processor.restart() before falling back to the stored
   point); [process false] is the code as found. *)
From Coq Require Import List NArith Bool Permutation.
From RV Require Import C03.Model C03.Spec C03.Proofs C03.SpecProofs.
Import ListNotations.
Local Open Scope N_scope.

(* Exact behaviour on a fetched manifest, for EVERY order in which its entries are walked (and hence
   every position of the first missing / mismatching file): either the fetched version is adopted
   and the payload is that of all its files, or the payload is what the stored point (as left by
   the newer check) yields with an EMPTY processor - nothing of the abandoned update survives. *)
Theorem C03_exact : forall p st v perm, Permutation (pick (v_files v) perm) (v_files v) ->
  process true p st (Collected v perm) =
    if accepts p st v
    then (Some (store_of v (pick (v_files v) perm)), flat_map f_items (pick (v_files v) perm))
    else (fallback_store p st v, stored_payload p (fallback_store p st v)).
Proof. exact c03_exact. Qed.

(* The payload a CA contributes in a run is nothing, or exactly the payload of the stored version's
   objects (store untouched), or exactly the payload of the fetched version's listed files, which
   then validated, is complete, and is what the store holds afterwards. *)
Theorem C03_one_object_set : forall p st f, wf_fetch f ->
  let st' := fst (process true p st f) in
  let pay := snd (process true p st f) in
  pay = []
  \/ (exists s, st = Some s /\ st' = st /\ validate_stored p s = true /\ pay = flat_map f_items (s_objs s))
  \/ (exists v perm, f = Collected v perm /\ validate_collected p v = true /\ complete v = true
        /\ st' = Some (store_of v (pick (v_files v) perm)) /\ Permutation pay (set_payload v)).
Proof. exact c03_one_object_set. Qed.

(* the iteration order changes neither the decision nor the payload (as a multiset) *)
Theorem C03_order_irrelevant : forall p st v perm1 perm2,
  Permutation (pick (v_files v) perm1) (v_files v) -> Permutation (pick (v_files v) perm2) (v_files v) ->
  Permutation (snd (process true p st (Collected v perm1))) (snd (process true p st (Collected v perm2))).
Proof. exact c03_order_irrelevant. Qed.

(* whole histories that differ only in the iteration orders are observed identically *)
Theorem C03_order_invariant : forall base runs runs', Forall2 run_equiv runs runs' ->
  model_obs base runs = model_obs base runs'.
Proof. exact order_invariant. Qed.

(* The code as found mixes object sets: with manifest 1 = {a, b} stored and manifest 2 = {a, c, m}
   fetched with m missing, walking c before m leaves c's payload in the processor; the stored
   objects a, b are then added: the payload holds c's item (not of the stored set) and b's item
   (not of the fetched set), and the store is unchanged. *)
Theorem C03_unfixed_refuted :
  exists p st v perm,
    consistent st /\ Permutation (pick (v_files v) perm) (v_files v) /\
    let pay := snd (process false p st (Collected v perm)) in
    fst (process false p st (Collected v perm)) = st /\
    (exists x, In x pay /\ ~ In x (stored_payload p st)) /\
    (exists y, In y pay /\ ~ In y (set_payload v)).
Proof. exact c03_unfixed_refuted. Qed.

(* the executable oracle tells the two apart on that history *)
Theorem C03_unfixed_oracle_false :
  let runs := [mkr Reject None (Collected w_v1 [0; 1; 2]); mkr Reject None (Collected w_v2 w_perm)] in
  spec03_okb [1] runs
    (map (fun r => mko true (canon ([1] ++ snd r)) (obs_of_store (fst r))) (run_history false None runs)) = false
  /\ spec03_okb [1] runs (model_obs [1] runs) = true.
Proof. exact c03_unfixed_oracle_false. Qed.

(* the oracle evaluated on the implementation's observations holds of the model on every
   well-formed history (any number of runs, versions, files; any faults; any orders; tampering) *)
Theorem C03_model_satisfies_spec : forall base runs, wf_runsb runs = true ->
  spec03_okb base runs (model_obs base runs) = true.
Proof. exact model_satisfies_spec03. Qed.

(* non-vacuity: a three-run history (store v1; v2 incomplete, new ROA walked first; v2 complete) *)
Example C03_nonvacuous :
  let v2ok := mkv 3 true true false false true true false 3 300
                  [mkf 1 true true []; mkf 2 true true [2]; mkf 4 true true [4]; mkf 5 true true [5]] in
  let runs := [mkr Reject None (Collected w_v1 [2; 1; 0]); mkr Reject None (Collected w_v2 [2; 0; 3; 1]);
               mkr Warn None (Collected v2ok [3; 2; 1; 0])] in
  wf_runsb runs = true /\
  model_obs [1] runs = [mko true [1; 2; 3] (Some (1, 100, 1, [1; 2; 3]));
                        mko true [1; 2; 3] (Some (1, 100, 1, [1; 2; 3]));
                        mko true [1; 2; 4; 5] (Some (3, 300, 3, [1; 2; 4; 5]))].
Proof. split; vm_compute; reflexivity. Qed.

Check C03_exact : forall p st v perm, Permutation (pick (v_files v) perm) (v_files v) ->
  process true p st (Collected v perm) =
    if accepts p st v
    then (Some (store_of v (pick (v_files v) perm)), flat_map f_items (pick (v_files v) perm))
    else (fallback_store p st v, stored_payload p (fallback_store p st v)).
Check C03_order_invariant : forall base runs runs', Forall2 run_equiv runs runs' ->
  model_obs base runs = model_obs base runs'.
Check C03_model_satisfies_spec : forall base runs, wf_runsb runs = true ->
  spec03_okb base runs (model_obs base runs) = true.
