(* C06 — Stale and premature manifests/CRLs follow the configured policy.

   Model of the two validation paths of one publication point in /repo/src/engine.rs and of
   "a rejected point hands no CA tasks to its children":

     PubPoint::process                     (collected path first, stored path as fall-back)
     PubPoint::process_collected           (no manifest / same as stored / invalid / not newer / aborted update -> Err(self))
     PubPoint::validate_collected_manifest (decode+validate, premature check, stale policy switch, CRL)
     PubPoint::validate_collected_crl      (URI, listed, load, hash | decode, signature | stale policy switch | EE revoked)
     PubPoint::check_collected_is_newer    (number and thisUpdate both strictly greater)
     PubPoint::process_stored / validate_stored_manifest   (decode+validate, stale switch, CRL decode+signature,
                                            stale switch, EE revoked; NO premature check)
     accept_point / reject_point           (reject: no payload, empty task list)

   A CA hierarchy is a CHAIN of publication points (level 0 = the trust anchor's point); every
   level has a list of versions; a version carries the verdict bits the rpki crate decides and the
   numbers the engine compares.  A run processes level 0, and level l+1 only if level l was
   accepted.  The store keeps, per level, the index and the bits of the version it holds (the real
   store keeps the bytes).  Definitions only; no proofs here. *)
From Coq Require Import List NArith ZArith Bool.
Import ListNotations.
Local Open Scope N_scope.

Inductive policy := Reject | Warn | Accept.
Definition is_reject (p : policy) : bool := match p with Reject => true | _ => false end.

Record version := {
  v_valid : bool;       (* Manifest::decode and Manifest::validate(cert, strict) succeed *)
  v_premature : bool;   (* content.this_update() > Time::now() *)
  v_stale : bool;       (* content.is_stale(): nextUpdate < now *)
  v_number : N;         (* manifest number *)
  v_this : Z;           (* thisUpdate *)
  v_crl_found : bool;   (* EE's CRL URI ends in .crl inside the directory, listed on the manifest, loads, hash matches *)
  v_crl_sig : bool;     (* Crl::decode and verify_signature succeed *)
  v_crl_stale : bool;   (* crl.is_stale() *)
  v_revoked : bool;     (* the CRL contains the manifest EE certificate's serial *)
  v_complete : bool }.  (* every listed file is present with the listed hash (store.update not aborted) *)

(* metrics ticks of the path that finally decides the point (the collected attempt's metrics are
   dropped by `this.metrics = Default::default()` when the stored path takes over) *)
Inductive tick := TStaleM | TStaleC | TPremature | TValid | TRejected.

(* validate_collected_manifest + validate_collected_crl, in the code's order *)
Definition validate_collected (pol : policy) (v : version) : bool * list tick :=
  if negb (v_valid v) then (false, [])
  else if v_premature v then (false, [TPremature])
  else
    let t1 := if v_stale v then [TStaleM] else [] in
    if v_stale v && is_reject pol then (false, t1)
    else if negb (v_crl_found v && v_crl_sig v) then (false, t1)
    else
      let t2 := t1 ++ (if v_crl_stale v then [TStaleC] else []) in
      if v_crl_stale v && is_reject pol then (false, t2)
      else if v_revoked v then (false, t2)
      else (true, t2).

(* validate_stored_manifest: no premature check; the CRL is stored with the manifest *)
Definition validate_stored (pol : policy) (v : version) : bool * list tick :=
  if negb (v_valid v) then (false, [])
  else
    let t1 := if v_stale v then [TStaleM] else [] in
    if v_stale v && is_reject pol then (false, t1)
    else if negb (v_crl_sig v) then (false, t1)
    else
      let t2 := t1 ++ (if v_crl_stale v then [TStaleC] else []) in
      if v_crl_stale v && is_reject pol then (false, t2)
      else if v_revoked v then (false, t2)
      else (true, t2).

(* what the store holds for a point: version index (identity of the manifest bytes) and its bits *)
Definition sentry := option (nat * version).

Record result := {
  r_acc : option (nat * version);   (* accepted from this version (payload, CA tasks) / rejected *)
  r_from_store : bool;              (* decided by the stored path *)
  r_stored : sentry;                (* the store entry after the point was processed *)
  r_ticks : list tick }.

(* process_stored *)
Definition process_stored (pol : policy) (st : sentry) : result :=
  match st with
  | None => {| r_acc := None; r_from_store := true; r_stored := st; r_ticks := [TRejected] |}
  | Some (i, v) =>
      let '(ok, t) := validate_stored pol v in
      if ok then {| r_acc := Some (i, v); r_from_store := true; r_stored := st; r_ticks := t ++ [TValid] |}
      else {| r_acc := None; r_from_store := true; r_stored := st; r_ticks := t ++ [TRejected] |}
  end.

(* check_collected_is_newer against a self-consistent stored manifest *)
Definition is_newer (f : version) (st : sentry) : bool :=
  match st with
  | None => true
  | Some (_, s) => (v_number s <? v_number f) && (v_this s <? v_this f)%Z
  end.

Definition same_manifest (st : sentry) (f : nat) : bool :=
  match st with Some (i, _) => Nat.eqb i f | None => false end.

(* PubPoint::process for one point with versions vs; fetched = index of the version the collector
   holds (None: no manifest file); collector = false: engine started without collector *)
Definition process_point (pol : policy) (collector : bool) (vs : list version)
                         (fetched : option nat) (st : sentry) : result :=
  let fallback := process_stored pol st in
  if negb collector then fallback
  else match fetched with
  | None => fallback
  | Some f =>
    match nth_error vs f with
    | None => fallback
    | Some vf =>
      if same_manifest st f then fallback
      else let '(ok, t) := validate_collected pol vf in
        if negb ok then fallback
        else if negb (is_newer vf st) then fallback
        else if negb (v_complete vf) then fallback
        else {| r_acc := Some (f, vf); r_from_store := false; r_stored := Some (f, vf); r_ticks := t ++ [TValid] |}
    end
  end.

Definition chain := list (list version).

(* process_ca_task down the chain: children only of accepted points *)
Fixpoint run_chain (pol : policy) (collector : bool) (c : chain)
                   (fetch : list (option nat)) (st : list sentry) : list result :=
  match c with
  | [] => []
  | vs :: c' =>
      let r := process_point pol collector vs (hd None fetch) (hd None st) in
      r :: match r_acc r with
           | Some _ => run_chain pol collector c' (tl fetch) (tl st)
           | None => []
           end
  end.

Fixpoint update_store (st : list sentry) (rs : list result) : list sentry :=
  match st, rs with
  | s :: st', r :: rs' => r_stored r :: update_store st' rs'
  | _, _ => st
  end.

(* how a run gets its data *)
Inductive mode :=
| Fetch (plan : list (option nat))   (* every module reachable; per level the version served (None: no files) *)
| Unreachable                        (* rsync fails: the collector keeps the copy of the last fetch *)
| NoUpdate.                          (* engine without collector: stored data only *)

Record runspec := { rs_pol : policy; rs_mode : mode }.

Record state := { s_store : list sentry; s_copy : list (option nat) }.

Definition step (c : chain) (s : state) (r : runspec) : list result * state :=
  let '(collector, fetch, copy') :=
    match rs_mode r with
    | Fetch plan => (true, plan, plan)
    | Unreachable => (true, s_copy s, s_copy s)
    | NoUpdate => (false, [], s_copy s)
    end in
  let rs := run_chain (rs_pol r) collector c fetch (s_store s) in
  (rs, {| s_store := update_store (s_store s) rs; s_copy := copy' |}).

Fixpoint history (c : chain) (s : state) (runs : list runspec) : list (list result) :=
  match runs with
  | [] => []
  | r :: runs' => let '(rs, s') := step c s r in rs :: history c s' runs'
  end.

Definition init (c : chain) : state :=
  {| s_store := map (fun _ => None) c; s_copy := map (fun _ => None) c |}.

(* the same run with policy reject *)
Definition to_reject (r : runspec) : runspec := {| rs_pol := Reject; rs_mode := rs_mode r |}.

(* the same data with the staleness removed *)
Definition destale_v (v : version) : version :=
  {| v_valid := v_valid v; v_premature := v_premature v; v_stale := false; v_number := v_number v; v_this := v_this v;
     v_crl_found := v_crl_found v; v_crl_sig := v_crl_sig v; v_crl_stale := false; v_revoked := v_revoked v;
     v_complete := v_complete v |}.
Definition destale_e (e : sentry) : sentry := option_map (fun iv => (fst iv, destale_v (snd iv))) e.
Definition destale_c (c : chain) : chain := map (map destale_v) c.
Definition destale_s (s : state) : state := {| s_store := map destale_e (s_store s); s_copy := s_copy s |}.
Definition destale_r (r : result) : result :=
  {| r_acc := destale_e (r_acc r); r_from_store := r_from_store r; r_stored := destale_e (r_stored r);
     r_ticks := filter (fun t => match t with TStaleM | TStaleC => false | _ => true end) (r_ticks r) |}.
