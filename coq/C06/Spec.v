(* C06: the property as an executable oracle over a history of runs, the observation records and
   the case checker.  No proofs here. *)
From Coq Require Import List NArith ZArith Bool Arith.
From RV Require Export C06.Model.
Import ListNotations.
Local Open Scope N_scope.

(* What is observed of one run:
   ro_res        0 = the run returned Ok, 3 = anything else
   ro_acc        per level: the version whose payload is in the snapshot (None: no payload of that level;
                 Some 99: payload of two versions at once)
   ro_store      per level: the version whose manifest the store holds after the run
   counters      PublicationMetrics of the run: valid_points, rejected_points, stale_manifests, stale_crls,
                 premature_manifests *)
Record run_obs := {
  ro_res : N; ro_acc : list (option nat); ro_store : list (option nat);
  ro_valid : N; ro_rejected : N; ro_stale_m : N; ro_stale_c : N; ro_premature : N }.

Definition onat_eqb (a b : option nat) : bool :=
  match a, b with Some x, Some y => Nat.eqb x y | None, None => true | _, _ => false end.
Fixpoint olist_eqb (a b : list (option nat)) : bool :=
  match a, b with
  | [], [] => true
  | x :: a', y :: b' => onat_eqb x y && olist_eqb a' b'
  | _, _ => false
  end.

(* every level whose entry is Some i satisfies P on version i of that level *)
Fixpoint all_at (c : chain) (P : version -> bool) (xs : list (option nat)) : bool :=
  match c, xs with
  | vs :: c', x :: xs' =>
      match x with
      | None => true
      | Some i => match nth_error vs i with Some v => P v | None => false end
      end && all_at c' P xs'
  | _, _ => true
  end.

(* Some .. Some None .. None *)
Fixpoint all_none (xs : list (option nat)) : bool :=
  match xs with [] => true | None :: xs' => all_none xs' | Some _ :: _ => false end.
Fixpoint prefixb (xs : list (option nat)) : bool :=
  match xs with [] => true | Some _ :: xs' => prefixb xs' | None :: xs' => all_none xs' end.

Fixpoint pad (n : nat) (xs : list (option nat)) : list (option nat) :=
  match n with
  | O => []
  | S n' => match xs with [] => None :: pad n' [] | x :: xs' => x :: pad n' xs' end
  end.

Definition idx (e : sentry) : option nat := option_map fst e.

Fixpoint rebuild (c : chain) (ix : list (option nat)) : list sentry :=
  match c with
  | [] => []
  | vs :: c' =>
      match hd None ix with
      | Some i => match nth_error vs i with Some v => Some (i, v) | None => None end
      | None => None
      end :: rebuild c' (tl ix)
  end.

Definition count_tick (f : tick -> bool) (rs : list result) : N :=
  N.of_nat (length (filter f (flat_map r_ticks rs))).

Definition obs_of_run (n : nat) (rs : list result) (s' : state) : run_obs :=
  {| ro_res := 0;
     ro_acc := pad n (map (fun r => idx (r_acc r)) rs);
     ro_store := map idx (s_store s');
     ro_valid := count_tick (fun t => match t with TValid => true | _ => false end) rs;
     ro_rejected := count_tick (fun t => match t with TRejected => true | _ => false end) rs;
     ro_stale_m := count_tick (fun t => match t with TStaleM => true | _ => false end) rs;
     ro_stale_c := count_tick (fun t => match t with TStaleC => true | _ => false end) rs;
     ro_premature := count_tick (fun t => match t with TPremature => true | _ => false end) rs |}.

Fixpoint obs_hist (c : chain) (s : state) (runs : list runspec) : list run_obs :=
  match runs with
  | [] => []
  | r :: runs' => let '(rs, s') := step c s r in obs_of_run (length c) rs s' :: obs_hist c s' runs'
  end.

Definition model_obs (c : chain) (runs : list runspec) : list run_obs := obs_hist c (init c) runs.

Definition fresh (v : version) : bool := negb (v_stale v) && negb (v_crl_stale v).
Definition not_premature (v : version) : bool := negb (v_premature v).


(* The property for one run, given the store the implementation showed before the run (prev) and
   the collector's copy (a function of the case):
   (a) policy reject: nothing is accepted from a version whose manifest or CRL is stale;
   (b) whatever the policy: nothing is accepted from, and nothing is stored of, a premature manifest;
   (c) the levels that contribute form a prefix of the chain: below a rejected point nothing contributes;
   (d) policy warn/accept: what contributes and what is stored is what the same world WITHOUT the
       staleness gives (reference: the model with policy reject on the de-staled world, started
       from the implementation's own previous store). *)
Definition spec_run (c : chain) (prev copy : list (option nat)) (r : runspec) (o : run_obs) : bool :=
  (ro_res o =? 0)
  && Nat.eqb (length (ro_acc o)) (length c) && Nat.eqb (length (ro_store o)) (length c)
  && (if is_reject (rs_pol r) then all_at c fresh (ro_acc o) else true)
  && all_at c not_premature (ro_acc o) && all_at c not_premature (ro_store o)
  && prefixb (ro_acc o)
  && (if is_reject (rs_pol r) then true
      else let '(rs, s') := step (destale_c c) {| s_store := rebuild (destale_c c) prev; s_copy := copy |} (to_reject r) in
           olist_eqb (ro_acc o) (pad (length c) (map (fun x => idx (r_acc x)) rs))
           && olist_eqb (ro_store o) (map idx (s_store s'))).

Definition copy_after (copy : list (option nat)) (r : runspec) : list (option nat) :=
  match rs_mode r with Fetch plan => plan | _ => copy end.

Fixpoint spec_runs (c : chain) (prev copy : list (option nat)) (runs : list runspec) (obs : list run_obs) : bool :=
  match runs, obs with
  | [], [] => true
  | r :: runs', o :: obs' => spec_run c prev copy r o && spec_runs c (ro_store o) (copy_after copy r) runs' obs'
  | _, _ => false
  end.

Definition spec_okb (c : chain) (runs : list runspec) (obs : list run_obs) : bool :=
  spec_runs c (map (fun _ => None) c) (map (fun _ => None) c) runs obs.

Definition run_obs_eqb (a b : run_obs) : bool :=
  (ro_res a =? ro_res b) && olist_eqb (ro_acc a) (ro_acc b) && olist_eqb (ro_store a) (ro_store b)
  && (ro_valid a =? ro_valid b) && (ro_rejected a =? ro_rejected b) && (ro_stale_m a =? ro_stale_m b)
  && (ro_stale_c a =? ro_stale_c b) && (ro_premature a =? ro_premature b).
Fixpoint obs_eqb (a b : list run_obs) : bool :=
  match a, b with
  | [], [] => true
  | x :: a', y :: b' => run_obs_eqb x y && obs_eqb a' b'
  | _, _ => false
  end.

(* well-formed case: plans have one entry per level; the first run fetches (the trust anchor
   certificate has to be obtained once) *)
Definition plan_ok (c : chain) (r : runspec) : bool :=
  match rs_mode r with Fetch plan => Nat.eqb (length plan) (length c) | _ => true end.
Definition wf_case (c : chain) (runs : list runspec) : bool :=
  forallb (plan_ok c) runs
  && match runs with r :: _ => match rs_mode r with Fetch _ => true | _ => false end | [] => true end
  && negb (Nat.eqb (length c) 0).

Record case := { c_chain : chain; c_runs : list runspec; c_impl : list run_obs }.

(* 0 = property holds on the implementation's observations and the model predicts them (counters
   included); 1 = property holds, model differs; 2 = property violated; 9 = ill-formed case *)
Definition check_case (k : case) : N :=
  if negb (wf_case (c_chain k) (c_runs k)) then 9
  else if negb (spec_okb (c_chain k) (c_runs k) (c_impl k)) then 2
  else if obs_eqb (model_obs (c_chain k) (c_runs k)) (c_impl k) then 0 else 1.
