(* C06: lemmas about one publication point, the chain and histories. *)
From Coq Require Import List NArith ZArith Bool Arith Lia.
From RV Require Import C06.Model.
Import ListNotations.
Local Open Scope N_scope.

Definition nostale (t : tick) : bool := match t with TStaleM | TStaleC => false | _ => true end.

(* ---------- the validation functions ---------- *)

Lemma validate_collected_reject : forall v t, validate_collected Reject v = (true, t) ->
  v_stale v = false /\ v_crl_stale v = false /\ v_premature v = false.
Proof.
  intros [va pr st nu th cf cs cst re co] t. unfold validate_collected. cbn.
  destruct va, pr, st, cf, cs, cst, re; cbn; intros H; try discriminate; auto.
Qed.

Lemma validate_collected_premature : forall pol v t, validate_collected pol v = (true, t) -> v_premature v = false.
Proof.
  intros pol [va pr st nu th cf cs cst re co] t. unfold validate_collected. cbn.
  destruct va, pr; cbn; intros H; try discriminate; auto.
Qed.

Lemma validate_stored_reject : forall v t, validate_stored Reject v = (true, t) ->
  v_stale v = false /\ v_crl_stale v = false.
Proof.
  intros [va pr st nu th cf cs cst re co] t. unfold validate_stored. cbn.
  destruct va, st, cs, cst, re; cbn; intros H; try discriminate; auto.
Qed.

Lemma validate_collected_destale : forall pol v, is_reject pol = false ->
  validate_collected Reject (destale_v v)
  = (fst (validate_collected pol v), filter nostale (snd (validate_collected pol v))).
Proof.
  intros pol [va pr st nu th cf cs cst re co] H. unfold validate_collected. cbn. rewrite H.
  destruct va, pr, st, cf, cs, cst, re; reflexivity.
Qed.

Lemma validate_stored_destale : forall pol v, is_reject pol = false ->
  validate_stored Reject (destale_v v)
  = (fst (validate_stored pol v), filter nostale (snd (validate_stored pol v))).
Proof.
  intros pol [va pr st nu th cf cs cst re co] H. unfold validate_stored. cbn. rewrite H.
  destruct va, st, cs, cst, re; reflexivity.
Qed.

(* ---------- one point ---------- *)

(* where an accepted version comes from *)
Definition from_stored (st : sentry) (r : result) (i : nat) (v : version) (pol : policy) : Prop :=
  r_from_store r = true /\ st = Some (i, v) /\ r_stored r = st /\ exists t, validate_stored pol v = (true, t).
Definition from_collected (vs : list version) (fetched : option nat) (r : result) (i : nat) (v : version) (pol : policy) : Prop :=
  r_from_store r = false /\ fetched = Some i /\ nth_error vs i = Some v /\ r_stored r = Some (i, v)
  /\ v_complete v = true /\ exists t, validate_collected pol v = (true, t).

Lemma process_stored_acc : forall pol st i v, r_acc (process_stored pol st) = Some (i, v) ->
  from_stored st (process_stored pol st) i v pol.
Proof.
  intros pol [[j w]|] i v; unfold process_stored; [|discriminate].
  destruct (validate_stored pol w) as [ok t] eqn:E. destruct ok; cbn; [|discriminate].
  intros H. inversion H; subst. unfold from_stored. cbn. repeat split; eauto.
Qed.

Lemma process_stored_keeps : forall pol st, r_stored (process_stored pol st) = st.
Proof.
  intros pol [[j w]|]; unfold process_stored; [|reflexivity].
  destruct (validate_stored pol w) as [ok t]. destruct ok; reflexivity.
Qed.

Lemma process_point_acc : forall pol coll vs f st i v,
  r_acc (process_point pol coll vs f st) = Some (i, v) ->
  from_stored st (process_point pol coll vs f st) i v pol
  \/ (coll = true /\ from_collected vs f (process_point pol coll vs f st) i v pol).
Proof.
  intros pol coll vs f st i v. unfold process_point.
  destruct coll; cbn [negb]; [|intros H; left; apply process_stored_acc; exact H].
  destruct f as [f|]; [|intros H; left; apply process_stored_acc; exact H].
  destruct (nth_error vs f) as [vf|] eqn:En; [|intros H; left; apply process_stored_acc; exact H].
  destruct (same_manifest st f); [intros H; left; apply process_stored_acc; exact H|].
  destruct (validate_collected pol vf) as [ok t] eqn:Ev.
  destruct ok; cbn [negb]; [|intros H; left; apply process_stored_acc; exact H].
  destruct (is_newer vf st); cbn [negb]; [|intros H; left; apply process_stored_acc; exact H].
  destruct (v_complete vf) eqn:Ec; cbn [negb]; [|intros H; left; apply process_stored_acc; exact H].
  cbn. intros H. inversion H; subst. right. split; [reflexivity|].
  unfold from_collected. cbn. repeat split; eauto.
Qed.

(* the store entry after a point: the old one, or a complete, valid, non-premature version of the point *)
Lemma process_point_stored : forall pol coll vs f st,
  r_stored (process_point pol coll vs f st) = st
  \/ exists i v t, r_stored (process_point pol coll vs f st) = Some (i, v) /\ nth_error vs i = Some v
                   /\ validate_collected pol v = (true, t) /\ v_complete v = true.
Proof.
  intros pol coll vs f st. unfold process_point.
  destruct coll; cbn [negb]; [|left; apply process_stored_keeps].
  destruct f as [f|]; [|left; apply process_stored_keeps].
  destruct (nth_error vs f) as [vf|] eqn:En; [|left; apply process_stored_keeps].
  destruct (same_manifest st f); [left; apply process_stored_keeps|].
  destruct (validate_collected pol vf) as [ok t] eqn:Ev.
  destruct ok; cbn [negb]; [|left; apply process_stored_keeps].
  destruct (is_newer vf st); cbn [negb]; [|left; apply process_stored_keeps].
  destruct (v_complete vf) eqn:Ec; cbn [negb]; [|left; apply process_stored_keeps].
  right. exists f, vf, t. cbn. auto.
Qed.

(* (a) under reject nothing is accepted from stale data, on either path *)
Lemma process_point_reject_fresh : forall coll vs f st i v,
  r_acc (process_point Reject coll vs f st) = Some (i, v) -> v_stale v = false /\ v_crl_stale v = false.
Proof.
  intros coll vs f st i v H. apply process_point_acc in H.
  destruct H as [[_ [_ [_ [t Hv]]]]|[_ [_ [_ [_ [_ [_ [t Hv]]]]]]]].
  - apply validate_stored_reject in Hv. exact Hv.
  - apply validate_collected_reject in Hv. tauto.
Qed.

(* the fetched manifest is never accepted when premature, whatever the policy *)
Lemma process_point_premature : forall pol coll vs f st i v,
  r_acc (process_point pol coll vs f st) = Some (i, v) ->
  r_from_store (process_point pol coll vs f st) = false -> v_premature v = false.
Proof.
  intros pol coll vs f st i v H Hf. apply process_point_acc in H.
  destruct H as [[Hs _]|[_ [_ [_ [_ [_ [_ [t Hv]]]]]]]]; [congruence|].
  eapply validate_collected_premature; eauto.
Qed.

(* under reject: if what was fetched and what is stored are both stale (manifest or CRL), the point is rejected *)
Lemma process_point_all_stale_rejected : forall coll vs f st,
  (forall i v, f = Some i -> nth_error vs i = Some v -> v_stale v = true \/ v_crl_stale v = true) ->
  (forall i v, st = Some (i, v) -> v_stale v = true \/ v_crl_stale v = true) ->
  r_acc (process_point Reject coll vs f st) = None.
Proof.
  intros coll vs f st Hf Hs. destruct (r_acc (process_point Reject coll vs f st)) as [[i v]|] eqn:E; [|reflexivity].
  exfalso. pose proof (process_point_reject_fresh _ _ _ _ _ _ E) as [H1 H2].
  apply process_point_acc in E.
  destruct E as [[_ [Est _]]|[_ [_ [Ef [En _]]]]].
  - destruct (Hs i v Est); congruence.
  - destruct (Hf i v Ef En); congruence.
Qed.

(* ---------- warn/accept = reject on the de-staled data ---------- *)

Lemma filter_nostale_app : forall t x, nostale x = true -> filter nostale (t ++ [x]) = filter nostale t ++ [x].
Proof. intros t x H. rewrite filter_app. cbn [filter]. rewrite H. reflexivity. Qed.

Lemma process_stored_destale : forall pol st, is_reject pol = false ->
  destale_r (process_stored pol st) = process_stored Reject (destale_e st).
Proof.
  intros pol [[j w]|] H; unfold process_stored, destale_e; cbn [option_map fst snd]; [|reflexivity].
  rewrite (validate_stored_destale pol w H).
  destruct (validate_stored pol w) as [ok t]. cbn [fst snd].
  destruct ok; unfold destale_r, destale_e; cbn [r_acc r_from_store r_stored r_ticks option_map fst snd];
    fold nostale; rewrite filter_nostale_app by reflexivity; reflexivity.
Qed.

Lemma same_manifest_destale : forall st f, same_manifest (destale_e st) f = same_manifest st f.
Proof. intros [[j w]|] f; reflexivity. Qed.

Lemma is_newer_destale : forall vf st, is_newer (destale_v vf) (destale_e st) = is_newer vf st.
Proof. intros vf [[j w]|]; reflexivity. Qed.

Lemma process_point_destale : forall pol coll vs f st, is_reject pol = false ->
  destale_r (process_point pol coll vs f st) = process_point Reject coll (map destale_v vs) f (destale_e st).
Proof.
  intros pol coll vs f st H. unfold process_point.
  destruct coll; cbn [negb]; [|apply process_stored_destale; exact H].
  destruct f as [f|]; [|apply process_stored_destale; exact H].
  rewrite nth_error_map. destruct (nth_error vs f) as [vf|]; cbn [option_map]; [|apply process_stored_destale; exact H].
  rewrite same_manifest_destale. destruct (same_manifest st f); [apply process_stored_destale; exact H|].
  rewrite (validate_collected_destale pol vf H).
  destruct (validate_collected pol vf) as [ok t]. cbn [fst snd].
  destruct ok; cbn [negb]; [|apply process_stored_destale; exact H].
  rewrite is_newer_destale. destruct (is_newer vf st); cbn [negb]; [|apply process_stored_destale; exact H].
  change (v_complete (destale_v vf)) with (v_complete vf).
  destruct (v_complete vf); cbn [negb]; [|apply process_stored_destale; exact H].
  unfold destale_r, destale_e; cbn [r_acc r_from_store r_stored r_ticks option_map fst snd].
  fold nostale. rewrite filter_nostale_app by reflexivity. reflexivity.
Qed.

Lemma hd_map : forall {A B} (f : A -> B) (d : A) l, hd (f d) (map f l) = f (hd d l).
Proof. intros A B f d [|x l]; reflexivity. Qed.
Lemma tl_map : forall {A B} (f : A -> B) l, tl (map f l) = map f (tl l).
Proof. intros A B f [|x l]; reflexivity. Qed.

Lemma run_chain_destale : forall pol coll c fetch st, is_reject pol = false ->
  map destale_r (run_chain pol coll c fetch st) = run_chain Reject coll (destale_c c) fetch (map destale_e st).
Proof.
  intros pol coll c. induction c as [|vs c IH]; intros fetch st H; [reflexivity|].
  cbn [run_chain destale_c map].
  replace (hd None (map destale_e st)) with (destale_e (hd None st)) by (destruct st; reflexivity).
  rewrite tl_map.
  rewrite <- (process_point_destale pol coll vs (hd None fetch) (hd None st) H).
  remember (process_point pol coll vs (hd None fetch) (hd None st)) as r.
  cbn [map]. f_equal.
  assert (Hacc : r_acc (destale_r r) = destale_e (r_acc r)) by reflexivity. rewrite Hacc.
  destruct (r_acc r) as [[i v]|]; cbn [destale_e option_map]; [apply IH; exact H|reflexivity].
Qed.

Lemma update_store_destale : forall st rs,
  update_store (map destale_e st) (map destale_r rs) = map destale_e (update_store st rs).
Proof.
  induction st as [|s st IH]; intros [|r rs]; cbn [update_store map]; try reflexivity.
  rewrite IH. reflexivity.
Qed.


Lemma step_destale : forall c s r, is_reject (rs_pol r) = false ->
  step (destale_c c) (destale_s s) (to_reject r)
  = (map destale_r (fst (step c s r)), destale_s (snd (step c s r))).
Proof.
  intros c [st cp] [pol m] H. unfold step, destale_s, to_reject. cbn [rs_pol rs_mode s_store s_copy] in *.
  destruct m as [plan| |]; cbn [fst snd s_store s_copy];
    rewrite <- (run_chain_destale pol _ c _ st H), update_store_destale; reflexivity.
Qed.

Theorem history_destale : forall c runs s, forallb (fun r => negb (is_reject (rs_pol r))) runs = true ->
  history (destale_c c) (destale_s s) (map to_reject runs) = map (map destale_r) (history c s runs).
Proof.
  intros c. induction runs as [|r runs IH]; intros s H; [reflexivity|].
  cbn [forallb] in H. apply andb_true_iff in H. destruct H as [Hr H]. apply negb_true_iff in Hr.
  cbn [history map]. rewrite (step_destale c s r Hr).
  destruct (step c s r) as [rs s']. cbn [fst snd map]. rewrite IH by exact H. reflexivity.
Qed.

(* ---------- the chain ---------- *)

(* (c) nothing is processed below a rejected point *)
Lemma run_chain_stops : forall pol coll c fetch st k r,
  nth_error (run_chain pol coll c fetch st) k = Some r -> r_acc r = None ->
  length (run_chain pol coll c fetch st) = S k.
Proof.
  intros pol coll c. induction c as [|vs c IH]; intros fetch st k r Hn Ha; [destruct k; discriminate|].
  cbn [run_chain] in *. destruct k as [|k].
  - cbn [nth_error] in Hn. inversion Hn; subst r. rewrite Ha. reflexivity.
  - cbn [nth_error] in Hn.
    destruct (r_acc (process_point pol coll vs (hd None fetch) (hd None st))); [|destruct k; discriminate].
    cbn [length]. f_equal. eapply IH; eauto.
Qed.

Lemma run_chain_length : forall pol coll c fetch st, (length (run_chain pol coll c fetch st) <= length c)%nat.
Proof.
  intros pol coll c. induction c as [|vs c IH]; intros fetch st; cbn [run_chain length]; [lia|].
  destruct (r_acc _); cbn [length]; [specialize (IH (tl fetch) (tl st))|]; lia.
Qed.

(* (a) for the chain: under reject every accepted version is fresh *)
Lemma run_chain_reject_fresh : forall coll c fetch st r i v,
  In r (run_chain Reject coll c fetch st) -> r_acc r = Some (i, v) -> v_stale v = false /\ v_crl_stale v = false.
Proof.
  intros coll c. induction c as [|vs c IH]; intros fetch st r i v Hin Ha; [destruct Hin|].
  cbn [run_chain] in Hin. destruct Hin as [E|Hin].
  - subst r. eapply process_point_reject_fresh; eauto.
  - destruct (r_acc (process_point Reject coll vs (hd None fetch) (hd None st))); [|destruct Hin].
    eapply IH; eauto.
Qed.

(* ---------- histories: a premature manifest is never accepted and never stored ---------- *)

Definition entry_ok (vs : list version) (e : sentry) : Prop :=
  match e with None => True | Some (i, v) => nth_error vs i = Some v /\ v_premature v = false end.

Definition Inv (c : chain) (st : list sentry) : Prop := Forall2 entry_ok c st.

Lemma Inv_init : forall c, Inv c (map (fun _ => None) c).
Proof. induction c as [|vs c IH]; constructor; [exact I|exact IH]. Qed.

Lemma process_point_entry_ok : forall pol coll vs f st, entry_ok vs st ->
  entry_ok vs (r_stored (process_point pol coll vs f st)).
Proof.
  intros pol coll vs f st H. destruct (process_point_stored pol coll vs f st) as [E|[i [v [t [E [En [Ev _]]]]]]].
  - rewrite E. exact H.
  - rewrite E. split; [exact En|]. eapply validate_collected_premature; eauto.
Qed.

Lemma Inv_update : forall pol coll c fetch st, Inv c st ->
  Inv c (update_store st (run_chain pol coll c fetch st)).
Proof.
  intros pol coll c. induction c as [|vs c IH]; intros fetch st H; inversion H; subst; [constructor|].
  cbn [run_chain hd tl update_store]. constructor.
  - apply process_point_entry_ok. assumption.
  - destruct (r_acc _); [apply IH; assumption|]. destruct l'; assumption.
Qed.

Lemma Inv_step : forall c s r, Inv c (s_store s) -> Inv c (s_store (snd (step c s r))).
Proof.
  intros c [st cp] [pol m] H. unfold step. cbn [rs_pol rs_mode s_store s_copy] in *.
  destruct m; cbn [snd s_store]; apply Inv_update; exact H.
Qed.

Lemma run_chain_not_premature : forall pol coll c fetch st r i v, Inv c st ->
  In r (run_chain pol coll c fetch st) -> r_acc r = Some (i, v) -> v_premature v = false.
Proof.
  intros pol coll c. induction c as [|vs c IH]; intros fetch st r i v HI Hin Ha; [destruct Hin|].
  inversion HI; subst. cbn [run_chain hd tl] in Hin. destruct Hin as [E|Hin].
  - subst r. pose proof Ha as Ha'. apply process_point_acc in Ha'.
    destruct Ha' as [[_ [Est _]]|[_ [_ [_ [_ [_ [_ [t Hv]]]]]]]].
    + subst y. cbn in H1. tauto.
    + eapply validate_collected_premature; eauto.
  - destruct (r_acc (process_point pol coll vs (hd None fetch) y)); [|destruct Hin].
    eapply IH; eauto.
Qed.

(* every accepted version in every run of a history that starts with an empty store *)
Theorem history_never_premature : forall c runs s rs r i v, Inv c (s_store s) ->
  In rs (history c s runs) -> In r rs -> r_acc r = Some (i, v) -> v_premature v = false.
Proof.
  intros c. induction runs as [|ru runs IH]; intros s rs r i v HI Hin Hr Ha; [destruct Hin|].
  cbn [history] in Hin. pose proof (Inv_step c s ru HI) as HI'.
  destruct (step c s ru) as [rs0 s'] eqn:Es. cbn [snd] in HI'. destruct Hin as [E|Hin].
  - subst rs0. unfold step in Es. destruct s as [st cp], ru as [pol m]. cbn [rs_pol rs_mode s_store s_copy] in *.
    destruct m; inversion Es; subst; exact (run_chain_not_premature _ _ _ _ _ _ _ _ HI Hr Ha).
  - eapply IH; eauto.
Qed.
