(* C06 — Stale and premature manifests/CRLs follow the configured policy.
   Only statements, [exact], examples, [Check] pins. *)
From Coq Require Import List NArith ZArith Bool Arith.
From RV Require Import C06.Model C06.Proofs C06.Spec C06.SpecProofs.
Import ListNotations.
Local Open Scope N_scope.

(* Policy reject: whatever a point is accepted from -- the fetched manifest or the stored one -- has
   neither a stale manifest nor a stale CRL (every chain, every store content, with or without collector). *)
Theorem C06_reject_nothing_from_stale : forall coll c fetch st r i v,
  In r (run_chain Reject coll c fetch st) -> r_acc r = Some (i, v) -> v_stale v = false /\ v_crl_stale v = false.
Proof. exact run_chain_reject_fresh. Qed.

(* Policy reject: a point whose fetched version and whose stored version (as far as they exist) are
   stale is rejected ... *)
Theorem C06_reject_stale_point_rejected : forall coll vs f st,
  (forall i v, f = Some i -> nth_error vs i = Some v -> v_stale v = true \/ v_crl_stale v = true) ->
  (forall i v, st = Some (i, v) -> v_stale v = true \/ v_crl_stale v = true) ->
  r_acc (process_point Reject coll vs f st) = None.
Proof. exact process_point_all_stale_rejected. Qed.

(* ... and nothing below a rejected point is processed at all (no payload, no store change). *)
Theorem C06_rejected_point_ends_the_chain : forall pol coll c fetch st k r,
  nth_error (run_chain pol coll c fetch st) k = Some r -> r_acc r = None ->
  length (run_chain pol coll c fetch st) = S k.
Proof. exact run_chain_stops. Qed.

(* Policy warn or accept: every run of a history gives exactly the results (accepted versions, store
   entries, metrics ticks other than the stale counters) of the same history, with policy reject, on the
   same data with all staleness removed. *)
Theorem C06_warn_accept_as_without_staleness : forall c runs s,
  forallb (fun r => negb (is_reject (rs_pol r))) runs = true ->
  history (destale_c c) (destale_s s) (map to_reject runs) = map (map destale_r) (history c s runs).
Proof. exact history_destale. Qed.

(* A fetched manifest whose thisUpdate is in the future is never accepted, whatever the policy ... *)
Theorem C06_premature_fetched_never_accepted : forall pol coll vs f st i v,
  r_acc (process_point pol coll vs f st) = Some (i, v) ->
  r_from_store (process_point pol coll vs f st) = false -> v_premature v = false.
Proof. exact process_point_premature. Qed.

(* ... hence in a history that starts from an empty store no run, on either path, accepts one. *)
Theorem C06_premature_never_accepted : forall c runs rs r i v,
  In rs (history c (init c) runs) -> In r rs -> r_acc r = Some (i, v) -> v_premature v = false.
Proof. intros c runs rs r i v. apply history_never_premature. apply Inv_init. Qed.

Theorem C06_model_satisfies_spec : forall c runs, spec_okb c runs (model_obs c runs) = true.
Proof. exact model_satisfies_spec. Qed.

(* Non-vacuity: two levels; level 1 has a stale manifest (v0) and a premature one (v1). *)
Definition ex_good : version :=
  {| v_valid := true; v_premature := false; v_stale := false; v_number := 1; v_this := (-7200)%Z;
     v_crl_found := true; v_crl_sig := true; v_crl_stale := false; v_revoked := false; v_complete := true |}.
Definition ex_stale : version :=
  {| v_valid := true; v_premature := false; v_stale := true; v_number := 1; v_this := (-10800)%Z;
     v_crl_found := true; v_crl_sig := true; v_crl_stale := false; v_revoked := false; v_complete := true |}.
Definition ex_prem : version :=
  {| v_valid := true; v_premature := true; v_stale := false; v_number := 2; v_this := 7200%Z;
     v_crl_found := true; v_crl_sig := true; v_crl_stale := false; v_revoked := false; v_complete := true |}.
Definition ex_chain : chain := [[ex_good]; [ex_stale; ex_prem]].

Example C06_nonvacuous :
  (* accept takes and stores the stale version; a later reject run without collector refuses the stored copy;
     the premature version is refused even under accept and the stored copy stays in use *)
  map (map (fun r => idx (r_acc r)))
      (history ex_chain (init ex_chain)
         [{| rs_pol := Accept; rs_mode := Fetch [Some 0; Some 0]%nat |};
          {| rs_pol := Reject; rs_mode := NoUpdate |};
          {| rs_pol := Accept; rs_mode := Fetch [Some 0; Some 1]%nat |}])
  = [[Some 0; Some 0]; [Some 0; None]; [Some 0; Some 0]]%nat
  /\ map ro_stale_m (model_obs ex_chain
         [{| rs_pol := Accept; rs_mode := Fetch [Some 0; Some 0]%nat |}; {| rs_pol := Reject; rs_mode := NoUpdate |}]) = [1; 1]
  /\ check_case {| c_chain := ex_chain; c_runs := [{| rs_pol := Reject; rs_mode := Fetch [Some 0; Some 0]%nat |}];
                   c_impl := [{| ro_res := 0; ro_acc := [Some 0; Some 0]%nat; ro_store := [Some 0; Some 0]%nat;
                                 ro_valid := 2; ro_rejected := 0; ro_stale_m := 1; ro_stale_c := 0; ro_premature := 0 |}] |} = 2
  /\ check_case {| c_chain := ex_chain; c_runs := [{| rs_pol := Reject; rs_mode := Fetch [Some 0; Some 0]%nat |}];
                   c_impl := [{| ro_res := 0; ro_acc := [Some 0; None]%nat; ro_store := [Some 0; None]%nat;
                                 ro_valid := 1; ro_rejected := 1; ro_stale_m := 0; ro_stale_c := 0; ro_premature := 0 |}] |} = 0.
Proof. repeat split; vm_compute; reflexivity. Qed.

Check C06_reject_nothing_from_stale : forall coll c fetch st r i v,
  In r (run_chain Reject coll c fetch st) -> r_acc r = Some (i, v) -> v_stale v = false /\ v_crl_stale v = false.
Check C06_reject_stale_point_rejected : forall coll vs f st,
  (forall i v, f = Some i -> nth_error vs i = Some v -> v_stale v = true \/ v_crl_stale v = true) ->
  (forall i v, st = Some (i, v) -> v_stale v = true \/ v_crl_stale v = true) ->
  r_acc (process_point Reject coll vs f st) = None.
Check C06_rejected_point_ends_the_chain : forall pol coll c fetch st k r,
  nth_error (run_chain pol coll c fetch st) k = Some r -> r_acc r = None ->
  length (run_chain pol coll c fetch st) = S k.
Check C06_warn_accept_as_without_staleness : forall c runs s,
  forallb (fun r => negb (is_reject (rs_pol r))) runs = true ->
  history (destale_c c) (destale_s s) (map to_reject runs) = map (map destale_r) (history c s runs).
Check C06_premature_never_accepted : forall c runs rs r i v,
  In rs (history c (init c) runs) -> In r rs -> r_acc r = Some (i, v) -> v_premature v = false.
Check C06_model_satisfies_spec : forall c runs, spec_okb c runs (model_obs c runs) = true.
