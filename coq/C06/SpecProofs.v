(* C06: the model satisfies the executable oracle on every history. *)
From Coq Require Import List NArith ZArith Bool Arith Lia.
From RV Require Import C06.Model C06.Proofs C06.Spec.
Import ListNotations.
Local Open Scope N_scope.

Lemma onat_eqb_refl : forall a, onat_eqb a a = true.
Proof. intros [x|]; cbn; [apply Nat.eqb_refl|reflexivity]. Qed.
Lemma olist_eqb_refl : forall l, olist_eqb l l = true.
Proof. induction l as [|x l IH]; cbn [olist_eqb]; [reflexivity|]. rewrite onat_eqb_refl, IH. reflexivity. Qed.

Lemma pad_length : forall n xs, length (pad n xs) = n.
Proof. induction n as [|n IH]; intros xs; cbn [pad length]; [reflexivity|]. destruct xs; cbn [length]; rewrite IH; reflexivity. Qed.

Lemma all_none_pad_nil : forall n, all_none (pad n []) = true.
Proof. induction n as [|n IH]; cbn [pad all_none]; auto. Qed.

Lemma update_store_length : forall st rs, length (update_store st rs) = length st.
Proof. induction st as [|s st IH]; intros [|r rs]; cbn [update_store length]; auto. Qed.

Lemma Inv_length : forall c st, Inv c st -> length st = length c.
Proof. intros c st H. induction H; cbn [length]; congruence. Qed.

(* (c) the accepted levels form a prefix *)
Lemma prefixb_run_chain : forall pol coll c fetch st,
  prefixb (pad (length c) (map (fun r => idx (r_acc r)) (run_chain pol coll c fetch st))) = true.
Proof.
  intros pol coll c. induction c as [|vs c IH]; intros fetch st; [reflexivity|].
  cbn [run_chain length map pad].
  destruct (r_acc (process_point pol coll vs (hd None fetch) (hd None st))) as [[i v]|] eqn:E.
  - cbn [idx option_map fst prefixb]. apply IH.
  - cbn [idx option_map map prefixb]. apply all_none_pad_nil.
Qed.

Lemma all_at_pad_nil : forall c P n, all_at c P (pad n []) = true.
Proof.
  induction c as [|vs c IH]; intros P n; destruct n; cbn [pad all_at]; try reflexivity.
  rewrite IH. reflexivity.
Qed.

(* a predicate that holds of every accepted version holds at the observed indices *)
Lemma all_at_run_chain : forall (P : version -> bool) pol coll c fetch st, Inv c st ->
  (forall r i v, In r (run_chain pol coll c fetch st) -> r_acc r = Some (i, v) -> P v = true) ->
  all_at c P (pad (length c) (map (fun r => idx (r_acc r)) (run_chain pol coll c fetch st))) = true.
Proof.
  intros P pol coll c. induction c as [|vs c IH]; intros fetch st HI HP; [reflexivity|].
  inversion HI; subst. cbn [run_chain length map pad hd tl all_at] in *.
  destruct (r_acc (process_point pol coll vs (hd None fetch) y)) as [[i v]|] eqn:E.
  - cbn [idx option_map fst]. apply andb_true_iff. split.
    + pose proof E as E'. apply process_point_acc in E'.
      assert (Hn : nth_error vs i = Some v).
      { destruct E' as [[_ [Est _]]|[_ [_ [_ [Hn _]]]]]; [subst y; cbn in H1; tauto|exact Hn]. }
      rewrite Hn. eapply HP; [left; reflexivity|exact E].
    + apply IH; [assumption|]. intros r j w Hin Ha. eapply HP; [right; exact Hin|exact Ha].
  - cbn [idx option_map map all_at andb]. apply all_at_pad_nil.
Qed.

Lemma all_at_store : forall c st, Inv c st -> all_at c not_premature (map idx st) = true.
Proof.
  intros c st H. induction H as [|vs e c st He _ IH]; [reflexivity|].
  cbn [map all_at]. rewrite IH, andb_true_r. destruct e as [[i v]|]; cbn [idx option_map fst]; [|reflexivity].
  cbn in He. destruct He as [Hn Hp]. rewrite Hn. unfold not_premature. rewrite Hp. reflexivity.
Qed.

Lemma rebuild_idx : forall c st, Inv c st -> rebuild c (map idx st) = st.
Proof.
  intros c st H. induction H as [|vs e c st He _ IH]; [reflexivity|].
  cbn [map rebuild hd tl]. rewrite IH. f_equal. destruct e as [[i v]|]; cbn [idx option_map fst]; [|reflexivity].
  cbn in He. destruct He as [Hn _]. rewrite Hn. reflexivity.
Qed.

Lemma Inv_destale : forall c st, Inv c st -> Inv (destale_c c) (map destale_e st).
Proof.
  intros c st H. induction H as [|vs e c st He _ IH]; [constructor|].
  cbn [destale_c map]. constructor; [|exact IH].
  destruct e as [[i v]|]; cbn; [|exact I]. cbn in He. destruct He as [Hn Hp].
  rewrite nth_error_map, Hn. cbn. auto.
Qed.

Lemma idx_destale : forall e, idx (destale_e e) = idx e.
Proof. intros [[i v]|]; reflexivity. Qed.

Lemma map_idx_destale : forall st, map idx (map destale_e st) = map idx st.
Proof. intros st. rewrite map_map. apply map_ext. apply idx_destale. Qed.

Lemma map_acc_destale : forall rs, map (fun r => idx (r_acc r)) (map destale_r rs) = map (fun r => idx (r_acc r)) rs.
Proof. intros rs. rewrite map_map. apply map_ext. intros r. cbn [destale_r r_acc]. apply idx_destale. Qed.

Lemma destale_c_length : forall c, length (destale_c c) = length c.
Proof. intros c. unfold destale_c. apply map_length. Qed.

Lemma step_results : forall c s r,
  exists coll fetch, fst (step c s r) = run_chain (rs_pol r) coll c fetch (s_store s)
    /\ s_store (snd (step c s r)) = update_store (s_store s) (run_chain (rs_pol r) coll c fetch (s_store s))
    /\ s_copy (snd (step c s r)) = copy_after (s_copy s) r.
Proof.
  intros c [st cp] [pol m]. unfold step, copy_after. cbn [rs_pol rs_mode s_store s_copy].
  destruct m as [plan| |]; cbn [fst snd s_store s_copy]; eauto.
Qed.

Lemma spec_run_model : forall c s r, Inv c (s_store s) ->
  spec_run c (map idx (s_store s)) (s_copy s) r
           (obs_of_run (length c) (fst (step c s r)) (snd (step c s r))) = true.
Proof.
  intros c s r HI.
  pose proof (Inv_step c s r HI) as HI'.
  destruct (step_results c s r) as [coll [fetch [Ers [Est _]]]].
  unfold spec_run, obs_of_run. cbn [ro_res ro_acc ro_store].
  rewrite pad_length, map_length, (Inv_length _ _ HI'), !Nat.eqb_refl, N.eqb_refl. cbn [andb].
  rewrite Ers.
  rewrite prefixb_run_chain, (all_at_store _ _ HI'), !andb_true_r.
  assert (Hp : all_at c not_premature (pad (length c)
             (map (fun r0 => idx (r_acc r0)) (run_chain (rs_pol r) coll c fetch (s_store s)))) = true).
  { apply all_at_run_chain; [exact HI|]. intros r0 i v Hin Ha. unfold not_premature.
    rewrite (run_chain_not_premature _ _ _ _ _ _ _ _ HI Hin Ha). reflexivity. }
  rewrite Hp, andb_true_r.
  destruct (is_reject (rs_pol r)) eqn:Erej.
  - rewrite andb_true_r. destruct (rs_pol r); try discriminate.
    apply all_at_run_chain; [exact HI|]. intros r0 i v Hin Ha. unfold fresh.
    destruct (run_chain_reject_fresh _ _ _ _ _ _ _ Hin Ha) as [H1 H2]. rewrite H1, H2. reflexivity.
  - cbn [andb].
    replace {| s_store := rebuild (destale_c c) (map idx (s_store s)); s_copy := s_copy s |} with (destale_s s).
    2:{ unfold destale_s. f_equal. rewrite <- (map_idx_destale (s_store s)). symmetry. apply rebuild_idx. apply Inv_destale. exact HI. }
    rewrite (step_destale c s r Erej). rewrite Ers.
    rewrite map_acc_destale. unfold destale_s. cbn [s_store]. rewrite map_idx_destale, !olist_eqb_refl. reflexivity.
Qed.

Lemma spec_runs_model : forall c runs s, Inv c (s_store s) ->
  spec_runs c (map idx (s_store s)) (s_copy s) runs (obs_hist c s runs) = true.
Proof.
  intros c. induction runs as [|r runs IH]; intros s HI; [reflexivity|].
  cbn [obs_hist]. pose proof (spec_run_model c s r HI) as Hr. pose proof (Inv_step c s r HI) as HI'.
  destruct (step_results c s r) as [coll [fetch [_ [_ Ecp]]]].
  destruct (step c s r) as [rs s'] eqn:Es. cbn [fst snd] in *.
  cbn [spec_runs]. rewrite Hr. cbn [andb obs_of_run ro_store]. rewrite <- Ecp. apply IH. exact HI'.
Qed.

Theorem model_satisfies_spec : forall c runs, spec_okb c runs (model_obs c runs) = true.
Proof.
  intros c runs. unfold spec_okb, model_obs.
  pose proof (spec_runs_model c runs (init c) (Inv_init c)) as H.
  unfold init in H. cbn [s_store s_copy] in H.
  rewrite map_map in H. cbn [idx option_map] in H. exact H.
Qed.
