(* C31: lemmas about the classification (Model.has_dubious_authority) and the gates. *)
From Coq Require Import List NArith Bool Lia String.
From RV Require Import Base.PathModel C31.Model C31.Spec.
Import ListNotations.
Local Open Scope N_scope.

(* ------------------------------------------------------------------ *)
(* small facts *)

Lemma lower_localhost : lower LOCALHOST = LOCALHOST.
Proof. reflexivity. Qed.

Lemma memb_cons : forall c x s, memb c (x :: s) = (c =? x) || memb c s.
Proof. reflexivity. Qed.

Lemma memb_mid : forall c h t, memb c (h ++ c :: t) = true.
Proof. intros; rewrite memb_app, memb_cons, N.eqb_refl. apply orb_true_iff; right; reflexivity. Qed.

Lemma join_with_snoc2 : forall c l q p, join_with c (l ++ [q; p]) = join_with c (l ++ [q]) ++ c :: p.
Proof.
  induction l as [|a l IH]; intros q p; [reflexivity|].
  cbn [app]. destruct l as [|b l].
  - cbn [app join_with]. rewrite <- app_assoc. reflexivity.
  - cbn [app join_with] in *. rewrite IH. rewrite <- app_assoc. reflexivity.
Qed.

(* ------------------------------------------------------------------ *)
(* explicit port *)

Lemma has_port_colon : forall a, has_port a -> memb COLON a = true.
Proof. intros a [h [p [-> _]]]. apply memb_mid. Qed.

Lemma has_portb_sound : forall a, has_portb a = true -> has_port a.
Proof.
  intros a H. unfold has_portb in H.
  destruct (rev (split_on COLON a)) as [|p [|q r]] eqn:E; try discriminate.
  assert (Hs : split_on COLON a = rev r ++ [q; p]).
  { rewrite <- (rev_involutive (split_on COLON a)), E. cbn [rev]. rewrite <- app_assoc. reflexivity. }
  exists (join_with COLON (rev r ++ [q])), p. split; [|exact H].
  rewrite <- (join_split COLON a) at 1. rewrite Hs. apply join_with_snoc2.
Qed.

(* ------------------------------------------------------------------ *)
(* IPv6 text forms contain a colon *)

Lemma cut_dcolon_some : forall s h t, cut_dcolon s = Some (h, t) -> s = h ++ COLON :: COLON :: t.
Proof.
  induction s as [|x s IH]; intros h t H; [discriminate|].
  cbn [cut_dcolon] in H. destruct s as [|y s']; [discriminate|].
  destruct ((x =? COLON) && (y =? COLON)) eqn:E.
  - apply andb_true_iff in E; destruct E as [E1 E2]; apply N.eqb_eq in E1, E2; subst.
    inversion H; subst; reflexivity.
  - destruct (cut_dcolon (y :: s')) as [[h' r']|] eqn:E2; [|discriminate].
    inversion H; subst. rewrite (IH h' t eq_refl). reflexivity.
Qed.

Lemma ipv6_textb_colon : forall b, ipv6_textb b = true -> memb COLON b = true.
Proof.
  intros b H. unfold ipv6_textb in H.
  destruct (cut_dcolon b) as [[h t]|] eqn:E.
  - rewrite (cut_dcolon_some _ _ _ E). apply memb_mid.
  - destruct (memb COLON b) eqn:M; [reflexivity|]. exfalso.
    rewrite (split_on_single _ _ M) in H. cbn [v6_groups] in H.
    destruct (h16b b); [discriminate|]. destruct (ipv4_literalb b); discriminate.
Qed.

Lemma ipv6_literalb_colon : forall a, ipv6_literalb a = true -> memb COLON a = true.
Proof.
  intros a H. unfold ipv6_literalb in H. apply orb_true_iff in H. destruct H as [H|H].
  - apply ipv6_textb_colon; exact H.
  - unfold strip_brackets in H. destruct a as [|c t]; [discriminate|].
    destruct (N.eqb_spec c 91) as [->|Hne]; [|discriminate].
    destruct (rev t) as [|d r] eqn:Er; [discriminate|].
    destruct (N.eqb_spec d 93) as [->|Hne]; [|discriminate].
    apply ipv6_textb_colon in H.
    assert (Ht : t = rev r ++ [93]).
    { rewrite <- (rev_involutive t), Er. reflexivity. }
    subst t. rewrite memb_cons, memb_app.
    destruct (cut_at 37 (rev r)) as [h o] eqn:Ec. cbn [fst] in H.
    assert (Hb : memb COLON (rev r) = true).
    { destruct o as [rest|].
      - destruct (cut_at_some _ _ _ _ Ec) as [-> _]. rewrite memb_app, H. reflexivity.
      - destruct (cut_at_none _ _ _ Ec) as [-> _]. exact H. }
    rewrite Hb. apply orb_true_iff; right; reflexivity.
Qed.

(* ------------------------------------------------------------------ *)
(* IPv4 literals are accepted by the transcribed std parser *)

Definition stop (rest : bstr) : Prop := rest = [] \/ exists t, rest = DOT :: t.

Lemma digit_val_10 : forall d, is_digit d = true -> digit_val 10 d = Some (d - 48).
Proof. intros d H; unfold digit_val; rewrite H; reflexivity. Qed.

Lemma read_digits_stop : forall rest acc cnt, stop rest -> read_digits 10 3 rest acc cnt = Some (acc, cnt, rest).
Proof. intros rest acc cnt [->|[t ->]]; reflexivity. Qed.

Lemma is_digit_bounds : forall d, is_digit d = true -> 48 <= d <= 57.
Proof. intros d H; unfold is_digit in H; apply andb_true_iff in H; destruct H as [H1 H2]; apply N.leb_le in H1, H2; lia. Qed.

Lemma read_octet_ok : forall p rest, dec_octetb p = true -> stop rest ->
  exists v, read_octet (p ++ rest) = Some (v, rest).
Proof.
  intros p rest H Hs.
  destruct p as [|d1 [|d2 [|d3 [|d4 p]]]]; cbn [dec_octetb] in H; try discriminate.
  - (* one digit *)
    pose proof (is_digit_bounds _ H) as B1.
    unfold read_octet, read_number. cbn [app read_digits]. rewrite (digit_val_10 _ H).
    cbn [Nat.ltb Nat.leb]. rewrite (read_digits_stop _ _ _ Hs).
    cbn [Nat.eqb Nat.ltb Nat.leb negb]. rewrite andb_false_r.
    replace (0 * 10 + (d1 - 48) <=? 255) with true by (symmetry; apply N.leb_le; lia).
    eexists; reflexivity.
  - (* two digits *)
    apply andb_true_iff in H; destruct H as [H H0]. apply andb_true_iff in H; destruct H as [H H1].
    pose proof (is_digit_bounds _ H) as B1. pose proof (is_digit_bounds _ H1) as B2.
    apply negb_true_iff in H0.
    unfold read_octet, read_number. cbn [app read_digits].
    rewrite (digit_val_10 _ H). cbn [Nat.ltb Nat.leb]. rewrite (digit_val_10 _ H1). cbn [Nat.ltb Nat.leb].
    rewrite (read_digits_stop _ _ _ Hs).
    cbn [Nat.eqb Nat.ltb Nat.leb negb]. rewrite H0. cbn [andb].
    replace ((0 * 10 + (d1 - 48)) * 10 + (d2 - 48) <=? 255) with true by (symmetry; apply N.leb_le; lia).
    eexists; reflexivity.
  - (* three digits *)
    apply andb_true_iff in H; destruct H as [H H0]. apply andb_true_iff in H; destruct H as [H H1].
    apply andb_true_iff in H; destruct H as [H H2]. apply andb_true_iff in H; destruct H as [H H3].
    pose proof (is_digit_bounds _ H) as B1. pose proof (is_digit_bounds _ H3) as B2.
    pose proof (is_digit_bounds _ H2) as B3.
    apply negb_true_iff in H1. apply N.leb_le in H0.
    unfold read_octet, read_number. cbn [app read_digits].
    rewrite (digit_val_10 _ H). cbn [Nat.ltb Nat.leb]. rewrite (digit_val_10 _ H3). cbn [Nat.ltb Nat.leb].
    rewrite (digit_val_10 _ H2). cbn [Nat.ltb Nat.leb].
    rewrite (read_digits_stop _ _ _ Hs).
    cbn [Nat.eqb Nat.ltb Nat.leb negb]. rewrite H1. cbn [andb].
    replace (((0 * 10 + (d1 - 48)) * 10 + (d2 - 48)) * 10 + (d3 - 48) <=? 255) with true
      by (symmetry; apply N.leb_le; lia).
    eexists; reflexivity.
Qed.

Lemma read_ipv4_literal : forall a, ipv4_literal a -> exists g, read_ipv4 a = Some (g, []).
Proof.
  intros a [p1 [p2 [p3 [p4 [H1 [H2 [H3 [H4 ->]]]]]]]].
  unfold read_ipv4, read_sep.
  destruct (read_octet_ok p1 (DOT :: p2 ++ DOT :: p3 ++ DOT :: p4) H1) as [v1 E1]; [right; eexists; reflexivity|].
  rewrite E1. cbn [read_given_char]. rewrite N.eqb_refl.
  destruct (read_octet_ok p2 (DOT :: p3 ++ DOT :: p4) H2) as [v2 E2]; [right; eexists; reflexivity|].
  rewrite E2. cbn [read_given_char]. rewrite N.eqb_refl.
  destruct (read_octet_ok p3 (DOT :: p4) H3) as [v3 E3]; [right; eexists; reflexivity|].
  rewrite E3. cbn [read_given_char]. rewrite N.eqb_refl.
  destruct (read_octet_ok p4 [] H4) as [v4 E4]; [left; reflexivity|].
  rewrite app_nil_r in E4. rewrite E4. eexists; reflexivity.
Qed.

Lemma ipv4_literalb_sound : forall a, ipv4_literalb a = true -> ipv4_literal a.
Proof.
  intros a H. unfold ipv4_literalb in H.
  destruct (split_on DOT a) as [|p1 [|p2 [|p3 [|p4 [|p5 r]]]]] eqn:E; try discriminate.
  apply andb_true_iff in H; destruct H as [H H4]. apply andb_true_iff in H; destruct H as [H H3].
  apply andb_true_iff in H; destruct H as [H H2].
  exists p1, p2, p3, p4. repeat split; try assumption.
  rewrite <- (join_split DOT a), E. reflexivity.
Qed.

Lemma ipv4_literal_ip : forall a, ipv4_literal a -> ip_from_str a = true.
Proof. intros a H. destruct (read_ipv4_literal a H) as [g E]. unfold ip_from_str. rewrite E. reflexivity. Qed.

(* ------------------------------------------------------------------ *)
(* the classification *)

Theorem dubious_spec_flagged : forall a, dubious_spec a -> has_dubious_authority a = true.
Proof.
  intros a H. unfold has_dubious_authority.
  destruct (eq_ignore_case a LOCALHOST) eqn:E1; [reflexivity|].
  destruct (memb COLON a) eqn:E2; [reflexivity|].
  destruct H as [H|[H|[H|H]]].
  - unfold eq_ignore_case in E1. rewrite H, lower_localhost, beqb_refl in E1. discriminate.
  - rewrite (has_port_colon a H) in E2. discriminate.
  - rewrite (ipv4_literal_ip a H). reflexivity.
  - rewrite (ipv6_literalb_colon a H) in E2. discriminate.
Qed.

Lemma dubious_specb_sound : forall a, dubious_specb a = true -> dubious_spec a.
Proof.
  intros a H. unfold dubious_specb in H.
  apply orb_true_iff in H; destruct H as [H|H]; [|right; right; right; exact H].
  apply orb_true_iff in H; destruct H as [H|H]; [|right; right; left; apply ipv4_literalb_sound; exact H].
  apply orb_true_iff in H; destruct H as [H|H]; [|right; left; apply has_portb_sound; exact H].
  left. apply beqb_eq; exact H.
Qed.

(* ------------------------------------------------------------------ *)
(* the transcribed IPv6 parser never succeeds without a colon (so, after the
   colon test, IpAddr::from_str can only succeed through read_ipv4_addr) *)

Lemma read_digits_suffix : forall radix maxd s acc cnt v n rest,
  read_digits radix maxd s acc cnt = Some (v, n, rest) -> exists pre, s = pre ++ rest.
Proof.
  induction s as [|c t IH]; intros acc cnt v n rest H; cbn [read_digits] in H.
  - inversion H; subst. exists []; reflexivity.
  - destruct (digit_val radix c).
    + destruct (Nat.ltb maxd (S cnt)); [discriminate|].
      destruct (IH _ _ _ _ _ H) as [pre ->]. exists (c :: pre); reflexivity.
    + inversion H; subst. exists []; reflexivity.
Qed.

Lemma read_number_suffix : forall radix maxd az lim s v rest,
  read_number radix maxd az lim s = Some (v, rest) -> exists pre, s = pre ++ rest.
Proof.
  intros radix maxd az lim s v rest H. unfold read_number in H.
  destruct (read_digits radix maxd s 0 0) as [[[v' n] r]|] eqn:E; [|discriminate].
  destruct (Nat.eqb n 0); [discriminate|].
  destruct (negb az && match s with [] => false | c :: _ => c =? 48 end && Nat.ltb 1 n); [discriminate|].
  destruct (v' <=? lim); [|discriminate]. inversion H; subst.
  eapply read_digits_suffix; exact E.
Qed.

Lemma no_colon_given : forall s, memb COLON s = false -> read_given_char COLON s = None.
Proof.
  intros [|x t] H; [reflexivity|]. cbn [read_given_char].
  rewrite memb_cons in H. apply orb_false_iff in H. destruct H as [H _].
  rewrite N.eqb_sym, H. reflexivity.
Qed.

Theorem read_ipv6_needs_colon : forall s, memb COLON s = false -> read_ipv6 s = None.
Proof.
  intros s H. unfold read_ipv6. cbn [read_groups Nat.ltb Nat.leb read_sep].
  destruct (read_ipv4 s) as [[g s']|]; [reflexivity|].
  destruct (read_h16 s) as [[v s']|] eqn:E.
  - assert (H' : memb COLON s' = false).
    { destruct (read_number_suffix _ _ _ _ _ _ _ E) as [pre ->].
      rewrite memb_app in H. apply orb_false_iff in H. tauto. }
    rewrite (no_colon_given s' H'). cbn [Nat.eqb]. rewrite (no_colon_given s' H'). reflexivity.
  - cbn [Nat.eqb]. rewrite (no_colon_given s H). reflexivity.
Qed.

Corollary has_dubious_authority_alt : forall a,
  has_dubious_authority a =
    eq_ignore_case a LOCALHOST || memb COLON a ||
    match read_ipv4 a with Some (_, []) => true | _ => false end.
Proof.
  intros a. unfold has_dubious_authority.
  destruct (eq_ignore_case a LOCALHOST); [reflexivity|].
  destruct (memb COLON a) eqn:E; [reflexivity|]. cbn [orb].
  unfold ip_from_str. rewrite (read_ipv6_needs_colon a E).
  destruct (read_ipv4 a) as [[g [|x r]]|]; reflexivity.
Qed.

(* ------------------------------------------------------------------ *)
(* the gates *)

Lemma gate_dubious : forall a, dubious_spec a -> gate true a = NoFetch.
Proof. intros a H; unfold gate; rewrite (dubious_spec_flagged a H); reflexivity. Qed.

Lemma gate_allowed : forall a, gate false a = Fetch.
Proof. reflexivity. Qed.

Lemma keqb_eq : forall a b, keqb a b = true <-> a = b.
Proof.
  intros [a1 a2] [b1 b2]; unfold keqb; cbn [fst snd]. rewrite andb_true_iff, !beqb_eq.
  split; [intros [-> ->]; reflexivity | intros H; inversion H; auto].
Qed.

(* the set of finished modules / repositories after a sequence of calls; independent of the filter *)
Fixpoint updated_after (upd : list key) (calls : list (option (bstr * key))) : list key :=
  match calls with
  | [] => upd
  | None :: r => updated_after upd r
  | Some (_, k) :: r => updated_after (if kmem k upd then upd else k :: upd) r
  end.

Theorem run_from_nth : forall calls f upd i c,
  nth_error calls i = Some c ->
  nth_error (run_from f upd calls) i =
    Some match c with
         | None => Invalid
         | Some (a, k) => if kmem k (updated_after upd (firstn i calls)) then NoFetch else gate f a
         end.
Proof.
  induction calls as [|c0 calls IH]; intros f upd i c H; [destruct i; discriminate|].
  destruct i as [|i].
  - cbn [nth_error] in H. inversion H; subst c0. cbn [run_from firstn updated_after].
    destruct c as [[a k]|]; cbn [load]; [|reflexivity].
    destruct (kmem k upd); reflexivity.
  - cbn [nth_error] in H. cbn [run_from firstn].
    destruct c0 as [[a0 k0]|]; cbn [load updated_after].
    + destruct (kmem k0 upd); cbn [nth_error]; apply IH; exact H.
    + cbn [nth_error]. apply IH; exact H.
Qed.

Theorem run_never_fetches_dubious : forall k uris i s a (ky : key),
  nth_error uris i = Some s -> parse_call k s = Some (a, ky) -> dubious_spec a ->
  nth_error (run k false uris) i = Some NoFetch.
Proof.
  intros k uris i s a ky Hn Hp Hd. unfold run. cbn [negb].
  rewrite (run_from_nth _ true [] i (Some (a, ky))).
  - cbv beta iota. rewrite (gate_dubious a Hd). destruct (kmem ky _); reflexivity.
  - rewrite (map_nth_error _ _ _ Hn), Hp. reflexivity.
Qed.

Theorem run_allowed_fetches : forall k uris i s a (ky : key),
  nth_error uris i = Some s -> parse_call k s = Some (a, ky) ->
  kmem ky (updated_after [] (firstn i (map (parse_call k) uris))) = false ->
  nth_error (run k true uris) i = Some Fetch.
Proof.
  intros k uris i s a ky Hn Hp Hf. unfold run. cbn [negb].
  rewrite (run_from_nth _ false [] i (Some (a, ky))).
  - cbv beta iota. rewrite Hf. reflexivity.
  - rewrite (map_nth_error _ _ _ Hn), Hp. reflexivity.
Qed.

Theorem run_invalid : forall k allow uris i s,
  nth_error uris i = Some s -> parse_call k s = None ->
  nth_error (run k allow uris) i = Some Invalid.
Proof.
  intros k allow uris i s Hn Hp. unfold run.
  rewrite (run_from_nth _ _ [] i None); [reflexivity|].
  rewrite (map_nth_error _ _ _ Hn), Hp. reflexivity.
Qed.

(* ------------------------------------------------------------------ *)
(* the model satisfies the executable oracles *)

Theorem model_satisfies_spec : forall k s, spec_okb k s (model_obs k s) = true.
Proof.
  intros k s. unfold spec_okb, model_obs.
  destruct (parse_call k s) as [[a ky]|]; [|reflexivity].
  destruct (dubious_specb a) eqn:E; [|reflexivity]. cbn [o_dub].
  apply dubious_spec_flagged, dubious_specb_sound; exact E.
Qed.

Lemma run_okb_model : forall k allow uris seen upd,
  (forall x, kmem x seen = kmem x upd) ->
  run_okb k allow seen uris
    (map (fun p => {| ro_auth := option_map fst (parse_call k (fst p)); ro_out := snd p;
                      ro_wire := outcome_eqb (snd p) Fetch |})
         (combine uris (run_from (negb allow) upd (map (parse_call k) uris)))) = true.
Proof.
  induction uris as [|s uris IH]; intros seen upd Hinv; [reflexivity|].
  cbn [map run_from].
  destruct (parse_call k s) as [[a ky]|] eqn:Ep; cbn [load].
  - destruct (kmem ky upd) eqn:Em; cbn [combine map run_okb fst snd ro_out ro_wire]; rewrite Ep.
    + (* answered from the run's memory *)
      cbn [outcome_eqb negb andb]. rewrite Hinv, Em. cbn [negb]. rewrite andb_false_r.
      replace (if negb allow && dubious_specb a then true else true) with true by (destruct (negb allow && dubious_specb a); reflexivity).
      cbn [andb]. apply IH. intros x. unfold kmem; cbn [existsb]; fold (kmem x seen); fold (kmem x upd).
      rewrite Hinv. destruct (keqb x ky) eqn:Ek; [|reflexivity].
      apply keqb_eq in Ek; subst x. rewrite Em. reflexivity.
    + rewrite Hinv, Em. cbn [negb]. rewrite andb_true_r.
      assert (H1 : (if negb allow && dubious_specb a
                    then negb (outcome_eqb (gate (negb allow) a) Fetch) && negb (outcome_eqb (gate (negb allow) a) Fetch)
                    else true) = true).
      { destruct allow; cbn [negb andb]; [reflexivity|].
        destruct (dubious_specb a) eqn:Ed; [|reflexivity].
        rewrite (gate_dubious a (dubious_specb_sound a Ed)). reflexivity. }
      rewrite H1. cbn [andb].
      assert (H2 : (if allow then outcome_eqb (gate (negb allow) a) Fetch else true) = true).
      { destruct allow; reflexivity. }
      rewrite H2. cbn [andb]. apply IH. intros x. unfold kmem; cbn [existsb]; fold (kmem x seen); fold (kmem x upd).
      rewrite Hinv. reflexivity.
  - cbn [combine map run_okb fst snd ro_out ro_wire]. rewrite Ep. cbn [outcome_eqb negb andb].
    apply IH; exact Hinv.
Qed.

Theorem model_satisfies_run_spec : forall k allow uris,
  run_spec_okb k allow uris (model_run_obs k allow uris) = true.
Proof.
  intros k allow uris. unfold run_spec_okb, model_run_obs, run.
  apply run_okb_model. reflexivity.
Qed.
