(* C31 model: classification of URI authorities as dubious and the two gates
   that consult it.  Executable definitions only.  Transcribed from
     src/utils/uri.rs            UriExt::has_dubious_authority  (with the fix:
                                 "localhost" is compared ASCII-case-insensitively)
     core::net::parser (Rust std, IpAddr::from_str)
                                 Parser::{read_number, read_given_char, read_separator,
                                 read_ipv4_addr, read_ipv6_addr (read_groups), parse_with}
     src/collector/rsync.rs      Run::load_module   (filter at "Check if the module name is dubious")
     src/collector/rrdp/base.rs  Run::load_repository (filter before RepositoryUpdate::try_update)
   URIs enter as raw bytes and go through the rpki crate's parsers
   (Base/PathModel.rsync_parse / https_parse). *)
From Coq Require Import List NArith Bool String.
From RV Require Import Base.PathModel.
Import ListNotations.
Local Open Scope N_scope.

(* ------------------------------------------------------------------ *)
(* core::net::parser.  The parser state is the remaining input. *)

(* char::to_digit(radix) for radix 10 and 16 *)
Definition digit_val (radix : N) (c : N) : option N :=
  if is_digit c then Some (c - 48)
  else if radix =? 16 then
    if (97 <=? c) && (c <=? 102) then Some (c - 87)
    else if (65 <=? c) && (c <=? 70) then Some (c - 55)
    else None
  else None.

(* the digit loop of read_number with max_digits = Some maxd:
   None = more than maxd digits; otherwise (value, digit count, rest) *)
Fixpoint read_digits (radix : N) (maxd : nat) (s : bstr) (acc : N) (cnt : nat) : option (N * nat * bstr) :=
  match s with
  | [] => Some (acc, cnt, [])
  | c :: t =>
      match digit_val radix c with
      | None => Some (acc, cnt, s)
      | Some d => if Nat.ltb maxd (S cnt) then None
                  else read_digits radix maxd t (acc * radix + d) (S cnt)
      end
  end.

(* read_number(radix, Some(maxd), allow_zero_prefix) into a type with maximum [limit] (u8: 255, u16: 65535) *)
Definition read_number (radix : N) (maxd : nat) (allow_zero_prefix : bool) (limit : N) (s : bstr)
  : option (N * bstr) :=
  let has_leading_zero := match s with c :: _ => c =? 48 | [] => false end in
  match read_digits radix maxd s 0 0 with
  | None => None
  | Some (v, cnt, rest) =>
      if Nat.eqb cnt 0 then None
      else if negb allow_zero_prefix && has_leading_zero && Nat.ltb 1 cnt then None
      else if v <=? limit then Some (v, rest) else None
  end.

Definition read_given_char (c : N) (s : bstr) : option bstr :=
  match s with
  | x :: t => if x =? c then Some t else None
  | [] => None
  end.

(* read_separator(sep, index, inner) *)
Definition read_sep {T} (sep : N) (index : nat) (inner : bstr -> option (T * bstr)) (s : bstr)
  : option (T * bstr) :=
  match index with
  | O => inner s
  | S _ => match read_given_char sep s with
           | None => None
           | Some t => inner t
           end
  end.

Definition read_octet : bstr -> option (N * bstr) := read_number 10 3 false 255.

(* read_ipv4_addr: four groups *)
Definition read_ipv4 (s : bstr) : option (list N * bstr) :=
  match read_sep DOT 0 read_octet s with None => None | Some (a, s1) =>
  match read_sep DOT 1 read_octet s1 with None => None | Some (b, s2) =>
  match read_sep DOT 2 read_octet s2 with None => None | Some (c, s3) =>
  match read_sep DOT 3 read_octet s3 with None => None | Some (d, s4) =>
  Some ([a; b; c; d], s4) end end end end.

Definition read_h16 : bstr -> option (N * bstr) := read_number 16 4 true 65535.

(* read_groups(p, groups) with groups.len() = limit; [fuel] = slots left, [i] = index.
   Returns ((number of groups read, embedded IPv4 read?), remaining input). *)
Fixpoint read_groups (fuel : nat) (limit i : nat) (s : bstr) : (nat * bool) * bstr :=
  match fuel with
  | O => ((limit, false), s)
  | S f =>
      let v4 := if Nat.ltb (S i) limit then read_sep COLON i read_ipv4 s else None in
      match v4 with
      | Some (_, s') => ((i + 2, true)%nat, s')
      | None =>
          match read_sep COLON i read_h16 s with
          | Some (_, s') => read_groups f limit (S i) s'
          | None => ((i, false), s)
          end
      end
  end.

(* read_ipv6_addr; only success and the remaining input are kept *)
Definition read_ipv6 (s : bstr) : option bstr :=
  let '((head_size, head_ipv4), s1) := read_groups 8 8 0 s in
  if Nat.eqb head_size 8 then Some s1
  else if head_ipv4 then None
  else match read_given_char COLON s1 with None => None | Some s2 =>
       match read_given_char COLON s2 with None => None | Some s3 =>
       let limit := (8 - (head_size + 1))%nat in
       let '(_, s4) := read_groups limit limit 0 s3 in
       Some s4 end end.

(* IpAddr::from_str(s).is_ok(): parse_with(read_ip_addr), read_ip_addr = v4.or_else(v6),
   the whole input must be consumed *)
Definition ip_from_str (s : bstr) : bool :=
  match read_ipv4 s with
  | Some (_, rest) => match rest with [] => true | _ => false end
  | None => match read_ipv6 s with
            | Some rest => match rest with [] => true | _ => false end
            | None => false
            end
  end.

(* ------------------------------------------------------------------ *)
(* src/utils/uri.rs *)

Definition LOCALHOST : bstr := bytes_of "localhost".

(* UriExt::has_dubious_authority (fixed code) *)
Definition has_dubious_authority (a : bstr) : bool :=
  if eq_ignore_case a LOCALHOST then true
  else if memb COLON a then true
  else if ip_from_str a then true
  else false.

(* the code before the fix: [authority == "localhost"] *)
Definition has_dubious_authority_v0 (a : bstr) : bool :=
  if beqb a LOCALHOST then true
  else if memb COLON a then true
  else if ip_from_str a then true
  else false.

(* ------------------------------------------------------------------ *)
(* the gates *)

Inductive scheme := Rsync | Https.

Definition key := (bstr * bstr)%type.

(* authority() and the key under which a run remembers a finished update:
   rsync: Module::from_uri = Rsync::canonical_module() (a string; note that it keeps the letter
          case of the scheme when the authority has no upper-case letter);
   RRDP : the uri::Https itself, whose Eq/Hash ignore the case of scheme and authority *)
Definition parse_call (k : scheme) (s : bstr) : option (bstr * key) :=
  match k with
  | Rsync => match rsync_parse s with
             | Some u => Some (r_auth u, (canonical_module u, []))
             | None => None
             end
  | Https => match https_parse s with
             | Some u => Some (h_auth u, (lower (h_auth u), h_path u))
             | None => None
             end
  end.

Definition keqb (a b : key) : bool := beqb (fst a) (fst b) && beqb (snd a) (snd b).
Definition kmem (k : key) (l : list key) : bool := existsb (keqb k) l.

(* what one load_module / load_repository call does *)
Inductive outcome := Invalid | NoFetch | Fetch.

(* the decision itself: [filter_dubious && uri.has_dubious_authority()] *)
Definition gate (filter_dubious : bool) (a : bstr) : outcome :=
  if filter_dubious && has_dubious_authority a then NoFetch else Fetch.

(* one call on a run whose [updated] set is given; returns the outcome and the new set.
   rsync: "if self.updated.read().contains(module) return" ... "self.updated.write().insert(module)"
   RRDP : "if let Some(repo) = self.updated.read().get(rpki_notify) return" ... insert *)
Definition load (filter_dubious : bool) (updated : list key) (c : option (bstr * key))
  : outcome * list key :=
  match c with
  | None => (Invalid, updated)
  | Some (a, k) =>
      if kmem k updated then (NoFetch, updated)
      else (gate filter_dubious a, k :: updated)
  end.

Fixpoint run_from (filter_dubious : bool) (updated : list key) (calls : list (option (bstr * key)))
  : list outcome :=
  match calls with
  | [] => []
  | c :: rest => let '(o, upd) := load filter_dubious updated c in
                 o :: run_from filter_dubious upd rest
  end.

(* a validation run over the given raw URIs; filter_dubious = !config.allow_dubious_hosts *)
Definition run (k : scheme) (allow_dubious_hosts : bool) (uris : list bstr) : list outcome :=
  run_from (negb allow_dubious_hosts) [] (map (parse_call k) uris).
