(* C31 — No fetches to dubious hosts unless allowed.
   Only statements, [exact], [Check] pins.  The model is of the fixed code
   (src/utils/uri.rs compares "localhost" ASCII-case-insensitively); C31_unfixed_refuted
   records what the code before the fix did. *)
From Coq Require Import List NArith Bool String.
From RV Require Import Base.PathModel C31.Model C31.Spec C31.Proofs.
Import ListNotations.
Local Open Scope N_scope.

(* every authority the property names ('localhost' in any case, explicit port, IPv4 or IPv6
   literal) is classified dubious; all byte strings, no length bound *)
Theorem C31_classification : forall a, dubious_spec a -> has_dubious_authority a = true.
Proof. exact dubious_spec_flagged. Qed.

(* the decision of both gates: not allowed => no fetch for such an authority; allowed => fetch *)
Theorem C31_gate_closed : forall a, dubious_spec a -> gate true a = NoFetch.
Proof. exact gate_dubious. Qed.
Theorem C31_gate_open : forall a, gate false a = Fetch.
Proof. exact gate_allowed. Qed.

(* a whole run (rsync Run::load_module / RRDP Run::load_repository over any list of raw URIs,
   including repeated modules): with allow-dubious-hosts off, no call for a named authority fetches *)
Theorem C31_run_never_fetches_dubious : forall k uris i s a (ky : key),
  nth_error uris i = Some s -> parse_call k s = Some (a, ky) -> dubious_spec a ->
  nth_error (run k false uris) i = Some NoFetch.
Proof. exact run_never_fetches_dubious. Qed.

(* with allow-dubious-hosts on, every call whose module / repository was not already handled
   in this run fetches, whatever the authority *)
Theorem C31_run_allowed_fetches : forall k uris i s a (ky : key),
  nth_error uris i = Some s -> parse_call k s = Some (a, ky) ->
  kmem ky (updated_after [] (firstn i (map (parse_call k) uris))) = false ->
  nth_error (run k true uris) i = Some Fetch.
Proof. exact run_allowed_fetches. Qed.

(* exact characterisation of every call of a run, for both settings *)
Theorem C31_run_characterised : forall calls f upd i c,
  nth_error calls i = Some c ->
  nth_error (run_from f upd calls) i =
    Some match c with
         | None => Invalid
         | Some (a, k) => if kmem k (updated_after upd (firstn i calls)) then NoFetch else gate f a
         end.
Proof. exact run_from_nth. Qed.

(* the transcribed std IPv6 parser cannot succeed on input without ':' — after the colon test
   IpAddr::from_str only matters through the dotted-quad parser *)
Theorem C31_ipv6_needs_colon : forall s, memb COLON s = false -> read_ipv6 s = None.
Proof. exact read_ipv6_needs_colon. Qed.

(* RFC 3986 IPv4address is accepted by the transcribed std dotted-quad parser *)
Theorem C31_ipv4_literal_parses : forall a, ipv4_literal a -> ip_from_str a = true.
Proof. exact ipv4_literal_ip. Qed.

(* the executable form of the spec used by the oracles implies the declarative one *)
Theorem C31_specb_sound : forall a, dubious_specb a = true -> dubious_spec a.
Proof. exact dubious_specb_sound. Qed.

(* the oracles evaluated on the implementation's observations hold of the model on every input *)
Theorem C31_model_satisfies_spec : forall k s, spec_okb k s (model_obs k s) = true.
Proof. exact model_satisfies_spec. Qed.
Theorem C31_model_satisfies_run_spec : forall k allow uris,
  run_spec_okb k allow uris (model_run_obs k allow uris) = true.
Proof. exact model_satisfies_run_spec. Qed.

(* the code before the fix ([authority == "localhost"]) violates the property: witness *)
Theorem C31_unfixed_refuted :
  exists a, dubious_spec a /\ has_dubious_authority_v0 a = false.
Proof. exists (bytes_of "LOCALHOST"). split; [left; reflexivity | reflexivity]. Qed.

(* premises are satisfiable on non-trivial values; the statement is not vacuous *)
Example C31_nonvacuous :
  dubious_spec (bytes_of "LocalHost") /\ dubious_spec (bytes_of "rpki.example.net:873") /\
  dubious_spec (bytes_of "192.0.2.255") /\ dubious_spec (bytes_of "2001:db8::1") /\
  dubious_specb (bytes_of "rpki.example.net") = false /\ has_dubious_authority (bytes_of "rpki.example.net") = false /\
  dubious_specb (bytes_of "192.0.2.256") = false /\ has_dubious_authority (bytes_of "01.2.3.4") = false /\
  run Rsync false [bytes_of "rsync://rpki.example.net/repo/a.cer"; bytes_of "rsync://LOCALHOST/repo/a.cer";
                   bytes_of "rsync://RPKI.example.net/repo/b.cer"; bytes_of "rsync://h/../x"]
    = [Fetch; NoFetch; NoFetch; Invalid] /\
  run Https true [bytes_of "https://127.0.0.1/n.xml"; bytes_of "https://127.0.0.1/n.xml"] = [Fetch; NoFetch].
Proof.
  repeat split; try reflexivity; apply dubious_specb_sound; reflexivity.
Qed.

Check C31_classification : forall a, dubious_spec a -> has_dubious_authority a = true.
Check C31_run_never_fetches_dubious : forall k uris i s a (ky : key),
  nth_error uris i = Some s -> parse_call k s = Some (a, ky) -> dubious_spec a ->
  nth_error (run k false uris) i = Some NoFetch.
Check C31_model_satisfies_spec : forall k s, spec_okb k s (model_obs k s) = true.
Check C31_model_satisfies_run_spec : forall k allow uris,
  run_spec_okb k allow uris (model_run_obs k allow uris) = true.
