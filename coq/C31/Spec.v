(* C31: the property as an executable oracle and the case checkers of the two
   correspondence streams (classification of single URIs; gate runs).  No proofs. *)
From Coq Require Import List NArith Bool String.
From RV Require Export Base.PathModel C31.Model.
Import ListNotations.
Local Open Scope N_scope.

(* ------------------------------------------------------------------ *)
(* which authorities the property names (RFC 3986 authority syntax) *)

(* explicit port: authority = host ":" port, port = *DIGIT *)
Definition has_port (a : bstr) : Prop :=
  exists h p, a = h ++ COLON :: p /\ forallb is_digit p = true.

Definition has_portb (a : bstr) : bool :=
  match rev (split_on COLON a) with
  | p :: _ :: _ => forallb is_digit p
  | _ => false
  end.

(* IPv4 literal: RFC 3986 IPv4address = dec-octet "." dec-octet "." dec-octet "." dec-octet,
   dec-octet = 0-9 / 10-99 / 100-255 without leading zeros *)
Definition dec_octetb (p : bstr) : bool :=
  match p with
  | [d] => is_digit d
  | [d1; d2] => is_digit d1 && is_digit d2 && negb (d1 =? 48)
  | [d1; d2; d3] => is_digit d1 && is_digit d2 && is_digit d3 && negb (d1 =? 48)
                    && (100 * (d1 - 48) + 10 * (d2 - 48) + (d3 - 48) <=? 255)
  | _ => false
  end.

Definition ipv4_literal (a : bstr) : Prop :=
  exists p1 p2 p3 p4, dec_octetb p1 = true /\ dec_octetb p2 = true /\ dec_octetb p3 = true /\
    dec_octetb p4 = true /\ a = p1 ++ DOT :: p2 ++ DOT :: p3 ++ DOT :: p4.

Definition ipv4_literalb (a : bstr) : bool :=
  match split_on DOT a with
  | [p1; p2; p3; p4] => dec_octetb p1 && dec_octetb p2 && dec_octetb p3 && dec_octetb p4
  | _ => false
  end.

(* IPv6 literal: RFC 4291 section 2.2 text forms (eight h16 groups, one "::" standing for one
   or more zero groups, the last 32 bits optionally as an IPv4 literal), bare or in the
   bracketed form of RFC 3986 ("[" address [ "%" zone ] "]") *)
Definition is_hex (c : N) : bool := is_digit c || ((97 <=? c) && (c <=? 102)) || ((65 <=? c) && (c <=? 70)).
Definition h16b (p : bstr) : bool :=
  match p with [] => false | _ => Nat.leb (List.length p) 4 && forallb is_hex p end.

(* groups contributed by the ':'-separated pieces; only the last may be an IPv4 literal *)
Fixpoint v6_groups (ps : list bstr) : option nat :=
  match ps with
  | [] => Some 0%nat
  | [p] => if h16b p then Some 1%nat else if ipv4_literalb p then Some 2%nat else None
  | p :: r => if h16b p then option_map S (v6_groups r) else None
  end.

(* split at the first "::" *)
Fixpoint cut_dcolon (s : bstr) : option (bstr * bstr) :=
  match s with
  | [] => None
  | x :: t =>
      match t with
      | y :: t' => if (x =? COLON) && (y =? COLON) then Some ([], t')
                   else match cut_dcolon t with Some (h, r) => Some (x :: h, r) | None => None end
      | [] => None
      end
  end.

Definition side_groups (allow_v4 : bool) (s : bstr) : option nat :=
  match s with
  | [] => Some 0%nat
  | _ => let ps := split_on COLON s in
         if allow_v4 then v6_groups ps
         else if forallb h16b ps then Some (List.length ps) else None
  end.

Definition ipv6_textb (b : bstr) : bool :=
  match cut_dcolon b with
  | None => match v6_groups (split_on COLON b) with Some n => Nat.eqb n 8 | None => false end
  | Some (h, t) =>
      match side_groups false h, side_groups true t with
      | Some n, Some m => Nat.leb (n + m) 7
      | _, _ => false
      end
  end.

Definition strip_brackets (a : bstr) : option bstr :=
  match a with
  | c :: t => if c =? 91 then
                match rev t with
                | d :: r => if d =? 93 then Some (rev r) else None
                | [] => None
                end
              else None
  | [] => None
  end.

Definition ipv6_literalb (a : bstr) : bool :=
  ipv6_textb a ||
  match strip_brackets a with
  | Some b => ipv6_textb (fst (cut_at 37 b))
  | None => false
  end.

(* the hosts C31 names: 'localhost' (host names are case-insensitive), an explicit port, an IP literal *)
Definition dubious_spec (a : bstr) : Prop :=
  lower a = LOCALHOST \/ has_port a \/ ipv4_literal a \/ ipv6_literalb a = true.

Definition dubious_specb (a : bstr) : bool :=
  beqb (lower a) LOCALHOST || has_portb a || ipv4_literalb a || ipv6_literalb a.

(* ------------------------------------------------------------------ *)
(* stream 1: classification of one URI *)

Record cobs := { o_auth : option bstr;    (* authority() of the parsed URI, None = the URI is rejected *)
                 o_dub : bool;            (* has_dubious_authority() *)
                 o_ip : bool }.           (* IpAddr::from_str(authority).is_ok() *)

Record case := { c_scheme : scheme; c_uri : bstr; c_impl : cobs }.

Definition model_obs (k : scheme) (s : bstr) : cobs :=
  match parse_call k s with
  | None => {| o_auth := None; o_dub := false; o_ip := false |}
  | Some (a, _) => {| o_auth := Some a; o_dub := has_dubious_authority a; o_ip := ip_from_str a |}
  end.

(* the property on one URI: a host the property names is classified dubious *)
Definition spec_okb (k : scheme) (s : bstr) (o : cobs) : bool :=
  match parse_call k s with
  | None => true
  | Some (a, _) => if dubious_specb a then o_dub o else true
  end.

Definition obstr_eqb (a b : option bstr) : bool :=
  match a, b with
  | Some x, Some y => beqb x y
  | None, None => true
  | _, _ => false
  end.

Definition cobs_eqb (a b : cobs) : bool :=
  obstr_eqb (o_auth a) (o_auth b) && Bool.eqb (o_dub a) (o_dub b) && Bool.eqb (o_ip a) (o_ip b).

Definition bytes_okb (s : bstr) : bool := forallb (fun c => c <? 256) s.

(* 0 agree + property; 1 property holds but model and implementation differ;
   2 property fails on the implementation's answer; 9 input is not a byte string *)
Definition check_case (c : case) : N :=
  if negb (bytes_okb (c_uri c)) then 9
  else if negb (spec_okb (c_scheme c) (c_uri c) (c_impl c)) then 2
  else if cobs_eqb (model_obs (c_scheme c) (c_uri c)) (c_impl c) then 0 else 1.

(* ------------------------------------------------------------------ *)
(* stream 2: a run of load_module / load_repository calls *)

Record robs := { ro_auth : option bstr;   (* authority() or None if the URI is rejected (no call made) *)
                 ro_out : outcome;        (* what the collector did *)
                 ro_wire : bool }.        (* a request reached the fake rsync / the proxy during the call *)

Record rcase := { rc_scheme : scheme; rc_allow : bool; rc_uris : list bstr; rc_impl : list robs }.

Definition outcome_eqb (a b : outcome) : bool :=
  match a, b with
  | Invalid, Invalid | NoFetch, NoFetch | Fetch, Fetch => true
  | _, _ => false
  end.

Definition model_run_obs (k : scheme) (allow : bool) (uris : list bstr) : list robs :=
  map (fun p => {| ro_auth := option_map fst (parse_call k (fst p)); ro_out := snd p;
                   ro_wire := outcome_eqb (snd p) Fetch |})
      (combine uris (run k allow uris)).

(* the property on a run:
   - dubious hosts not allowed: a call for a host the property names starts no request;
   - allowed: the first call for every module / repository starts one *)
Fixpoint run_okb (k : scheme) (allow : bool) (seen : list key) (uris : list bstr) (obs : list robs) : bool :=
  match uris, obs with
  | [], [] => true
  | s :: uris', o :: obs' =>
      match parse_call k s with
      | None => negb (ro_wire o) && negb (outcome_eqb (ro_out o) Fetch) && run_okb k allow seen uris' obs'
      | Some (a, ky) =>
          (if negb allow && dubious_specb a
           then negb (ro_wire o) && negb (outcome_eqb (ro_out o) Fetch) else true)
          && (if allow && negb (kmem ky seen) then outcome_eqb (ro_out o) Fetch else true)
          && run_okb k allow (ky :: seen) uris' obs'
      end
  | _, _ => false
  end.

Definition run_spec_okb (k : scheme) (allow : bool) (uris : list bstr) (obs : list robs) : bool :=
  run_okb k allow [] uris obs.

(* agreement of one call: authority and outcome equal; for rsync the fake command is started
   exactly when the outcome is Fetch; for RRDP a connection at the proxy implies Fetch (the
   HTTP client may refuse to connect for authorities that are no valid URL host) *)
Definition robs_agree (k : scheme) (m i : robs) : bool :=
  obstr_eqb (ro_auth m) (ro_auth i) && outcome_eqb (ro_out m) (ro_out i)
  && match k with
     | Rsync => Bool.eqb (ro_wire m) (ro_wire i)
     | Https => implb (ro_wire i) (ro_wire m)
     end.

Fixpoint robs_all (k : scheme) (m i : list robs) : bool :=
  match m, i with
  | [], [] => true
  | x :: m', y :: i' => robs_agree k x y && robs_all k m' i'
  | _, _ => false
  end.

Definition check_run (c : rcase) : N :=
  if negb (forallb bytes_okb (rc_uris c)) then 9
  else if negb (run_spec_okb (rc_scheme c) (rc_allow c) (rc_uris c) (rc_impl c)) then 2
  else if robs_all (rc_scheme c) (model_run_obs (rc_scheme c) (rc_allow c) (rc_uris c)) (rc_impl c) then 0 else 1.
