(* C07 — Validation terminates on deep or cyclic CA hierarchies.

   Model of the slice of /repo/src/engine.rs that decides WHICH publication points a validation
   run visits:

     Run::process            (one task per TAL; every CaTask that is produced is eventually
                              handed to process_ca_task, recursively or through the queue)
     Run::process_ca_task    (PubPoint::process, then one process_ca_task per returned task)
     PubPoint::process_ca_cer(check_loop -> validate_ca/check_crl -> CaCert::chain -> task)
     CaCert::chain           (chain_len = issuer.chain_len + 1; Err if chain_len > max_depth)
     CaCert::check_loop / _check_loop  (subject key identifier compared with the issuing
                              certificate's and all its parents')

   The CA hierarchy is a finite GRAPH: point id -> publication point; a CA certificate inside a
   point names the point it is for (its SIA) and the subject key it certifies, so cycles, shared
   sub-hierarchies, key reuse and certificates for a key the named point does not sign with are
   all expressible.  What the rpki crate decides (signature, validity, resources, CRL) is one
   verdict bit per certificate ([c_valid]) and one per publication point ([p_ok]: manifest, CRL
   and all listed files good).  The recursion is on explicit fuel; exhausting it yields the
   distinct value [OutOfFuel].

   Not modelled (partial): the thread pool / task queue (order of visits), deferral, metrics
   plumbing, the store.  Definitions only; no proofs here. *)
From Coq Require Import List NArith Bool Arith.
Import ListNotations.
Local Open Scope N_scope.

(* a CA certificate listed on a point's manifest *)
Record cacert := {
  c_key : N;          (* subject key (identifier) it certifies *)
  c_point : N;        (* the publication point its SIA names *)
  c_valid : bool }.   (* Cert::validate_ca and ValidPointManifest::check_crl both succeed *)

Record point := {
  p_key : N;              (* the key everything in the point is signed with *)
  p_ok : bool;            (* manifest + CRL validate under that key, every listed file present with its hash *)
  p_pay : list N;         (* payload items of the point's ROAs (one number per VRP) *)
  p_certs : list cacert }.

Definition graph := list (N * point).

Fixpoint lookup (p : N) (g : graph) : option point :=
  match g with
  | [] => None
  | (q, pt) :: g' => if q =? p then Some pt else lookup p g'
  end.

(* a TAL with a usable trust anchor certificate: key and the point it names *)
Record tal := { t_key : N; t_point : N }.

Inductive verdict := VLoop | VInvalid | VDeep | VOk.

Inductive event :=
| EVisit (p : N) (acc : bool) (chain : list N)   (* a point was processed; chain = keys from its certificate up to the TA *)
| EPay (p n : N)                                  (* payload item n accepted from point p *)
| ECert (p key : N) (v : verdict).               (* a CA certificate found in accepted point p *)

Inductive res := OutOfFuel | Done (evs : list event).

(* CaCert::_check_loop: self.cert's key, then the parents'.  true = Err(Failed) = loop *)
Fixpoint check_loop (chain : list N) (key_id : N) : bool :=
  match chain with
  | [] => false
  | k :: parent => if k =? key_id then true else check_loop parent key_id
  end.

(* PubPoint::process_ca_cer for one certificate of a point reached through a CaCert with
   subject key k, parents' keys [parents] and chain_len [len]; [d] = max_ca_depth.
   Order as in the code: check_loop, validate_ca + check_crl, CaCert::chain. *)
Definition cert_verdict (d : nat) (k : N) (parents : list N) (len : nat) (c : cacert) : verdict :=
  if check_loop (k :: parents) (c_key c) then VLoop
  else if negb (c_valid c) then VInvalid
  else if Nat.ltb d (S len) then VDeep            (* chain_len = issuer.chain_len + 1 > max_depth *)
  else VOk.

Definition is_ok (v : verdict) : bool := match v with VOk => true | _ => false end.

(* for task in more_tasks { process_ca_task(task) } *)
Fixpoint seq_res (rs : list res) : res :=
  match rs with
  | [] => Done []
  | r :: t => match r, seq_res t with
              | Done a, Done b => Done (a ++ b)
              | _, _ => OutOfFuel
              end
  end.

(* the manifest of point pt validates under the certificate's key k *)
Definition accepted (pt : point) (k : N) : bool := p_ok pt && (p_key pt =? k).

Definition here (p k : N) (parents : list N) (pt : point) (vs : list (cacert * verdict)) : list event :=
  EVisit p true (k :: parents) :: map (EPay p) (p_pay pt) ++ map (fun cv => ECert p (c_key (fst cv)) (snd cv)) vs.

(* Run::process_ca_task on the CaCert (k, parents, len) whose SIA names point p *)
Fixpoint visit (fuel : nat) (d : nat) (g : graph) (k : N) (parents : list N) (len : nat) (p : N) : res :=
  match fuel with
  | O => OutOfFuel
  | S fuel' =>
    match lookup p g with
    | None => Done [EVisit p false (k :: parents)]           (* nothing published: "no valid manifest found" *)
    | Some pt =>
      if negb (accepted pt k) then Done [EVisit p false (k :: parents)]   (* reject_point: no payload, no tasks *)
      else
        let vs := map (fun c => (c, cert_verdict d k parents len c)) (p_certs pt) in
        let tasks := filter (fun cv => is_ok (snd cv)) vs in
        match seq_res (map (fun cv => visit fuel' d g (c_key (fst cv)) (k :: parents) (S len) (c_point (fst cv))) tasks) with
        | OutOfFuel => OutOfFuel
        | Done evs => Done (here p k parents pt vs ++ evs)
        end
    end
  end.

(* Run::process: one TalTask per TAL; CaCert::root has no parent and chain_len 0 *)
Definition run (fuel : nat) (d : nat) (g : graph) (tals : list tal) : res :=
  seq_res (map (fun t => visit fuel d g (t_key t) [] 0%nat (t_point t)) tals).

(* --- the same engine WITHOUT the two checks (used only to show they are what bounds the run) --- *)
Fixpoint visit_unchecked (fuel : nat) (g : graph) (k : N) (parents : list N) (p : N) : res :=
  match fuel with
  | O => OutOfFuel
  | S fuel' =>
    match lookup p g with
    | None => Done [EVisit p false (k :: parents)]
    | Some pt =>
      if negb (accepted pt k) then Done [EVisit p false (k :: parents)]
      else
        let vs := map (fun c => (c, if c_valid c then VOk else VInvalid)) (p_certs pt) in
        let tasks := filter (fun cv => is_ok (snd cv)) vs in
        match seq_res (map (fun cv => visit_unchecked fuel' g (c_key (fst cv)) (k :: parents) (c_point (fst cv))) tasks) with
        | OutOfFuel => OutOfFuel
        | Done evs => Done (here p k parents pt vs ++ evs)
        end
    end
  end.

(* --- the pruned tree: a finite tree, and its check-free traversal --- *)
Inductive tree :=
| Node (p : N) (chain : list N) (acc : bool) (pay : list N) (certs : list (N * verdict)) (kids : list tree).

Fixpoint walk (t : tree) : list event :=
  match t with
  | Node p chain acc pay certs kids =>
      EVisit p acc chain :: map (EPay p) pay ++ map (fun kv => ECert p (fst kv) (snd kv)) certs
        ++ flat_map walk kids
  end.

(* what survives pruning, stated declaratively: valid, subject key not on the chain, depth within the limit *)
Definition keep (d : nat) (chain : list N) (len : nat) (c : cacert) : bool :=
  c_valid c && negb (existsb (N.eqb (c_key c)) chain) && Nat.ltb len d.

(* r = remaining levels below this node *)
Fixpoint prune (r : nat) (d : nat) (g : graph) (k : N) (parents : list N) (len : nat) (p : N) : tree :=
  match lookup p g with
  | None => Node p (k :: parents) false [] [] []
  | Some pt =>
    if negb (accepted pt k) then Node p (k :: parents) false [] [] []
    else
      Node p (k :: parents) true (p_pay pt)
        (map (fun c => (c_key c, cert_verdict d k parents len c)) (p_certs pt))
        (match r with
         | O => []
         | S r' => map (fun c => prune r' d g (c_key c) (k :: parents) (S len) (c_point c))
                       (filter (keep d (k :: parents) len) (p_certs pt))
         end)
  end.

Definition prune_all (d : nat) (g : graph) (tals : list tal) : list tree :=
  map (fun t => prune d d g (t_key t) [] 0%nat (t_point t)) tals.
