(* C07: the property as an executable oracle, the observation record and the case checker.
   No proofs here. *)
From Coq Require Import List NArith Bool Arith.
From RV Require Export C07.Model.
Import ListNotations.
Local Open Scope N_scope.

Record input := { i_depth : nat; i_tals : list tal; i_graph : graph }.

(* What is observed of one validation run (fresh cache):
   o_res             0 = the run returned Ok within the watchdog time, 1 = watchdog expired (no termination
                     observed), 2 = the process died (stack overflow, abort), 3 = the run returned an error
   o_pay             payload of the snapshot (one number per VRP), strictly increasing
   o_valid_points / o_rejected_points   PublicationMetrics of the run (number of accepted / rejected visits)
   o_stored          point ids that have a manifest in the store after the run, strictly increasing
   o_valid_ca / o_invalid_certs         PublicationMetrics.valid_ca_certs / invalid_certs
   o_deep            number of "CA depth overrun" messages in the process log *)
Record obs := {
  o_res : N; o_pay : list N; o_valid_points : N; o_rejected_points : N; o_stored : list N;
  o_valid_ca : N; o_invalid_certs : N; o_deep : N }.

(* sorted duplicate-free list of the elements of l *)
Fixpoint ninsert (x : N) (l : list N) : list N :=
  match l with
  | [] => [x]
  | y :: t => if x <? y then x :: l else if x =? y then l else y :: ninsert x t
  end.
Definition nset (l : list N) : list N := fold_right ninsert [] l.

Fixpoint nlist_eqb (a b : list N) : bool :=
  match a, b with
  | [], [] => true
  | x :: a', y :: b' => (x =? y) && nlist_eqb a' b'
  | _, _ => false
  end.

Definition count {A} (f : A -> bool) (l : list A) : N := N.of_nat (length (filter f l)).

(* --- read off the pruned tree (oracle side) --- *)
Fixpoint t_pay (t : tree) : list N :=
  match t with Node _ _ acc pay _ kids => pay ++ flat_map t_pay kids end.
Fixpoint t_visits (t : tree) : list (N * bool) :=
  match t with Node p _ acc _ _ kids => (p, acc) :: flat_map t_visits kids end.

(* The property, executable: the run terminated normally; the payload is exactly what the points of
   the pruned tree (chains without repeated key, at most max_ca_depth certificates below the TA)
   publish; exactly the nodes of the pruned tree were processed. *)
Definition spec_okb (i : input) (o : obs) : bool :=
  let ts := prune_all (i_depth i) (i_graph i) (i_tals i) in
  let vis := flat_map t_visits ts in
  (o_res o =? 0)
  && nlist_eqb (o_pay o) (nset (flat_map t_pay ts))
  && (o_valid_points o =? count (fun v => snd v) vis)
  && (o_rejected_points o =? count (fun v => negb (snd v)) vis)
  && nlist_eqb (o_stored o) (nset (map fst (filter (fun v => snd v) vis))).

(* --- read off the event list (model side) --- *)
Definition ev_pay (evs : list event) : list N :=
  flat_map (fun e => match e with EPay _ n => [n] | _ => [] end) evs.
Definition ev_visits (evs : list event) : list (N * bool) :=
  flat_map (fun e => match e with EVisit p acc _ => [(p, acc)] | _ => [] end) evs.
Definition ev_certs (evs : list event) : list verdict :=
  flat_map (fun e => match e with ECert _ _ v => [v] | _ => [] end) evs.

Definition obs_of_events (evs : list event) : obs :=
  let vis := ev_visits evs in
  let cs := ev_certs evs in
  {| o_res := 0;
     o_pay := nset (ev_pay evs);
     o_valid_points := count (fun v => snd v) vis;
     o_rejected_points := count (fun v => negb (snd v)) vis;
     o_stored := nset (map fst (filter (fun v => snd v) vis));
     o_valid_ca := count is_ok cs;
     o_invalid_certs := count (fun v => negb (is_ok v)) cs;
     o_deep := count (fun v => match v with VDeep => true | _ => false end) cs |}.

Definition obs_timeout : obs :=
  {| o_res := 1; o_pay := []; o_valid_points := 0; o_rejected_points := 0; o_stored := [];
     o_valid_ca := 0; o_invalid_certs := 0; o_deep := 0 |}.

(* the model run with fuel max_ca_depth + 1 (C07_bounded_unfolding: any larger fuel gives the same) *)
Definition model_obs (i : input) : obs :=
  match run (S (i_depth i)) (i_depth i) (i_graph i) (i_tals i) with
  | OutOfFuel => obs_timeout
  | Done evs => obs_of_events evs
  end.

Definition obs_eqb (a b : obs) : bool :=
  (o_res a =? o_res b) && nlist_eqb (o_pay a) (o_pay b)
  && (o_valid_points a =? o_valid_points b) && (o_rejected_points a =? o_rejected_points b)
  && nlist_eqb (o_stored a) (o_stored b)
  && (o_valid_ca a =? o_valid_ca b) && (o_invalid_certs a =? o_invalid_certs b) && (o_deep a =? o_deep b).

(* One correspondence case.  Codes: 0 = property holds on the implementation's observation and the
   model predicts every observed number; 1 = property holds but a certificate counter differs from
   the model; 2 = property violated (no termination, crash, wrong payload or wrong set of visited
   points).  c_impl with o_res = 7 marks a case the harness did not run (after repeated watchdog
   expiries): reported as code 1, never as a verdict. *)
Record case := { c_in : input; c_impl : obs }.

Definition check_case (c : case) : N :=
  if o_res (c_impl c) =? 7 then 1
  else if negb (spec_okb (c_in c) (c_impl c)) then 2
  else if obs_eqb (model_obs (c_in c)) (c_impl c) then 0 else 1.
