(* C07 — Validation terminates on deep or cyclic CA hierarchies.
   Only statements, [exact], examples, [Check] pins. *)
From Coq Require Import List NArith Bool Arith.
From RV Require Import C07.Model C07.Proofs C07.Spec C07.SpecProofs.
Import ListNotations.
Local Open Scope N_scope.

(* For EVERY graph g (cyclic or not), every depth limit d and every list of trust anchors: any fuel
   above bound(d) = d gives the result of fuel d + 1, and that result is not OutOfFuel.  The depth
   check alone bounds the unfolding (the proof never uses the loop check). *)
Theorem C07_bounded_unfolding : forall (g : graph) (d : nat) (tals : list tal),
  (forall f, (f > d)%nat -> run f d g tals = run (S d) d g tals) /\ run (S d) d g tals <> OutOfFuel.
Proof. intros. split; [intros f H; apply run_fuel; exact H|apply run_terminates]. Qed.

(* The result is the check-free traversal of the pruned tree: the finite tree whose edges are the valid
   certificates whose subject key is not on their chain and whose depth is within the limit. *)
Theorem C07_pruned_tree : forall g d tals,
  run (S d) d g tals = Done (flat_map walk (prune_all d g tals)).
Proof. exact (fun g d tals => run_pruned d g tals). Qed.

(* Exactly the points at the end of a path from a trust anchor are processed (as accepted or rejected). *)
Theorem C07_visits_exact : forall g d tals evs q a ch, run (S d) d g tals = Done evs ->
  (In (EVisit q a ch) evs <-> Reach d g tals q ch /\ a = acc_of g q ch).
Proof.
  intros g d tals evs q a ch H. rewrite run_pruned in H. inversion H; subst evs. apply visits_exact.
Qed.

(* Exactly the payload of accepted points at the end of such a path is produced. *)
Theorem C07_payload_exact : forall g d tals evs q n, run (S d) d g tals = Done evs ->
  (In (EPay q n) evs <->
   exists ch pt, Reach d g tals q ch /\ acc_of g q ch = true /\ lookup q g = Some pt /\ In n (p_pay pt)).
Proof.
  intros g d tals evs q n H. rewrite run_pruned in H. inversion H; subst evs. apply payload_exact.
Qed.

(* Nothing deeper than the limit and nothing repeating a key on its chain is ever processed. *)
Theorem C07_deep_and_loops_contribute_nothing : forall g d tals evs q a ch,
  run (S d) d g tals = Done evs -> In (EVisit q a ch) evs ->
  NoDup ch /\ (length ch <= S d)%nat.
Proof.
  intros g d tals evs q a ch H Hin. eapply C07_visits_exact in Hin; [|exact H].
  destruct Hin as [HR _]. eapply reach_bounded; eauto.
Qed.

(* the checks are what bounds the run: without them a two-point cycle exhausts every fuel *)
Theorem C07_unchecked_cycle_diverges : forall f, visit_unchecked f cyc2 10 [] 0 = OutOfFuel.
Proof. intros f. apply (unchecked_diverges f []). Qed.

Theorem C07_model_satisfies_spec : forall i, spec_okb i (model_obs i) = true.
Proof. exact model_satisfies_spec. Qed.

(* Non-vacuity: the same two-point cycle with limit 3 terminates; both points are accepted once,
   the certificate back to the root's key is a loop; with limit 0 the child is too deep. *)
Example C07_nonvacuous :
  run 4 3 cyc2 [{| t_key := 10; t_point := 0 |}]
  = Done [EVisit 0 true [10]; EPay 0 1; ECert 0 11 VOk;
          EVisit 1 true [11; 10]; EPay 1 2; ECert 1 10 VLoop]
  /\ run 1 0 cyc2 [{| t_key := 10; t_point := 0 |}]
  = Done [EVisit 0 true [10]; EPay 0 1; ECert 0 11 VDeep]
  /\ run 1 3 cyc2 [{| t_key := 10; t_point := 0 |}] = OutOfFuel
  /\ check_case {| c_in := {| i_depth := 3; i_tals := [{| t_key := 10; t_point := 0 |}]; i_graph := cyc2 |};
                   c_impl := {| o_res := 0; o_pay := [1; 2]; o_valid_points := 2; o_rejected_points := 0;
                                o_stored := [0; 1]; o_valid_ca := 1; o_invalid_certs := 1; o_deep := 0 |} |} = 0
  /\ check_case {| c_in := {| i_depth := 3; i_tals := [{| t_key := 10; t_point := 0 |}]; i_graph := cyc2 |};
                   c_impl := {| o_res := 1; o_pay := []; o_valid_points := 0; o_rejected_points := 0;
                                o_stored := []; o_valid_ca := 0; o_invalid_certs := 0; o_deep := 0 |} |} = 2.
Proof. repeat split; vm_compute; reflexivity. Qed.

Check C07_bounded_unfolding : forall (g : graph) (d : nat) (tals : list tal),
  (forall f, (f > d)%nat -> run f d g tals = run (S d) d g tals) /\ run (S d) d g tals <> OutOfFuel.
Check C07_pruned_tree : forall g d tals, run (S d) d g tals = Done (flat_map walk (prune_all d g tals)).
Check C07_visits_exact : forall g d tals evs q a ch, run (S d) d g tals = Done evs ->
  (In (EVisit q a ch) evs <-> Reach d g tals q ch /\ a = acc_of g q ch).
Check C07_payload_exact : forall g d tals evs q n, run (S d) d g tals = Done evs ->
  (In (EPay q n) evs <->
   exists ch pt, Reach d g tals q ch /\ acc_of g q ch = true /\ lookup q g = Some pt /\ In n (p_pay pt)).
Check C07_deep_and_loops_contribute_nothing : forall g d tals evs q a ch,
  run (S d) d g tals = Done evs -> In (EVisit q a ch) evs -> NoDup ch /\ (length ch <= S d)%nat.
Check C07_model_satisfies_spec : forall i, spec_okb i (model_obs i) = true.
