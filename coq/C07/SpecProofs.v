(* C07: the model satisfies the executable oracle on every input. *)
From Coq Require Import List NArith Bool Arith Lia.
From RV Require Import C07.Model C07.Proofs C07.Spec.
Import ListNotations.
Local Open Scope N_scope.

Lemma nlist_eqb_refl : forall l, nlist_eqb l l = true.
Proof. induction l as [|x l IH]; cbn [nlist_eqb]; [reflexivity|]. rewrite N.eqb_refl, IH. reflexivity. Qed.

Lemma ev_pay_pay : forall p l, ev_pay (map (EPay p) l) = l.
Proof. induction l as [|x l IH]; [reflexivity|]. unfold ev_pay in *. cbn [map flat_map app]. rewrite IH. reflexivity. Qed.
Lemma ev_pay_cert : forall p (l : list (N * verdict)), ev_pay (map (fun kv => ECert p (fst kv) (snd kv)) l) = [].
Proof. induction l as [|x l IH]; [reflexivity|]. unfold ev_pay in *. cbn [map flat_map app]. exact IH. Qed.
Lemma ev_visits_pay : forall p l, ev_visits (map (EPay p) l) = [].
Proof. induction l as [|x l IH]; [reflexivity|]. unfold ev_visits in *. cbn [map flat_map app]. exact IH. Qed.
Lemma ev_visits_cert : forall p (l : list (N * verdict)), ev_visits (map (fun kv => ECert p (fst kv) (snd kv)) l) = [].
Proof. induction l as [|x l IH]; [reflexivity|]. unfold ev_visits in *. cbn [map flat_map app]. exact IH. Qed.

Lemma ev_pay_walk : forall t, ev_pay (walk t) = t_pay t.
Proof.
  induction t as [p ch acc pay certs kids IH] using tree_ind'.
  cbn [walk t_pay]. unfold ev_pay at 1. cbn [flat_map app]. rewrite !flat_map_app.
  fold (ev_pay (map (EPay p) pay)). fold (ev_pay (map (fun kv : N * verdict => ECert p (fst kv) (snd kv)) certs)).
  rewrite ev_pay_pay, ev_pay_cert. cbn [app]. f_equal.
  rewrite flat_map_flat_map. apply flat_map_ext_Forall. exact IH.
Qed.

Lemma ev_visits_walk : forall t, ev_visits (walk t) = t_visits t.
Proof.
  induction t as [p ch acc pay certs kids IH] using tree_ind'.
  cbn [walk t_visits]. unfold ev_visits at 1. cbn [flat_map app]. rewrite !flat_map_app.
  fold (ev_visits (map (EPay p) pay)). fold (ev_visits (map (fun kv : N * verdict => ECert p (fst kv) (snd kv)) certs)).
  rewrite ev_visits_pay, ev_visits_cert. cbn [app]. f_equal.
  rewrite flat_map_flat_map. apply flat_map_ext_Forall. exact IH.
Qed.

Lemma ev_pay_trees : forall ts, ev_pay (flat_map walk ts) = flat_map t_pay ts.
Proof.
  intros. unfold ev_pay. rewrite flat_map_flat_map. apply flat_map_ext_Forall.
  apply Forall_forall. intros t _. apply ev_pay_walk.
Qed.
Lemma ev_visits_trees : forall ts, ev_visits (flat_map walk ts) = flat_map t_visits ts.
Proof.
  intros. unfold ev_visits. rewrite flat_map_flat_map. apply flat_map_ext_Forall.
  apply Forall_forall. intros t _. apply ev_visits_walk.
Qed.

Theorem model_satisfies_spec : forall i, spec_okb i (model_obs i) = true.
Proof.
  intros i. unfold model_obs. rewrite run_pruned. unfold spec_okb, obs_of_events.
  cbn [o_res o_pay o_valid_points o_rejected_points o_stored].
  rewrite ev_pay_trees, ev_visits_trees, !nlist_eqb_refl, !N.eqb_refl. reflexivity.
Qed.

(* the model never reports a timeout *)
Theorem model_obs_terminates : forall i, o_res (model_obs i) = 0.
Proof. intros i. unfold model_obs. rewrite run_pruned. reflexivity. Qed.
