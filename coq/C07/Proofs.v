(* C07: lemmas.  Fuel irrelevance, equality with the check-free walk of the pruned tree,
   exact characterisation of what is visited by paths of the graph. *)
From Coq Require Import List NArith Bool Arith Lia.
From RV Require Import C07.Model.
Import ListNotations.
Local Open Scope N_scope.

(* ---------- small facts ---------- *)

Lemma seq_res_ext : forall {A} (f h : A -> res) l,
  (forall x, In x l -> f x = h x) -> seq_res (map f l) = seq_res (map h l).
Proof.
  induction l as [|x l IH]; intros Hx; cbn [map seq_res]; [reflexivity|].
  rewrite (Hx x (or_introl eq_refl)), IH; [reflexivity|].
  intros y Hy. apply Hx. right. exact Hy.
Qed.

Lemma seq_res_done : forall {A} (h : A -> list event) l,
  seq_res (map (fun x => Done (h x)) l) = Done (flat_map h l).
Proof.
  induction l as [|x l IH]; cbn [map seq_res flat_map]; [reflexivity|]. rewrite IH. reflexivity.
Qed.

Lemma check_loop_existsb : forall chain k, check_loop chain k = existsb (N.eqb k) chain.
Proof.
  induction chain as [|x chain IH]; intros k; cbn [check_loop existsb]; [reflexivity|].
  rewrite (N.eqb_sym k x). destruct (x =? k); [reflexivity|]. apply IH.
Qed.

Lemma existsb_eqb_In : forall k chain, existsb (N.eqb k) chain = true <-> In k chain.
Proof.
  intros k chain. rewrite existsb_exists. split.
  - intros [x [Hin He]]. apply N.eqb_eq in He. subst. exact Hin.
  - intros H. exists k. split; [exact H|apply N.eqb_refl].
Qed.

(* the engine's three checks, in its order, keep exactly what the declarative filter keeps *)
Lemma is_ok_verdict : forall d k parents len c,
  is_ok (cert_verdict d k parents len c) = keep d (k :: parents) len c.
Proof.
  intros. unfold cert_verdict, keep. rewrite check_loop_existsb.
  destruct (existsb (N.eqb (c_key c)) (k :: parents)); cbn [negb andb is_ok].
  - rewrite andb_false_r. reflexivity.
  - destruct (c_valid c); cbn [negb andb is_ok]; [|reflexivity].
    destruct (Nat.ltb_spec d (S len)) as [H|H]; destruct (Nat.ltb_spec len d) as [H'|H']; cbn [is_ok]; try reflexivity; lia.
Qed.

Lemma keep_depth : forall d chain len c, keep d chain len c = true -> (len < d)%nat.
Proof.
  intros d chain len c H. unfold keep in H. apply andb_true_iff in H. destruct H as [_ H].
  apply Nat.ltb_lt in H. exact H.
Qed.

Lemma tasks_filter : forall d k parents len (cs : list cacert),
  filter (fun cv : cacert * verdict => is_ok (snd cv)) (map (fun c => (c, cert_verdict d k parents len c)) cs)
  = map (fun c => (c, cert_verdict d k parents len c)) (filter (keep d (k :: parents) len) cs).
Proof.
  induction cs as [|c cs IH]; cbn [map filter snd]; [reflexivity|].
  rewrite is_ok_verdict. destruct (keep d (k :: parents) len c); cbn [map]; rewrite IH; reflexivity.
Qed.

Lemma tasks_nil : forall d k parents len (cs : list cacert), (d <= len)%nat ->
  filter (keep d (k :: parents) len) cs = [].
Proof.
  induction cs as [|c cs IH]; intros H; cbn [filter]; [reflexivity|].
  destruct (keep d (k :: parents) len c) eqn:E; [apply keep_depth in E; lia|]. apply IH. exact H.
Qed.

(* ---------- fuel irrelevance: the depth check alone bounds the unfolding ---------- *)

Lemma visit_fuel : forall m d g f k parents len p,
  (d - len <= m)%nat -> (S m <= f)%nat ->
  visit f d g k parents len p = visit (S m) d g k parents len p.
Proof.
  induction m as [|m IH]; intros d g f k parents len p Hm Hf.
  - destruct f as [|f]; [lia|]. cbn [visit].
    destruct (lookup p g) as [pt|]; [|reflexivity].
    destruct (negb (accepted pt k)); [reflexivity|].
    rewrite tasks_filter, tasks_nil by lia. reflexivity.
  - destruct f as [|f]; [lia|]. cbn [visit].
    destruct (lookup p g) as [pt|]; [|reflexivity].
    destruct (negb (accepted pt k)); [reflexivity|].
    rewrite (seq_res_ext
      (fun cv => visit f d g (c_key (fst cv)) (k :: parents) (S len) (c_point (fst cv)))
      (fun cv => visit (S m) d g (c_key (fst cv)) (k :: parents) (S len) (c_point (fst cv)))); [reflexivity|].
    intros cv _. apply IH; lia.
Qed.

Lemma visit_pruned : forall m d g k parents len p,
  (d - len <= m)%nat ->
  visit (S m) d g k parents len p = Done (walk (prune m d g k parents len p)).
Proof.
  induction m as [|m IH]; intros d g k parents len p Hm; cbn [visit prune].
  - destruct (lookup p g) as [pt|]; [|reflexivity].
    destruct (negb (accepted pt k)); [reflexivity|].
    rewrite tasks_filter, tasks_nil by lia. unfold here. cbn [map seq_res walk flat_map].
    rewrite !map_map. cbn [fst snd]. rewrite !app_nil_r. reflexivity.
  - destruct (lookup p g) as [pt|]; [|reflexivity].
    destruct (negb (accepted pt k)); [reflexivity|].
    rewrite tasks_filter, map_map. cbn [fst snd].
    rewrite (seq_res_ext _ (fun c => Done (walk (prune m d g (c_key c) (k :: parents) (S len) (c_point c))))).
    2:{ intros c _. apply IH. lia. }
    rewrite seq_res_done. unfold here. cbn [walk]. rewrite !map_map. cbn [fst snd].
    rewrite (flat_map_concat_map walk), map_map, <- flat_map_concat_map.
    cbn [app]. rewrite <- app_assoc. reflexivity.
Qed.

Lemma run_fuel : forall d g tals f, (d < f)%nat -> run f d g tals = run (S d) d g tals.
Proof.
  intros. unfold run. apply seq_res_ext. intros t _. apply visit_fuel; lia.
Qed.

Lemma run_pruned : forall d g tals, run (S d) d g tals = Done (flat_map walk (prune_all d g tals)).
Proof.
  intros. unfold run, prune_all.
  rewrite (seq_res_ext _ (fun t => Done (walk (prune d d g (t_key t) [] 0%nat (t_point t))))).
  2:{ intros t _. apply visit_pruned. lia. }
  rewrite seq_res_done, flat_map_concat_map, flat_map_concat_map, map_map. reflexivity.
Qed.

Lemma run_terminates : forall d g tals, run (S d) d g tals <> OutOfFuel.
Proof. intros. rewrite run_pruned. discriminate. Qed.

(* ---------- the tree as a list of node records ---------- *)

Section TreeInd.
Variable P : tree -> Prop.
Hypothesis H : forall p ch acc pay certs kids, Forall P kids -> P (Node p ch acc pay certs kids).
Fixpoint tree_ind' (t : tree) : P t :=
  match t with
  | Node p ch acc pay certs kids =>
      H p ch acc pay certs kids
        ((fix go (l : list tree) : Forall P l :=
            match l with [] => Forall_nil _ | x :: l' => Forall_cons _ (tree_ind' x) (go l') end) kids)
  end.
End TreeInd.

Definition info := (N * list N * bool * list N * list (N * verdict))%type.

Definition local (i : info) : list event :=
  let '(p, ch, acc, pay, certs) := i in
  EVisit p acc ch :: map (EPay p) pay ++ map (fun kv => ECert p (fst kv) (snd kv)) certs.

Fixpoint subnodes (t : tree) : list info :=
  match t with Node p ch acc pay certs kids => (p, ch, acc, pay, certs) :: flat_map subnodes kids end.

Lemma flat_map_flat_map : forall {A B C} (f : A -> list B) (h : B -> list C) l,
  flat_map h (flat_map f l) = flat_map (fun x => flat_map h (f x)) l.
Proof.
  induction l as [|x l IH]; cbn [flat_map]; [reflexivity|]. rewrite flat_map_app, IH. reflexivity.
Qed.

Lemma flat_map_ext_Forall : forall {A B} (f h : A -> list B) l,
  Forall (fun x => f x = h x) l -> flat_map f l = flat_map h l.
Proof.
  induction 1 as [|x l Hx _ IH]; cbn [flat_map]; [reflexivity|]. rewrite Hx, IH. reflexivity.
Qed.

Lemma walk_subnodes : forall t, walk t = flat_map local (subnodes t).
Proof.
  induction t as [p ch acc pay certs kids IH] using tree_ind'.
  cbn [walk subnodes flat_map local]. rewrite flat_map_flat_map.
  rewrite (flat_map_ext_Forall _ _ _ IH). cbn [app]. rewrite <- app_assoc. reflexivity.
Qed.

(* the node record of a point reached with (k, parents, len): independent of the remaining levels *)
Definition info_of (d : nat) (g : graph) (k : N) (parents : list N) (len : nat) (p : N) : info :=
  match lookup p g with
  | None => (p, k :: parents, false, [], [])
  | Some pt =>
    if negb (accepted pt k) then (p, k :: parents, false, [], [])
    else (p, k :: parents, true, p_pay pt,
          map (fun c => (c_key c, cert_verdict d k parents len c)) (p_certs pt))
  end.

(* ---------- paths of the graph ---------- *)

(* Desc d g p ch q ch': the certificate chain ch' naming point q extends the chain ch naming p by
   certificates each of which is valid, found in an accepted point, certifies a key not yet on the
   chain, and is at most d below the trust anchor. *)
Inductive Desc (d : nat) (g : graph) : N -> list N -> N -> list N -> Prop :=
| desc_refl : forall p ch, Desc d g p ch p ch
| desc_step : forall p ch k parents pt c q ch',
    ch = k :: parents -> lookup p g = Some pt -> accepted pt k = true ->
    In c (p_certs pt) -> c_valid c = true -> ~ In (c_key c) ch -> (length ch <= d)%nat ->
    Desc d g (c_point c) (c_key c :: ch) q ch' ->
    Desc d g p ch q ch'.

Lemma keep_iff : forall d ch len c, len = pred (length ch) -> ch <> [] ->
  keep d ch len c = true <-> c_valid c = true /\ ~ In (c_key c) ch /\ (length ch <= d)%nat.
Proof.
  intros d ch len c Hlen Hne. unfold keep. rewrite !andb_true_iff, negb_true_iff, Nat.ltb_lt.
  rewrite <- (not_true_iff_false (existsb _ _)), existsb_eqb_In.
  destruct ch as [|x ch]; [contradiction|]. cbn [length pred] in *. subst len. intuition lia.
Qed.

Lemma subnodes_prune_sound : forall r d g k parents len p i,
  len = length parents ->
  In i (subnodes (prune r d g k parents len p)) ->
  exists q kq parq, Desc d g p (k :: parents) q (kq :: parq) /\ i = info_of d g kq parq (length parq) q.
Proof.
  induction r as [|r IH]; intros d g k parents len p i Hlen Hin.
  - exists p, k, parents. split; [constructor|]. subst len.
    unfold info_of. cbn [prune] in Hin.
    destruct (lookup p g) as [pt|]; [destruct (negb (accepted pt k))|];
      cbn [subnodes flat_map In] in Hin; destruct Hin as [E|[]]; symmetry; exact E.
  - cbn [prune] in Hin. destruct (lookup p g) as [pt|] eqn:El.
    2:{ cbn [subnodes flat_map In] in Hin. destruct Hin as [E|[]].
        exists p, k, parents. split; [constructor|]. unfold info_of. rewrite El. subst. reflexivity. }
    destruct (negb (accepted pt k)) eqn:Ea.
    { cbn [subnodes flat_map In] in Hin. destruct Hin as [E|[]].
      exists p, k, parents. split; [constructor|]. unfold info_of. rewrite El, Ea. subst. reflexivity. }
    cbn [subnodes In] in Hin. destruct Hin as [E|Hin].
    { exists p, k, parents. split; [constructor|]. unfold info_of. rewrite El, Ea. subst. reflexivity. }
    rewrite in_flat_map in Hin. destruct Hin as [kid [Hkid Hi]].
    rewrite in_map_iff in Hkid. destruct Hkid as [c [Ekid Hc]]. subst kid.
    rewrite filter_In in Hc. destruct Hc as [Hc Hkeep].
    apply IH in Hi; [|cbn [length]; lia].
    destruct Hi as [q [kq [parq [HD Ei]]]].
    exists q, kq, parq. split; [|exact Ei].
    apply (keep_iff d (k :: parents) len c) in Hkeep; [|subst; reflexivity|discriminate].
    destruct Hkeep as [Hv [Hn Hl]].
    apply negb_false_iff in Ea.
    eapply desc_step; eauto.
Qed.

Lemma subnodes_prune_complete : forall d g p ch q ch',
  Desc d g p ch q ch' ->
  forall r k parents kq parq, ch = k :: parents -> ch' = kq :: parq -> (d - length parents <= r)%nat ->
  In (info_of d g kq parq (length parq) q) (subnodes (prune r d g k parents (length parents) p)).
Proof.
  induction 1 as [p ch|p ch k0 parents0 pt c q ch' Ech El Ea Hc Hv Hn Hlen HD IH];
    intros r k parents kq parq E1 E2 Hr.
  - subst ch. inversion E2; subst kq parq. unfold info_of. destruct r; cbn [prune];
      (destruct (lookup p g) as [pt|]; [destruct (negb (accepted pt k))|]); cbn [subnodes In]; left; reflexivity.
  - subst ch. inversion E1; subst k0 parents0. subst ch'.
    cbn [length] in Hlen.
    destruct r as [|r]; [lia|].
    cbn [prune]. rewrite El. rewrite Ea. cbn [negb subnodes In]. right.
    rewrite in_flat_map.
    exists (prune r d g (c_key c) (k :: parents) (S (length parents)) (c_point c)). split.
    + rewrite in_map_iff. exists c. split; [reflexivity|]. rewrite filter_In. split; [exact Hc|].
      apply keep_iff; [reflexivity|discriminate|]. cbn [length]. auto.
    + change (S (length parents)) with (length (k :: parents)).
      apply IH; [reflexivity|reflexivity|cbn [length]; lia].
Qed.

(* ---------- what is visited, exactly ---------- *)

Definition Reach (d : nat) (g : graph) (tals : list tal) (q : N) (ch : list N) : Prop :=
  exists t, In t tals /\ Desc d g (t_point t) [t_key t] q ch.

Definition acc_of (g : graph) (q : N) (ch : list N) : bool :=
  match ch with
  | [] => false
  | k :: _ => match lookup q g with Some pt => accepted pt k | None => false end
  end.

Lemma Desc_nonempty : forall d g p ch q ch', Desc d g p ch q ch' -> ch <> [] -> ch' <> [].
Proof. induction 1; intros Hne; [exact Hne|]. apply IHDesc. discriminate. Qed.

Lemma run_nodes : forall d g tals i,
  In i (flat_map subnodes (prune_all d g tals)) <->
  exists q kq parq, Reach d g tals q (kq :: parq) /\ i = info_of d g kq parq (length parq) q.
Proof.
  intros d g tals i. unfold prune_all. rewrite in_flat_map. split.
  - intros [tr [Htr Hi]]. rewrite in_map_iff in Htr. destruct Htr as [t [Et Ht]]. subst tr.
    apply subnodes_prune_sound in Hi; [|reflexivity].
    destruct Hi as [q [kq [parq [HD Ei]]]]. exists q, kq, parq. split; [|exact Ei]. exists t. auto.
  - intros [q [kq [parq [[t [Ht HD]] Ei]]]]. subst i.
    exists (prune d d g (t_key t) [] 0%nat (t_point t)). split.
    + rewrite in_map_iff. exists t. auto.
    + apply (subnodes_prune_complete d g _ _ _ _ HD d (t_key t) [] kq parq); cbn [length]; auto; lia.
Qed.

Lemma local_info_visit : forall d g k parents len p q a ch,
  In (EVisit q a ch) (local (info_of d g k parents len p)) <-> q = p /\ ch = k :: parents /\ a = acc_of g p (k :: parents).
Proof.
  intros. unfold info_of, acc_of.
  assert (Hno : forall pp pay (certs : list (N * verdict)),
            ~ In (EVisit q a ch) (map (EPay pp) pay ++ map (fun kv => ECert pp (fst kv) (snd kv)) certs)).
  { intros pp pay certs Hin. apply in_app_or in Hin. destruct Hin as [Hin|Hin];
      apply in_map_iff in Hin; destruct Hin as [x [E _]]; discriminate. }
  destruct (lookup p g) as [pt|]; [destruct (accepted pt k) eqn:Ea|]; cbn [negb local In app map].
  - split.
    + intros [E|Hin]; [inversion E; auto|exfalso; eapply Hno; eauto].
    + intros [-> [-> ->]]. left. reflexivity.
  - split; [intros [E|[]]; inversion E; auto|intros [-> [-> ->]]; left; reflexivity].
  - split; [intros [E|[]]; inversion E; auto|intros [-> [-> ->]]; left; reflexivity].
Qed.

Lemma local_info_pay : forall d g k parents len p q n,
  In (EPay q n) (local (info_of d g k parents len p)) <->
  q = p /\ exists pt, lookup p g = Some pt /\ accepted pt k = true /\ In n (p_pay pt).
Proof.
  intros. unfold info_of.
  destruct (lookup p g) as [pt|]; [destruct (accepted pt k) eqn:Ea|]; cbn [negb local In app map].
  - split.
    + intros [E|Hin]; [discriminate|]. apply in_app_or in Hin. destruct Hin as [Hin|Hin].
      * apply in_map_iff in Hin. destruct Hin as [x [E Hx]]. inversion E; subst. split; [reflexivity|]. exists pt. auto.
      * apply in_map_iff in Hin. destruct Hin as [x [E _]]. discriminate.
    + intros [-> [pt' [E [_ Hn]]]]. inversion E; subst pt'. right. apply in_or_app. left. apply in_map. exact Hn.
  - split; [intros [E|[]]; discriminate|]. intros [_ [pt' [E [Ha _]]]]. inversion E; subst. congruence.
  - split; [intros [E|[]]; discriminate|]. intros [_ [pt' [E _]]]. discriminate.
Qed.

Theorem visits_exact : forall d g tals q a ch,
  In (EVisit q a ch) (flat_map walk (prune_all d g tals)) <->
  Reach d g tals q ch /\ a = acc_of g q ch.
Proof.
  intros. rewrite (flat_map_ext_Forall walk (fun t => flat_map local (subnodes t))).
  2:{ apply Forall_forall. intros t _. apply walk_subnodes. }
  rewrite <- flat_map_flat_map, in_flat_map. split.
  - intros [i [Hi He]]. apply run_nodes in Hi. destruct Hi as [q' [kq [parq [HR Ei]]]]. subst i.
    apply local_info_visit in He. destruct He as [-> [-> ->]]. auto.
  - intros [HR ->]. destruct ch as [|kq parq].
    { exfalso. destruct HR as [t [_ HD]]. eapply Desc_nonempty; eauto. discriminate. }
    exists (info_of d g kq parq (length parq) q). split.
    + apply run_nodes. exists q, kq, parq. auto.
    + apply local_info_visit. auto.
Qed.

Theorem payload_exact : forall d g tals q n,
  In (EPay q n) (flat_map walk (prune_all d g tals)) <->
  exists ch pt, Reach d g tals q ch /\ acc_of g q ch = true /\ lookup q g = Some pt /\ In n (p_pay pt).
Proof.
  intros. rewrite (flat_map_ext_Forall walk (fun t => flat_map local (subnodes t))).
  2:{ apply Forall_forall. intros t _. apply walk_subnodes. }
  rewrite <- flat_map_flat_map, in_flat_map. split.
  - intros [i [Hi He]]. apply run_nodes in Hi. destruct Hi as [q' [kq [parq [HR Ei]]]]. subst i.
    apply local_info_pay in He. destruct He as [-> [pt [El [Ea Hn]]]].
    exists (kq :: parq), pt. unfold acc_of. rewrite El. auto.
  - intros [ch [pt [HR [Ha [El Hn]]]]]. destruct ch as [|kq parq]; [discriminate|].
    exists (info_of d g kq parq (length parq) q). split.
    + apply run_nodes. exists q, kq, parq. auto.
    + apply local_info_pay. split; [reflexivity|]. exists pt. unfold acc_of in Ha. rewrite El in Ha. auto.
Qed.

(* ---------- every visited chain is short and repeats no key ---------- *)

Lemma Desc_bounded : forall d g p ch q ch', Desc d g p ch q ch' ->
  NoDup ch -> (length ch <= S d)%nat -> NoDup ch' /\ (length ch' <= S d)%nat.
Proof.
  induction 1 as [|p ch k parents pt c q ch' Ech El Ea Hc Hv Hn Hlen HD IH]; intros Hnd Hl; [auto|].
  apply IH; [constructor; assumption|cbn [length]; lia].
Qed.

Theorem reach_bounded : forall d g tals q ch, Reach d g tals q ch ->
  NoDup ch /\ (length ch <= S d)%nat.
Proof.
  intros d g tals q ch [t [_ HD]]. eapply Desc_bounded; eauto.
  - constructor; [intros []|constructor].
  - cbn [length]. lia.
Qed.

(* ---------- without the checks a cycle exhausts any fuel ---------- *)

Definition cyc2 : graph :=
  [(0, {| p_key := 10; p_ok := true; p_pay := [1]; p_certs := [{| c_key := 11; c_point := 1; c_valid := true |}] |});
   (1, {| p_key := 11; p_ok := true; p_pay := [2]; p_certs := [{| c_key := 10; c_point := 0; c_valid := true |}] |})].

Lemma unchecked_diverges : forall f parents,
  visit_unchecked f cyc2 10 parents 0 = OutOfFuel /\ visit_unchecked f cyc2 11 parents 1 = OutOfFuel.
Proof.
  induction f as [|f IH]; intros parents; [split; reflexivity|].
  split; cbn [visit_unchecked cyc2 lookup N.eqb Pos.eqb accepted p_ok p_key andb negb p_certs map c_valid filter snd is_ok
              seq_res fst c_key c_point].
  - destruct (IH (10 :: parents)) as [_ H]. rewrite H. reflexivity.
  - destruct (IH (11 :: parents)) as [H _]. rewrite H. reflexivity.
Qed.
