(* C16 — HTTP 304 only when the client already has the served version. *)
From Coq Require Import List NArith ZArith Bool.
From RV Require Import Base.KMap Base.Serial32 C11.Model C11.Proofs C13.Model C13.Proofs C15.Model C15.Proofs C15.Spec C15.SpecProofs.
Import ListNotations.
Local Open Scope N_scope.

(* Validators (ETag serial e, Last-Modified second lm) handed out in any reachable state s1; then ANY
   sequence of validation-thread steps (fewer than 2^32 version changes, so serials do not recur);
   then a conditional request carrying the ETag and/or the date: if the answer is 304 Not Modified,
   no version change happened in between - same serial, same data set. *)
Theorem C16_not_modified_only_for_served_version : forall s1 w1 ops e lm data inm ims src e2,
  SReach s1 w1 -> Forall wop_ok ops -> nchg s1 ops < M32 ->
  respond s1 (PJson None None None) = AJson200 e lm data ->
  (inm = None \/ inm = Some e) -> (ims = None \/ ims = Some lm) ->
  respond (run_ops s1 ops) (PJson inm ims src) = AJson304 e2 ->
  nchg s1 ops = 0 /\ e2 = e /\ current (hst (run_ops s1 ops)) = current (hst s1).
Proof. exact not_modified_only_for_served_version. Qed.

(* the creation time moves to a later second at every version change and never moves back *)
Theorem C16_created_monotone : forall s ops c, created s = Some c -> is_active (hst s) = true ->
  exists c', created (run_ops s ops) = Some c' /\ (secs c <= secs c')%Z /\ (0 < nchg s ops -> (secs c < secs c')%Z).
Proof. exact created_run. Qed.

(* non-vacuity: a 304 does happen for current validators, and the old validators fail in the gap
   between install and mark_update_done even when the old creation time is a whole second *)
(* the executable oracle of the shared server stream (C15/Spec.v) accepts what the model answers at
   every gap of every cycle of every schedule (see C15/SpecProofs.v for the hypothesis on probes) *)
Theorem C16_model_satisfies_spec : forall c, c_keep c < H31 -> N.of_nat (length (c_cycles c)) <= M32 ->
  inputs_ok c = true -> probes_ok (srv_init (c_keep c)) (c_cycles c) -> spec_okb (model_case c) = true.
Proof. exact model_satisfies_spec. Qed.

Example C16_nonvacuous :
  let a := {| origins := [(1, tt)]; rkeys := []; aspas := [] |} in
  let b := {| origins := [(2, tt)]; rkeys := []; aspas := [] |} in
  let s1 := run_ops (srv_init 3) [OInstall a 5000000000%Z; OMark 6000000000%Z; ONotify true] in
  respond s1 (PJson None None None) = AJson200 0 6%Z [(1, tt)] /\
  respond s1 (PJson None (Some 6%Z) (Some 0)) = AJson304 0 /\
  respond (run_ops s1 [OInstall b 6000000001%Z]) (PJson None (Some 6%Z) (Some 0)) = AJson200 1 7%Z [(2, tt)].
Proof. repeat split. Qed.

Check C16_not_modified_only_for_served_version.
