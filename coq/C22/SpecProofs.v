(* C22: the executable oracles of Spec.v hold of the model on every input. *)
From Coq Require Import List NArith Lia Bool.
From RV Require Import Base.Json Base.JsonDoc C22.Model C22.Spec C22.Proofs.
Import ListNotations.
Local Open Scope N_scope.

Lemma lists_eqb_refl l : lists_eqb l l = true.
Proof. induction l as [|x l IH]; [reflexivity|]. cbn [lists_eqb]. rewrite list_eqb_refl, IH. reflexivity. Qed.

Lemma labels_eqb_refl l : labels_eqb l l = true.
Proof. induction l as [|[n v] l IH]; [reflexivity|]. cbn [labels_eqb]. rewrite !list_eqb_refl, IH. reflexivity. Qed.

Lemma pline_eqb_refl p : pline_eqb p p = true.
Proof. destruct p; cbn [pline_eqb]; rewrite ?list_eqb_refl, ?labels_eqb_refl; reflexivity. Qed.

(* stream 1 *)
Theorem escape_model_satisfies_spec s : spec_escape_okb s (model_eobs s) = true.
Proof.
  unfold spec_escape_okb, model_eobs. cbn [o_json o_line]. unfold json_str.
  rewrite json_unescape_escape, list_eqb_refl, json_escape_body_ok.
  change ([34] ++ json_escape s ++ [34]) with (jprint 0 (JStr s)).
  rewrite (jprint_parses (JStr s) 0 eq_refl), list_eqb_refl.
  rewrite print_line_body.
  assert (Hwf : pline_wfb (sample_of s) = true) by reflexivity.
  rewrite (split_lines_line [] (line_body (sample_of s)) [] (line_body_no_nl _ Hwf)).
  cbn [split_lines rev app]. rewrite (parse_line_body _ Hwf), pline_eqb_refl. reflexivity.
Qed.

Theorem escape_model_checks s :
  check_ecase {| e_in := s; e_impl := model_eobs s; e_side := true |} = 0.
Proof.
  unfold check_ecase. cbn [e_in e_impl e_side]. rewrite escape_model_satisfies_spec.
  unfold eobs_eqb. rewrite !list_eqb_refl. reflexivity.
Qed.

(* stream 2: any pair of documents written by the modelled printers, with
   the TAL names / repository URIs used consistently in both *)
Definition docs_exp (ms : list (list N * json)) : dexp :=
  {| x_tals := jkeys (ofield k_tals (JObj ms));
     x_repos := jkeys (ofield k_repositories (JObj ms));
     x_msgs := doc_msgs (JObj ms) |}.

Theorem docs_model_satisfies_spec ms ps :
  forallb (fun kv => jwfb (snd kv)) ms = true ->
  forallb pline_wfb ps = true ->
  label_values m_ta l_name ps = jkeys (ofield k_tals (JObj ms)) ->
  label_values m_repo s_uri ps = jkeys (ofield k_repositories (JObj ms)) ->
  let o := {| o_status := jbuild ms; o_metrics := prom_print ps |} in
  spec_docs_okb (docs_exp ms) o = true /\ docs_in_model o = true.
Proof.
  intros Hms Hps Ht Hr o. unfold spec_docs_okb, docs_in_model, o, docs_exp.
  cbn [o_status o_metrics x_tals x_repos x_msgs].
  rewrite (jbuild_parses ms Hms), (prom_parse_print ps Hps), Ht, Hr.
  rewrite !lists_eqb_refl, !list_eqb_refl. split; reflexivity.
Qed.

(* the escaper before the fix (only quote and backslash) and the label
   writer before the fix (nothing escaped) *)
Definition old_esc_byte (b : N) : list N := if (b =? 34) || (b =? 92) then [92; b] else [b].
Definition old_json_str (s : list N) : list N := flat_map old_esc_byte s.
Definition old_model_eobs (s : list N) : eobs :=
  {| o_json := old_json_str s;
     o_line := s_verif ++ [123] ++ s_uri ++ [61; 34] ++ s ++ [34; 44; 32] ++ s_state ++ [61; 34] ++ s_valid ++ [34; 125; 32; 49; 10] |}.

Theorem prefix_refuted :
  (exists s, spec_escape_okb s (old_model_eobs s) = false /\ json_validb ([34] ++ old_json_str s ++ [34]) = false)
  /\ (exists s, json_validb ([34] ++ old_json_str s ++ [34]) = true /\ spec_escape_okb s (old_model_eobs s) = false).
Proof.
  split.
  - exists [97; 10; 98]. split; vm_compute; reflexivity.      (* a, line feed, b *)
  - exists [97; 34; 98]. split; vm_compute; reflexivity.      (* a, quote, b: JSON fine, label broken *)
Qed.
