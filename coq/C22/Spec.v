(* C22: the property as executable oracles, and the case checkers of the two
   correspondence streams.  No proofs here.

   A reader of the exposition format ([prom_parse]) is defined here; the JSON
   reader is Base.Json.json_parse. *)
From Coq Require Import List NArith Bool.
From RV Require Export Base.Json Base.ByteNames C22.Model.
Import ListNotations.
Local Open Scope N_scope.

(* ------------------------------------------------------------ exposition format reader *)

(* label value after the opening quote: backslash-backslash, backslash-quote
   and backslash-n are the only escapes; a raw line feed is an error *)
Fixpoint lex_label (l : list N) : option (list N * list N) :=
  match l with
  | [] => None
  | c :: t =>
    if c =? 34 then Some ([], t)
    else if c =? 10 then None
    else if c =? 92 then
      match t with
      | [] => None
      | e :: t1 =>
        if e =? 92 then cons_str [92] (lex_label t1)
        else if e =? 34 then cons_str [34] (lex_label t1)
        else if e =? 110 then cons_str [10] (lex_label t1)
        else None
      end
    else cons_str [c] (lex_label t)
  end.

Definition is_alpha (c : N) : bool :=
  ((65 <=? c) && (c <=? 90)) || ((97 <=? c) && (c <=? 122)) || (c =? 95).
Definition is_name_char (c : N) : bool := is_alpha c || is_digit c || (c =? 58).   (* metric names may hold ':' *)
Definition is_label_char (c : N) : bool := is_alpha c || is_digit c.

Definition name_okb (n : list N) : bool :=
  match n with c :: _ => (is_alpha c || (c =? 58)) && forallb is_name_char n | [] => false end.
Definition label_name_okb (n : list N) : bool :=
  match n with c :: _ => is_alpha c && forallb is_label_char n | [] => false end.

(* sample values: a decimal number (the JSON number grammar) or NaN *)
Definition value_okb (v : list N) : bool := (num_okb v && forallb is_num_char v) || list_eqb v [78; 97; 78].

Fixpoint strip_prefix (p l : list N) : option (list N) :=
  match p with
  | [] => Some l
  | x :: p' => match l with y :: l' => if x =? y then strip_prefix p' l' else None | [] => None end
  end.

Fixpoint skip_spaces (l : list N) : list N :=
  match l with c :: t => if c =? 32 then skip_spaces t else l | [] => [] end.

(* labels after the opening brace: name="value" { , name="value" } "}" *)
Fixpoint parse_labels (fuel : nat) (l : list N) : option (list (list N * list N) * list N) :=
  match fuel with
  | O => None
  | S f =>
    let (n, r) := span is_label_char l in
    if label_name_okb n then
      match r with
      | e :: q :: r1 =>
        if (e =? 61) && (q =? 34) then
          match lex_label r1 with
          | Some (v, r2) =>
            match r2 with
            | c :: r3 =>
              if c =? 125 then Some ([(n, v)], r3)
              else if c =? 44 then
                match parse_labels f (skip_spaces r3) with
                | Some (ls, r4) => Some ((n, v) :: ls, r4)
                | None => None
                end
              else None
            | [] => None
            end
          | None => None
          end
        else None
      | _ => None
      end
    else None
  end.

(* one line, without its line feed *)
Definition parse_line (l : list N) : option pline :=
  match strip_prefix s_help l with
  | Some r =>
    let (n, r1) := span is_name_char r in
    if name_okb n then
      match r1 with
      | c :: text => if (c =? 32) && forallb (fun b => negb (b =? 10)) text then Some (PHelp n text) else None
      | [] => None
      end
    else None
  | None =>
    match strip_prefix s_type l with
    | Some r =>
      let (n, r1) := span is_name_char r in
      if name_okb n then
        match r1 with
        | c :: ty => if (c =? 32) && nonempty ty && forallb is_alpha ty then Some (PType n ty) else None
        | [] => None
        end
      else None
    | None =>
      let (n, r1) := span is_name_char l in
      if name_okb n then
        match r1 with
        | c :: r2 =>
          if c =? 32 then (if value_okb r2 then Some (PSample n [] r2) else None)
          else if c =? 123 then
            match parse_labels (S (length r2)) r2 with
            | Some (ls, c2 :: v) => if (c2 =? 32) && value_okb v then Some (PSample n ls v) else None
            | _ => None
            end
          else None
        | [] => None
        end
      else None
    end
  end.

(* lines are terminated by a line feed; the text must end with one *)
Fixpoint split_lines (cur : list N) (l : list N) : option (list (list N)) :=
  match l with
  | [] => match cur with [] => Some [] | _ => None end
  | c :: t =>
    if c =? 10 then
      match split_lines [] t with Some ls => Some (rev cur :: ls) | None => None end
    else split_lines (c :: cur) t
  end.

Fixpoint parse_lines (ls : list (list N)) : option (list pline) :=
  match ls with
  | [] => Some []
  | l :: rest =>
    match parse_line l, parse_lines rest with
    | Some p, Some ps => Some (p :: ps)
    | _, _ => None
    end
  end.

Definition prom_parse (text : list N) : option (list pline) :=
  match split_lines [] text with Some ls => parse_lines ls | None => None end.

(* ------------------------------------------------------------ equality tests *)

Fixpoint lists_eqb (a b : list (list N)) : bool :=
  match a, b with
  | [], [] => true
  | x :: a', y :: b' => list_eqb x y && lists_eqb a' b'
  | _, _ => false
  end.

Fixpoint labels_eqb (a b : list (list N * list N)) : bool :=
  match a, b with
  | [], [] => true
  | (n, v) :: a', (n', v') :: b' => list_eqb n n' && list_eqb v v' && labels_eqb a' b'
  | _, _ => false
  end.

Definition pline_eqb (a b : pline) : bool :=
  match a, b with
  | PHelp n t, PHelp n' t' => list_eqb n n' && list_eqb t t'
  | PType n t, PType n' t' => list_eqb n n' && list_eqb t t'
  | PSample n l v, PSample n' l' v' => list_eqb n n' && labels_eqb l l' && list_eqb v v'
  | _, _ => false
  end.

(* ------------------------------------------------------------ stream 1: the two escapers *)

(* "routinator_verif", "uri", "state", "valid", "1" *)
Definition s_verif : list N := [114; 111; 117; 116; 105; 110; 97; 116; 111; 114; 95; 118; 101; 114; 105; 102].
Definition s_uri : list N := [117; 114; 105].
Definition s_state : list N := [115; 116; 97; 116; 101].
Definition s_valid : list N := [118; 97; 108; 105; 100].
Definition sample_of (s : list N) : pline := PSample s_verif [(s_uri, s); (s_state, s_valid)] [49].

Record eobs := { o_json : list N; o_line : list N }.

Definition model_eobs (s : list N) : eobs :=
  {| o_json := json_str s; o_line := print_line (sample_of s) |}.

(* The property on one string: what json_str wrote reads back as the string
   (directly and as a complete JSON document when put between quotes), holds
   no raw quote / control byte / stray backslash; the sample line reads back
   with exactly the given label value. *)
Definition spec_escape_okb (s : list N) (o : eobs) : bool :=
  match json_unescape (o_json o) with Some r => list_eqb r s | None => false end
  && str_body_okb (o_json o)
  && match json_parse ([34] ++ o_json o ++ [34]) with Some (JStr r) => list_eqb r s | _ => false end
  && match split_lines [] (o_line o) with
     | Some [l] => match parse_line l with Some p => pline_eqb p (sample_of s) | None => false end
     | _ => false
     end.

Definition eobs_eqb (a b : eobs) : bool := list_eqb (o_json a) (o_json b) && list_eqb (o_line a) (o_line b).

(* e_side: the harness's own readers (serde_json, exposition reader) agreed *)
Record ecase := { e_in : list N; e_impl : eobs; e_side : bool }.

Definition check_ecase (c : ecase) : N :=
  if negb (spec_escape_okb (e_in c) (e_impl c) && e_side c) then 2
  else if eobs_eqb (model_eobs (e_in c)) (e_impl c) then 0 else 1.

(* ------------------------------------------------------------ stream 2: whole documents *)

(* "tals", "repositories", "rsync", "rrdp", "pubPointIssues", "issues", "messages", "message" *)
Definition k_tals : list N := [116; 97; 108; 115].
Definition k_repositories : list N := [114; 101; 112; 111; 115; 105; 116; 111; 114; 105; 101; 115].
Definition k_rsync : list N := [114; 115; 121; 110; 99].
Definition k_rrdp : list N := [114; 114; 100; 112].
Definition k_pub : list N := [112; 117; 98; 80; 111; 105; 110; 116; 73; 115; 115; 117; 101; 115].
Definition k_issues : list N := [105; 115; 115; 117; 101; 115].
Definition k_messages : list N := [109; 101; 115; 115; 97; 103; 101; 115].
Definition k_message : list N := [109; 101; 115; 115; 97; 103; 101].
(* "routinator_ta_valid_vrps_total", "name", "routinator_repository_valid_vrps_total" *)
Definition m_ta : list N :=
  [114; 111; 117; 116; 105; 110; 97; 116; 111; 114; 95; 116; 97; 95; 118; 97; 108; 105; 100; 95; 118; 114; 112; 115; 95; 116; 111; 116; 97; 108].
Definition m_repo : list N :=
  [114; 111; 117; 116; 105; 110; 97; 116; 111; 114; 95; 114; 101; 112; 111; 115; 105; 116; 111; 114; 121; 95; 118; 97; 108; 105; 100; 95; 118; 114; 112; 115; 95; 116; 111; 116; 97; 108].
Definition l_name : list N := [110; 97; 109; 101].

Definition ofield (k : list N) (v : json) : json := match jfield k v with Some x => x | None => JNull end.
Definition str_of (v : json) : list (list N) := match v with JStr s => [s] | _ => [] end.

(* log messages in document order: rsync.<module>.issues[].messages,
   rrdp.<uri>.issues[].messages, pubPointIssues.<uri>[].message *)
Definition issue_msgs (k : list N) (issues : json) : list (list N) :=
  flat_map (fun i => str_of (ofield k i)) (jvalues issues).
Definition doc_msgs (v : json) : list (list N) :=
  flat_map (fun m => issue_msgs k_messages (ofield k_issues m)) (jvalues (ofield k_rsync v))
  ++ flat_map (fun m => issue_msgs k_messages (ofield k_issues m)) (jvalues (ofield k_rrdp v))
  ++ flat_map (fun a => issue_msgs k_message a) (jvalues (ofield k_pub v)).

Fixpoint label_of (n : list N) (ls : list (list N * list N)) : list (list N) :=
  match ls with
  | [] => []
  | (n', v) :: t => if list_eqb n n' then [v] else label_of n t
  end.
Definition label_values (metric label : list N) (ps : list pline) : list (list N) :=
  flat_map (fun p => match p with
                     | PSample n ls _ => if list_eqb n metric then label_of label ls else []
                     | _ => []
                     end) ps.

Record dexp := { x_tals : list (list N); x_repos : list (list N); x_msgs : list (list N) }.
Record dobs := { o_status : list N; o_metrics : list N }.

(* The property on one pair of documents: both read successfully, and the
   strings that went in are the strings a reader gets out, at the places the
   documents put them. *)
Definition spec_docs_okb (x : dexp) (o : dobs) : bool :=
  match json_parse (o_status o) with
  | Some v =>
      lists_eqb (jkeys (ofield k_tals v)) (x_tals x)
      && lists_eqb (jkeys (ofield k_repositories v)) (x_repos x)
      && lists_eqb (doc_msgs v) (x_msgs x)
  | None => false
  end
  && match prom_parse (o_metrics o) with
     | Some ps =>
         lists_eqb (label_values m_ta l_name ps) (x_tals x)
         && lists_eqb (label_values m_repo s_uri ps) (x_repos x)
     | None => false
     end.

(* Correspondence for whole documents: the implementation's text must be
   exactly what the modelled printers write for the tree / line list it reads
   back as (so it is in the image of [jbuild] / [prom_print], to which the
   theorems apply). *)
Definition docs_in_model (o : dobs) : bool :=
  match json_parse (o_status o) with
  | Some (JObj ms) => list_eqb (jbuild ms) (o_status o)
  | _ => false
  end
  && match prom_parse (o_metrics o) with
     | Some ps => list_eqb (prom_print ps) (o_metrics o)
     | None => false
     end.

Record dcase := { d_exp : dexp; d_impl : dobs; d_side : bool }.

Definition check_dcase (c : dcase) : N :=
  if negb (spec_docs_okb (d_exp c) (d_impl c) && d_side c) then 2
  else if docs_in_model (d_impl c) then 0 else 1.
