(* C22 model: the two renderers behind /api/v1/status and /metrics, at byte
   level.  Executable definitions only.

   src/utils/json.rs
     json_str                      -> Base.Json.json_escape (as fixed: quote,
                                      backslash and all bytes < 0x20 escaped)
     JsonBuilder::{build, member_object, member_array, member_str,
       member_raw, array_object, array_array, array_str, array_raw,
       append_key, append_array_head, append_indent}
                                   -> [jprint]: a JsonBuilder program is the
                                      JSON tree it describes; every call
                                      prints its separator, its indentation,
                                      its (escaped) key and its value
   src/http/metrics.rs
     Metric::header                -> [PHelp] + [PType] lines
     Metric::single                -> [PSample] with no labels
     Metric::multi / LabelValue::{new, label, value}
                                   -> [PSample] with labels; label values go
                                      through [prom_escape] (as fixed:
                                      backslash, quote and line feed escaped
                                      as the exposition format requires)
   Bytes are [N]; strings are UTF-8 byte lists (all bytes with a special
   meaning are ASCII, so the byte view is exact for Rust strings). *)
From Coq Require Import List NArith Bool.
From RV Require Export Base.Json.
Import ListNotations.
Local Open Scope N_scope.

(* ------------------------------------------------------------ JsonBuilder *)

Definition json_str := json_escape.

Fixpoint indent (n : nat) : list N :=      (* append_indent: three spaces per level *)
  match n with O => [] | S n' => [32; 32; 32] ++ indent n' end.

(* items separated by ",\n" (append_key / append_array_head: nothing before
   the first item of a builder, ",\n" before every other one) *)
Definition sep_items (items : list (list N)) : list N := sep_by [44; 10] items.

(* the text written for a value by a builder whose own indentation is [i]
   (its items are at [S i]) *)
Fixpoint jprint (i : nat) (v : json) : list N :=
  match v with
  | JNull => [110; 117; 108; 108]
  | JTrue => [116; 114; 117; 101]
  | JFalse => [102; 97; 108; 115; 101]
  | JNum n => json_str n                              (* member_raw / array_raw: write!("{}", json_str(value)) *)
  | JStr s => [34] ++ json_str s ++ [34]              (* member_str / array_str *)
  | JArr vs =>                                        (* member_array / array_array *)
      [91; 10] ++ sep_items (map (fun e => indent (S i) ++ jprint (S i) e) vs)
      ++ [10] ++ indent i ++ [93]
  | JObj ms =>                                        (* member_object / array_object *)
      [123; 10]
      ++ sep_items (map (fun kv => indent (S i) ++ [34] ++ json_str (fst kv) ++ [34; 58; 32] ++ jprint (S i) (snd kv)) ms)
      ++ [10] ++ indent i ++ [125]
  end.

(* JsonBuilder::build(op): one object at indentation 0 *)
Definition jbuild (members : list (list N * json)) : list N := jprint 0 (JObj members).

(* ------------------------------------------------------------ Prometheus text *)

Definition prom_esc_byte (b : N) : list N :=
  if b =? 92 then [92; 92]
  else if b =? 34 then [92; 34]
  else if b =? 10 then [92; 110]
  else [b].
Definition prom_escape (s : list N) : list N := flat_map prom_esc_byte s.

Inductive pline :=
| PHelp (name text : list N)
| PType (name ty : list N)
| PSample (name : list N) (labels : list (list N * list N)) (value : list N).

Definition s_help : list N := [35; 32; 72; 69; 76; 80; 32].    (* "# HELP " *)
Definition s_type : list N := [35; 32; 84; 89; 80; 69; 32].    (* "# TYPE " *)

Definition print_label (l : list N * list N) : list N :=
  fst l ++ [61; 34] ++ prom_escape (snd l) ++ [34].             (* name="value" *)

Fixpoint print_labels (ls : list (list N * list N)) : list N :=
  match ls with
  | [] => []
  | [l] => print_label l
  | l :: rest => print_label l ++ [44; 32] ++ print_labels rest
  end.

Definition print_line (p : pline) : list N :=
  match p with
  | PHelp name text => s_help ++ name ++ [32] ++ text ++ [10]
  | PType name ty => s_type ++ name ++ [32] ++ ty ++ [10]
  | PSample name [] v => name ++ [32] ++ v ++ [10]                              (* Metric::single *)
  | PSample name ls v => name ++ [123] ++ print_labels ls ++ [125; 32] ++ v ++ [10]   (* LabelValue *)
  end.

Definition prom_print (ls : list pline) : list N := flat_map print_line ls.
