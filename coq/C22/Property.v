(* C22 - Status and metrics documents are always well-formed.
   Only statements, [exact], [Check] pins. *)
From Coq Require Import List NArith Bool.
From RV Require Import Base.Json Base.JsonDoc C22.Model C22.Spec C22.Proofs C22.SpecProofs.
Import ListNotations.
Local Open Scope N_scope.

(* ---- json_str, for every byte string (hence every Rust string) ---- *)

(* a JSON reader gets the string back *)
Theorem C22_json_str_roundtrip : forall s, json_unescape (json_str s) = Some s.
Proof. exact json_unescape_escape. Qed.

(* ... and stops exactly at the closing quote, whatever follows: the string's
   content cannot change how the rest of a document is read *)
Theorem C22_json_str_framing : forall s rest, lex_string (json_str s ++ 34 :: rest) = Some (s, rest).
Proof. exact lex_string_escape. Qed.

Theorem C22_json_str_no_control_byte : forall s, Forall (fun c => 32 <= c) (json_str s).
Proof. exact json_escape_no_ctrl. Qed.

Theorem C22_json_str_no_raw_quote : forall s, quotes_escaped (json_str s).
Proof. exact json_escape_quotes_escaped. Qed.

Theorem C22_json_str_no_lone_backslash : forall s, no_lone_backslash (json_str s).
Proof. exact json_escape_no_lone_backslash. Qed.

(* ---- every JsonBuilder program (the status document is one) ---- *)
Theorem C22_jsonbuilder_document_parses : forall v i, jwfb v = true -> json_parse (jprint i v) = Some v.
Proof. exact jprint_parses. Qed.

Theorem C22_status_document_parses : forall members,
  forallb (fun kv => jwfb (snd kv)) members = true -> json_parse (jbuild members) = Some (JObj members).
Proof. exact jbuild_parses. Qed.

(* ---- Prometheus label values, for every byte string ---- *)
Theorem C22_label_roundtrip : forall s rest, lex_label (prom_escape s ++ 34 :: rest) = Some (s, rest).
Proof. exact lex_label_escape. Qed.

Theorem C22_label_no_line_feed : forall s, no_nl (prom_escape s) = true.
Proof. exact prom_escape_no_nl. Qed.

Theorem C22_label_no_raw_quote : forall s, quotes_escaped (prom_escape s).
Proof. exact prom_escape_quotes_escaped. Qed.

(* ---- every text written through Target::{header, single, multi} ---- *)
Theorem C22_metrics_text_parses : forall lines, forallb pline_wfb lines = true -> prom_parse (prom_print lines) = Some lines.
Proof. exact prom_parse_print. Qed.

(* ---- the executable oracles hold of the model on every input ---- *)
Theorem C22_model_satisfies_spec : forall s, spec_escape_okb s (model_eobs s) = true.
Proof. exact escape_model_satisfies_spec. Qed.

Theorem C22_docs_model_satisfies_spec : forall ms ps,
  forallb (fun kv => jwfb (snd kv)) ms = true ->
  forallb pline_wfb ps = true ->
  label_values m_ta l_name ps = jkeys (ofield k_tals (JObj ms)) ->
  label_values m_repo s_uri ps = jkeys (ofield k_repositories (JObj ms)) ->
  let o := {| o_status := jbuild ms; o_metrics := prom_print ps |} in
  spec_docs_okb (docs_exp ms) o = true /\ docs_in_model o = true.
Proof. exact docs_model_satisfies_spec. Qed.

(* ---- the code before the fix violated the property ---- *)
Theorem C22_unfixed_refuted :
  (exists s, spec_escape_okb s (old_model_eobs s) = false /\ json_validb ([34] ++ old_json_str s ++ [34]) = false)
  /\ (exists s, json_validb ([34] ++ old_json_str s ++ [34]) = true /\ spec_escape_okb s (old_model_eobs s) = false).
Proof. exact prefix_refuted. Qed.

(* premises are satisfiable, statements not vacuous: a status-like document
   with a TAL name holding a quote, a backslash and a line feed, and a
   metrics text with the same name as label value *)
Example C22_nonvacuous :
  let name := [97; 34; 92; 10; 98] in
  let ms := [([116; 97; 108; 115], JObj [(name, JObj [([110], JNum [45; 49])])]);
             ([120], JArr [JStr name; JNull; JTrue; JNum [48; 46; 53]])] in
  let ps := [PHelp m_ta [120; 32; 121]; PType m_ta [103; 97; 117; 103; 101];
             PSample m_ta [(l_name, name)] [55]; PSample [120] [] [78; 97; 78]] in
  forallb (fun kv => jwfb (snd kv)) ms = true /\ forallb pline_wfb ps = true
  /\ json_parse (jbuild ms) = Some (JObj ms) /\ prom_parse (prom_print ps) = Some ps
  /\ jkeys (ofield k_tals (JObj ms)) = [name] /\ label_values m_ta l_name ps = [name]
  /\ json_str name = [97; 92; 34; 92; 92; 92; 110; 98] /\ prom_escape name = [97; 92; 34; 92; 92; 92; 110; 98]
  /\ json_str [1; 31] = [92; 117; 48; 48; 48; 49; 92; 117; 48; 48; 49; 102].
Proof. repeat split; vm_compute; reflexivity. Qed.

Check C22_json_str_roundtrip : forall s, json_unescape (json_str s) = Some s.
Check C22_json_str_framing : forall s rest, lex_string (json_str s ++ 34 :: rest) = Some (s, rest).
Check C22_jsonbuilder_document_parses : forall v i, jwfb v = true -> json_parse (jprint i v) = Some v.
Check C22_label_roundtrip : forall s rest, lex_label (prom_escape s ++ 34 :: rest) = Some (s, rest).
Check C22_metrics_text_parses : forall lines, forallb pline_wfb lines = true -> prom_parse (prom_print lines) = Some lines.
Check C22_model_satisfies_spec : forall s, spec_escape_okb s (model_eobs s) = true.
