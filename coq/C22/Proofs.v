(* C22 proofs: the JsonBuilder layout and the exposition text read back as
   what was written, for every string. *)
From Coq Require Import List NArith Lia Bool Arith.
From RV Require Import Base.Json Base.JsonDoc C22.Model C22.Spec.
Import ListNotations.
Local Open Scope N_scope.

(* ================================================================ JsonBuilder *)

(* raw members are JSON scalars: numbers with a well-formed lexeme, true,
   false, null *)
Fixpoint jwfb (v : json) : bool :=
  match v with
  | JNum n => num_wfb n
  | JArr vs => forallb jwfb vs
  | JObj ms => forallb (fun kv => jwfb (snd kv)) ms
  | _ => true
  end.

Lemma indent_ws i : forallb is_ws (indent i) = true.
Proof. induction i as [|i IH]; [reflexivity|]. cbn [indent app forallb]. rewrite IH. reflexivity. Qed.

Lemma sep_items_num_end l : num_end ([44; 10] ++ l).
Proof. reflexivity. Qed.

Lemma sep_items_lexes l ts : lexes l ts -> lexes ([44; 10] ++ l) (TComma :: ts).
Proof. intros H. cbn [app]. apply lexes_comma, lexes_ws; [reflexivity | exact H]. Qed.

Ltac norm_app := repeat first [rewrite <- app_assoc | progress cbn [app]].

Lemma lexes_jprint v : jwfb v = true ->
  forall i rest ts, num_end rest -> lexes rest ts -> lexes (jprint i v ++ rest) (toks v ++ ts).
Proof.
  induction v using json_ind'; intros Hwf i rest ts He Hl; cbn [jprint toks].
  - apply lexes_null, Hl.
  - apply lexes_true, Hl.
  - apply lexes_false, Hl.
  - cbn [jwfb] in Hwf. unfold json_str. rewrite json_escape_num.
    + apply lexes_num; assumption.
    + unfold num_wfb in Hwf. apply andb_true_iff in Hwf. tauto.
  - unfold json_str. rewrite <- !app_assoc. cbn [app]. apply lexes_escaped, Hl.
  - (* member_array / array_array *)
    cbn [jwfb] in Hwf. rewrite forallb_forall in Hwf. rewrite Forall_forall in H.
    norm_app. apply lexes_lbrack, lexes_ws; [reflexivity|].
    unfold sep_items.
    apply (lexes_sep_by [44; 10] (fun e => indent (S i) ++ jprint (S i) e) toks vs);
      [exact sep_items_num_end | exact sep_items_lexes | | reflexivity |].
    + intros x Hx rest' ts' He' Hl'. rewrite <- app_assoc.
      apply lexes_wsl; [apply indent_ws|]. apply H; auto.
    + apply lexes_ws; [reflexivity|]. apply lexes_wsl; [apply indent_ws|]. apply lexes_rbrack, Hl.
  - (* member_object / array_object *)
    cbn [jwfb] in Hwf. rewrite forallb_forall in Hwf. rewrite Forall_forall in H.
    norm_app. apply lexes_lbrace, lexes_ws; [reflexivity|].
    unfold sep_items.
    apply (lexes_sep_by [44; 10]
             (fun kv : list N * json => indent (S i) ++ [34] ++ json_str (fst kv) ++ [34; 58; 32] ++ jprint (S i) (snd kv))
             (fun kv => TStr (fst kv) :: TColon :: toks (snd kv)) ms);
      [exact sep_items_num_end | exact sep_items_lexes | | reflexivity |].
    + intros x Hx rest' ts' He' Hl'. norm_app.
      apply lexes_wsl; [apply indent_ws|]. unfold json_str.
      apply lexes_escaped. apply lexes_colon, lexes_ws; [reflexivity|].
      apply H; auto.
    + apply lexes_ws; [reflexivity|]. apply lexes_wsl; [apply indent_ws|]. apply lexes_rbrace, Hl.
Qed.

(* Every JsonBuilder program whose raw members are JSON scalars writes one
   JSON document, which reads back as the tree the program describes - for
   arbitrary keys and string values. *)
Theorem jprint_parses v i : jwfb v = true -> json_parse (jprint i v) = Some v.
Proof.
  intros Hwf. apply json_parse_of_lexes.
  pose proof (lexes_jprint v Hwf i [] [] I lexes_nil) as H. rewrite !app_nil_r in H. exact H.
Qed.

Corollary jbuild_parses ms : forallb (fun kv => jwfb (snd kv)) ms = true -> json_parse (jbuild ms) = Some (JObj ms).
Proof. intros H. apply jprint_parses. exact H. Qed.

(* ================================================================ exposition format *)

(* ---- label values ---- *)

Lemma lex_label_esc_byte b rest : lex_label (prom_esc_byte b ++ rest) = cons_str [b] (lex_label rest).
Proof.
  unfold prom_esc_byte.
  destruct (N.eqb_spec b 92) as [->|N92]; [reflexivity|].
  destruct (N.eqb_spec b 34) as [->|N34]; [reflexivity|].
  destruct (N.eqb_spec b 10) as [->|N10]; [reflexivity|].
  cbn [app lex_label].
  destruct (N.eqb_spec b 34); [contradiction|].
  destruct (N.eqb_spec b 10); [contradiction|].
  destruct (N.eqb_spec b 92); [contradiction|]. reflexivity.
Qed.

(* Framing for label values: whatever the value and whatever follows. *)
Theorem lex_label_escape s rest : lex_label (prom_escape s ++ 34 :: rest) = Some (s, rest).
Proof.
  induction s as [|b s IH]; [reflexivity|].
  unfold prom_escape in *. cbn [flat_map]. rewrite <- app_assoc, lex_label_esc_byte, IH. reflexivity.
Qed.

Definition no_nl (l : list N) : bool := forallb (fun b => negb (b =? 10)) l.

Lemma no_nl_app a b : no_nl (a ++ b) = no_nl a && no_nl b.
Proof. apply forallb_app. Qed.

Theorem prom_escape_no_nl s : no_nl (prom_escape s) = true.
Proof.
  induction s as [|b s IH]; [reflexivity|].
  unfold prom_escape in *. cbn [flat_map]. rewrite no_nl_app, IH, andb_true_r.
  unfold prom_esc_byte.
  destruct (N.eqb_spec b 92) as [->|N92]; [reflexivity|].
  destruct (N.eqb_spec b 34) as [->|N34]; [reflexivity|].
  destruct (N.eqb_spec b 10) as [->|N10]; [reflexivity|].
  cbn. destruct (N.eqb_spec b 10); [contradiction|]. reflexivity.
Qed.

(* every quote in an escaped label value is preceded by a backslash that escapes it *)
Theorem prom_escape_quotes_escaped s : quotes_escaped (prom_escape s).
Proof.
  induction s as [|b s IH]; [exact I|].
  unfold prom_escape in *. cbn [flat_map]. unfold prom_esc_byte.
  destruct (N.eqb_spec b 92) as [->|N92]; [exact IH|].
  destruct (N.eqb_spec b 34) as [->|N34]; [exact IH|].
  destruct (N.eqb_spec b 10) as [->|N10]; [exact IH|].
  cbn [app quotes_escaped].
  destruct (N.eqb_spec b 34); [contradiction|].
  destruct (N.eqb_spec b 92); [contradiction|]. exact IH.
Qed.

(* ---- character classes ---- *)

Lemma is_alpha_ge c : is_alpha c = true -> 65 <= c.
Proof.
  unfold is_alpha. rewrite !orb_true_iff, !andb_true_iff, !N.leb_le, N.eqb_eq. lia.
Qed.
Lemma is_digit_range c : is_digit c = true -> 48 <= c <= 57.
Proof. unfold is_digit. rewrite andb_true_iff, !N.leb_le. lia. Qed.
Lemma is_name_char_ge c : is_name_char c = true -> 48 <= c.
Proof.
  unfold is_name_char. rewrite !orb_true_iff, N.eqb_eq. intros [[H|H]|H];
    [apply is_alpha_ge in H | apply is_digit_range in H |]; lia.
Qed.
Lemma is_label_name_char c : is_label_char c = true -> is_name_char c = true.
Proof. unfold is_label_char, is_name_char. intros ->. reflexivity. Qed.
Lemma is_num_char_ge c : is_num_char c = true -> 43 <= c.
Proof.
  unfold is_num_char. rewrite !orb_true_iff, !N.eqb_eq. intros H.
  repeat (destruct H as [H|H]); try lia. apply is_digit_range in H. lia.
Qed.

Lemma forallb_impl {A} (p q : A -> bool) l : (forall x, p x = true -> q x = true) -> forallb p l = true -> forallb q l = true.
Proof. intros H. rewrite !forallb_forall. auto. Qed.

Lemma no_nl_of_ge k l : 10 < k -> forallb (fun c => k <=? c) l = true -> no_nl l = true.
Proof.
  intros Hk. apply forallb_impl. intros x Hx. apply N.leb_le in Hx.
  apply negb_true_iff, N.eqb_neq. lia.
Qed.

Lemma name_chars_no_nl n : forallb is_name_char n = true -> no_nl n = true.
Proof.
  intros H. apply (no_nl_of_ge 48); [lia|]. revert H. apply forallb_impl.
  intros x Hx. apply N.leb_le, is_name_char_ge, Hx.
Qed.

Lemma name_okb_inv n : name_okb n = true ->
  exists c t, n = c :: t /\ 58 <= c /\ forallb is_name_char n = true.
Proof.
  unfold name_okb. destruct n as [|c t]; [discriminate|]. intros H.
  apply andb_true_iff in H as [Hc Hall]. exists c, t. split; [reflexivity|]. split; [|exact Hall].
  apply orb_true_iff in Hc as [Hc|Hc]; [apply is_alpha_ge in Hc; lia | apply N.eqb_eq in Hc; lia].
Qed.

Lemma label_name_okb_inv n : label_name_okb n = true ->
  exists c t, n = c :: t /\ 65 <= c /\ forallb is_label_char n = true.
Proof.
  unfold label_name_okb. destruct n as [|c t]; [discriminate|]. intros H.
  apply andb_true_iff in H as [Hc Hall]. exists c, t. split; [reflexivity|]. split; [|exact Hall].
  apply is_alpha_ge in Hc; lia.
Qed.

Lemma value_no_nl v : value_okb v = true -> no_nl v = true.
Proof.
  unfold value_okb. intros H. apply orb_true_iff in H as [H|H].
  - apply andb_true_iff in H as [_ H]. apply (no_nl_of_ge 43); [lia|]. revert H. apply forallb_impl.
    intros x Hx. apply N.leb_le, is_num_char_ge, Hx.
  - apply list_eqb_spec in H. subst. reflexivity.
Qed.

(* ---- lines ---- *)

Definition pline_wfb (p : pline) : bool :=
  match p with
  | PHelp n t => name_okb n && no_nl t
  | PType n t => name_okb n && nonempty t && forallb is_alpha t
  | PSample n ls v => name_okb n && forallb (fun l => label_name_okb (fst l)) ls && value_okb v
  end.

(* a line without its line feed *)
Definition line_body (p : pline) : list N :=
  match p with
  | PHelp name text => s_help ++ name ++ [32] ++ text
  | PType name ty => s_type ++ name ++ [32] ++ ty
  | PSample name [] v => name ++ [32] ++ v
  | PSample name ls v => name ++ [123] ++ print_labels ls ++ [125; 32] ++ v
  end.

Lemma print_line_body p : print_line p = line_body p ++ [10].
Proof.
  destruct p as [n t|n t|n ls v]; cbn [print_line line_body]; rewrite <- ?app_assoc; try reflexivity.
  destruct ls; rewrite <- ?app_assoc; cbn [app]; rewrite <- ?app_assoc; reflexivity.
Qed.

Lemma print_label_no_nl l : label_name_okb (fst l) = true -> no_nl (print_label l) = true.
Proof.
  intros H. unfold print_label. rewrite !no_nl_app, prom_escape_no_nl.
  destruct (label_name_okb_inv _ H) as (c & t & _ & _ & Hall).
  rewrite (name_chars_no_nl (fst l)); [reflexivity|].
  revert Hall. apply forallb_impl, is_label_name_char.
Qed.

Lemma print_labels_no_nl ls :
  forallb (fun l => label_name_okb (fst l)) ls = true -> no_nl (print_labels ls) = true.
Proof.
  induction ls as [|l [|l2 ls] IH]; intros H; [reflexivity | |].
  - cbn [forallb] in H. apply andb_true_iff in H as [H _]. apply print_label_no_nl, H.
  - change (print_labels (l :: l2 :: ls)) with (print_label l ++ [44; 32] ++ print_labels (l2 :: ls)).
    cbn [forallb] in H. apply andb_true_iff in H as [H1 H2].
    rewrite !no_nl_app, (print_label_no_nl _ H1), (IH H2). reflexivity.
Qed.

Lemma line_body_no_nl p : pline_wfb p = true -> no_nl (line_body p) = true.
Proof.
  destruct p as [n t|n t|n ls v]; cbn [pline_wfb line_body]; rewrite ?andb_true_iff.
  - intros [Hn Ht]. destruct (name_okb_inv _ Hn) as (_ & _ & _ & _ & Hall).
    rewrite !no_nl_app, (name_chars_no_nl _ Hall), Ht. reflexivity.
  - intros [[Hn _] Ht]. destruct (name_okb_inv _ Hn) as (_ & _ & _ & _ & Hall).
    rewrite !no_nl_app, (name_chars_no_nl _ Hall).
    rewrite (no_nl_of_ge 65 t); [reflexivity | lia |].
    revert Ht. apply forallb_impl. intros x Hx. apply N.leb_le, is_alpha_ge, Hx.
  - intros [[Hn Hls] Hv]. destruct (name_okb_inv _ Hn) as (_ & _ & _ & _ & Hall).
    destruct ls as [|l ls].
    + rewrite !no_nl_app, (name_chars_no_nl _ Hall), (value_no_nl _ Hv). reflexivity.
    + rewrite !no_nl_app, (name_chars_no_nl _ Hall), (value_no_nl _ Hv), (print_labels_no_nl _ Hls). reflexivity.
Qed.

Lemma split_lines_line cur x rest : no_nl x = true ->
  split_lines cur (x ++ 10 :: rest) =
    match split_lines [] rest with Some ls => Some ((rev cur ++ x) :: ls) | None => None end.
Proof.
  revert cur. induction x as [|c x IH]; intros cur H.
  - cbn [app split_lines]. change (10 =? 10) with true. cbv iota. rewrite app_nil_r. reflexivity.
  - cbn [no_nl forallb] in H. apply andb_true_iff in H as [Hc Hx]. apply negb_true_iff in Hc.
    cbn [app split_lines]. rewrite Hc. rewrite (IH (c :: cur) Hx). cbn [rev]. rewrite <- app_assoc. reflexivity.
Qed.

Lemma split_lines_print ls : forallb pline_wfb ls = true ->
  split_lines [] (prom_print ls) = Some (map line_body ls).
Proof.
  induction ls as [|p ls IH]; intros H; [reflexivity|].
  cbn [forallb] in H. apply andb_true_iff in H as [Hp Hls].
  unfold prom_print in *. cbn [flat_map map]. rewrite print_line_body, <- app_assoc. cbn [app].
  rewrite (split_lines_line [] _ _ (line_body_no_nl p Hp)), (IH Hls). reflexivity.
Qed.

(* ---- reading one line back ---- *)

Lemma strip_prefix_app p l : strip_prefix p (p ++ l) = Some l.
Proof. induction p as [|x p IH]; [reflexivity|]. cbn [app strip_prefix]. rewrite N.eqb_refl. exact IH. Qed.

Lemma strip_hash_name n x p : name_okb n = true -> strip_prefix (35 :: p) (n ++ x) = None.
Proof.
  intros H. destruct (name_okb_inv _ H) as (c & t & -> & Hc & _). cbn [app strip_prefix].
  destruct (N.eqb_spec 35 c); [lia|reflexivity].
Qed.

Lemma span_name n c r : name_okb n = true -> is_name_char c = false ->
  span is_name_char (n ++ c :: r) = (n, c :: r).
Proof. intros H Hc. destruct (name_okb_inv _ H) as (_ & _ & _ & _ & Hall). apply span_app_stop; assumption. Qed.

Lemma skip_spaces_label n y : label_name_okb n = true -> skip_spaces (n ++ y) = n ++ y.
Proof.
  intros H. destruct (label_name_okb_inv _ H) as (c & t & -> & Hc & _). cbn [app skip_spaces].
  destruct (N.eqb_spec c 32); [lia|reflexivity].
Qed.

Lemma print_labels_cons l ls y : ls <> [] ->
  print_labels (l :: ls) ++ y = print_label l ++ 44 :: 32 :: (print_labels ls ++ y).
Proof.
  destruct ls as [|l2 ls]; [congruence|]. intros _.
  change (print_labels (l :: l2 :: ls)) with (print_label l ++ [44; 32] ++ print_labels (l2 :: ls)).
  rewrite <- !app_assoc. reflexivity.
Qed.

Lemma print_labels_head l ls y : exists z, print_labels (l :: ls) ++ y = fst l ++ z.
Proof.
  destruct ls as [|l2 ls].
  - cbn [print_labels]. unfold print_label. rewrite <- !app_assoc. eexists; reflexivity.
  - rewrite print_labels_cons by discriminate. unfold print_label. rewrite <- !app_assoc. eexists; reflexivity.
Qed.

Lemma parse_labels_print ls : forall f rest,
  ls <> [] -> (length ls <= f)%nat ->
  forallb (fun l => label_name_okb (fst l)) ls = true ->
  parse_labels f (print_labels ls ++ 125 :: rest) = Some (ls, rest).
Proof.
  induction ls as [|[n v] ls IH]; intros f rest Hne Hf Hwf; [congruence|].
  destruct f as [|f]; [cbn in Hf; lia|]. cbn [length] in Hf.
  cbn [forallb fst] in Hwf. apply andb_true_iff in Hwf as [Hn Hls].
  destruct (label_name_okb_inv _ Hn) as (c0 & t0 & En & _ & Hall).
  assert (Hstep : forall y, parse_labels (S f) (print_label (n, v) ++ y) =
            match y with
            | c :: r3 =>
              if c =? 125 then Some ([(n, v)], r3)
              else if c =? 44 then
                match parse_labels f (skip_spaces r3) with
                | Some (ls, r4) => Some ((n, v) :: ls, r4)
                | None => None
                end
              else None
            | [] => None
            end).
  { intros y. unfold print_label. cbn [fst snd]. rewrite <- !app_assoc. cbn [app parse_labels].
    rewrite (span_app_stop is_label_char n 61 _ Hall eq_refl). rewrite Hn.
    change ((61 =? 61) && (34 =? 34)) with true. cbv iota. rewrite lex_label_escape. reflexivity. }
  destruct ls as [|l2 ls].
  - cbn [print_labels]. rewrite Hstep. reflexivity.
  - rewrite print_labels_cons by discriminate. rewrite Hstep.
    change (44 =? 125) with false. change (44 =? 44) with true. cbv iota.
    change (skip_spaces (32 :: ?x)) with (skip_spaces x).
    assert (Hl2 : label_name_okb (fst l2) = true) by (cbn [forallb] in Hls; apply andb_true_iff in Hls; tauto).
    destruct (print_labels_head l2 ls (125 :: rest)) as [z E].
    rewrite E, (skip_spaces_label _ _ Hl2), <- E.
    rewrite (IH f rest); [reflexivity | discriminate | cbn [length] in *; lia | exact Hls].
Qed.

Lemma length_print_labels ls y : (length ls <= length (print_labels ls ++ y))%nat.
Proof.
  induction ls as [|l [|l2 ls] IH]; [cbn; lia | |].
  - cbn [print_labels]. unfold print_label. rewrite !app_length. cbn. lia.
  - rewrite print_labels_cons by discriminate.
    remember (print_labels (l2 :: ls) ++ y) as X. rewrite app_length. cbn [length] in *. lia.
Qed.

Theorem parse_line_body p : pline_wfb p = true -> parse_line (line_body p) = Some p.
Proof.
  destruct p as [n t|n t|n ls v]; cbn [pline_wfb line_body]; rewrite ?andb_true_iff.
  - intros [Hn Ht]. unfold parse_line. rewrite strip_prefix_app.
    cbn [app]. rewrite (span_name n 32 t Hn eq_refl), Hn.
    change (32 =? 32) with true. cbn [andb]. unfold no_nl in Ht. rewrite Ht. reflexivity.
  - intros [[Hn Hne] Ht]. unfold parse_line.
    assert (strip_prefix s_help (s_type ++ n ++ [32] ++ t) = None) as -> by reflexivity.
    rewrite strip_prefix_app. cbn [app]. rewrite (span_name n 32 t Hn eq_refl), Hn.
    change (32 =? 32) with true. cbn [andb]. rewrite Hne, Ht. reflexivity.
  - intros [[Hn Hls] Hv]. unfold parse_line.
    destruct ls as [|l ls].
    + unfold s_help, s_type. rewrite !(strip_hash_name n _ _ Hn).
      cbn [app]. rewrite (span_name n 32 v Hn eq_refl), Hn.
      change (32 =? 32) with true. cbv iota. rewrite Hv. reflexivity.
    + unfold s_help, s_type. rewrite !(strip_hash_name n _ _ Hn).
      cbn [app]. rewrite (span_name n 123 _ Hn eq_refl), Hn.
      change (123 =? 32) with false. change (123 =? 123) with true. cbv iota.
      rewrite (parse_labels_print (l :: ls) _ (32 :: v));
        [| discriminate | apply le_S, length_print_labels | exact Hls].
      change (32 =? 32) with true. cbn [andb]. rewrite Hv. reflexivity.
Qed.

Lemma parse_lines_bodies ls : forallb pline_wfb ls = true -> parse_lines (map line_body ls) = Some ls.
Proof.
  induction ls as [|p ls IH]; intros H; [reflexivity|].
  cbn [forallb] in H. apply andb_true_iff in H as [Hp Hls].
  cbn [map parse_lines]. rewrite (parse_line_body p Hp), (IH Hls). reflexivity.
Qed.

(* Every text written through header / single / multi..label..value with
   well-formed metric and label names and numeric values reads back line by
   line as what was written - for arbitrary label values. *)
Theorem prom_parse_print ls : forallb pline_wfb ls = true -> prom_parse (prom_print ls) = Some ls.
Proof.
  intros H. unfold prom_parse. rewrite (split_lines_print ls H). apply parse_lines_bodies, H.
Qed.
