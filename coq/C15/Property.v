(* C15 — Responses pair each serial with its own data.
   [SReach s w]: the server state s is reachable by any sequence of the validation thread's atomic
   steps (install a data set under the write lock / mark the update done / notify); w is the ghost
   window of issued (serial, data set) versions, oldest first, the last entry being the current one.
   Every reader operation is ONE atomic step (`respond`), so "for every interleaving" is "for every
   reachable state and every operation". Lock atomicity itself is the assumption (partial). *)
From Coq Require Import List NArith ZArith Bool.
From RV Require Import Base.KMap Base.Serial32 C11.Model C11.Proofs C13.Model C13.Proofs C15.Model C15.Proofs.
Import ListNotations.
Local Open Scope N_scope.

(* RTR notify/reset, HTTP data endpoints and /json-delta resets carry the current serial with exactly its data set *)
Theorem C15_replies_paired : forall s w n g, SReach s w -> wlast w = Some (n, g) ->
  respond s PReady = AReady true /\
  respond s PNotify = ASerial n /\
  respond s PFull = AFull n (origins g) /\
  (forall inm ims src, exists lm,
      respond s (PJson inm ims src) = AJson304 n \/ respond s (PJson inm ims src) = AJson200 n lm (origins g)) /\
  (forall ver, respond s (PDelta ver) = ADeltaReset n (origins g) \/
      exists c d, ver = Some (true, c) /\ delta_since (hst s) c = Some d /\
        respond s (PDelta ver) = ADeltaDelta c n (keys_of false (wire_of (d_origins d))) (keys_of true (wire_of (d_origins d)))).
Proof. exact replies_paired. Qed.

(* change sets (RTR serial query and /json-delta) are tagged with the current serial and turn the data
   issued under the presented serial into exactly the current data *)
Theorem C15_change_sets_exact : forall s w c d, SReach s w -> w <> [] -> keep (hst s) < H31 -> c < M32 ->
  delta_since (hst s) c = Some d ->
  exists g cur, In (c, g) w /\ current (hst s) = Some cur /\ papply g d = cur.
Proof.
  intros s w c d R Hw K Hc E.
  exact (exact_or_refused (hst s) w c d (Reach_Inv _ _ (SReach_Reach _ _ R)) Hw K Hc E).
Qed.

(* before the first data set is installed nothing is served *)
Theorem C15_nothing_before_first : forall s w, SReach s w -> w = [] ->
  respond s PReady = AReady false /\ (forall a b c, respond s (PJson a b c) = AJson503) /\
  (forall v, respond s (PDelta v) = ADelta503).
Proof. exact not_active_serves_nothing. Qed.

(* serial and data only ever change together, in the single install step *)
Theorem C15_other_steps_keep_history : forall s t b,
  hst (mark_done s t) = hst s /\ hst (do_notify s b) = hst s.
Proof. intros; split; reflexivity. Qed.

Example C15_nonvacuous :
  let a := {| origins := [(1, tt)]; rkeys := []; aspas := [] |} in
  let b := {| origins := [(2, tt)]; rkeys := []; aspas := [] |} in
  let s := run_ops (srv_init 3) [OInstall a 5%Z; OMark 6%Z; ONotify true; OInstall b 7000000000%Z] in
  respond s PFull = AFull 1 [(2, tt)] /\
  respond s (PDelta (Some (true, 0))) = ADeltaDelta 0 1 [2] [1] /\
  respond s (PJson (Some 0) (Some 0%Z) (Some 0)) = AJson200 1 7%Z [(2, tt)].
Proof. repeat split. Qed.

Check C15_replies_paired.
Check C15_change_sets_exact : forall s w c d, SReach s w -> w <> [] -> keep (hst s) < H31 -> c < M32 ->
  delta_since (hst s) c = Some d ->
  exists g cur, In (c, g) w /\ current (hst s) = Some cur /\ papply g d = cur.
