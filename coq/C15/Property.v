(* C15 — Responses pair each serial with its own data.
   [SReach s w]: the server state s is reachable by any sequence of the validation thread's atomic
   steps (install a data set under the write lock / mark the update done / notify); w is the ghost
   window of issued (serial, data set) versions, oldest first, the last entry being the current one.
   Every reader operation is ONE atomic step (`respond`), so "for every interleaving" is "for every
   reachable state and every operation". Lock atomicity itself is the assumption (partial). *)
From Coq Require Import List NArith ZArith Bool.
From RV Require Import Base.KMap Base.Serial32 C11.Model C11.Proofs C13.Model C13.Proofs C15.Model C15.Proofs C15.Spec C15.SpecProofs.
Import ListNotations.
Local Open Scope N_scope.

(* RTR notify/reset, HTTP data endpoints and /json-delta resets carry the current serial with exactly its data set *)
Theorem C15_replies_paired : forall s w n g, SReach s w -> wlast w = Some (n, g) ->
  respond s PReady = AReady true /\
  respond s PNotify = ASerial n /\
  respond s PFull = AFull n (origins g) /\
  (forall inm ims src, exists lm,
      respond s (PJson inm ims src) = AJson304 n \/ respond s (PJson inm ims src) = AJson200 n lm (origins g)) /\
  (forall ver, respond s (PDelta ver) = ADeltaReset n (origins g) \/
      exists c d, ver = Some (true, c) /\ delta_since (hst s) c = Some d /\
        respond s (PDelta ver) = ADeltaDelta c n (keys_of false (wire_of (d_origins d))) (keys_of true (wire_of (d_origins d)))).
Proof. exact replies_paired. Qed.

(* change sets (RTR serial query and /json-delta) are tagged with the current serial and turn the data
   issued under the presented serial into exactly the current data *)
Theorem C15_change_sets_exact : forall s w c d, SReach s w -> w <> [] -> keep (hst s) < H31 -> c < M32 ->
  delta_since (hst s) c = Some d ->
  exists g cur, In (c, g) w /\ current (hst s) = Some cur /\ papply g d = cur.
Proof.
  intros s w c d R Hw K Hc E.
  exact (exact_or_refused (hst s) w c d (Reach_Inv _ _ (SReach_Reach _ _ R)) Hw K Hc E).
Qed.

(* before the first data set is installed nothing is served *)
Theorem C15_nothing_before_first : forall s w, SReach s w -> w = [] ->
  respond s PReady = AReady false /\ (forall a b c, respond s (PJson a b c) = AJson503) /\
  (forall v, respond s (PDelta v) = ADelta503).
Proof. exact not_active_serves_nothing. Qed.

(* serial and data only ever change together, in the single install step *)
Theorem C15_other_steps_keep_history : forall s t b,
  hst (mark_done s t) = hst s /\ hst (do_notify s b) = hst s.
Proof. intros; split; reflexivity. Qed.

(* the executable oracle (C15/Spec.v: what a client may observe, stated against the list of issued
   versions only) accepts what the model answers at every gap of every cycle of every schedule; the
   hypothesis on probes: counters below 2^32, and a conditional request answered 304 names the version
   its validators came from (that the model's own validators do is C16's theorem) *)
Theorem C15_model_satisfies_spec : forall c, c_keep c < H31 -> N.of_nat (length (c_cycles c)) <= M32 ->
  inputs_ok c = true -> probes_ok (srv_init (c_keep c)) (c_cycles c) -> spec_okb (model_case c) = true.
Proof. exact model_satisfies_spec. Qed.

Theorem C15_each_reply_meets_oracle : forall s iss completed p, SRel s iss completed -> keep (hst s) < H31 ->
  N.of_nat (length iss) <= M32 -> probe_ok s p ->
  answer_ok (keep (hst s)) iss completed p (respond s p) = true.
Proof. exact respond_ok. Qed.

Example C15_oracle_nonvacuous :
  let a := {| origins := [(1, tt)]; rkeys := []; aspas := [] |} in
  let b := {| origins := [(2, tt)]; rkeys := []; aspas := [] |} in
  let ps := [(PFull, AReady false); (PDelta (Some (true, 0)), AReady false); (PJson (Some 0) None (Some 0), AReady false);
             (PDiff true 0, AReady false)] in
  let gs := [(0, ps); (1, ps); (0, ps); (2, ps); (0, ps); (3, ps); (4, ps)] in
  let c := {| c_keep := 3; c_cycles :=
      [ {| a_data := a; a_ok := true; a_tupd := 5%Z; a_tdone := 6%Z; a_gaps := gs; a_notified := false; a_result_ok := false |};
        {| a_data := b; a_ok := true; a_tupd := 7000000000%Z; a_tdone := 7000000001%Z; a_gaps := gs; a_notified := false; a_result_ok := false |};
        {| a_data := a; a_ok := false; a_tupd := 0%Z; a_tdone := 0%Z; a_gaps := gs; a_notified := true; a_result_ok := true |} ] |} in
  check_case (model_case c) = 0 /\ check_case c = 2.
Proof. split; vm_compute; reflexivity. Qed.

Example C15_nonvacuous :
  let a := {| origins := [(1, tt)]; rkeys := []; aspas := [] |} in
  let b := {| origins := [(2, tt)]; rkeys := []; aspas := [] |} in
  let s := run_ops (srv_init 3) [OInstall a 5%Z; OMark 6%Z; ONotify true; OInstall b 7000000000%Z] in
  respond s PFull = AFull 1 [(2, tt)] /\
  respond s (PDelta (Some (true, 0))) = ADeltaDelta 0 1 [2] [1] /\
  respond s (PJson (Some 0) (Some 0%Z) (Some 0)) = AJson200 1 7%Z [(2, tt)].
Proof. repeat split. Qed.

Check C15_replies_paired.
Check C15_model_satisfies_spec : forall c, c_keep c < H31 -> N.of_nat (length (c_cycles c)) <= M32 ->
  inputs_ok c = true -> probes_ok (srv_init (c_keep c)) (c_cycles c) -> spec_okb (model_case c) = true.
Check C15_change_sets_exact : forall s w c d, SReach s w -> w <> [] -> keep (hst s) < H31 -> c < M32 ->
  delta_since (hst s) c = Some d ->
  exists g cur, In (c, g) w /\ current (hst s) = Some cur /\ papply g d = cur.
