(* Proofs about the server model (C15, C16, C33). *)
From Coq Require Import List NArith ZArith Bool Lia.
From RV Require Import Base.KMap Base.Serial32 C11.Model C11.Proofs C13.Model C13.Proofs C15.Model.
Import ListNotations.
Local Open Scope N_scope.

(* ---- writer steps and reachability ---- *)
Inductive wop := OInstall (d : snapshot) (t : Z) | OMark (t : Z) | ONotify (b : bool).

Definition wstep (s : srv) (o : wop) : srv :=
  match o with
  | OInstall d t => fst (install s d t)
  | OMark t => mark_done s t
  | ONotify b => do_notify s b
  end.

Definition wop_ok (o : wop) : Prop := match o with OInstall d _ => snap_sorted d | _ => True end.

Definition run_ops (s : srv) (ops : list wop) : srv := fold_left wstep ops s.

Inductive SReach : srv -> win -> Prop :=
| sr_init k : SReach (srv_init k) []
| sr_step s w o : SReach s w -> wop_ok o ->
    SReach (wstep s o) (match o with OInstall d _ => upd_win (hst s) w d | _ => w end).

Lemma install_hst s d t : hst (fst (install s d t)) = fst (update (hst s) d).
Proof. unfold install. destruct (update (hst s) d) as [h' chg]. reflexivity. Qed.

Lemma install_chg s d t : snd (install s d t) = snd (update (hst s) d).
Proof. unfold install. destruct (update (hst s) d) as [h' chg]. reflexivity. Qed.

Lemma SReach_Reach s w : SReach s w -> Reach (hst s) w.
Proof.
  induction 1 as [k|s w o R IH Ho].
  - apply reach_init.
  - destruct o as [d t|t|b]; cbn [wstep].
    + rewrite install_hst. apply reach_update; assumption.
    + exact IH.
    + exact IH.
Qed.

(* the creation time exists as soon as data is served *)
Lemma SReach_created s w : SReach s w -> is_active (hst s) = true -> created s <> None.
Proof.
  induction 1 as [k|s w o R IH Ho]; [discriminate|].
  destruct o as [d t|t|b]; cbn [wstep].
  - intros _. unfold install, update. destruct (current (hst s)) as [c|] eqn:C.
    + assert (created s <> None) as Cr by (apply IH; unfold is_active; rewrite C; reflexivity).
      destruct (pconstruct c d); cbn [fst created]; [|exact Cr].
      unfold adv_created. destruct (created s) as [c0|]; [|congruence].
      destruct (secs t <=? secs c0)%Z; discriminate.
    + cbn [fst created]. unfold adv_created. destruct (created s) as [c0|]; [|discriminate].
      destruct (secs t <=? secs c0)%Z; discriminate.
  - intros A. cbn [mark_done created hst] in *. unfold adv_created. destruct (created s) as [c0|]; [|discriminate].
    destruct (secs t <=? secs c0)%Z; discriminate.
  - intros A. cbn [do_notify created hst] in *. apply IH. exact A.
Qed.

(* ---- C15: every reader operation pairs the serial with its own data ---- *)
Theorem pairing s w n g : SReach s w -> wlast w = Some (n, g) ->
  serial (hst s) = n /\ current (hst s) = Some g.
Proof.
  intros R L. pose proof (Reach_Inv _ _ (SReach_Reach _ _ R)) as HI. split.
  - apply (serial_wlast _ _ _ _ HI L).
  - rewrite (inv_cur _ _ HI), L. reflexivity.
Qed.

Theorem not_active_serves_nothing s w : SReach s w -> w = [] ->
  respond s PReady = AReady false /\ (forall a b c, respond s (PJson a b c) = AJson503) /\
  (forall v, respond s (PDelta v) = ADelta503).
Proof.
  intros R ->. pose proof (Reach_Inv _ _ (SReach_Reach _ _ R)) as HI.
  pose proof (inv_cur _ _ HI) as C. cbn in C. unfold respond, is_active. rewrite C. repeat split.
Qed.

(* ---- C16 ---- *)
Definition changed_by (s : srv) (o : wop) : bool :=
  match o with OInstall d t => is_active (hst s) && snd (install s d t) | _ => false end.

Fixpoint nchg (s : srv) (ops : list wop) : N :=
  match ops with
  | [] => 0
  | o :: t => (if changed_by s o then 1 else 0) + nchg (wstep s o) t
  end.

Lemma secs_adv c now c' : adv_created (Some c) now = Some c' -> (secs c < secs c')%Z.
Proof.
  unfold adv_created. destruct (Z.leb_spec (secs now) (secs c)); intros E; inversion E; subst.
  - unfold secs, NS. replace (c + 1000000000)%Z with (c + 1 * 1000000000)%Z by lia.
    rewrite Z.div_add by lia. lia.
  - exact H.
Qed.

Lemma active_step s o : is_active (hst s) = true -> is_active (hst (wstep s o)) = true.
Proof.
  intros A. destruct o as [d t|t|b]; cbn [wstep mark_done do_notify hst]; try exact A.
  rewrite install_hst. unfold update, is_active in *. destruct (current (hst s)) as [c|]; [|discriminate].
  destruct (pconstruct c d); reflexivity.
Qed.

(* the creation time never moves back, and moves to a later second whenever the version changes *)
Lemma created_step s o c : created s = Some c -> is_active (hst s) = true ->
  exists c', created (wstep s o) = Some c' /\ (secs c <= secs c')%Z /\ (changed_by s o = true -> (secs c < secs c')%Z).
Proof.
  intros C A. destruct o as [d t|t|b]; cbn [wstep changed_by].
  - rewrite A. cbn [andb]. unfold install. destruct (update (hst s) d) as [h' chg]. cbn [fst snd created].
    destruct chg.
    + rewrite C. destruct (adv_created (Some c) t) as [c'|] eqn:E.
      * exists c'. pose proof (secs_adv _ _ _ E) as Q. split; [reflexivity|]. split; [lia|]. intros _; exact Q.
      * unfold adv_created in E. destruct (secs t <=? secs c)%Z; discriminate.
    + exists c. rewrite C. split; [reflexivity|]. split; [lia|]. discriminate.
  - cbn [mark_done created]. rewrite C. destruct (adv_created (Some c) t) as [c'|] eqn:E.
    + exists c'. pose proof (secs_adv _ _ _ E) as Q. split; [reflexivity|]. split; [lia|]. discriminate.
    + unfold adv_created in E. destruct (secs t <=? secs c)%Z; discriminate.
  - cbn [do_notify created]. exists c. split; [exact C|]. split; [lia|]. discriminate.
Qed.

Lemma created_run s ops c : created s = Some c -> is_active (hst s) = true ->
  exists c', created (run_ops s ops) = Some c' /\ (secs c <= secs c')%Z /\ (0 < nchg s ops -> (secs c < secs c')%Z).
Proof.
  unfold run_ops. revert s c; induction ops as [|o ops IH]; intros s c C A; cbn [fold_left nchg].
  - exists c. repeat split; try lia; assumption.
  - destruct (created_step s o c C A) as (c1 & C1 & Le1 & Lt1).
    destruct (IH (wstep s o) c1 C1 (active_step s o A)) as (c2 & C2 & Le2 & Lt2).
    exists c2. split; [exact C2|]. split; [lia|]. intros P.
    destruct (changed_by s o) eqn:Ch; [specialize (Lt1 eq_refl); lia|].
    cbn in P. specialize (Lt2 P). lia.
Qed.

(* without a version change the served data set stays the same *)
Lemma current_step_unchanged s o : is_active (hst s) = true -> wop_ok o ->
  (forall c, current (hst s) = Some c -> snap_sorted c) ->
  changed_by s o = false -> current (hst (wstep s o)) = current (hst s) /\ serial (hst (wstep s o)) = serial (hst s).
Proof.
  intros A Ho Hc Ch. destruct o as [d t|t|b]; cbn [wstep mark_done do_notify hst]; try (split; reflexivity).
  cbn [changed_by] in Ch. rewrite A in Ch. cbn [andb] in Ch. rewrite install_chg in Ch. rewrite install_hst.
  unfold update in *. unfold is_active in A. destruct (current (hst s)) as [c|] eqn:C; [|discriminate].
  destruct (pconstruct c d) as [x|] eqn:P; [discriminate|]. cbn [fst current deltas serial].
  split; [|reflexivity]. f_equal. symmetry. apply (pconstruct_none_iff c d (Hc c eq_refl) Ho). exact P.
Qed.

Lemma serial_step_changed s o : changed_by s o = true -> serial (hst (wstep s o)) = sadd (serial (hst s)) 1.
Proof.
  destruct o as [d t|t|b]; cbn [changed_by]; try discriminate. intros Ch. apply andb_true_iff in Ch as [A Ch].
  cbn [wstep]. rewrite install_hst, update_serial. rewrite install_chg in Ch. rewrite A, Ch. reflexivity.
Qed.

Lemma SReach_run s w ops : SReach s w -> Forall wop_ok ops -> exists w', SReach (run_ops s ops) w'.
Proof.
  unfold run_ops. revert s w; induction ops as [|o ops IH]; intros s w R F; cbn [fold_left]; [exists w; exact R|].
  inversion F; subst. eapply IH; [apply sr_step; eassumption | assumption].
Qed.

Lemma SReach_cur_sorted s w : SReach s w -> forall c, current (hst s) = Some c -> snap_sorted c.
Proof.
  intros R c C. pose proof (Reach_Inv _ _ (SReach_Reach _ _ R)) as HI. pose proof (inv_cur _ _ HI) as IC.
  rewrite C in IC. destruct (wlast w) as [[n g]|] eqn:L; [|discriminate]. cbn in IC. inversion IC; subst.
  apply (wlast_sorted _ _ _ (inv_wf _ _ HI) L).
Qed.

Lemma SReach_serial_lt s w : SReach s w -> serial (hst s) < M32.
Proof.
  intros R. pose proof (Reach_Inv _ _ (SReach_Reach _ _ R)) as HI.
  destruct (wlast w) as [[n g]|] eqn:L.
  - rewrite (serial_wlast _ _ _ _ HI L). apply (wlast_sorted _ _ _ (inv_wf _ _ HI) L).
  - destruct w; [|discriminate]. pose proof (inv_deltas _ _ HI) as D. cbn in D.
    unfold serial. destruct (deltas (hst s)) as [|x l]; [reflexivity|]. cbn in D. destruct (rev l); discriminate.
Qed.

Lemma serial_run s w ops : SReach s w -> is_active (hst s) = true -> Forall wop_ok ops ->
  serial (hst (run_ops s ops)) = sadd (serial (hst s)) (nchg s ops) /\
  (nchg s ops = 0 -> current (hst (run_ops s ops)) = current (hst s)).
Proof.
  unfold run_ops. revert s w; induction ops as [|o ops IH]; intros s w R A F; cbn [fold_left nchg].
  - split; [|reflexivity]. symmetry. apply sadd_0. apply (SReach_serial_lt _ _ R).
  - inversion F as [|? ? Ho F']; subst.
    assert (SReach (wstep s o) (match o with OInstall d _ => upd_win (hst s) w d | _ => w end)) as R' by (apply sr_step; assumption).
    destruct (IH _ _ R' (active_step s o A) F') as [S1 S2].
    destruct (changed_by s o) eqn:Ch.
    + split; [|lia]. rewrite S1, (serial_step_changed s o Ch), sadd_sadd. reflexivity.
    + destruct (current_step_unchanged s o A Ho (SReach_cur_sorted _ _ R) Ch) as [E1 E2].
      rewrite N.add_0_l. split; [rewrite S1, E2; reflexivity|]. intros Z. rewrite (S2 Z). exact E1.
Qed.

(* C16 main theorem *)
Theorem not_modified_only_for_served_version s1 w1 ops e lm data inm ims src e2 :
  SReach s1 w1 -> Forall wop_ok ops -> nchg s1 ops < M32 ->
  respond s1 (PJson None None None) = AJson200 e lm data ->
  (inm = None \/ inm = Some e) -> (ims = None \/ ims = Some lm) ->
  respond (run_ops s1 ops) (PJson inm ims src) = AJson304 e2 ->
  nchg s1 ops = 0 /\ e2 = e /\ current (hst (run_ops s1 ops)) = current (hst s1).
Proof.
  intros R F Hn R1 Hinm Hims R2.
  unfold respond in R1. destruct (current (hst s1)) as [g1|] eqn:C1; [|discriminate].
  destruct (created s1) as [c1|] eqn:Cr1; [|discriminate]. cbn [orb] in R1. inversion R1; subst. clear R1.
  assert (is_active (hst s1) = true) as A by (unfold is_active; rewrite C1; reflexivity).
  destruct (serial_run s1 w1 ops R A F) as [S1 S2].
  destruct (created_run s1 ops c1 Cr1 A) as (c2 & Cr2 & Le & Lt).
  unfold respond in R2. set (s2 := run_ops s1 ops) in *.
  destruct (current (hst s2)) as [g2|] eqn:C2; [|discriminate]. rewrite Cr2 in R2.
  assert (nchg s1 ops = 0) as Z.
  { destruct (N.eq_dec (nchg s1 ops) 0) as [Z|NZ]; [exact Z|exfalso].
    assert (0 < nchg s1 ops) as P by lia. specialize (Lt P).
    (* neither validator can hit *)
    assert ((match inm with Some e0 => e0 =? serial (hst s2) | None => false end) = false) as E1.
    { destruct Hinm as [->| ->]; [reflexivity|]. apply N.eqb_neq. rewrite S1. intros E.
      rewrite <- (sadd_0 (serial (hst s1)) (SReach_serial_lt _ _ R)) in E at 1.
      apply sadd_inj in E; [lia|unfold M32; lia|exact Hn]. }
    assert ((match ims with Some d => (c2 <=? d * NS)%Z | None => false end) = false) as E2.
    { destruct Hims as [->| ->]; [reflexivity|]. apply Z.leb_gt. unfold secs, NS in *.
      pose proof (Z.mul_div_le c2 1000000000 ltac:(lia)).
      pose proof (Z.mod_pos_bound c2 1000000000 ltac:(lia)).
      pose proof (Z.div_mod c2 1000000000 ltac:(lia)). nia. }
    rewrite E1, E2 in R2. cbn [orb] in R2. discriminate. }
  split; [exact Z|]. rewrite Z in S1. rewrite sadd_0 in S1 by (apply (SReach_serial_lt _ _ R)).
  split; [|rewrite <- C1; apply S2; exact Z].
  destruct (_ || _); inversion R2; subst. exact S1.
Qed.

(* ---- C33 ---- *)
Record run_in := { r_data : snapshot; r_ok : bool; r_tupd : Z; r_tdone : Z }.

Definition run_cycles (s : srv) (rs : list run_in) : srv :=
  fold_left (fun s r => cycle s (r_data r) (r_ok r) (r_tupd r) (r_tdone r)) rs s.

Theorem failed_run_changes_nothing s d t1 t2 : cycle s d false t1 t2 = s.
Proof. reflexivity. Qed.

Theorem failures_erased s rs : run_cycles s rs = run_cycles s (filter r_ok rs).
Proof.
  unfold run_cycles. revert s; induction rs as [|r rs IH]; intros s; [reflexivity|].
  cbn [fold_left filter]. destruct (r_ok r) eqn:O; cbn [fold_left].
  - rewrite O. apply IH.
  - unfold cycle at 2. apply IH.
Qed.

(* ---- C15: shape of every reply in a reachable state ---- *)
Theorem replies_paired s w n g : SReach s w -> wlast w = Some (n, g) ->
  respond s PReady = AReady true /\
  respond s PNotify = ASerial n /\
  respond s PFull = AFull n (origins g) /\
  (forall inm ims src, exists lm,
      respond s (PJson inm ims src) = AJson304 n \/ respond s (PJson inm ims src) = AJson200 n lm (origins g)) /\
  (forall ver, respond s (PDelta ver) = ADeltaReset n (origins g) \/
      exists c d, ver = Some (true, c) /\ delta_since (hst s) c = Some d /\
        respond s (PDelta ver) = ADeltaDelta c n (keys_of false (wire_of (d_origins d))) (keys_of true (wire_of (d_origins d)))).
Proof.
  intros R L. destruct (pairing s w n g R L) as [Es Ec].
  assert (is_active (hst s) = true) as A by (unfold is_active; rewrite Ec; reflexivity).
  pose proof (SReach_created s w R A) as Cr. destruct (created s) as [c|] eqn:C; [|congruence].
  unfold respond. rewrite Ec, Es, A, C.
  split; [reflexivity|]. split; [reflexivity|]. split; [reflexivity|]. split.
  - intros inm ims src. exists (secs c). destruct (_ || _); [left|right]; reflexivity.
  - intros [[own c0]|]; [|left; reflexivity]. destruct own; [|left; reflexivity].
    destruct (delta_since (hst s) c0) as [d|] eqn:D; [|left; reflexivity].
    right. exists c0, d. split; [reflexivity|]. split; [exact D | reflexivity].
Qed.
