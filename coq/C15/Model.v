(* Server model shared by C15, C16, C33: the payload history (C13 model) plus the creation time of
   the served data set and the notification generation, the validation thread's atomic steps
   (src/operation.rs process_once; src/payload/history.rs update / mark_update_done as repaired by
   "fix: advance the creation time together with the data set") and every reader operation, each of
   which the code performs under ONE acquisition of the history lock:
     PayloadSource::{ready, notify, full, diff}           (src/payload/history.rs)
     GET /json & friends incl. conditional requests        (src/http/payload.rs, src/http/response.rs)
     GET /json-delta                                       (src/http/delta.rs)
   Times are nanoseconds since the epoch in Z. *)
From Coq Require Import List NArith ZArith Bool.
From RV Require Export Base.KMap Base.Serial32 C11.Model C11.Spec C13.Model.
Import ListNotations.
Local Open Scope N_scope.

Definition NS : Z := 1000000000%Z.
Definition secs (t : Z) : Z := (t / NS)%Z.

Record srv := { hst : hist; created : option Z; ngen : N }.

Definition srv_init (k : N) : srv := {| hst := init k; created := None; ngen := 0 |}.

(* PayloadHistory::advance_created *)
Definition adv_created (c : option Z) (now : Z) : option Z :=
  match c with
  | Some c0 => if (secs now <=? secs c0)%Z then Some (c0 + NS)%Z else Some now
  | None => Some now
  end.

(* SharedHistory::update under the write lock *)
Definition install (s : srv) (d : snapshot) (now : Z) : srv * bool :=
  let '(h', chg) := update (hst s) d in
  ({| hst := h'; created := if chg then adv_created (created s) now else created s; ngen := ngen s |}, chg).

(* SharedHistory::mark_update_done *)
Definition mark_done (s : srv) (now : Z) : srv :=
  {| hst := hst s; created := adv_created (created s) now; ngen := ngen s |}.

(* notify.notify() if must_notify *)
Definition do_notify (s : srv) (chg : bool) : srv :=
  {| hst := hst s; created := created s; ngen := if chg then ngen s + 1 else ngen s |}.

(* one whole validation cycle; a failed run stops before anything is installed *)
Definition cycle (s : srv) (d : snapshot) (ok : bool) (t_upd t_done : Z) : srv :=
  if ok then let '(s1, chg) := install s d t_upd in do_notify (mark_done s1 t_done) chg else s.

(* ---- reader operations ---- *)
Inductive probe :=
| PReady | PNotify | PFull
| PDiff (own : bool) (c : N)
| PJson (inm : option N) (ims : option Z) (src : option N)
   (* If-None-Match with the ETag of the own session and that serial; If-Modified-Since (seconds);
      src = serial of the earlier response both validators were copied from (used by the oracle only) *)
| PDelta (ver : option (bool * N)).

Inductive reply :=
| AReady (b : bool)
| ASerial (s : N)
| AFull (s : N) (data : list (N * unit))
| ADiff (r : option (N * list (N * unit * bool)))
| AJson503
| AJson304 (etag : N)
| AJson200 (etag : N) (lm : Z) (data : list (N * unit))
| ADelta503
| ADeltaReset (s : N) (data : list (N * unit))
| ADeltaDelta (from to : N) (announced withdrawn : list N).

Definition keys_of (wd : bool) (l : list (N * unit * bool)) : list N :=
  map (fun a => fst (fst a)) (filter (fun a => Bool.eqb (snd a) wd) l).

Definition respond (s : srv) (p : probe) : reply :=
  let h := hst s in
  match p with
  | PReady => AReady (is_active h)
  | PNotify => ASerial (serial h)
  | PFull => AFull (serial h) (match current h with Some g => origins g | None => [] end)
  | PDiff own c =>
      ADiff (match diff h own c with Some (tag, d) => Some (tag, wire_of (d_origins d)) | None => None end)
  | PJson inm ims _ =>
      match current h, created s with
      | Some g, Some c =>
          let etag_hit := match inm with Some e => e =? serial h | None => false end in
          let date_hit := match ims with Some d => (c <=? d * NS)%Z | None => false end in
          if etag_hit || date_hit then AJson304 (serial h)
          else AJson200 (serial h) (secs c) (origins g)
      | _, _ => AJson503
      end
  | PDelta ver =>
      match current h with
      | None => ADelta503
      | Some g =>
          let reset := ADeltaReset (serial h) (origins g) in
          match ver with
          | Some (true, c) =>
              match delta_since h c with
              | Some d => ADeltaDelta c (serial h) (keys_of false (wire_of (d_origins d))) (keys_of true (wire_of (d_origins d)))
              | None => reset
              end
          | _ => reset
          end
      end
  end.
